#!/usr/bin/env python3
"""tools/mkwitness.py <prop> [seed] [tier]: run the harness once and write findings/<id>.json for the first failing case of each finding id that has no witness yet."""
import json, os, sys, tempfile
sys.path.insert(0, os.path.dirname(os.path.dirname(os.path.abspath(__file__))))
from vlib import common as C
from vlib.props import PROPS
prop = sys.argv[1]; seed = sys.argv[2] if len(sys.argv) > 2 else "1"; tier = sys.argv[3] if len(sys.argv) > 3 else "quick"
snap = C.Snapshot().ensure()
work = tempfile.mkdtemp(prefix="wit-")
exe = snap.build("verifh")
args = [exe, "-seed", seed, "-tier", tier, "-work", work, "-src", snap.src, "-verif", C.VERIF, "-out", work + "/c.jsonl"]
for need in PROPS[prop].get("needs", []):
    args += ["-" + need, snap.build(need)]
env = C.goenv(); env["TMPDIR"] = work
p = C.sh(args + [prop], cwd=work, env=env)
seen = {}
for l in open(work + "/c.jsonl"):
    c = json.loads(l)
    f = c.get("finding")
    if f and not c["oracle"]["ok"] and f not in seen:
        seen[f] = c
        path = os.path.join(C.VERIF, "findings", f + ".json")
        if not os.path.exists(path) or "--force" in sys.argv:
            json.dump({"finding": f, "input": c["input"]}, open(path, "w"), indent=1)
            print("wrote", path, c["oracle"]["class"], c["oracle"]["msg"][:200])
print("findings seen:", sorted(seen))
