#!/bin/sh
# regenerate lean/MockeryModel/Generated from the current /repo working tree (development aid)
cd /verif && python3 - <<'P'
import sys,subprocess
sys.path.insert(0,'/verif')
from vlib import common as C
snap=C.Snapshot().ensure()
exe=snap.build("verifx")
if not exe: print(snap.build_errors); sys.exit(1)
r=subprocess.run([exe,"-src",snap.src,"-out","/verif/lean/MockeryModel/Generated"],capture_output=True,text=True)
print(r.stdout, r.stderr)
P
