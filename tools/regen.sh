#!/bin/sh
# regenerate lean/MockeryModel/Generated from the current working tree of $VERIF_REPO (default /repo) (development aid)
V=$(cd "$(dirname "$0")/.." && pwd)
cd "$V" && python3 - "$V" <<'P'
import sys,subprocess
V=sys.argv[1]
sys.path.insert(0,V)
from vlib import common as C
snap=C.Snapshot().ensure()
exe=snap.build("verifx")
if not exe: print(snap.build_errors); sys.exit(1)
r=subprocess.run([exe,"-src",snap.src,"-out",V+"/lean/MockeryModel/Generated"],capture_output=True,text=True)
print(r.stdout, r.stderr)
P
