#!/usr/bin/env python3
"""tools/dbg.py <prop> [seed] [tier] [n]: run harness + driver once, print the first disagreements / oracle failures (development aid)."""
import json, os, sys, tempfile, shutil
sys.path.insert(0, os.path.dirname(os.path.dirname(os.path.abspath(__file__))))
from vlib import common as C
from vlib.props import PROPS
prop = sys.argv[1]; seed = sys.argv[2] if len(sys.argv) > 2 else "1"; tier = sys.argv[3] if len(sys.argv) > 3 else "quick"
N = int(sys.argv[4]) if len(sys.argv) > 4 else 3
snap = C.Snapshot().ensure()
work = tempfile.mkdtemp(prefix="dbg-")
exe = snap.build("verifh")
if not exe: print(snap.build_errors); sys.exit(1)
args = [exe, "-seed", seed, "-tier", tier, "-work", work, "-src", snap.src, "-verif", C.VERIF, "-out", work + "/c.jsonl"]
for need in PROPS[prop].get("needs", []):
    args += ["-" + need, snap.build(need)]
if os.environ.get("N"): args += ["-n", os.environ["N"]]
env = C.goenv(); env["TMPDIR"] = work
p = C.sh(args + [prop], cwd=work, env=env)
print(p.stderr[-2000:])
C.sh(["lake", "build", "vdriver"], cwd=C.LEAN)
C.run_driver(work + "/c.jsonl", work + "/m.jsonl")
cases = [json.loads(l) for l in open(work + "/c.jsonl")]
models = {}
for l in open(work + "/m.jsonl"):
    j = json.loads(l); models[j["id"]] = j
def diff(a, b, path=''):
    if type(a) != type(b): print('  ', path, 'IMPL', json.dumps(a)[:300], 'MODEL', json.dumps(b)[:300]); return
    if isinstance(a, dict):
        for k in sorted(set(a) | set(b)):
            if k not in a: print('  ', path + '/' + k, 'missing in impl; model', json.dumps(b[k])[:200])
            elif k not in b: print('  ', path + '/' + k, 'missing in model; impl', json.dumps(a[k])[:200])
            else: diff(a[k], b[k], path + '/' + k)
    elif isinstance(a, list):
        if len(a) != len(b): print('  ', path, 'len', len(a), len(b), json.dumps(a)[:300], json.dumps(b)[:300]); return
        for i, (x, y) in enumerate(zip(a, b)): diff(x, y, path + f'[{i}]')
    elif a != b: print('  ', path, 'IMPL', json.dumps(a)[:300], 'MODEL', json.dumps(b)[:300])
nd = nf = 0
for c in cases:
    m = models.get(c["id"])
    if not c["oracle"]["ok"]:
        nf += 1
        if nf <= N: print("ORACLE FAIL", c["id"], c["oracle"], "\n  input:", json.dumps(c["input"])[:1500])
    if c.get("nomodel"): continue
    if m is None or "error" in m:
        nd += 1
        if nd <= N: print("MODEL ERROR", c["id"], m, json.dumps(c["input"])[:800])
    elif isinstance(m["model"], dict) and m["model"].get("unmodelled"): continue
    elif C.canon(m["model"]) != C.canon(c["impl"]):
        nd += 1
        if nd <= N:
            print("DISAGREE", c["id"]); diff(c["impl"], m["model"]); print("  input:", json.dumps(c["input"])[:1500])
print(f"cases {len(cases)} disagreements {nd} oracle failures {nf}")
shutil.rmtree(work, ignore_errors=True)
