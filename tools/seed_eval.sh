#!/bin/bash
# usage: tools/seed_eval.sh <seed dir, e.g. /tmp/seed-C15/A> <name under $V/seeded> <check id> [tier]
# Confirms a seeded change (applies cleanly, builds, passes the pinned suite, its demo fails with / passes
# without the change), stores it under $V/seeded/<name>, and runs the given check against it.
set -u
V=$(cd "$(dirname "$0")/.." && pwd)
R="${VERIF_REPO:-/repo}"
src="$1"; name="$2"; chk="$3"; tier="${4:-quick}"
wt=/tmp/wt-eval-$$
export GOPROXY=off
git -C "$R" worktree add --detach "$wt" HEAD >/dev/null 2>&1 || exit 2
cleanup() { git -C "$R" worktree remove --force "$wt" >/dev/null 2>&1; }
trap cleanup EXIT
echo "== demo on the unchanged tree"; (cd "$src/demo" && bash ./run.sh "$wt" >/tmp/seed-eval-clean-$$.log 2>&1); clean=$?; echo "exit $clean"
if ! git -C "$wt" apply "$src/patch.diff"; then echo "PATCH DOES NOT APPLY"; exit 2; fi
echo "== build + pinned suite with the change"
(cd "$wt" && go build ./... && go test -vet=off -count=1 ./... 2>&1 | grep -v "no test files" | grep -v "^ok" | head -20); suite=${PIPESTATUS[0]}
echo "== demo with the change"; (cd "$src/demo" && bash ./run.sh "$wt" >/tmp/seed-eval-mut-$$.log 2>&1); mut=$?; echo "exit $mut"
cleanup; trap - EXIT
mkdir -p $V/seeded/$name && cp "$src/patch.diff" $V/seeded/$name/ && rm -rf $V/seeded/$name/demo && cp -r "$src/demo" $V/seeded/$name/demo && cp "$src/meta.json" $V/seeded/$name/meta.agent.json
echo "== check $chk $tier with the change applied to /repo"
out=$(cd $V && tools/try_patch.sh "$src/patch.diff" "$chk" "$tier" 2>&1 | tail -4)
echo "$out"
python3 - "$name" "$chk" "$tier" "$clean" "$mut" "$V" <<PY
import json,sys
name,chk,tier,clean,mut,V=sys.argv[1:7]
out='''$out'''
agent=json.load(open(f'$V/seeded/{name}/meta.agent.json'))
meta={"property": agent.get("property"), "summary": agent.get("summary"), "needs_to_manifest": agent.get("needs_to_manifest"),
 "confirmed": {"demo_exit_unchanged_tree": int(clean), "demo_exit_with_change": int(mut), "suite_with_change": "go build ./... && go test -vet=off -count=1 ./... : no failing package"},
 "ran": [f"tools/seed_eval.sh (scratch worktree of /repo HEAD, removed afterwards)", f"tools/try_patch.sh patch.diff {chk} {tier}"],
 "check_result": {"check": f"{chk} {tier}", "caught": "VIOLATION" in out, "output_tail": out.strip().split("\\n")[-3:]}}
json.dump(meta, open(f'$V/seeded/{name}/meta.json','w'), indent=1)
print("caught:", meta["check_result"]["caught"])
PY
