#!/bin/sh
# usage: tools/try_patch.sh <patch.diff> <check args...>   e.g.  tools/try_patch.sh seeded/x/patch.diff C16 quick
# Applies a seeded change to /repo, runs one check, and always undoes the change. The evidence file of
# the check (which describes runs on /repo itself, unchanged) is put back afterwards.
p="$1"; shift
id="$1"
bak=$(mktemp)
[ -f /verif/evidence/$id.json ] && cp /verif/evidence/$id.json "$bak"
git -C /repo apply "$p" || exit 2
trap 'git -C /repo checkout -- . ; git -C /repo clean -fdq; [ -s "$bak" ] && cp "$bak" /verif/evidence/$id.json; rm -f "$bak"; /verif/tools/regen.sh >/dev/null 2>&1' EXIT
cd /verif && ./check "$@"
echo "exit=$?"
