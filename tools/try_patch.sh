#!/bin/sh
# usage: tools/try_patch.sh <patch.diff> <check args...>   e.g.  tools/try_patch.sh seeded/x/patch.diff C16 quick
# Applies a seeded change to the repository ($VERIF_REPO, default /repo), runs one check, and always undoes the
# change. The evidence file of the check (which describes runs on the unchanged tree) is put back afterwards.
V=$(cd "$(dirname "$0")/.." && pwd)
R="${VERIF_REPO:-/repo}"
p="$1"; shift
id="$1"
bak=$(mktemp)
[ -f $V/evidence/$id.json ] && cp $V/evidence/$id.json "$bak"
git -C "$R" apply "$p" || exit 2
trap 'git -C "$R" checkout -- . ; git -C "$R" clean -fdq; [ -s "$bak" ] && cp "$bak" $V/evidence/$id.json; rm -f "$bak"; $V/tools/regen.sh >/dev/null 2>&1' EXIT
cd $V && ./check "$@"
echo "exit=$?"
