#!/bin/sh
# usage: tools/try_patch.sh <patch.diff> <check args...>   e.g.  tools/try_patch.sh seeded/x/patch.diff C16 quick
# Applies a seeded change to /repo, runs one check, and always undoes the change.
p="$1"; shift
git -C /repo apply "$p" || exit 2
trap 'git -C /repo checkout -- . ; git -C /repo clean -fdq' EXIT
cd /verif && ./check "$@"
echo "exit=$?"
