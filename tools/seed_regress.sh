#!/bin/sh
# usage: tools/seed_regress.sh [tier]   applies every confirmed seeded change in turn and runs its property's check
V=$(cd "$(dirname "$0")/.." && pwd)
R="${VERIF_REPO:-/repo}"
cd $V
tier="${1:-quick}"
for d in seeded/*/; do
  n=$(basename $d)
  id=$(echo $n | cut -d- -f1)
  if ! git -C "$R" apply --check $V/$d/patch.diff 2>/dev/null; then echo "$n does-not-apply"; continue; fi
  out=$(tools/try_patch.sh $V/$d/patch.diff $id $tier 2>&1 | grep -v "^KNOWN-FINDING\|WARNING conda" | tail -3)
  if echo "$out" | grep -q "^VIOLATION"; then
    if echo "$out" | grep -q "no-failing-input-found"; then echo "$n caught-without-input"; else echo "$n caught"; fi
  else echo "$n MISSED"; fi
done
