#!/bin/sh
# usage: tools/seed_regress.sh [tier] [name...]   applies every confirmed seeded change in turn (or the named ones),
# runs its property's check and records the outcome in seeded/<name>/meta.json ("regress")
V=$(cd "$(dirname "$0")/.." && pwd)
R="${VERIF_REPO:-/repo}"
cd $V
tier="${1:-quick}"; [ $# -gt 0 ] && shift
names="$*"; [ -z "$names" ] && names=$(ls seeded)
for n in $names; do
  d=seeded/$n
  id=$(echo $n | cut -d- -f1)
  if ! git -C "$R" apply --check $V/$d/patch.diff 2>/dev/null; then echo "$n does-not-apply"; continue; fi
  out=$(tools/try_patch.sh $V/$d/patch.diff $id $tier 2>&1 | grep "^VIOLATION\|^C[0-9][0-9] [a-z]* seed=\|^exit=" | tail -3)
  if echo "$out" | grep -q "^VIOLATION"; then
    if echo "$out" | grep -q "no-failing-input-found"; then res="caught-without-input"; else res="caught"; fi
  else res="MISSED"; fi
  echo "$n $res"
  python3 - "$d/meta.json" "$id $tier seed=${VERIF_SEED:-1}" "$res" <<'PY'
import json,sys
p,chk,res=sys.argv[1:4]
try: m=json.load(open(p))
except Exception: sys.exit(0)
m["regress"]={"check":chk,"result":res}
json.dump(m,open(p,"w"),indent=1)
PY
done
