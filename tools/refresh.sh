#!/bin/sh
# re-runs every claimed quick check on the unchanged tree (refreshes evidence/), 4 at a time
cd "$(dirname "$0")/.."
ids=$(python3 -c "import json;print(' '.join(c['property_id'] for c in json.load(open('MANIFEST.json'))['checks']))")
echo $ids | tr ' ' '\n' | xargs -P 4 -I{} sh -c './check {} quick 2>&1 | tail -1'
