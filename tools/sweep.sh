#!/bin/sh
# usage: tools/sweep.sh <tier> <seed...>   runs every claimed check with each seed, 3 at a time; prints one line per run
cd "$(dirname "$0")/.."
tier="$1"; shift
ids=$(python3 -c "import json;print(' '.join(c['property_id'] for c in json.load(open('MANIFEST.json'))['checks']))")
for seed in "$@"; do
  for id in $ids; do echo "$seed $id"; done
done | xargs -P 3 -L 1 sh -c 'out=$(VERIF_SEED=$0 ./check $1 '"$tier"' 2>&1 | grep -v "^KNOWN-FINDING\|WARNING conda" | tail -2 | tr "\n" " "); echo "seed=$0 $out"'
