/-
Models of the few standard-library operations the translated string accessors use
(`Generated/Accessors.lean`, written by harness/verifx/gostrings.go). They are the trusted part of that
translation: hand-written, small, and exercised against the real functions by the C14 / C16 correspondence runs.

* `goJoin` – `strings.Join`
* `goReplaceFirst` – `strings.Replace(s, old, new, 1)` for a non-empty `old`
* `goStrFrom` – `s[n:]` (byte offsets; the accessors only cut the ASCII prefix `[]`)
* `goIndex`, `goSlice` – `l[i]`, `l[lo:hi]` on slices; out-of-range indices, which panic in Go, give the default /
  the clipped slice here – the accessors guard them (`len(l) > 0 && l[0]…`) or are called with bounds in range
-/
namespace Mockery.Go.StrPrelude

def goJoin (l : List String) (sep : String) : String := sep.intercalate l

def goReplaceFirst (s pat rep : String) : String :=
  match s.splitOn pat with
  | [] => s
  | [x] => x
  | x :: rest => x ++ rep ++ pat.intercalate rest

def goStrFrom (s : String) (n : Int) : String := (s.drop n.toNat).toString

def goLenStr (s : String) : Int := s.utf8ByteSize

def goIndex {α : Type} [Inhabited α] (l : List α) (i : Int) : α := l.getD i.toNat default

def goSlice {α : Type} (l : List α) (lo hi : Int) : List α := (l.drop lo.toNat).take (hi - lo).toNat

end Mockery.Go.StrPrelude
