/-
Go types as mockery sees them (go/types objects) and the functions of
`/repo/template/var.go` and `/repo/template/method_scope.go` that walk them:

* `typeString`     – `types.TypeString(t, qualifier)` as used by `Var.TypeString`
* `pkgsOf`         – the packages `populateImportsHelper` registers, in its order
* `qualifyT` / resolution – replacing import paths by qualifiers and back
* `nillable`, `isSlice`, `varNameForType`
-/
namespace Mockery.Go

/-- `kind` of a named type: a defined type (`*types.Named`) or an alias (`*types.Alias`) -/
inductive NamedKind where
  | defined | alias
  deriving DecidableEq, Repr, Inhabited

inductive GoType where
  /-- predeclared types without a package: `int`, `string`, …; `error`, `comparable` (defined types of
  the universe) and `any` (alias of the universe) are flagged by `kind` -/
  | basic (name : String)
  | universe (name : String) (kind : NamedKind)
  | unsafePtr
  /-- `pkg` is the import path of the declaring package, `pkgName` its name; `under*` describe the
  underlying type (what `nillable` / `IsSlice` look at) -/
  | named (pkg pkgName name : String) (kind : NamedKind) (targs : List GoType) (underNillable underSlice : Bool)
  | typeParam (name : String) (underNillable : Bool)
  | pointer (elem : GoType)
  | slice (elem : GoType)
  | array (len : Nat) (elem : GoType)
  | map (key elem : GoType)
  /-- dir: 0 `chan`, 1 `chan<-`, 2 `<-chan` -/
  | chan (dir : Nat) (elem : GoType)
  | func (params results : List (String × GoType)) (variadic : Bool)
  /-- fields (name, type) with, in parallel, (embedded?, tag) -/
  | struct (fields : List (String × GoType)) (fmeta : List (Bool × String))
  /-- explicit methods (name, signature – a `func` type) sorted by name, then embedded types -/
  | iface (methods : List (String × GoType)) (embeds : List GoType)
  /-- terms (tilde?, type) -/
  | union (terms : List (Bool × GoType))
  deriving Repr, Inhabited

open GoType

/-! ### packages mentioned, in the order `populateImportsHelper` visits them -/

mutual
def pkgsOf : GoType → List (String × String)
  | .basic _ => []
  | .universe _ _ => []
  | .unsafePtr => [("unsafe", "unsafe")]
  | .named p pn _ _ ts _ _ => (p, pn) :: pkgsL ts
  | .typeParam _ _ => []
  | .pointer e => pkgsOf e
  | .slice e => pkgsOf e
  | .array _ e => pkgsOf e
  | .map k e => pkgsOf k ++ pkgsOf e
  | .chan _ e => pkgsOf e
  | .func ps rs _ => pkgsF ps ++ pkgsF rs
  | .struct fs _ => pkgsF fs
  | .iface ms es => pkgsF ms ++ pkgsL es
  | .union ts => pkgsU ts
def pkgsL : List GoType → List (String × String)
  | [] => []
  | t :: ts => pkgsOf t ++ pkgsL ts
def pkgsF : List (String × GoType) → List (String × String)
  | [] => []
  | (_, t) :: ts => pkgsOf t ++ pkgsF ts
def pkgsU : List (Bool × GoType) → List (String × String)
  | [] => []
  | (_, t) :: ts => pkgsOf t ++ pkgsU ts
end

/-! ### replacing the package field (import path ↔ qualifier) -/

mutual
def qualifyT (q : String → String) : GoType → GoType
  | .basic n => .basic n
  | .universe n k => .universe n k
  | .unsafePtr => .unsafePtr
  | .named p pn n k ts un us => .named (q p) pn n k (qualifyL q ts) un us
  | .typeParam n u => .typeParam n u
  | .pointer e => .pointer (qualifyT q e)
  | .slice e => .slice (qualifyT q e)
  | .array l e => .array l (qualifyT q e)
  | .map k e => .map (qualifyT q k) (qualifyT q e)
  | .chan d e => .chan d (qualifyT q e)
  | .func ps rs v => .func (qualifyF q ps) (qualifyF q rs) v
  | .struct fs m => .struct (qualifyF q fs) m
  | .iface ms es => .iface (qualifyF q ms) (qualifyL q es)
  | .union ts => .union (qualifyU q ts)
def qualifyL (q : String → String) : List GoType → List GoType
  | [] => []
  | t :: ts => qualifyT q t :: qualifyL q ts
def qualifyF (q : String → String) : List (String × GoType) → List (String × GoType)
  | [] => []
  | (n, t) :: ts => (n, qualifyT q t) :: qualifyF q ts
def qualifyU (q : String → String) : List (Bool × GoType) → List (Bool × GoType)
  | [] => []
  | (b, t) :: ts => (b, qualifyT q t) :: qualifyU q ts
end

/-! ### identifiers a (qualified) type refers to in the enclosing scopes

For a type whose package fields hold qualifiers: predeclared names, the qualifier of a foreign named
type or the bare name of a local one, type-parameter names.  Names *declared* inside the type (parameter
names of func types, field and method names) are not references. -/

mutual
def usedNames (unsafeQual : String) : GoType → List String
  | .basic n => [n]
  | .universe n _ => [n]
  | .unsafePtr => [if unsafeQual == "" then "Pointer" else unsafeQual]
  | .named q _ n _ ts _ _ => (if q == "" then n else q) :: usedL unsafeQual ts
  | .typeParam n _ => [n]
  | .pointer e => usedNames unsafeQual e
  | .slice e => usedNames unsafeQual e
  | .array _ e => usedNames unsafeQual e
  | .map k e => usedNames unsafeQual k ++ usedNames unsafeQual e
  | .chan _ e => usedNames unsafeQual e
  | .func ps rs _ => usedF unsafeQual ps ++ usedF unsafeQual rs
  | .struct fs _ => usedF unsafeQual fs
  | .iface ms es => usedF unsafeQual ms ++ usedL unsafeQual es
  | .union ts => usedU unsafeQual ts
def usedL (unsafeQual : String) : List GoType → List String
  | [] => []
  | t :: ts => usedNames unsafeQual t ++ usedL unsafeQual ts
def usedF (unsafeQual : String) : List (String × GoType) → List String
  | [] => []
  | (_, t) :: ts => usedNames unsafeQual t ++ usedF unsafeQual ts
def usedU (unsafeQual : String) : List (Bool × GoType) → List String
  | [] => []
  | (_, t) :: ts => usedNames unsafeQual t ++ usedU unsafeQual ts
end

/-- the identifiers `typeString q t` refers to -/
def typeRefs (q : String → String) (t : GoType) : List String := usedNames (q "unsafe") (qualifyT q t)

/-! ### printing (`types.TypeString`), the package field read as the qualifier -/

def quoteTag (s : String) : String :=
  -- strconv.Quote for the tags the generators use (printable ASCII, `"` and `\` escaped)
  "\"" ++ (s.toList.foldl (fun acc c => acc ++ (if c == '"' then "\\\"" else if c == '\\' then "\\\\" else String.singleton c)) "") ++ "\""

def qualName (qual name : String) : String := if qual == "" then name else qual ++ "." ++ name

def isRecvChan : GoType → Bool
  | .chan 2 _ => true
  | _ => false

mutual
def printT (unsafeQual : String) : GoType → String
  | .basic n => n
  | .universe n _ => n
  | .unsafePtr => qualName unsafeQual "Pointer"
  | .named q _ n _ ts _ _ => qualName q n ++ (if ts.isEmpty then "" else "[" ++ printL unsafeQual ts ++ "]")
  | .typeParam n _ => n
  | .pointer e => "*" ++ printT unsafeQual e
  | .slice e => "[]" ++ printT unsafeQual e
  | .array l e => "[" ++ toString l ++ "]" ++ printT unsafeQual e
  | .map k e => "map[" ++ printT unsafeQual k ++ "]" ++ printT unsafeQual e
  | .chan d e =>
    (if d == 0 then "chan " else if d == 1 then "chan<- " else "<-chan ") ++
    -- `chan (<-chan T)` needs parentheses
    (if d == 0 && isRecvChan e then "(" ++ printT unsafeQual e ++ ")" else printT unsafeQual e)
  | .func ps rs v => "func(" ++ printTuple unsafeQual ps v ++ ")" ++ printResults unsafeQual rs
  | .struct fs m => "struct{" ++ printFields unsafeQual fs m ++ "}"
  | .iface ms es =>
    "interface{" ++ printMethods unsafeQual ms ++
      (if ms.isEmpty || es.isEmpty then "" else "; ") ++ printEmbeds unsafeQual es ++ "}"
  | .union ts => printUnion unsafeQual ts
def printL (unsafeQual : String) : List GoType → String
  | [] => ""
  | t :: ts => printT unsafeQual t ++ (if ts.isEmpty then "" else ", " ++ printL unsafeQual ts)
/-- `a T, b ...U` – the last parameter of a variadic signature prints as `...elem` -/
def printTuple (unsafeQual : String) : List (String × GoType) → Bool → String
  | [], _ => ""
  | (n, t) :: rest, variadic =>
    (if n == "" then "" else n ++ " ") ++
    -- the variadic parameter is a slice: `[]T` prints as `...T`
    (if rest.isEmpty && variadic then "..." ++ ((printT unsafeQual t).drop 2).toString
     else printT unsafeQual t) ++
    (if rest.isEmpty then "" else ", " ++ printTuple unsafeQual rest variadic)
/-- results: nothing, a single unnamed type, or a parenthesised tuple -/
def printResults (unsafeQual : String) : List (String × GoType) → String
  | [] => ""
  | (n, t) :: rest =>
    if rest.isEmpty && n == "" then " " ++ printT unsafeQual t
    else " (" ++ (if n == "" then "" else n ++ " ") ++ printT unsafeQual t ++
      (if rest.isEmpty then "" else ", " ++ printTuple unsafeQual rest false) ++ ")"
def printFields (unsafeQual : String) : List (String × GoType) → List (Bool × String) → String
  | [], _ => ""
  | (n, t) :: rest, m =>
    (if (m.headD (false, "")).1 then "" else n ++ " ") ++ printT unsafeQual t ++
    (if (m.headD (false, "")).2 == "" then "" else " " ++ quoteTag (m.headD (false, "")).2) ++
    (if rest.isEmpty then "" else "; ") ++ printFields unsafeQual rest m.tail
def printMethods (unsafeQual : String) : List (String × GoType) → String
  | [] => ""
  | (n, t) :: rest =>
    -- a method's type is a `func` type: its signature is the type string without the keyword
    n ++ ((printT unsafeQual t).drop 4).toString ++
    (if rest.isEmpty then "" else "; ") ++ printMethods unsafeQual rest
def printEmbeds (unsafeQual : String) : List GoType → String
  | [] => ""
  | t :: ts => printT unsafeQual t ++ (if ts.isEmpty then "" else "; " ++ printEmbeds unsafeQual ts)
def printUnion (unsafeQual : String) : List (Bool × GoType) → String
  | [] => ""
  | (tl, t) :: ts => (if tl then "~" else "") ++ printT unsafeQual t ++ (if ts.isEmpty then "" else " | " ++ printUnion unsafeQual ts)
end

/-- `Var.TypeString`: qualifiers looked up per package path -/
def typeString (q : String → String) (t : GoType) : String := printT (q "unsafe") (qualifyT q t)

/-! ### `nillable`, `IsSlice` -/

def nillable : GoType → Bool
  | .pointer _ | .array _ _ | .map _ _ | .iface _ _ | .func _ _ _ | .chan _ _ | .slice _ => true
  | .named _ _ _ _ _ un _ => un
  | .typeParam _ _ => true     -- the underlying type of a type parameter is its constraint interface
  | .universe n _ => n == "error" || n == "any"     -- underlying interfaces; `comparable` is an interface too
      || n == "comparable"
  | _ => false

def isSlice : GoType → Bool
  | .slice _ => true
  | .named _ _ _ _ _ _ us => us
  | _ => false

/-! ### `varNameForType` -/

/-- `unicode.ToLower` / `unicode.ToUpper` on the letters the model knows: ASCII and the few non-ASCII
capitals of the harness catalogue (other first letters are outside the model: the driver answers
`unmodelled`) -/
def lowerChar (c : Char) : Char :=
  if 'A' ≤ c && c ≤ 'Z' then Char.ofNat (c.toNat + 32)
  else if c == 'Ü' then 'ü' else if c == 'É' then 'é' else if c == 'Ж' then 'ж' else c
def upperChar (c : Char) : Char :=
  if 'a' ≤ c && c ≤ 'z' then Char.ofNat (c.toNat - 32)
  else if c == 'ü' then 'Ü' else if c == 'é' then 'É' else if c == 'ж' then 'Ж' else c

/-- `deCapitalise` / `capitalise` (`template/var.go`): the case of the first character -/
def lowerFirstByte (s : String) : String :=
  match s.toList with
  | [] => s
  | c :: r => String.ofList (lowerChar c :: r)
def upperFirstByte (s : String) : String :=
  match s.toList with
  | [] => s
  | c :: r => String.ofList (upperChar c :: r)

/-- `basicTypeVarName`: compares `Info()` with single flags, so only booleans, *signed* integers
(incl. `rune`), floats and strings get a letter -/
def basicVarName (n : String) : String :=
  if n == "bool" then "b"
  else if ["int", "int8", "int16", "int32", "int64", "rune"].contains n then "n"
  else if n == "float32" || n == "float64" then "f"
  else if n == "string" then "s"
  else "v"

mutual
def varNameForType : GoType → String
  | .universe n .defined => if n == "error" then "err" else
      let d := lowerFirstByte n; if d == n then d ++ "MoqParam" else d
  | .universe _ .alias => "v"
  | .named _ _ n .defined _ _ _ =>
      let d := lowerFirstByte n; if d == n then d ++ "MoqParam" else d
  | .named _ _ _ .alias _ _ _ => "v"
  | .basic n => basicVarName n
  | .unsafePtr => "v"          -- Basic of kind UnsafePointer: no Info flag matches
  | .array _ e => nestedName e ++ "s"
  | .slice e => nestedName e ++ "s"
  | .struct _ _ => "val"
  | .pointer e => varNameForType e
  | .func _ _ _ => "fn"
  | .iface _ _ => "ifaceVal"
  | .map k e => nestedName k ++ "To" ++ upperFirstByte (nestedName e)
  | .chan _ e => nestedName e ++ "Ch"
  | .typeParam _ _ => "v"
  | .union _ => "v"
/-- `nestedType`: a basic type contributes its (de-capitalised) name -/
def nestedName : GoType → String
  | .basic n => lowerFirstByte n
  | .unsafePtr => "pointer"            -- `t.Name()` of the basic type `Pointer`, de-capitalised
  | t => varNameForType t
end

end Mockery.Go
