/-
The type switches of the data model as the Lean definitions over the type AST were written against them
(`Go/Types.lean`: `pkgsOf` – which children of a type are walked for imports –, `nillable`; `Gen/Data.lean`:
`varName`): per case the Go type names and the statements of the body. `Generated/TypeSwitchFacts.lean` holds the
same tables as read from the current source; `MockeryProps/C14.type_switches_transcribed` compares the two.
-/
namespace Mockery.Go.SwitchText


/-- `populateImportsHelper` (template/method_scope.go): cases in source order -/
def expectedPopulateImportsCases : List (List String × List String) := [
  (["Named"], ["m.populateImportNamedType(ctx, t, imports)"]),
  (["Alias"], ["m.populateImportNamedType(ctx, t, imports)"]),
  (["Array"], ["m.populateImportsHelper(ctx, t.Elem(), imports)"]),
  (["Slice"], ["m.populateImportsHelper(ctx, t.Elem(), imports)"]),
  (["Signature"], ["for i := 0; i < t.Params().Len(); i++ { m.populateImportsHelper(ctx, t.Params().At(i).Type(), imports) }", "for i := 0; i < t.Results().Len(); i++ { m.populateImportsHelper(ctx, t.Results().At(i).Type(), imports) }"]),
  (["Map"], ["m.populateImportsHelper(ctx, t.Key(), imports)", "m.populateImportsHelper(ctx, t.Elem(), imports)"]),
  (["Chan"], ["m.populateImportsHelper(ctx, t.Elem(), imports)"]),
  (["Pointer"], ["m.populateImportsHelper(ctx, t.Elem(), imports)"]),
  (["Struct"], ["for i := 0; i < t.NumFields(); i++ { m.populateImportsHelper(ctx, t.Field(i).Type(), imports) }"]),
  (["Union"], ["for i := 0; i < t.Len(); i++ { term := t.Term(i) m.populateImportsHelper(ctx, term.Type(), imports) }"]),
  (["Interface"], ["for i := 0; i < t.NumExplicitMethods(); i++ { log.Debug().Msg(\"populating import from explicit method\") m.populateImportsHelper(ctx, t.ExplicitMethod(i).Type(), imports) }", "for i := 0; i < t.NumEmbeddeds(); i++ { log.Debug().Msg(\"populating import form embedded type\") m.populateImportsHelper(ctx, t.EmbeddedType(i), imports) }"]),
  (["Basic"], ["if t.Kind() == types.UnsafePointer { m.addImport(ctx, types.Unsafe, imports) }"]),
  (["default"], [])
]

/-- what follows the switch -/
def expectedPopulateImportsCasesAfter : List String := []

/-- `nillable` (template/var.go): cases in source order -/
def expectedNillableCases : List (List String × List String) := [
  (["Pointer", "Array", "Map", "Interface", "Signature", "Chan", "Slice"], ["return true"]),
  (["Named", "Alias", "TypeParam"], ["return nillable(t.Underlying())"])
]

/-- what follows the switch -/
def expectedNillableCasesAfter : List String := ["return false"]

/-- `varNameForType` (template/var.go): cases in source order -/
def expectedVarNameForTypeCases : List (List String × List String) := [
  (["Named"], ["if t.Obj().Name() == \"error\" { return \"err\" }", "name := deCapitalise(t.Obj().Name())", "if name == t.Obj().Name() { name += \"MoqParam\" }", "return name"]),
  (["Basic"], ["return basicTypeVarName(t)"]),
  (["Array"], ["return nestedType(t.Elem()) + \"s\""]),
  (["Slice"], ["return nestedType(t.Elem()) + \"s\""]),
  (["Struct"], ["return \"val\""]),
  (["Pointer"], ["return varNameForType(t.Elem())"]),
  (["Signature"], ["return \"fn\""]),
  (["Interface"], ["return \"ifaceVal\""]),
  (["Map"], ["return nestedType(t.Key()) + \"To\" + capitalise(nestedType(t.Elem()))"]),
  (["Chan"], ["return nestedType(t.Elem()) + \"Ch\""])
]

/-- what follows the switch -/
def expectedVarNameForTypeCasesAfter : List String := ["return \"v\""]

def expectedPopulateImportNamedTypeBody : List String := ["if pkg := t.Obj().Pkg(); pkg != nil { m.addImport(ctx, pkg, imports) }", "if targs := t.TypeArgs(); targs != nil { for i := 0; i < targs.Len(); i++ { m.populateImportsHelper(ctx, targs.At(i), imports) } }"]


end Mockery.Go.SwitchText
