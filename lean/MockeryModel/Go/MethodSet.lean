import MockeryModel.Go.Types
/-
The method set of an interface type as `go/types` computes it (`(*Interface).Complete`,
`computeInterfaceTypeSet`): the explicitly declared methods and, recursively, the methods of every
embedded interface; a method reached along several paths is kept once (Go 1.14: duplicates must have
identical signatures, which a type-correct program guarantees); the result is sorted by name.

Embedded interfaces are given already resolved (a named interface by its declaration, an instantiated
generic one with the type arguments substituted), so a declaration is a finite tree.
-/
namespace Mockery.Go

structure MethodSig where
  name : String
  sig : GoType
  deriving Repr, Inhabited

inductive IfaceDecl where
  | mk (methods : List MethodSig) (embeds : List IfaceDecl)
  deriving Repr, Inhabited

def IfaceDecl.methods : IfaceDecl → List MethodSig
  | .mk ms _ => ms
def IfaceDecl.embeds : IfaceDecl → List IfaceDecl
  | .mk _ es => es

mutual
/-- all methods reachable, explicit ones first, in declaration order -/
def allMethods : IfaceDecl → List MethodSig
  | .mk ms es => ms ++ allMethodsL es
def allMethodsL : List IfaceDecl → List MethodSig
  | [] => []
  | e :: es => allMethods e ++ allMethodsL es
end

/-- keep the first method of every name -/
def dedupAux (seen : List String) : List MethodSig → List MethodSig
  | [] => []
  | m :: ms => if seen.contains m.name then dedupAux seen ms else m :: dedupAux (m.name :: seen) ms

def dedupByName (l : List MethodSig) : List MethodSig := dedupAux [] l

/-- insertion into a list sorted by name -/
def insertByName (m : MethodSig) : List MethodSig → List MethodSig
  | [] => [m]
  | x :: xs => if m.name ≤ x.name then m :: x :: xs else x :: insertByName m xs

def sortByName : List MethodSig → List MethodSig
  | [] => []
  | m :: ms => insertByName m (sortByName ms)

/-- `Complete().Method(0..n-1)` -/
def methodSet (d : IfaceDecl) : List MethodSig := sortByName (dedupByName (allMethods d))

end Mockery.Go
