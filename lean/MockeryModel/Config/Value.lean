/-
Configuration values and the nested-map merge of `/repo/config/config.go`
(`mergeStringMaps`).  Go maps are modelled as association lists with unique
keys (`lookup` is the only observation); value semantics throughout – the
model has no aliasing, so any sharing between levels in the real code shows up
as a correspondence difference.
-/
namespace Mockery.Config

/-- a `map[string]any` value: scalars / lists are leaves (kept as canonical
JSON text), nested maps are nodes -/
inductive TD where
  | leaf (json : String)
  | node (kvs : List (String × TD))
  deriving Repr, Inhabited

abbrev KVs := List (String × TD)

def lookup (k : String) : KVs → Option TD
  | [] => none
  | (k', v) :: r => if k' = k then some v else lookup k r

def replace (k : String) (v : TD) : KVs → KVs
  | [] => []
  | (k', v') :: r => if k' = k then (k', v) :: r else (k', v') :: replace k v r

mutual
/-- Go: `mergeStringMaps(src, dest)`; the result is the new `dest`. -/
def mergeKVs : KVs → KVs → KVs
  | [], dst => dst
  | (k, sv) :: rest, dst =>
      mergeKVs rest (match lookup k dst with
        | none => dst ++ [(k, sv)]
        | some dv => replace k (mergeV sv dv) dst)
/-- both maps → merged recursively; otherwise the destination value stays -/
def mergeV : TD → TD → TD
  | .node skv, .node dkv => .node (mergeKVs skv dkv)
  | _, dv => dv
end

def keys (l : KVs) : List String := l.map (·.1)

/-- value at a key path -/
def getPath : List String → TD → Option TD
  | [], v => some v
  | k :: ks, .node kvs => match lookup k kvs with
    | some v => getPath ks v
    | none => none
  | _ :: _, .leaf _ => none

/-- a replace-type map: package path → type name → (replacement package path, replacement type name) -/
abbrev ReplaceMap := List (String × List (String × String × String))

/-- the value of one `Config` field when it is set -/
inductive Val where
  | b (v : Bool)
  | s (v : String)
  | l (v : List String)
  | m (kvs : KVs)
  | r (v : ReplaceMap)
  deriving Repr, Inhabited

/-- a `Config` struct: the fields that are set (non-nil), by koanf key -/
abbrev Cfg := List (String × Val)

def Cfg.get (c : Cfg) (k : String) : Option Val :=
  match c with
  | [] => none
  | (k', v) :: r => if k' = k then some v else Cfg.get r k

inductive Kind where
  | ptrBool | ptrString | strSlice | anyMap | typedMap | other
  deriving DecidableEq, Repr

def Kind.ofString : String → Kind
  | "ptrBool" => .ptrBool
  | "ptrString" => .ptrString
  | "strSlice" => .strSlice
  | "anyMap" => .anyMap
  | "typedMap" => .typedMap
  | _ => .other

end Mockery.Config
