import MockeryModel.Tmpl.Lang
import MockeryModel.Tmpl.Path
/-
`Config.ParseTemplates` (`/repo/config/config.go`): the variable bindings and the
capped fixpoint loop over the five templated parameters.  The loop is
parametric in the rendering function (`text/template` is outside the model);
`Tmpl.renderTemplate` instantiates it for the correspondence run.
-/
namespace Mockery.Config
open Mockery.Tmpl

inductive RErr where
  | parse | exec | infiniteLoop | unmodelled
  deriving DecidableEq, Repr, Inhabited

/-- one round: render every value against the fixed data; report whether anything changed -/
def round (render : String → Except RErr String) : List String → Except RErr (List String × Bool)
  | [] => .ok ([], false)
  | v :: vs =>
    match render v with
    | .error e => .error e
    | .ok v' =>
      match round render vs with
      | .error e => .error e
      | .ok (vs', ch) => .ok (v' :: vs', ch || (v' != v))

/-- Go: `for i := 0; changesMade; i++ { if i >= cap { return ErrInfiniteLoop }; … }` with `fuel = cap - i` -/
def loop (render : String → Except RErr String) : Nat → List String → Except RErr (List String)
  | 0, _ => .error .infiniteLoop
  | fuel+1, vs =>
    match round render vs with
    | .error e => .error e
    | .ok (vs', ch) => if ch then loop render fuel vs' else .ok vs'

def iterationCap : Nat := 20

def resolve (render : String → Except RErr String) (vs : List String) : Except RErr (List String) :=
  loop render iterationCap vs

/-! ### variable bindings -/

structure IfaceInfo where
  name : String
  /-- absolute file name of the declaring file -/
  file : String
  deriving Repr, Inhabited

structure BindInput where
  /-- value of the `config` parameter (the path of the config file in use) -/
  configFile : String
  iface : Option IfaceInfo
  /-- working directory of the run -/
  cwd : String
  srcPkgName : String
  srcPkgPath : String
  /-- the (unresolved) `structname` and `template` values of the config being resolved -/
  structName : String
  template : String
  /-- `unicode.IsUpper` of the first character of the interface name (`ast.IsExported`) -/
  exported : Bool
  deriving Repr, Inhabited

def sb (s : String) : Bytes := s.toUTF8.toList
def bs (b : Bytes) : String := (String.fromUTF8? ⟨b.toArray⟩).getD ""

/-- path parts as pathlib's `Parts()`: a leading "/" element for absolute paths, then the components -/
def parts (p : Bytes) : List Bytes :=
  let comps := (splitSlash (clean p)).filter (!·.isEmpty)
  if p.head? == some slash then [slash] :: comps else comps

/-- pathlib `RelativeTo`: `other`'s parts must be a prefix of `this`'s parts -/
def relativeTo (this other : Bytes) : Option Bytes :=
  let tp := parts this
  let op := parts other
  if op.isPrefixOf tp then
    let rest := tp.drop op.length
    if rest.isEmpty then some [dot] else some (joinSlash rest)
  else none

def bind (b : BindInput) : Env :=
  let ifaceDir := match b.iface with | some i => dir (sb i.file) | none => []
  let rel := match b.iface with
    | some _ => (relativeTo ifaceDir (sb b.cwd)).getD [dot]
    | none => []
  [ ("ConfigDir", dir (sb b.configFile)),
    ("InterfaceDir", ifaceDir),
    ("InterfaceDirRelative", rel),
    ("InterfaceFile", match b.iface with | some i => sb i.file | none => []),
    ("InterfaceName", match b.iface with | some i => sb i.name | none => []),
    ("Mock", match b.iface with | some _ => sb (if b.exported then "Mock" else "mock") | none => []),
    ("StructName", sb b.structName),
    ("SrcPackageName", sb b.srcPkgName),
    ("SrcPackagePath", sb b.srcPkgPath),
    ("Template", sb b.template) ]

def renderWith (U : UnicodeOps) (env : Env) (s : String) : Except RErr String :=
  match renderTemplate U env s with
  | .ok b => (match String.fromUTF8? ⟨b.toArray⟩ with | some r => .ok r | none => .error .unmodelled)
  | .error .parse => .error .parse
  | .error (.exec _) => .error .exec
  | .error .unmodelled => .error .unmodelled

end Mockery.Config
