import MockeryModel.Config.Value
import MockeryModel.Generated.ConfigFields
/-
`mergeConfigs(src, dest)` of `/repo/config/config.go`, field by field over the
*regenerated* field table (`Generated.configFields`), and
`RootConfig.Initialize` / `PackageConfig.Initialize` /
`InterfaceConfig.Initialize` / `GetInterfaceConfig` on a configuration tree.
-/
namespace Mockery.Config

/-- one field of `mergeConfigs`, by the reflect.Kind branch it takes -/
def mergeField : Kind → Option Val → Option Val → Option Val
  -- `Pointer && dest.IsNil()` → copy of src; non-nil dest untouched
  | .ptrBool, src, none => src
  | .ptrBool, _, some d => some d
  | .ptrString, src, none => src
  | .ptrString, _, some d => some d
  -- `dest.IsZero()` (nil slice) → src
  | .strSlice, src, none => src
  | .strSlice, _, some d => some d
  -- map[string]any: nil dest becomes an empty map, then mergeStringMaps
  | .anyMap, some (.m s), some (.m d) => some (.m (mergeKVs s d))
  | .anyMap, some (.m s), none => some (.m (mergeKVs s []))
  | .anyMap, none, some d => some d
  | .anyMap, none, none => some (.m [])
  | .anyMap, _, d => d
  -- typed map (replace-type): inherited as a whole when dest is nil
  | .typedMap, src, none => src
  | .typedMap, _, some d => some d
  | .other, _, d => d

abbrev FieldTable := List (String × Kind)

def fieldTable : FieldTable := Generated.configFields.map (fun f => (f.2.1, Kind.ofString f.2.2))

def mergeConfigs (ft : FieldTable) (src dst : Cfg) : Cfg :=
  ft.filterMap (fun f => (mergeField f.2 (src.get f.1) (dst.get f.1)).map (fun v => (f.1, v)))

/-! ### the configuration tree -/

structure IfaceCfg where
  /-- `config:` of the interface (`none`: absent / null) -/
  config : Option Cfg
  /-- `configs:` entries -/
  configs : List Cfg
  deriving Repr, Inhabited

structure PkgCfg where
  config : Option Cfg
  /-- listed interfaces; `none` for `Name:` with a null value -/
  interfaces : List (String × Option IfaceCfg)
  deriving Repr, Inhabited

structure Tree where
  root : Cfg
  /-- `packages:`; `none` for a null entry -/
  packages : List (String × Option PkgCfg)
  deriving Repr, Inhabited

/-- an interface after `InterfaceConfig.Initialize` -/
structure IfaceOut where
  config : Cfg
  configs : List Cfg
  deriving Repr, Inhabited

structure PkgOut where
  config : Cfg
  interfaces : List (String × IfaceOut)
  deriving Repr, Inhabited

def initIface (ft : FieldTable) (pkgCfg : Cfg) (i : Option IfaceCfg) : IfaceOut :=
  let ic := (i.getD ⟨none, []⟩)
  let cfg := mergeConfigs ft pkgCfg (ic.config.getD [])
  -- no `configs` → the single entry *is* the interface config
  if ic.configs.isEmpty then ⟨cfg, [cfg]⟩
  else ⟨cfg, ic.configs.map (fun e => mergeConfigs ft cfg e)⟩

def initPkg (ft : FieldTable) (root : Cfg) (p : Option PkgCfg) : PkgOut :=
  let pc := p.getD ⟨none, []⟩
  let cfg := mergeConfigs ft root (pc.config.getD [])
  ⟨cfg, pc.interfaces.map (fun (n, i) => (n, initIface ft cfg i))⟩

/-- `RootConfig.Initialize` without recursive-package discovery (see `Config/Select`) -/
def initTree (ft : FieldTable) (t : Tree) : List (String × PkgOut) :=
  t.packages.map (fun (n, p) => (n, initPkg ft t.root p))

/-- `PackageConfig.GetInterfaceConfig`: the listed entry, or a deep copy of the package config -/
def getInterfaceConfig (p : PkgOut) (name : String) : IfaceOut :=
  match p.interfaces.find? (·.1 == name) with
  | some (_, i) => i
  | none => ⟨p.config, [p.config]⟩

/-- the documented resolution: the most specific level that sets the parameter -/
def firstSome : List (Option Val) → Option Val
  | [] => none
  | some v :: _ => some v
  | none :: r => firstSome r

end Mockery.Config
