import MockeryModel.Config.Merge
/-
Where the top-level `Config` comes from (`NewRootConfig`): zero values for every
pointer field, then koanf layers loaded in order – defaults, `MOCKERY_*`
environment, the YAML file, command-line flags – each overriding the earlier
ones key by key (nested maps merged), then a strict, strongly typed decode.
-/
namespace Mockery.Config

inductive SrcErr where
  /-- a value whose type does not fit the field (strict mapstructure decode) -/
  | typeMismatch (key : String)
  /-- a key that is not a field of `Config` (`ErrorUnused`) -/
  | unknownKey (key : String)
  deriving DecidableEq, Repr

def zeroOf : Kind → Option Val
  | .ptrBool => some (.b false)
  | .ptrString => some (.s "")
  | _ => none

def parseDefault (kind : Kind) (tag v : String) : Option Val :=
  if tag == "s" then some (.s v)
  else if tag == "b" then (if v == "true" then some (.b true) else if v == "false" then some (.b false) else none)
  else if tag == "empty" then (match kind with | .anyMap => some (.m []) | .typedMap => some (.r []) | _ => none)
  else none

def kindOfKey (ft : FieldTable) (k : String) : Option Kind := (ft.find? (·.1 == k)).map (·.2)

def defaultsCfg (ft : FieldTable) : Cfg :=
  Generated.configDefaults.filterMap (fun (k, tag, v) =>
    match kindOfKey ft k with
    | some kind => (parseDefault kind tag v).map (fun x => (k, x))
    | none => none)

def lowerAscii (s : String) : String := s.map (fun c => if 'A' ≤ c && c ≤ 'Z' then Char.ofNat (c.toNat + 32) else c)

/-- `MOCKERY_FOO_BAR=v` → key `foo-bar`; `true`/`false` in any case become booleans -/
def envEntry (name value : String) : Option (String × Val) :=
  if name.startsWith "MOCKERY_" then
    let key := (lowerAscii (name.drop 8).toString).map (fun c => if c == '_' then '-' else c)
    let lv := lowerAscii value
    if lv == "true" then some (key, .b true)
    else if lv == "false" then some (key, .b false)
    else some (key, .s value)
  else none

def envLayer (env : List (String × String)) : Cfg := env.filterMap (fun (n, v) => envEntry n v)

/-- one koanf `Load`: the new layer overrides, nested maps are merged (new wins) -/
def overlayVal : Option Val → Val → Val
  | some (.m old), .m new => .m (mergeKVs old new)
  | _, new => new

def setKey (c : Cfg) (k : String) (v : Val) : Cfg :=
  match c with
  | [] => [(k, v)]
  | (k', v') :: r => if k' = k then (k, v) :: r else (k', v') :: setKey r k v

def overlay (base layer : Cfg) : Cfg :=
  layer.foldl (fun acc (k, v) => setKey acc k (overlayVal (acc.get k) v)) base

def fits : Kind → Val → Bool
  | .ptrBool, .b _ => true
  | .ptrString, .s _ => true
  | .strSlice, .l _ => true
  | .anyMap, .m _ => true
  | .typedMap, .r _ => true
  | _, _ => false

def checkEntry (ft : FieldTable) (e : String × Val) : Option SrcErr :=
  match kindOfKey ft e.1 with
  | none => some (.unknownKey e.1)
  | some kind => if fits kind e.2 then none else some (.typeMismatch e.1)

/-- strict decode of the merged keys into `Config` on top of the zero values -/
def decode (ft : FieldTable) (merged : Cfg) : Except SrcErr Cfg :=
  match merged.findSome? (checkEntry ft) with
  | some e => .error e
  | none =>
    .ok (ft.filterMap (fun (k, kind) =>
      match merged.get k with
      | some v => some (k, v)
      | none => (zeroOf kind).map (fun z => (k, z))))

def rootFromSources (ft : FieldTable) (env : List (String × String)) (file flags : Cfg) : Except SrcErr Cfg :=
  decode ft (overlay (overlay (overlay (defaultsCfg ft) (envLayer env)) file) flags)

end Mockery.Config
