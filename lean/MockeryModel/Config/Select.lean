import MockeryModel.Config.Sources
/-
Selection of what gets mocked (`/repo/config/config.go`, `/repo/internal/parse.go`,
`/repo/internal/node_visitor.go`, `/repo/internal/cmd/mockery.go`):

* `shouldGenerate`  – `PackageConfig.ShouldGenerateInterface`
* `discover`        – candidate discovery (AST visitor + package-scope lookup)
* `initializeFull`  – `RootConfig.Initialize` including recursive sub-package injection
* `selected`        – the mocks a run produces: (package, interface, `configs` entry)

External facts are parameters: `Matcher` is `regexp.MatchString` (`none` = the
expression does not compile), `subPkgs` is what `go list p/...` answers,
and each declaration carries what go/types says about it.
-/
namespace Mockery.Config

abbrev Matcher := String → String → Option Bool

inductive SelErr where
  | includeRegex | excludeRegex | subpkgRegex
  | decode
  deriving DecidableEq, Repr

/-- `ShouldGenerateInterface` -/
def shouldGenerate (m : Matcher) (all listed : Bool) (inc exc name : String) : Except SelErr Bool :=
  if all then pure true
  else if listed then pure true
  else if inc == "" then pure false
  else match m inc name with
    | none => throw .includeRegex
    | some false => pure false
    | some true =>
      if exc == "" then pure true
      else match m exc name with
        | none => throw .excludeRegex
        | some true => pure false
        | some false => pure true

/-- one type declaration of a source file, with the facts the loader reports -/
structure Decl where
  name : String
  /-- declared inside a function body -/
  isLocal : Bool
  /-- the right-hand side is an interface literal, `G[T]` or `G[T, U]` (what the AST visitor collects) -/
  rhsCandidate : Bool
  /-- go/types: the package-scope object of that name is a defined (`*types.Named`) type … -/
  isNamed : Bool
  /-- … whose underlying type is an interface -/
  isInterface : Bool
  deriving Repr, Inhabited

/-- the interfaces of one file that are candidates for mocking, in declaration order -/
def discover (decls : List Decl) : List String :=
  (decls.filter (fun d => !d.isLocal && d.rhsCandidate && d.name != "_" && d.isNamed && d.isInterface)).map (·.name)

def boolOf (c : Cfg) (k : String) : Bool := match c.get k with | some (.b v) => v | _ => false
def strOf (c : Cfg) (k : String) : String := match c.get k with | some (.s v) => v | _ => ""
def listOf (c : Cfg) (k : String) : List String := match c.get k with | some (.l v) => v | _ => []

/-- `Config.ShouldExcludeSubpkg`: first matching expression wins; an invalid one is an error -/
def shouldExclude (m : Matcher) : List String → String → Except SelErr Bool
  | [], _ => pure false
  | r :: rs, p => match m r p with
    | none => throw .subpkgRegex
    | some true => pure true
    | some false => shouldExclude m rs p

def setPkg (ps : List (String × PkgOut)) (k : String) (v : PkgOut) : List (String × PkgOut) :=
  match ps with
  | [] => [(k, v)]
  | (k', v') :: r => if k' = k then (k, v) :: r else (k', v') :: setPkg r k v

def getPkg (ps : List (String × PkgOut)) (k : String) : Option PkgOut :=
  (ps.find? (·.1 == k)).map (·.2)

/-- inject the sub-packages of one recursive package -/
def injectOne (ft : FieldTable) (m : Matcher) (subPkgs : String → List String)
    (ps : List (String × PkgOut)) (parent : String) : Except SelErr (List (String × PkgOut)) :=
  match getPkg ps parent with
  | none => pure ps
  | some pc =>
    (subPkgs parent).foldlM (fun acc sub => do
      if ← shouldExclude m (listOf pc.config "exclude-subpkg-regex") sub then pure acc
      else
        let existing := (getPkg acc sub).getD ⟨[], []⟩
        pure (setPkg acc sub { existing with config := mergeConfigs ft pc.config existing.config })) ps

/-- order in which recursive packages are handled: longest path first, then by name -/
def recursiveOrder (names : List String) : List String :=
  names.mergeSort (fun a b => a.length > b.length || (a.length == b.length && a ≤ b))

/-- re-run of loop 1 on an already initialised tree: merges are no-ops on set fields,
template-data is re-merged (idempotent), interfaces re-initialised -/
def reinitPkg (ft : FieldTable) (root : Cfg) (p : PkgOut) : PkgOut :=
  let cfg := mergeConfigs ft root p.config
  ⟨cfg, p.interfaces.map (fun (n, i) =>
    let icfg := mergeConfigs ft cfg i.config
    -- `Configs` is non-empty after the first pass; entries are merged again
    (n, ⟨icfg, i.configs.map (fun e => mergeConfigs ft icfg e)⟩))⟩

/-- one `RootConfig.Initialize` on packages that are already in `PkgOut` form -/
def initRound (ft : FieldTable) (m : Matcher) (subPkgs : String → List String)
    (ps : List (String × PkgOut)) : Except SelErr (List (String × PkgOut)) :=
  let rec_ := (ps.filter (fun p => boolOf p.2.config "recursive")).map (·.1)
  (recursiveOrder rec_).foldlM (injectOne ft m subPkgs) ps

/-- `NewRootConfig` → `Initialize`, then `RootApp.Run` → `Initialize` again -/
def initializeFull (ft : FieldTable) (m : Matcher) (subPkgs : String → List String) (t : Tree) :
    Except SelErr (List (String × PkgOut)) := do
  let first ← initRound ft m subPkgs (initTree ft t)
  initRound ft m subPkgs (first.map (fun (n, p) => (n, reinitPkg ft t.root p)))

/-- a source package as loaded: interfaces per file in file order -/
structure SrcPkg where
  path : String
  files : List (List Decl)
  deriving Repr, Inhabited

/-- one mock: source package, interface, index of its `configs` entry, effective config of the entry -/
structure Mock where
  pkg : String
  iface : String
  entry : Nat
  cfg : Cfg
  deriving Repr, Inhabited

def entriesOf (path n : String) (ic : IfaceOut) : List Mock :=
  ((List.range ic.configs.length).zip ic.configs).map (fun (i, c) => ⟨path, n, i, c⟩)

def mocksOfIface (m : Matcher) (pc : PkgOut) (path n : String) : Except SelErr (List Mock) := do
  let listed := pc.interfaces.any (·.1 == n)
  if ← shouldGenerate m (boolOf pc.config "all") listed (strOf pc.config "include-interface-regex")
      (strOf pc.config "exclude-interface-regex") n
  then pure (entriesOf path n (getInterfaceConfig pc n))
  else pure []

def mocksOfPkg (m : Matcher) (pc : PkgOut) (src : SrcPkg) : Except SelErr (List Mock) := do
  let ls ← (src.files.flatMap discover).mapM (mocksOfIface m pc src.path)
  pure ls.flatten

/-- the mocks of a run: configured (and injected) packages that exist in the source, in the
configuration's package order -/
def selected (m : Matcher) (pkgs : List (String × PkgOut)) (srcs : List SrcPkg) : Except SelErr (List Mock) := do
  let ls ← pkgs.mapM (fun (path, pc) =>
    match srcs.find? (·.path == path) with
    | none => pure []
    | some src => mocksOfPkg m pc src)
  pure ls.flatten

/-- listed interfaces that no source declares (the run then exits non-zero) -/
def missing (pkgs : List (String × PkgOut)) (srcs : List SrcPkg) : List (String × String) :=
  pkgs.flatMap (fun (path, pc) =>
    let have_ := match srcs.find? (·.path == path) with
      | some src => src.files.flatMap discover
      | none => []
    (pc.interfaces.filter (fun i => !have_.contains i.1)).map (fun i => (path, i.1)))

end Mockery.Config
