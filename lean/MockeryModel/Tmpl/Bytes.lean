/-
Byte-string reference semantics for the Go standard-library functions the
template function library is documented to equal (`strings.*`, `utf8.*`).
Go strings are arbitrary byte sequences; the model uses `List UInt8`.
Every function here transcribes the algorithm in Go's `strings` / `utf8`
packages (go1.23), including the behaviour on invalid UTF-8 and on empty
separators.  Nothing here reads the repository.
-/
namespace Mockery.Tmpl

abbrev Bytes := List UInt8

/-- `utf8.RuneError` -/
def runeError : Nat := 0xFFFD

def isCont (b : UInt8) : Bool := 0x80 ≤ b && b ≤ 0xBF

def lo3 (b0 : UInt8) : UInt8 := if b0 == 0xE0 then 0xA0 else 0x80
def hi3 (b0 : UInt8) : UInt8 := if b0 == 0xED then 0x9F else 0xBF
def lo4 (b0 : UInt8) : UInt8 := if b0 == 0xF0 then 0x90 else 0x80
def hi4 (b0 : UInt8) : UInt8 := if b0 == 0xF4 then 0x8F else 0xBF

/-- `utf8.DecodeRuneInString`: (code point, width).  Width 0 only for the empty
string; invalid or truncated encodings give `(RuneError, 1)`. -/
def decodeRune : Bytes → Nat × Nat
  | [] => (runeError, 0)
  | b0 :: rest =>
    if b0 < 0x80 then (b0.toNat, 1)
    else if b0 < 0xC2 then (runeError, 1)
    else if b0 < 0xE0 then
      match rest with
      | b1 :: _ => if isCont b1 then ((b0.toNat % 32) * 64 + b1.toNat % 64, 2) else (runeError, 1)
      | _ => (runeError, 1)
    else if b0 < 0xF0 then
      match rest with
      | b1 :: b2 :: _ =>
        if lo3 b0 ≤ b1 && b1 ≤ hi3 b0 && isCont b2 then
          ((b0.toNat % 16) * 4096 + (b1.toNat % 64) * 64 + b2.toNat % 64, 3)
        else (runeError, 1)
      | _ => (runeError, 1)
    else if b0 < 0xF5 then
      match rest with
      | b1 :: b2 :: b3 :: _ =>
        if lo4 b0 ≤ b1 && b1 ≤ hi4 b0 && isCont b2 && isCont b3 then
          ((b0.toNat % 8) * 262144 + (b1.toNat % 64) * 4096 + (b2.toNat % 64) * 64 + b3.toNat % 64, 4)
        else (runeError, 1)
      | _ => (runeError, 1)
    else (runeError, 1)

theorem decodeRune_width_pos (b : UInt8) (bs : Bytes) : 1 ≤ (decodeRune (b :: bs)).2 := by
  unfold decodeRune
  repeat' split
  all_goals simp_all

theorem decodeRune_width_le (s : Bytes) : (decodeRune s).2 ≤ s.length := by
  unfold decodeRune
  repeat' split
  all_goals simp <;> omega

/-- `utf8.EncodeRune` (surrogates and out-of-range become U+FFFD). -/
def encodeRune (r : Nat) : Bytes :=
  let r := if r > 0x10FFFF || (0xD800 ≤ r && r ≤ 0xDFFF) then runeError else r
  if r < 0x80 then [r.toUInt8]
  else if r < 0x800 then [(0xC0 + r / 64).toUInt8, (0x80 + r % 64).toUInt8]
  else if r < 0x10000 then [(0xE0 + r / 4096).toUInt8, (0x80 + (r / 64) % 64).toUInt8, (0x80 + r % 64).toUInt8]
  else [(0xF0 + r / 262144).toUInt8, (0x80 + (r / 4096) % 64).toUInt8, (0x80 + (r / 64) % 64).toUInt8, (0x80 + r % 64).toUInt8]

/-- the runes of a string as Go's `for _, r := range s` yields them, with widths -/
def runes (s : Bytes) : List (Nat × Nat) :=
  go s s.length
where
  go : Bytes → Nat → List (Nat × Nat)
    | [], _ => []
    | _, 0 => []
    | s@(_ :: _), fuel+1 =>
      let d := decodeRune s
      d :: go (s.drop d.2) fuel

/-- split a string into its UTF-8 sequences (invalid bytes stand alone):
the pieces `strings.explode(s, -1)` returns -/
def explodeAll (s : Bytes) : List Bytes :=
  go s s.length
where
  go : Bytes → Nat → List Bytes
    | [], _ => []
    | _, 0 => []
    | s@(_ :: _), fuel+1 =>
      let w := (decodeRune s).2
      s.take w :: go (s.drop w) fuel

/-! ### strings.HasPrefix / HasSuffix / Index / Contains / Count -/

def hasPrefix (s p : Bytes) : Bool := p.isPrefixOf s
def hasSuffix (s p : Bytes) : Bool := p.isSuffixOf s

/-- `strings.Index(s, sub)`: byte offset of the first occurrence -/
def index (s sub : Bytes) : Option Nat :=
  go s 0
where
  go : Bytes → Nat → Option Nat
    | [], i => if sub.isEmpty then some i else none
    | s@(_ :: t), i => if sub.isPrefixOf s then some i else go t (i+1)

def contains (s sub : Bytes) : Bool := (index s sub).isSome

def runeCount (s : Bytes) : Nat := (runes s).length

/-- `strings.Count(s, sub)`: non-overlapping occurrences; `RuneCount+1` for empty `sub` -/
def count (s sub : Bytes) : Nat :=
  if sub.isEmpty then runeCount s + 1 else go s s.length
where
  go : Bytes → Nat → Nat
    | _, 0 => 0
    | s, fuel+1 =>
      match index s sub with
      | none => 0
      | some i => 1 + go (s.drop (i + sub.length)) fuel

/-! ### strings.Split family (genSplit) -/

/-- `explode(s, n)` for `n > 0` or `n < 0` (`n = none`): at most `n` pieces,
the last one holding the unsplit rest -/
def explode (s : Bytes) (n : Option Nat) : List Bytes :=
  let all := explodeAll s
  match n with
  | none => all
  | some k =>
    if all.length ≤ k then all
    else all.take (k - 1) ++ [s.drop ((all.take (k - 1)).map List.length).sum]

/-- The splitting loop of `genSplit` for a non-empty separator: cut at each
occurrence of `sep` while fewer than `limit` pieces have been produced
(`limit = none` : unlimited); `save` bytes of the separator stay with the piece. -/
def splitLoop (sep : Bytes) (save : Nat) : Bytes → Option Nat → Nat → List Bytes
  | s, _, 0 => [s]
  | s, limit, fuel+1 =>
    if limit == some 0 then [s] else
    match index s sep with
    | none => [s]
    | some m => s.take (m + save) :: splitLoop sep save (s.drop (m + sep.length)) (limit.map (· - 1)) fuel

/-- `genSplit(s, sep, sepSave, n)`; `n : Int` as in Go (`n < 0` unlimited, `0` → nil). -/
def genSplit (s sep : Bytes) (save : Nat) (n : Int) : List Bytes :=
  if n == 0 then []
  else if sep.isEmpty then explode s (if n < 0 then none else some n.toNat)
  else splitLoop sep save s (if n < 0 then none else some (n.toNat - 1)) (s.length + 1)

def split (s sep : Bytes) : List Bytes := genSplit s sep 0 (-1)
def splitAfter (s sep : Bytes) : List Bytes := genSplit s sep sep.length (-1)
def splitAfterN (s sep : Bytes) (n : Int) : List Bytes := genSplit s sep sep.length n

/-- `strings.Join` -/
def join (elems : List Bytes) (sep : Bytes) : Bytes :=
  match elems with
  | [] => []
  | [e] => e
  | e :: rest => e ++ sep ++ join rest sep

/-! ### strings.Replace / ReplaceAll -/

/-- body of `strings.Replace` after the early exits: `k` replacements remain -/
def replaceLoop (old new : Bytes) : Bytes → Nat → Bool → Bytes
  | s, 0, _ => s
  | s, k+1, first =>
    if old.isEmpty then
      -- empty `old` matches at the start and after every UTF-8 sequence
      if first then new ++ replaceLoop old new s k false
      else
        let w := (decodeRune s).2
        s.take w ++ new ++ replaceLoop old new (s.drop w) k false
    else
      match index s old with
      | none => s
      | some j => s.take j ++ new ++ replaceLoop old new (s.drop (j + old.length)) k false

/-- `strings.Replace(s, old, new, n)` -/
def replace (s old new : Bytes) (n : Int) : Bytes :=
  if old == new || n == 0 then s else
  let m := count s old
  if m == 0 then s else
  let k := if n < 0 || m < n.toNat then m else n.toNat
  replaceLoop old new s k true

def replaceAll (s old new : Bytes) : Bytes := replace s old new (-1)

/-! ### strings.Trim family -/

def trimPrefix (s p : Bytes) : Bytes := if hasPrefix s p then s.drop p.length else s
def trimSuffix (s p : Bytes) : Bytes := if hasSuffix s p then s.take (s.length - p.length) else s

/-- `strings.ContainsRune(cutset, r)`; an invalid byte of `cutset` decodes to
U+FFFD and therefore matches `r = RuneError`. -/
def containsRune (cutset : Bytes) (r : Nat) : Bool := (runes cutset).any (·.1 == r)

def trimLeft (s cutset : Bytes) : Bytes :=
  if s.isEmpty || cutset.isEmpty then s else go s s.length
where
  go : Bytes → Nat → Bytes
    | [], _ => []
    | s, 0 => s
    | s@(_ :: _), fuel+1 =>
      let d := decodeRune s
      if containsRune cutset d.1 then go (s.drop d.2) fuel else s

/-- `utf8.DecodeLastRuneInString`: step back to the nearest rune-start byte
within `UTFMax` bytes and accept the decoding only if it ends at the end. -/
def decodeLastRune (s : Bytes) : Nat × Nat :=
  let e := s.length
  if e = 0 then (runeError, 0) else
  let last := s.getD (e - 1) 0
  if last < 0x80 then (last.toNat, 1) else
  let isStart (i : Nat) : Bool := !(isCont (s.getD i 0))
  let start :=
    if e ≥ 2 && isStart (e - 2) then e - 2
    else if e ≥ 3 && isStart (e - 3) then e - 3
    else if e ≥ 4 && isStart (e - 4) then e - 4
    else if e ≤ 4 then 0 else e - 5
  let d := decodeRune (s.drop start)
  if start + d.2 != e then (runeError, 1) else d

def trimRight (s cutset : Bytes) : Bytes :=
  if s.isEmpty || cutset.isEmpty then s else go s s.length
where
  go : Bytes → Nat → Bytes
    | [], _ => []
    | s, 0 => s
    | s, fuel+1 =>
      let d := decodeLastRune s
      if d.2 > 0 && containsRune cutset d.1 then go (s.take (s.length - d.2)) fuel else s

def trim (s cutset : Bytes) : Bytes := trimRight (trimLeft s cutset) cutset

/-! ### ASCII case mapping (non-ASCII goes through a code-point table, see `Funcs`) -/

def asciiUpper (b : UInt8) : UInt8 := if 0x61 ≤ b && b ≤ 0x7A then b - 0x20 else b
def asciiLower (b : UInt8) : UInt8 := if 0x41 ≤ b && b ≤ 0x5A then b + 0x20 else b

end Mockery.Tmpl
