import MockeryModel.Tmpl.Bytes
/-
`path/filepath` on Unix: `Clean`, `Base`, `Dir`, `Join`, as component algorithms
equivalent to Go's byte loops.  Used by the function library (C16) and by the
output-path computations (C10, C11).
-/
namespace Mockery.Tmpl

def slash : UInt8 := 0x2F
def dot : UInt8 := 0x2E

/-- split at every `/` (like `strings.Split(s, "/")`) -/
def splitSlash (s : Bytes) : List Bytes :=
  go s []
where
  go : Bytes → Bytes → List Bytes
    | [], cur => [cur.reverse]
    | b :: t, cur => if b == slash then cur.reverse :: go t [] else go t (b :: cur)

/-- the component stack of `Clean`: `.` and empty components vanish, `..` pops a
real component, is dropped at the root, and accumulates otherwise -/
def cleanStack (rooted : Bool) : List Bytes → List Bytes → List Bytes
  | [], st => st.reverse
  | c :: cs, st =>
    if c.isEmpty || c == [dot] then cleanStack rooted cs st
    else if c == [dot, dot] then
      match st with
      | top :: rest =>
        if top == [dot, dot] then cleanStack rooted cs (c :: st) else cleanStack rooted cs rest
      | [] => if rooted then cleanStack rooted cs [] else cleanStack rooted cs [c]
    else cleanStack rooted cs (c :: st)

def joinSlash : List Bytes → Bytes
  | [] => []
  | [c] => c
  | c :: cs => c ++ [slash] ++ joinSlash cs

/-- `filepath.Clean` -/
def clean (p : Bytes) : Bytes :=
  if p.isEmpty then [dot] else
  let rooted := p.head? == some slash
  let body := joinSlash (cleanStack rooted (splitSlash p) [])
  if rooted then slash :: body else if body.isEmpty then [dot] else body

def dropTrailingSlashes (p : Bytes) : Bytes := (p.reverse.dropWhile (· == slash)).reverse

/-- `filepath.Base` -/
def base (p : Bytes) : Bytes :=
  if p.isEmpty then [dot] else
  let q := dropTrailingSlashes p
  let b := (q.reverse.takeWhile (· != slash)).reverse
  if b.isEmpty then [slash] else b

/-- `filepath.Dir` -/
def dir (p : Bytes) : Bytes :=
  -- everything up to and including the last slash, cleaned
  let upto := (p.reverse.dropWhile (· != slash)).reverse
  clean upto

/-- `filepath.Join`: empty elements ignored, result cleaned; all empty → "" -/
def pathJoin (elems : List Bytes) : Bytes :=
  let ne := elems.filter (!·.isEmpty)
  if ne.isEmpty then [] else clean (joinSlash ne)

end Mockery.Tmpl
