import MockeryModel.Tmpl.Funcs
/-
A reference evaluator for the fragment of Go's text/template that templated
configuration values use: literal text, `{{ pipeline }}` actions (with `{{-`/`-}}`
trimming), pipelines of `.Field`, string / integer literals, function calls
with parenthesised sub-expressions, and `|`.  Anything else (`if`, `range`,
variables, …) parses to `unmodelled` – the model then declines to answer
instead of guessing.

The fixpoint loop of `Config.ParseTemplates` (`Config/Resolve.lean`) is
parametric in the rendering function; this evaluator instantiates it for the
correspondence run.
-/
namespace Mockery.Tmpl

inductive Expr where
  | field (name : String)
  | str (s : Bytes)
  | int (i : Int)
  | call (fn : String) (args : List Expr)
  deriving Repr, Inhabited

inductive Node where
  | text (s : Bytes)
  /-- `e₁ | e₂ | …` : each later command receives the previous value as its last argument -/
  | action (pipeline : List Expr)
  deriving Repr, Inhabited

inductive TErr where
  | parse
  | exec (why : String)
  | unmodelled
  deriving Repr, DecidableEq, Inhabited

/-! ### lexer -/

inductive Tok where
  | field (n : String) | ident (n : String) | str (s : Bytes) | int (i : Int)
  | lparen | rparen | pipe | bad
  deriving Repr, Inhabited, DecidableEq

def isIdentStart (c : Char) : Bool := c.isAlpha || c == '_'
def isIdentChar (c : Char) : Bool := c.isAlphanum || c == '_'
def isSpaceC (c : Char) : Bool := c == ' ' || c == '\t' || c == '\n' || c == '\r'

def charBytes (c : Char) : Bytes := (String.singleton c).toUTF8.toList

/-- a Go interpreted string literal body up to the closing quote -/
def lexString : List Char → Bytes → Option (Bytes × List Char)
  | [], _ => none
  | '"' :: r, acc => some (acc.reverse, r)
  | '\\' :: c :: r, acc =>
    match c with
    | 'n' => lexString r (0x0A :: acc)
    | 't' => lexString r (0x09 :: acc)
    | '\\' => lexString r (0x5C :: acc)
    | '"' => lexString r (0x22 :: acc)
    | _ => none
  | '\n' :: _, _ => none
  | c :: r, acc => lexString r ((charBytes c).reverse ++ acc)

def lexRaw : List Char → Bytes → Option (Bytes × List Char)
  | [], _ => none
  | '`' :: r, acc => some (acc.reverse, r)
  | c :: r, acc => lexRaw r ((charBytes c).reverse ++ acc)

def takeWhileC (p : Char → Bool) : List Char → List Char × List Char
  | [] => ([], [])
  | c :: r => if p c then let (a, b) := takeWhileC p r; (c :: a, b) else ([], c :: r)

def lexAction : List Char → Nat → List Tok
  | _, 0 => [.bad]
  | [], _ => []
  | c :: r, fuel+1 =>
    if isSpaceC c then lexAction r fuel
    else if c == '(' then .lparen :: lexAction r fuel
    else if c == ')' then .rparen :: lexAction r fuel
    else if c == '|' then .pipe :: lexAction r fuel
    else if c == '"' then
      match lexString r [] with
      | some (s, rest) => .str s :: lexAction rest fuel
      | none => [.bad]
    else if c == '`' then
      match lexRaw r [] with
      | some (s, rest) => .str s :: lexAction rest fuel
      | none => [.bad]
    else if c == '.' then
      let (n, rest) := takeWhileC isIdentChar r
      if n.isEmpty then [.bad] else .field (String.ofList n) :: lexAction rest fuel
    else if c.isDigit || ((c == '-' || c == '+') && (match r with | d :: _ => d.isDigit | [] => false)) then
      let (ds, rest) := takeWhileC Char.isDigit (if c.isDigit then c :: r else r)
      -- a number must end at a delimiter
      match rest with
      | x :: _ => if isIdentChar x || x == '.' then [.bad] else
          let v : Int := (String.ofList ds).toNat!
          .int (if c == '-' then -v else v) :: lexAction rest fuel
      | [] =>
          let v : Int := (String.ofList ds).toNat!
          [.int (if c == '-' then -v else v)]
    else if isIdentStart c then
      let (n, rest) := takeWhileC isIdentChar (c :: r)
      .ident (String.ofList n) :: lexAction rest fuel
    else [.bad]

/-! ### parser (recursive descent with fuel) -/

mutual
/-- operand: field | literal | ( pipeline ) | bare function name (a call without arguments) -/
def parseOperand : List Tok → Nat → Option (Expr × List Tok)
  | _, 0 => none
  | .field n :: r, _ => some (.field n, r)
  | .str s :: r, _ => some (.str s, r)
  | .int i :: r, _ => some (.int i, r)
  | .ident f :: r, _ => some (.call f [], r)
  | .lparen :: r, fuel+1 =>
    match parsePipeline r fuel with
    | some (e, .rparen :: r') => some (e, r')
    | _ => none
  | _, _ => none

/-- operands until `|`, `)` or the end -/
def parseOperands : List Tok → Nat → Option (List Expr × List Tok)
  | _, 0 => none
  | [], _ => some ([], [])
  | .pipe :: r, _ => some ([], .pipe :: r)
  | .rparen :: r, _ => some ([], .rparen :: r)
  | ts, fuel+1 =>
    match parseOperand ts fuel with
    | some (e, r) =>
      match parseOperands r fuel with
      | some (es, r') => some (e :: es, r')
      | none => none
    | none => none

/-- command: `fn operand*` or a single operand -/
def parseCommand : List Tok → Nat → Option (Expr × List Tok)
  | _, 0 => none
  | .ident f :: r, fuel+1 =>
    match parseOperands r fuel with
    | some (args, r') => some (.call f args, r')
    | none => none
  | ts, fuel+1 =>
    match parseOperand ts fuel with
    | some (e, r) =>
      -- a non-function first operand followed by more operands is an execution error in Go; decline
      match r with
      | [] => some (e, r)
      | .pipe :: _ => some (e, r)
      | .rparen :: _ => some (e, r)
      | _ => none
    | none => none

/-- pipeline folded into one expression: `a | f x` becomes `f x a` -/
def parsePipeline : List Tok → Nat → Option (Expr × List Tok)
  | _, 0 => none
  | ts, fuel+1 =>
    match parseCommand ts fuel with
    | none => none
    | some (e, r) => parsePipeTail e r fuel

def parsePipeTail : Expr → List Tok → Nat → Option (Expr × List Tok)
  | _, _, 0 => none
  | e, .pipe :: r, fuel+1 =>
    match parseCommand r fuel with
    | some (.call f args, r') => parsePipeTail (.call f (args ++ [e])) r' fuel
    | _ => none
  | e, r, _ => some (e, r)
end

def keywords : List String := ["if", "else", "end", "range", "with", "define", "template", "block", "break", "continue", "nil", "true", "false"]

def hasKeywordOrVar (cs : List Char) : Bool :=
  cs.contains '$' || cs.contains '=' ||
  (lexAction cs (cs.length + 1)).any (fun t => match t with | .ident n => keywords.contains n | _ => false)

def strChars (s : String) : List Char := s.toList

/-- split the template text into literal text and actions; handles `{{-` and `-}}` -/
def parseNodes : List Char → Bytes → Nat → Except TErr (List Node)
  | _, _, 0 => .error .parse
  | [], acc, _ => .ok (if acc.isEmpty then [] else [.text acc.reverse])
  | '{' :: '{' :: r, acc, fuel+1 =>
    -- find the closing delimiter
    let rec findClose : List Char → List Char → Nat → Option (List Char × List Char)
      | _, _, 0 => none
      | [], _, _ => none
      | '}' :: '}' :: rest, body, _ => some (body.reverse, rest)
      | c :: rest, body, f+1 => findClose rest (c :: body) f
    match findClose r [] (r.length + 1) with
    | none => .error .parse
    | some (body, rest) =>
      -- trim markers: "{{- " trims preceding white space, " -}}" trims following white space
      let (trimL, body1) := match body with
        | '-' :: c :: b => if isSpaceC c then (true, b) else (false, body)
        | _ => (false, body)
      let rb := body1.reverse
      let (trimR, body2) := match rb with
        | '-' :: c :: b => if isSpaceC c then (true, b.reverse) else (false, body1)
        | _ => (false, body1)
      let acc' := if trimL then acc.dropWhile (fun b => b == 0x20 || b == 0x09 || b == 0x0A || b == 0x0D) else acc
      let rest' := if trimR then rest.dropWhile isSpaceC else rest
      if body2.all isSpaceC then .error .parse
      else if (match body2.dropWhile isSpaceC with | '/' :: '*' :: _ => true | _ => false) then .error .unmodelled
      else if hasKeywordOrVar body2 then .error .unmodelled
      else
        let toks := lexAction body2 (body2.length + 1)
        if toks.contains .bad then .error .unmodelled
        else match parsePipeline toks (toks.length + 2) with
          | some (e, []) =>
            match parseNodes rest' [] fuel with
            | .ok ns => .ok ((if acc'.isEmpty then [] else [Node.text acc'.reverse]) ++ Node.action [e] :: ns)
            | .error e => .error e
          | _ => .error .unmodelled
  | c :: r, acc, fuel+1 => parseNodes r ((charBytes c).reverse ++ acc) fuel

def parseTemplate (s : String) : Except TErr (List Node) :=
  let cs := strChars s
  parseNodes cs [] (cs.length + 1)

/-! ### evaluation -/

abbrev Env := List (String × Bytes)

def natDigits (n : Nat) : Bytes := (toString n).toUTF8.toList

/-- `fmt.Fprint` of a value, as text/template prints it -/
def printVal : Val → Bytes
  | .str s => s
  | .int i => if i < 0 then 0x2D :: natDigits i.natAbs else natDigits i.toNat
  | .bool true => "true".toUTF8.toList
  | .bool false => "false".toUTF8.toList
  | .strs l => [0x5B] ++ (join l [0x20]) ++ [0x5D]

def goBuiltins : List String := ["and", "or", "not", "len", "index", "slice", "print", "printf", "println",
  "html", "js", "urlquery", "call", "eq", "ne", "lt", "le", "gt", "ge"]

mutual
def evalExpr (U : UnicodeOps) (env : Env) : Expr → Except TErr Val
  | .field n => match env.find? (·.1 == n) with
    | some (_, v) => .ok (.str v)
    | none => .error (.exec s!"can't evaluate field {n}")
  | .str s => .ok (.str s)
  | .int i => .ok (.int i)
  | .call f args =>
    -- text/template's own predefined functions are outside the model
    if goBuiltins.contains f then .error .unmodelled else
    match evalArgs U env args with
    | .error e => .error e
    | .ok vs =>
      match funcApply U f vs with
      | .ok v => .ok v
      | .error .unmodelled => .error .unmodelled
      | .error (.templateError w) => .error (.exec w)
      | .error .badArgs => .error (.exec "wrong type or number of arguments")
def evalArgs (U : UnicodeOps) (env : Env) : List Expr → Except TErr (List Val)
  | [] => .ok []
  | e :: es => match evalExpr U env e with
    | .error x => .error x
    | .ok v => match evalArgs U env es with
      | .error x => .error x
      | .ok vs => .ok (v :: vs)
end

def evalNodes (U : UnicodeOps) (env : Env) : List Node → Except TErr Bytes
  | [] => .ok []
  | .text s :: r => (evalNodes U env r).map (s ++ ·)
  | .action p :: r =>
    match p with
    | [e] => match evalExpr U env e with
      | .error x => .error x
      | .ok v => (evalNodes U env r).map (printVal v ++ ·)
    | _ => .error .unmodelled

/-- parse + execute one templated value -/
def renderTemplate (U : UnicodeOps) (env : Env) (s : String) : Except TErr Bytes :=
  match parseTemplate s with
  | .error e => .error e
  | .ok ns => evalNodes U env ns

end Mockery.Tmpl
