import MockeryModel.Tmpl.Bytes
import MockeryModel.Tmpl.Path
import MockeryModel.Tmpl.UnicodeTable
import MockeryModel.Generated.FuncMap
/-
Model of the template function library (`/repo/template_funcs`).

* `std callee args` — reference semantics of every callee the table mentions:
  the Go standard-library function *with the standard library's argument order*
  (`strings.Contains(s, substr)`, …), plus the repository's own `Exported`,
  `FirstIsLower` and integer helpers (transcribed from functions.go).
* `applyEntry` — what a FuncMap entry does with the arguments a template passes:
  a closure entry permutes them as the regenerated table says, a direct entry
  passes them through.
* `funcApply name args` — lookup in the *regenerated* table `Generated.funcMap`.
-/
namespace Mockery.Tmpl

/-- Unicode classification and case mapping: a parameter of the model
(Lean core has no Unicode tables); instantiated by `tableOps` in the driver. -/
structure UnicodeOps where
  isLetter : Nat → Bool
  isUpper : Nat → Bool
  isLower : Nat → Bool
  isSpace : Nat → Bool
  toUpper : Nat → Nat
  toLower : Nat → Nat
  /-- code points the instance knows -/
  known : Nat → Bool

def inRanges (c : Nat) : Bool := unicodeRanges.any (fun r => r.1 ≤ c && c ≤ r.2)

def tableRow (c : Nat) : Nat × Nat × Nat × Nat :=
  match unicodeTable.find? (·.1 == c) with
  | some r => r
  | none => (c, 0, c, c)

/-- ASCII arithmetically, the covered ranges through the generated table. -/
def tableOps : UnicodeOps where
  isLetter c := if c < 0x80 then (0x41 ≤ c && c ≤ 0x5A) || (0x61 ≤ c && c ≤ 0x7A) else (tableRow c).2.1 % 2 == 1
  isUpper c := if c < 0x80 then 0x41 ≤ c && c ≤ 0x5A else (tableRow c).2.1 / 2 % 2 == 1
  isLower c := if c < 0x80 then 0x61 ≤ c && c ≤ 0x7A else (tableRow c).2.1 / 4 % 2 == 1
  isSpace c := if c < 0x80 then c == 0x20 || (0x09 ≤ c && c ≤ 0x0D) else (tableRow c).2.1 / 8 % 2 == 1
  toUpper c := if c < 0x80 then (if 0x61 ≤ c && c ≤ 0x7A then c - 0x20 else c) else (tableRow c).2.2.1
  toLower c := if c < 0x80 then (if 0x41 ≤ c && c ≤ 0x5A then c + 0x20 else c) else (tableRow c).2.2.2
  known c := c < 0x80 || inRanges c

/-- values a template can pass to / get from a library function -/
inductive Val where
  | str (s : Bytes)
  | int (i : Int)
  | bool (b : Bool)
  | strs (l : List Bytes)
  deriving DecidableEq, Repr

inductive Err where
  /-- the function call fails with a template error (Go: recovered panic or returned error) -/
  | templateError (why : String)
  /-- arguments do not fit the function's signature (text/template rejects the call) -/
  | badArgs
  /-- outside the model (environment, regexp engine, floats, randomness, xstrings word splitting, unknown code points) -/
  | unmodelled
  deriving DecidableEq, Repr

abbrev R := Except Err Val

/-- Go `int` on the platforms mockery supports is 64-bit two's complement -/
def wrap64 (i : Int) : Int := Int.bmod i (2 ^ 64)

/-! ### the repository's own helpers (template_funcs/functions.go) -/

def addI (i1 : Int) (rest : List Int) : Int := rest.foldl (fun a b => wrap64 (a + b)) i1
def subI (i1 : Int) (rest : List Int) : Int := rest.foldl (fun a b => wrap64 (a - b)) i1
def mulI (i1 : Int) (rest : List Int) : Int := rest.foldl (fun a b => wrap64 (a * b)) i1
/-- cumulative truncated division; `none` when a divisor is zero (Go: run-time panic, turned into a template error) -/
def divI (i1 : Int) : List Int → Option Int
  | [] => some i1
  | d :: ds => if d == 0 then none else divI (wrap64 (Int.tdiv i1 d)) ds
def modI (i1 : Int) : List Int → Option Int
  | [] => some i1
  | d :: ds => if d == 0 then none else modI (Int.tmod i1 d) ds
def minI : List Int → Option Int
  | [] => none
  | x :: xs => some (xs.foldl min x)

def mapRunes (U : UnicodeOps) (f : Nat → Nat) (s : Bytes) : Option Bytes :=
  let rs := runes s
  if rs.all (fun r => U.known r.1) then some (rs.flatMap (fun r => encodeRune (f r.1))) else none

def isAscii (s : Bytes) : Bool := s.all (· < 0x80)

/-- `strings.ToUpper` (invalid bytes become U+FFFD when the string is not pure ASCII) -/
def toUpperS (U : UnicodeOps) (s : Bytes) : Option Bytes :=
  if isAscii s then some (s.map asciiUpper) else mapRunes U U.toUpper s
def toLowerS (U : UnicodeOps) (s : Bytes) : Option Bytes :=
  if isAscii s then some (s.map asciiLower) else mapRunes U U.toLower s

def strBytes (s : String) : Bytes := s.toUTF8.toList

/-- `template_funcs.Exported` as it is in the tree (after `fix: …Exported…`):
empty → empty; a golint initialism (compared after upper-casing the whole
string) → the initialism; otherwise the first *rune* upper-cased (a string that does not start with
valid UTF-8 is returned unchanged). -/
def exported (U : UnicodeOps) (initialisms : List Bytes) (s : Bytes) : Option Bytes :=
  if s.isEmpty then some [] else
  match toUpperS U s with
  | none => none
  | some up =>
    match initialisms.find? (fun i => i == up) with
    | some i => some i
    | none =>
      let d := decodeRune s
      if d.1 == runeError then some s
      else if U.known d.1 then some (encodeRune (U.toUpper d.1) ++ s.drop d.2) else none

/-- `template_funcs.FirstIsLower` (after the fix): first rune is a lower-case letter -/
def firstIsLower (U : UnicodeOps) (s : Bytes) : Option Bool :=
  if s.isEmpty then some false else
  let d := decodeRune s
  if U.known d.1 then some (U.isLetter d.1 && U.isLower d.1) else none

/-- `xstrings.FirstRuneToUpper` / `FirstRuneToLower`: empty → empty; decode the
first rune (an invalid byte decodes to U+FFFD, width 1); only a rune of the
opposite case (`cond`) is replaced by its mapping. -/
def firstRuneMap (U : UnicodeOps) (cond : Nat → Bool) (f : Nat → Nat) (s : Bytes) : Option Bytes :=
  if s.isEmpty then some [] else
  let d := decodeRune s
  if !U.known d.1 then none
  else if !cond d.1 then some s else some (encodeRune (f d.1) ++ s.drop d.2)

def regexpSpecial : Bytes := strBytes "\\.+*?()|[]{}^$"
/-- `regexp.QuoteMeta` -/
def quoteMeta (s : Bytes) : Bytes := s.flatMap (fun b => if regexpSpecial.contains b then [0x5C, b] else [b])

def trimSpaceLeft (U : UnicodeOps) : Bytes → Nat → Option Bytes
  | [], _ => some []
  | s, 0 => some s
  | s@(_ :: _), fuel+1 =>
    let d := decodeRune s
    if !U.known d.1 then none
    else if U.isSpace d.1 then trimSpaceLeft U (s.drop d.2) fuel else some s

def trimSpaceRight (U : UnicodeOps) : Bytes → Nat → Option Bytes
  | [], _ => some []
  | s, 0 => some s
  | s, fuel+1 =>
    let d := decodeLastRune s
    if !U.known d.1 then none
    else if U.isSpace d.1 then trimSpaceRight U (s.take (s.length - d.2)) fuel else some s

/-- `strings.TrimSpace` -/
def trimSpace (U : UnicodeOps) (s : Bytes) : Option Bytes :=
  match trimSpaceLeft U s s.length with
  | none => none
  | some t => trimSpaceRight U t t.length

def optR (o : Option Bytes) : R := match o with | some b => .ok (.str b) | none => .error .unmodelled

def ints : List Val → Option (List Int)
  | [] => some []
  | .int i :: t => (ints t).map (i :: ·)
  | _ :: _ => none

inductive ArithOp where | add | sub | mul | div | mod | min | incr | decr
  deriving DecidableEq, Repr

def arithOfCallee : String → Option ArithOp
  | "Add[int]" => some .add | "Sub[int]" => some .sub | "Mul[int]" => some .mul | "Div[int]" => some .div
  | "Mod[int]" => some .mod | "Min[int]" => some .min | "Incr[int]" => some .incr | "Decr[int]" => some .decr
  | _ => none

def wrongArgs : R := .error (.templateError "wrong number of args")

/-- the integer helpers on a list of arguments (`functions.go`); a zero divisor
or an empty `min` is a Go run-time panic that text/template turns into a
template error -/
def evalArith : ArithOp → List Int → R
  | .incr, [i] => .ok (.int (wrap64 (i + 1)))
  | .decr, [i] => .ok (.int (wrap64 (i - 1)))
  | .incr, _ => wrongArgs
  | .decr, _ => wrongArgs
  | .add, i :: r => .ok (.int (addI i r))
  | .sub, i :: r => .ok (.int (subI i r))
  | .mul, i :: r => .ok (.int (mulI i r))
  | .div, i :: r => (match divI i r with | some v => .ok (.int v) | none => .error (.templateError "integer divide by zero"))
  | .mod, i :: r => (match modI i r with | some v => .ok (.int v) | none => .error (.templateError "integer divide by zero"))
  | .min, l => (match minI l with | some v => .ok (.int v) | none => .error (.templateError "slices.Min: empty list"))
  | _, [] => wrongArgs

/-- Reference semantics of a callee, arguments in the *callee's own* order. -/
def std (U : UnicodeOps) (initialisms : List Bytes) (callee : String) (args : List Val) : R :=
  match callee, args with
  | "strings.Contains", [.str s, .str sub] => .ok (.bool (contains s sub))
  | "strings.HasPrefix", [.str s, .str p] => .ok (.bool (hasPrefix s p))
  | "strings.HasSuffix", [.str s, .str p] => .ok (.bool (hasSuffix s p))
  | "strings.Join", [.strs l, .str sep] => .ok (.str (join l sep))
  | "strings.Replace", [.str s, .str o, .str n, .int k] => .ok (.str (replace s o n k))
  | "strings.ReplaceAll", [.str s, .str o, .str n] => .ok (.str (replaceAll s o n))
  | "strings.Split", [.str s, .str sep] => .ok (.strs (split s sep))
  | "strings.SplitAfter", [.str s, .str sep] => .ok (.strs (splitAfter s sep))
  | "strings.SplitAfterN", [.str s, .str sep, .int n] => .ok (.strs (splitAfterN s sep n))
  | "strings.Trim", [.str s, .str c] => .ok (.str (trim s c))
  | "strings.TrimLeft", [.str s, .str c] => .ok (.str (trimLeft s c))
  | "strings.TrimRight", [.str s, .str c] => .ok (.str (trimRight s c))
  | "strings.TrimPrefix", [.str s, .str p] => .ok (.str (trimPrefix s p))
  | "strings.TrimSuffix", [.str s, .str p] => .ok (.str (trimSuffix s p))
  | "strings.TrimSpace", [.str s] => optR (trimSpace U s)
  | "strings.ToLower", [.str s] => optR (toLowerS U s)
  | "strings.ToUpper", [.str s] => optR (toUpperS U s)
  | "Exported", [.str s] => optR (exported U initialisms s)
  | "FirstIsLower", [.str s] =>
    match firstIsLower U s with
    | some b => .ok (.bool b)
    | none => .error .unmodelled
  | "xstrings.FirstRuneToLower", [.str s] => optR (firstRuneMap U U.isUpper U.toLower s)
  | "xstrings.FirstRuneToUpper", [.str s] => optR (firstRuneMap U U.isLower U.toUpper s)
  | "regexp.QuoteMeta", [.str s] => .ok (.str (quoteMeta s))
  | "filepath.Base", [.str s] => .ok (.str (base s))
  | "filepath.Clean", [.str s] => .ok (.str (clean s))
  | "filepath.Dir", [.str s] => .ok (.str (dir s))
  | c, args =>
    match arithOfCallee c with
    | some op => (match ints args with | some l => evalArith op l | none => .error .badArgs)
    | none =>
    if c ∈ ["xstrings.ToCamelCase", "xstrings.ToSnakeCase", "xstrings.ToKebabCase", "regexp.MatchString",
            "ReadFile", "os.ExpandEnv", "os.Getenv", "math.Ceil", "math.Floor", "math.Round", "rand.Int"]
    then .error .unmodelled else .error .badArgs

/-- callee argument `k` is the template argument at index `perm[k]` -/
def permute (perm : List Nat) (args : List Val) : Option (List Val) :=
  if perm.length == args.length then perm.mapM (fun i => args[i]?) else none

def applyEntry (U : UnicodeOps) (ini : List Bytes) (e : String × String × Option (List Nat)) (args : List Val) : R :=
  match e.2.2 with
  | none => std U ini e.2.1 args
  | some perm =>
    match permute perm args with
    | some a => std U ini e.2.1 a
    | none => .error .badArgs

def lookupFn (table : List (String × String × Option (List Nat))) (name : String) :=
  table.find? (·.1 == name)

/-- what `{{ name args… }}` evaluates to, by the regenerated table -/
def funcApply (U : UnicodeOps) (name : String) (args : List Val) : R :=
  match lookupFn Generated.funcMap name with
  | some e => applyEntry U Generated.golintInitialismsB e args
  | none => .error .badArgs

end Mockery.Tmpl
