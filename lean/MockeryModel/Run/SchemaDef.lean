/-
JSON-schema subset (draft-07: `type`, `properties`, `required`,
`additionalProperties`) and JSON values, for template-data validation (C12).
-/
namespace Mockery.Run

inductive JVal where
  | null
  | bool (b : Bool)
  | int (i : Int)
  | num (text : String)      -- non-integral number
  | str (s : String)
  | arr (l : List JVal)
  | obj (kvs : List (String × JVal))
  deriving Repr, Inhabited

inductive Schema where
  | mk (type : Option String) (properties : List (String × Schema)) (required : List String)
       (additionalProperties : Bool)
  deriving Repr, Inhabited

def Schema.type : Schema → Option String | .mk t _ _ _ => t
def Schema.properties : Schema → List (String × Schema) | .mk _ p _ _ => p
def Schema.required : Schema → List String | .mk _ _ r _ => r
def Schema.additionalProperties : Schema → Bool | .mk _ _ _ a => a

end Mockery.Run
