import MockeryModel.Run.Schema
/-
Which schema a `Generate` call validates against and what it validates
(`getTemplate`, `validateSchema` in `/repo/internal/template_generator.go`).
Retrieval of remote files is a parameter (`fetch`).
-/
namespace Mockery.Run

def isRemoteTemplate (name : String) : Bool :=
  name.startsWith "file://" || name.startsWith "https://" || name.startsWith "http://"

structure GenRequest where
  template : String
  /-- resolved `template-schema` -/
  schemaURL : String
  requireSchema : Bool
  /-- file-level template-data and the template-data of every interface in the file -/
  fileData : JVal
  ifaceData : List JVal
  deriving Repr, Inhabited

structure World where
  /-- built-in template name ↦ its embedded schema -/
  builtin : String → Option Schema
  /-- retrievable remote templates -/
  templateExists : String → Bool
  /-- remote schema by URL (`none`: not retrievable / not a schema) -/
  fetchSchema : String → Option Schema

inductive TemplateOutcome where
  /-- template found; `schema = none` means no validation is performed -/
  | found (schema : Option Schema)
  | error
  deriving Repr, Inhabited

/-- `getTemplate` -/
def getTemplate (w : World) (g : GenRequest) : TemplateOutcome :=
  if isRemoteTemplate g.template then
    if !w.templateExists g.template then .error
    else if g.requireSchema then
      match w.fetchSchema g.schemaURL with
      | some s => .found (some s)
      | none => .error
    else .found none
  else
    match w.builtin g.template with
    | some s => .found (some s)
    | none => .error

/-- `validateSchema`: file-level data, then every interface's data -/
def validateAll (s : Schema) (g : GenRequest) : Bool :=
  validate s g.fileData && g.ifaceData.all (validate s)

/-- the two stage results the run model consumes: (templateOk, validateOk) -/
def stages (w : World) (g : GenRequest) : Bool × Bool :=
  match getTemplate w g with
  | .error => (false, false)
  | .found none => (true, true)
  | .found (some s) => (true, validateAll s g)

end Mockery.Run
