/-
A small file-system model shared by C10 (output files) and C18 (`mockery init`):
the state of one path and `open(2)` with the flags the code passes.
-/
namespace Mockery.Run

inductive PathState where
  | absent
  | file (content : String)
  | dir
  deriving DecidableEq, Repr, Inhabited

inductive OpenResult where
  | ok
  | errExist
  | errIsDir
  | errNotExist
  deriving DecidableEq, Repr

/-- open a path with the given `os.O_*` flags and write `content` through the handle.
`O_EXCL|O_CREATE` fails on anything that exists; without `O_TRUNC` an existing file keeps its
tail beyond the new content. -/
def openWrite (flags : List String) (st : PathState) (content : String) : PathState × OpenResult :=
  match st with
  | .dir => (.dir, .errIsDir)
  | .absent => if flags.contains "O_CREATE" then (.file content, .ok) else (.absent, .errNotExist)
  | .file old =>
    if flags.contains "O_CREATE" && flags.contains "O_EXCL" then (.file old, .errExist)
    else if flags.contains "O_TRUNC" then (.file content, .ok)
    else (.file (content ++ (old.drop content.length).toString), .ok)

end Mockery.Run
