import MockeryModel.Run.SchemaDef
import MockeryModel.Generated.Schemas
/-
Validation of a JSON value against the schema subset, as gojsonschema does it
for the keywords in the subset.
-/
namespace Mockery.Run

def typeMatches (t : String) : JVal → Bool
  | .null => t == "null"
  | .bool _ => t == "boolean"
  | .int _ => t == "integer" || t == "number"
  | .num _ => t == "number"
  | .str _ => t == "string"
  | .arr _ => t == "array"
  | .obj _ => t == "object"

def lookupKV {α} (k : String) : List (String × α) → Option α
  | [] => none
  | (k', v) :: r => if k' = k then some v else lookupKV k r

mutual
def validate : Schema → JVal → Bool
  | .mk t props req addl, v =>
    (match t with | some ty => typeMatches ty v | none => true) &&
    (match v with
     | .obj kvs =>
       req.all (fun k => (lookupKV k kvs).isSome) &&
       validateProps props addl kvs
     | _ => true)
def validateProps (props : List (String × Schema)) (addl : Bool) : List (String × JVal) → Bool
  | [] => true
  | (k, v) :: rest =>
    (match lookupKV k props with
     | some s => validate s v
     | none => addl) && validateProps props addl rest
end

end Mockery.Run
