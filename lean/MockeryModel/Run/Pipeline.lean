import MockeryModel.Run.FS
import MockeryModel.Generated.RunFacts
/-
The write path of a normal run (`RootApp.Run`, `/repo/internal/cmd/mockery.go`, and
`TemplateGenerator.Generate`): what happens to the file system and to the exit
status, as a function of which stage of which output file succeeds.

Everything up to the per-file loop (config initialisation, package loading,
selection, template resolution, output-file uniformity checks) happens before
the first write; an error there ends the run with status 1 and no change.
Then, per output file in (unspecified) order: template retrieval → schema
validation → template execution → formatting, all in memory; `MkdirAll(parent)`;
existence check gated by force-file-write; one `WriteFile`.  The first failure
ends the run.  Missing listed interfaces turn the status to 1 after all files
were written.
-/
namespace Mockery.Run

abbrev FS := String → PathState

def FS.set (fs : FS) (p : String) (s : PathState) : FS := fun q => if q = p then s else fs q

structure FileJob where
  path : String
  /-- the force-file-write value consulted for this file -/
  force : Bool
  templateOk : Bool
  validateOk : Bool
  executeOk : Bool
  formatOk : Bool
  /-- `MkdirAll(parent)` succeeds -/
  parentOk : Bool
  /-- the complete rendered and formatted content -/
  content : String
  deriving Repr, Inhabited, DecidableEq

def FileJob.stagesOk (j : FileJob) : Bool := j.templateOk && j.validateOk && j.executeOk && j.formatOk

/-- one output file: `none` = the run stops here with an error (nothing written for this file) -/
def stepJob (fs : FS) (j : FileJob) : Option FS :=
  if !j.stagesOk then none
  else if !j.parentOk then none
  else match fs j.path with
    | .absent => some (fs.set j.path (.file j.content))
    | .file _ => if j.force then some (fs.set j.path (.file j.content)) else none
    | .dir => none   -- exists: without force "outfile exists", with force WriteFile fails on a directory

/-- the per-file loop: stops at the first failure; files handled before it stay written -/
def processJobs : List FileJob → FS → FS × Bool
  | [], fs => (fs, true)
  | j :: js, fs =>
    match stepJob fs j with
    | none => (fs, false)
    | some fs' => processJobs js fs'

structure RunInput where
  /-- config initialisation failed / no packages / a package failed to load / selection,
  template resolution or an output-file uniformity check failed -/
  earlyError : Bool
  jobs : List FileJob
  /-- some listed interface does not exist in the source -/
  missing : Bool
  deriving Repr, Inhabited

/-- exit status: `true` = 0 -/
def run (i : RunInput) (fs : FS) : FS × Bool :=
  if i.earlyError then (fs, false)
  else
    let (fs', ok) := processJobs i.jobs fs
    (fs', ok && !i.missing)

/-- would this file be written if it were the only one? -/
def jobOk (fs : FS) (j : FileJob) : Bool :=
  j.stagesOk && j.parentOk && (match fs j.path with | .absent => true | .file _ => j.force | .dir => false)

end Mockery.Run
