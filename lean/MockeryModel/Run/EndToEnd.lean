import MockeryModel.Run.Plan
import MockeryModel.Run.Pipeline
/-
The whole run as one function: the composition of configuration initialisation and selection (C07, C08),
template resolution and per-file collection (C11, `Run/Plan.lean`) and the per-file pipeline
(`Run/Pipeline.lean`: C06, C09, C10, C12), in the order of `RootApp.Run`.
-/
namespace Mockery.Run
open Mockery.Config

/-- everything a run depends on besides the configuration tree and the file system -/
structure World where
  ft : FieldTable
  matcher : Matcher
  subPkgs : String → List String
  srcs : List SrcPkg
  configFile : String
  cwd : String
  srcOf : String → String → SrcInfo
  /-- rendering one output file: stage outcomes, force flag and content (C12, C14, C01 speak about these) -/
  render : Collection → FileJob

/-- the whole run: initialise the configuration, select, resolve, collect per output file, render and write -/
def endToEnd (w : World) (t : Tree) (fs : FS) : FS × Bool :=
  match initializeFull w.ft w.matcher w.subPkgs t with
  | .error _ => (fs, false)
  | .ok pkgs =>
    match selected w.matcher pkgs w.srcs with
    | .error _ => (fs, false)
    | .ok mocks =>
      match planAll w.configFile w.cwd w.srcOf mocks with
      | .error _ => (fs, false)
      | .ok planned =>
        match group planned with
        | .error _ => (fs, false)
        | .ok cs =>
          run ⟨false, cs.map (fun c => { w.render c with path := c.path }), !(missing pkgs w.srcs).isEmpty⟩ fs

end Mockery.Run
