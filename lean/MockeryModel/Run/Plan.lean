import MockeryModel.Config.Select
import MockeryModel.Config.Resolve
/-
From the selected mocks to output files (`RootApp.Run` in `/repo/internal/cmd/mockery.go`, the loop
that fills `mockFileToInterfaces`; `InterfaceCollection.Append`; `Config.FilePath`).

Every selected (package, interface, configs entry) has its templated parameters resolved
(`ParseTemplates`, C11), its output file is `Clean(dir/filename)`, and the mocks are collected per
output file in discovery order; a file can only hold mocks of one source package, one `pkgname` and
one `template` – otherwise the run fails before anything is rendered.
-/
namespace Mockery.Run
open Mockery.Config Mockery.Tmpl

structure PlannedMock where
  srcPkg : String
  iface : String
  entry : Nat
  /-- `Clean(dir/filename)` after template resolution -/
  path : String
  pkgName : String
  template : String
  structName : String
  deriving Repr, DecidableEq, Inhabited

structure Collection where
  path : String
  srcPkg : String
  pkgName : String
  template : String
  mocks : List PlannedMock
  deriving Repr, DecidableEq, Inhabited

inductive PlanErr where
  /-- "all mocks in an output file must have the same pkgname" -/
  | pkgName
  /-- "… must come from the same source package" -/
  | srcPkg
  /-- "… must use the same template" -/
  | template
  /-- a templated parameter did not resolve (C11) -/
  | resolve (e : RErr)
  | select (e : SelErr)
  deriving Repr, DecidableEq

/-- `InterfaceCollection.Append` (the path check is the map key) -/
def Collection.append (c : Collection) (m : PlannedMock) : Except PlanErr Collection :=
  if c.pkgName ≠ m.pkgName then .error .pkgName
  else if c.srcPkg ≠ m.srcPkg then .error .srcPkg
  else if c.template ≠ m.template then .error .template
  else .ok { c with mocks := c.mocks ++ [m] }

/-- add a mock to the collection of its output file, creating it from the mock's own attributes if new -/
def addMock : List Collection → PlannedMock → Except PlanErr (List Collection)
  | [], m => .ok [⟨m.path, m.srcPkg, m.pkgName, m.template, [m]⟩]
  | c :: rest, m =>
    if c.path = m.path then
      match c.append m with
      | .ok c' => .ok (c' :: rest)
      | .error e => .error e
    else
      match addMock rest m with
      | .ok rest' => .ok (c :: rest')
      | .error e => .error e

def groupFrom : List Collection → List PlannedMock → Except PlanErr (List Collection)
  | cs, [] => .ok cs
  | cs, m :: ms =>
    match addMock cs m with
    | .ok cs' => groupFrom cs' ms
    | .error e => .error e

/-- the output files of a run, in order of first use -/
def group (ms : List PlannedMock) : Except PlanErr (List Collection) := groupFrom [] ms

/-! ### planning one mock -/

/-- `pathlib.NewPath(dir).Join(filename).Clean()` -/
def filePath (dir file : String) : String :=
  bs (clean (if dir.isEmpty then sb file else sb dir ++ [slash] ++ sb file))

/-- what the run knows about the source of an interface -/
structure SrcInfo where
  /-- absolute file name of the declaring file -/
  file : String
  pkgName : String
  exported : Bool
  deriving Repr, Inhabited

/-- resolve the templated parameters of one selected mock and compute its output file -/
def planMock (configFile cwd : String) (src : SrcInfo) (m : Mock) : Except PlanErr PlannedMock :=
  let vs := ["dir", "filename", "pkgname", "structname", "template-schema"].map (strOf m.cfg)
  let b : BindInput := ⟨configFile, some ⟨m.iface, src.file⟩, cwd, src.pkgName, m.pkg, strOf m.cfg "structname",
    strOf m.cfg "template", src.exported⟩
  match resolve (renderWith tableOps (bind b)) vs with
  | .ok [dir, file, pkgname, structname, _] =>
    .ok ⟨m.pkg, m.iface, m.entry, filePath dir file, pkgname, strOf m.cfg "template", structname⟩
  | .ok _ => .error (.resolve .unmodelled)
  | .error e => .error (.resolve e)

def planAll (configFile cwd : String) (srcOf : String → String → SrcInfo) : List Mock → Except PlanErr (List PlannedMock)
  | [] => .ok []
  | m :: ms =>
    match planMock configFile cwd (srcOf m.pkg m.iface) m, planAll configFile cwd srcOf ms with
    | .ok p, .ok ps => .ok (p :: ps)
    | .error e, _ => .error e
    | _, .error e => .error e

end Mockery.Run
