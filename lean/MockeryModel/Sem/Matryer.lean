import MockeryModel.Generated.MatryerBody
/-
Behaviour of a matryer-style mock (`/repo/internal/mock_matryer.templ`).

The emitted method bodies are *data*: `harness/verifx/matryerbody.go` translates the
template text into statement lists (`Generated.matryerCallBody`, …) on every run;
`parseStmt` reads them into the statement language below and `execStmts` is its
semantics.  Values are opaque tokens: the template never looks inside an argument.
Locking is C05's subject and is a no-op here.
-/
namespace Mockery.Sem.Matryer

abbrev Val := String

inductive Cond where
  | stub | notStub | returns | notReturns | other (s : String)
  deriving Repr, DecidableEq, Inhabited

inductive Kind where
  /-- declarations that execute nothing: signature, record type fields, `var` block of zero values -/
  | decl
  /-- `if <M>Func == nil { panic(msg) }` -/
  | nilPanic (msg : String)
  /-- the record literal: one field per parameter, in parameter order, holding that parameter -/
  | recordFields
  | lock | unlock | rlock | runlock
  /-- `calls.<M> = append(calls.<M>, callInfo)` -/
  | append
  /-- `calls.<M> = nil` -/
  | clear
  /-- `calls = mock.calls.<M>` -/
  | snapshot
  | returnCalls
  /-- `if <M>Func == nil { return <zero values> }` -/
  | nilReturnZero
  /-- `[return] mock.<M>Func(<all arguments, variadic one expanded>)` -/
  | forward
  | unknown (s : String)
  deriving Repr, DecidableEq, Inhabited

structure Stmt where
  conds : List Cond
  kind : Kind
  deriving Repr, DecidableEq, Inhabited

def parseCond : String → Cond
  | "stub-impl" => .stub
  | "not-stub-impl" => .notStub
  | "returns" => .returns
  | "not-returns" => .notReturns
  | s => .other s

def parseKind (nilBlock kind detail : String) : Kind :=
  match nilBlock, kind, detail with
  | "no", "signature", _ => .decl
  | "no", "record-field-type", "exported(param) type" => .decl
  | "nil", "zero-var", "result type" => .decl
  | "nil", "panic", msg => .nilPanic msg
  | "no", "record-field", "exported(param): param" => .recordFields
  | "no", "lock", _ => .lock
  | "no", "unlock", _ => .unlock
  | "no", "rlock", _ => .rlock
  | "no", "runlock", _ => .runlock
  | "no", "append", "callInfo" => .append
  | "no", "clear", _ => .clear
  | "no", "snapshot", _ => .snapshot
  | "no", "return-calls", _ => .returnCalls
  | "nil", "return-zero", _ => .nilReturnZero
  | "no", "forward", "return ARGCALL" => .forward
  | "no", "forward", "ARGCALL" => .forward
  | n, k, d => .unknown (n ++ ":" ++ k ++ ":" ++ d)

def parseStmt (t : List String × String × String × String) : Stmt :=
  ⟨t.1.map parseCond, parseKind t.2.1 t.2.2.1 t.2.2.2⟩

structure Cfg where
  stubImpl : Bool
  withResets : Bool
  deriving Repr, DecidableEq

def condHolds (cfg : Cfg) (hasResults : Bool) : Cond → Bool
  | .stub => cfg.stubImpl
  | .notStub => !cfg.stubImpl
  | .returns => hasResults
  | .notReturns => !hasResults
  | .other _ => false

/-- the Go function the template emits under a configuration -/
def emitted (cfg : Cfg) (hasResults : Bool) (body : List Stmt) : List Kind :=
  (body.filter (fun s => s.conds.all (condHolds cfg hasResults))).map (·.kind)

/-- mock state: the records per method, and (ghost) what the user's functions were invoked with -/
structure MSt where
  calls : String → List (List Val)
  invoked : List (String × List Val)
  /-- (ghost) how many records of its method each invocation of a user function could already see
  through `<M>Calls()` – the mock may be re-entered from inside the function -/
  seen : List Nat := []

def setCalls (f : String → List (List Val)) (m : String) (v : List (List Val)) : String → List (List Val) :=
  fun k => if k = m then v else f k

inductive Outcome where
  | running
  | returned (vals : List Val)
  | panicked (msg : String)
  | gotCalls (records : List (List Val))
  deriving Repr, DecidableEq, Inhabited

/-- one invocation of an emitted function -/
structure Frame where
  method : String
  args : List Val
  /-- the user's `<M>Func`: `none` is nil; applied to the arguments it yields the results -/
  func : Option (List Val → List Val)
  /-- the zero values of the result types -/
  zero : List Val

structure Exec where
  st : MSt
  info : Option (List Val)
  snap : Option (List (List Val))
  out : Outcome

def execKind (fr : Frame) (e : Exec) (k : Kind) : Exec :=
  match e.out with
  | .running =>
    match k with
    | .decl | .lock | .unlock | .rlock | .runlock => e
    | .nilPanic msg => if fr.func.isNone then { e with out := .panicked msg } else e
    | .recordFields => { e with info := some fr.args }
    | .append =>
      match e.info with
      | some i => { e with st := { e.st with calls := setCalls e.st.calls fr.method (e.st.calls fr.method ++ [i]) } }
      | none => { e with out := .panicked "unmodelled: append before the record was built" }
    | .clear => { e with st := { e.st with calls := setCalls e.st.calls fr.method [] } }
    | .snapshot => { e with snap := some (e.st.calls fr.method) }
    | .returnCalls =>
      match e.snap with
      | some r => { e with out := .gotCalls r }
      | none => { e with out := .gotCalls [] }
    | .nilReturnZero => if fr.func.isNone then { e with out := .returned fr.zero } else e
    | .forward =>
      match fr.func with
      | some f => { e with st := { e.st with invoked := e.st.invoked ++ [(fr.method, fr.args)],
                                                seen := e.st.seen ++ [(e.st.calls fr.method).length] },
                           out := .returned (f fr.args) }
      | none => { e with out := .panicked "runtime error: invalid memory address or nil pointer dereference" }
    | .unknown s => { e with out := .panicked ("unmodelled: " ++ s) }
  | _ => e

def execKinds (fr : Frame) (st : MSt) (ks : List Kind) : MSt × Outcome :=
  let e := ks.foldl (execKind fr) ⟨st, none, none, .running⟩
  (e.st, match e.out with
    | .running => .returned []     -- fell off the end of a function without results
    | o => o)

/-! ### the regenerated bodies -/

def callBody : List Stmt := Mockery.Generated.matryerCallBody.map parseStmt
def callsBody : List Stmt := Mockery.Generated.matryerCallsBody.map parseStmt
def resetOneBody : List Stmt := Mockery.Generated.matryerResetOneBody.map parseStmt
def resetAllBody : List Stmt := Mockery.Generated.matryerResetAllBody.map parseStmt

/-- the template text the theorems are about -/
def expectedCallBody : List Stmt :=
  [⟨[], .decl⟩,
   ⟨[.notStub], .nilPanic "STRUCT.METHODFunc: method is nil but IFACE.METHOD was just called"⟩,
   ⟨[], .decl⟩, ⟨[], .recordFields⟩, ⟨[], .lock⟩, ⟨[], .append⟩, ⟨[], .unlock⟩,
   ⟨[.returns, .stub], .decl⟩, ⟨[.returns, .stub], .nilReturnZero⟩, ⟨[.returns], .forward⟩,
   ⟨[.notReturns, .stub], .nilReturnZero⟩, ⟨[.notReturns], .forward⟩]
def expectedCallsBody : List Stmt :=
  [⟨[], .decl⟩, ⟨[], .decl⟩, ⟨[], .decl⟩, ⟨[], .rlock⟩, ⟨[], .snapshot⟩, ⟨[], .runlock⟩, ⟨[], .returnCalls⟩]
def expectedResetBody : List Stmt := [⟨[], .decl⟩, ⟨[], .lock⟩, ⟨[], .clear⟩, ⟨[], .unlock⟩]

/-! ### operations on a mock -/

inductive Op where
  | call (fr : Frame) (hasResults : Bool)
  | calls (m : String)
  | reset (m : String)
  | resetAll (ms : List String)

def frameOf (m : String) : Frame := ⟨m, [], none, []⟩

structure Bodies where
  call : List Stmt
  calls : List Stmt
  resetOne : List Stmt
  resetAll : List Stmt

def expectedBodies : Bodies := ⟨expectedCallBody, expectedCallsBody, expectedResetBody, expectedResetBody⟩
def generatedBodies : Bodies := ⟨callBody, callsBody, resetOneBody, resetAllBody⟩

def stepB (b : Bodies) (cfg : Cfg) (st : MSt) : Op → MSt × Outcome
  | .call fr hasResults => execKinds fr st (emitted cfg hasResults b.call)
  | .calls m => execKinds (frameOf m) st (emitted cfg false b.calls)
  | .reset m => execKinds (frameOf m) st (emitted cfg false b.resetOne)
  | .resetAll ms => (ms.foldl (fun s m => (execKinds (frameOf m) s (emitted cfg false b.resetAll)).1) st, .returned [])

/-- the semantics the theorems are about -/
def step (cfg : Cfg) (st : MSt) (op : Op) : MSt × Outcome := stepB expectedBodies cfg st op

def run (cfg : Cfg) (st : MSt) (ops : List Op) : MSt × List Outcome :=
  ops.foldl (fun (acc : MSt × List Outcome) op => let r := step cfg acc.1 op; (r.1, acc.2 ++ [r.2])) (st, [])

/-! ### the specification: what the records should be, from the history alone -/

/-- is the call recorded (and does it return)? a nil `<M>Func` without `stub-impl` panics before recording -/
def recordedCall (cfg : Cfg) (fr : Frame) : Bool := fr.func.isSome || cfg.stubImpl

def specStep (cfg : Cfg) (recs : String → List (List Val)) : Op → (String → List (List Val))
  | .call fr _ => if recordedCall cfg fr then setCalls recs fr.method (recs fr.method ++ [fr.args]) else recs
  | .calls _ => recs
  | .reset m => setCalls recs m []
  | .resetAll ms => fun k => if k ∈ ms then [] else recs k

end Mockery.Sem.Matryer
