import MockeryModel.Sem.Conc
/-
An executable version of `Conc.Step` over finitely many threads (lists instead of functions), a
race detector on states, and a seeded scheduler: what the driver runs next to the real stress test.
`MockeryProps/C05.lean` (`xstep_sound`) shows that every executable step is a `Step` of the
abstracted state, so the theorems about all interleavings cover everything the scheduler can do.
-/
namespace Mockery.Sem.Conc

structure XSt where
  log : Loc → List Nat
  hist : Loc → List Nat
  th : List Thread

def idle : Thread := ⟨[], [], .none, false⟩

def XSt.thread (s : XSt) (i : Nat) : Thread := s.th.getD i idle
def XSt.logOf (s : XSt) (m : Nat) : List Nat := s.log m
def XSt.histOf (s : XSt) (m : Nat) : List Nat := s.hist m

/-- the abstraction to the state space of `Step` -/
def XSt.abs (s : XSt) : St := ⟨s.log, s.hist, s.thread⟩

def freeB (s : XSt) (m : Loc) : Bool := s.th.all (fun t => t.held != .w m && t.held != .r m)
def noWriterB (s : XSt) (m : Loc) : Bool := s.th.all (fun t => t.held != .w m)

/-- one step of thread `i`, if it has one and is not blocked -/
def xstep (s : XSt) (i : Nat) : Option XSt :=
  if i < s.th.length then
    let t := s.thread i
    match t.cont with
    | [] => none
    | .lock m :: rest =>
      if t.held = .none ∧ freeB s m then some { s with th := s.th.set i { t with cont := rest, held := .w m, loaded := false } } else none
    | .unlock m :: rest =>
      if t.held = .w m then some { s with th := s.th.set i { t with cont := rest, held := .none, loaded := false } } else none
    | .rlock m :: rest =>
      if t.held = .none ∧ noWriterB s m then some { s with th := s.th.set i { t with cont := rest, held := .r m, loaded := false } } else none
    | .runlock m :: rest =>
      if t.held = .r m then some { s with th := s.th.set i { t with cont := rest, held := .none, loaded := false } } else none
    | .load m :: rest => some { s with th := s.th.set i { t with cont := rest, tmp := s.log m, loaded := true } }
    | .storeApp m x :: rest =>
      some { log := upd s.log m (t.tmp ++ [x]), hist := upd s.hist m (s.hist m ++ [x]),
             th := s.th.set i { t with cont := rest, loaded := false } }
    | .storeNil m :: rest =>
      some { log := upd s.log m [], hist := upd s.hist m [],
             th := s.th.set i { t with cont := rest, loaded := false } }
    | .snap _ :: rest => some { s with th := s.th.set i { t with cont := rest } }
    | .loc :: rest => some { s with th := s.th.set i { t with cont := rest } }
  else none

/-- two different threads are about to access the same log, one of them writing -/
def raceB (s : XSt) : Bool :=
  let heads := (s.th.zipIdx).filterMap (fun (t, i) => match t.cont with
    | a :: _ => (access a).map (fun (m, w) => (i, m, w))
    | [] => none)
  heads.any (fun (i, m, w) => heads.any (fun (j, m', w') => i != j && m == m' && (w || w')))

structure RunResult where
  final : XSt
  raced : Bool
  deadlocked : Bool
  steps : Nat

/-- run with a linear-congruential scheduler until every thread is done, nothing can move, or fuel runs out -/
def run : Nat → Nat → XSt → Bool → Nat → RunResult
  | 0, _, s, raced, n => ⟨s, raced, false, n⟩
  | fuel + 1, seed, s, raced, n =>
    let raced := raced || raceB s
    let enabled := (List.range s.th.length).filter (fun i => (xstep s i).isSome)
    if enabled.isEmpty then ⟨s, raced, s.th.any (fun t => !t.cont.isEmpty), n⟩
    else
      let seed' := (seed * 1103515245 + 12345) % 2147483648
      let i := enabled.getD ((seed' / 65536) % enabled.length) 0
      match xstep s i with
      | some s' => run fuel seed' s' raced (n + 1)
      | none => ⟨s, raced, true, n⟩

end Mockery.Sem.Conc
