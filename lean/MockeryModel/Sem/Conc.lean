/-
Concurrent use of a matryer-style mock (`/repo/internal/mock_matryer.templ`): every
method has its own call log (`calls.<Method>`) guarded by its own `sync.RWMutex`
(`lock<Method>`).  Threads run straight-line programs over atomic actions; the
emitted method bodies are such programs (`progOfSchema` builds them from the
regenerated lock/access sequences of `Generated/TemplateFacts.lean`).

`Step` is one atomic step of one thread: lock acquisition follows the RWMutex
contract (a writer excludes everybody, readers exclude writers); `storeApp`
writes back the slice read by the preceding `load` with one element appended –
exactly what `x = append(x, v)` compiles to, so an append outside the critical
section loses updates in the model as it does in Go.  `hist` is ghost state: the
values appended since the last clear, in the order the appends took effect.
-/
namespace Mockery.Sem.Conc

abbrev Tid := Nat
abbrev Loc := Nat

inductive Act where
  | lock (m : Loc) | unlock (m : Loc)
  | rlock (m : Loc) | runlock (m : Loc)
  | load (m : Loc)
  | storeApp (m : Loc) (x : Nat)
  | storeNil (m : Loc)
  | snap (m : Loc)
  | loc
deriving DecidableEq, Repr

inductive Held where
  | none | w (m : Loc) | r (m : Loc)
deriving DecidableEq, Repr

structure Thread where
  cont : List Act
  tmp : List Nat
  held : Held
  loaded : Bool
deriving Repr

structure St where
  log : Loc → List Nat
  hist : Loc → List Nat
  th : Tid → Thread

def upd (f : Nat → α) (i : Nat) (v : α) : Nat → α := fun j => if j = i then v else f j

@[simp] theorem upd_same (f : Nat → α) (i : Nat) (v : α) : upd f i v i = v := by simp [upd]
@[simp] theorem upd_other (f : Nat → α) {i j : Nat} (v : α) (h : j ≠ i) : upd f i v j = f j := by simp [upd, h]

def free (s : St) (m : Loc) : Prop := ∀ j, (s.th j).held ≠ .w m ∧ (s.th j).held ≠ .r m
def noWriter (s : St) (m : Loc) : Prop := ∀ j, (s.th j).held ≠ .w m

/-- one atomic step of thread `i` -/
inductive Step : St → Tid → St → Prop
  | lock {s i m rest} : (s.th i).cont = .lock m :: rest → (s.th i).held = .none → free s m →
      Step s i { s with th := upd s.th i { (s.th i) with cont := rest, held := .w m, loaded := false } }
  | unlock {s i m rest} : (s.th i).cont = .unlock m :: rest → (s.th i).held = .w m →
      Step s i { s with th := upd s.th i { (s.th i) with cont := rest, held := .none, loaded := false } }
  | rlock {s i m rest} : (s.th i).cont = .rlock m :: rest → (s.th i).held = .none → noWriter s m →
      Step s i { s with th := upd s.th i { (s.th i) with cont := rest, held := .r m, loaded := false } }
  | runlock {s i m rest} : (s.th i).cont = .runlock m :: rest → (s.th i).held = .r m →
      Step s i { s with th := upd s.th i { (s.th i) with cont := rest, held := .none, loaded := false } }
  | load {s i m rest} : (s.th i).cont = .load m :: rest →
      Step s i { s with th := upd s.th i { (s.th i) with cont := rest, tmp := s.log m, loaded := true } }
  | storeApp {s i m x rest} : (s.th i).cont = .storeApp m x :: rest →
      Step s i { s with log := upd s.log m ((s.th i).tmp ++ [x]), hist := upd s.hist m (s.hist m ++ [x]),
                        th := upd s.th i { (s.th i) with cont := rest, loaded := false } }
  | storeNil {s i m rest} : (s.th i).cont = .storeNil m :: rest →
      Step s i { s with log := upd s.log m [], hist := upd s.hist m [],
                        th := upd s.th i { (s.th i) with cont := rest, loaded := false } }
  | snap {s i m rest} : (s.th i).cont = .snap m :: rest →
      Step s i { s with th := upd s.th i { (s.th i) with cont := rest } }
  | loc {s i rest} : (s.th i).cont = .loc :: rest →
      Step s i { s with th := upd s.th i { (s.th i) with cont := rest } }

/-- lock discipline of a continuation, given what is held and whether tmp is a valid copy -/
def wb : Held → Bool → List Act → Bool
  | .none, _, [] => true
  | .none, _, .lock m :: r => wb (.w m) false r
  | .none, _, .rlock m :: r => wb (.r m) false r
  | .none, l, .loc :: r => wb .none l r
  | .w m, _, .unlock m' :: r => m = m' && wb .none false r
  | .w m, _, .load m' :: r => m = m' && wb (.w m) true r
  | .w m, true, .storeApp m' _ :: r => m = m' && wb (.w m) false r
  | .w m, _, .storeNil m' :: r => m = m' && wb (.w m) false r
  | .w m, l, .snap m' :: r => m = m' && wb (.w m) l r
  | .w m, l, .loc :: r => wb (.w m) l r
  | .r m, _, .runlock m' :: r => m = m' && wb .none false r
  | .r m, l, .snap m' :: r => m = m' && wb (.r m) l r
  | .r m, l, .loc :: r => wb (.r m) l r
  | _, _, _ => false

structure Inv (s : St) : Prop where
  disc : ∀ i, wb (s.th i).held (s.th i).loaded (s.th i).cont = true
  excl : ∀ i j m, i ≠ j → (s.th i).held = .w m → (s.th j).held ≠ .w m ∧ (s.th j).held ≠ .r m
  valid : ∀ i m, (s.th i).held = .w m → (s.th i).loaded = true → (s.th i).tmp = s.log m
  lin : ∀ m, s.log m = s.hist m

def access : Act → Option (Loc × Bool)   -- (location, isWrite)
  | .load m => some (m, false)
  | .snap m => some (m, false)
  | .storeApp m _ => some (m, true)
  | .storeNil m => some (m, true)
  | _ => none

def Race (s : St) : Prop :=
  ∃ i j a b ra rb m wa wb', i ≠ j ∧ (s.th i).cont = a :: ra ∧ (s.th j).cont = b :: rb ∧
    access a = some (m, wa) ∧ access b = some (m, wb') ∧ (wa = true ∨ wb' = true)


/-! ### executions -/

inductive Reach (s0 : St) : St → Prop
  | refl : Reach s0 s0
  | step {s i s'} : Reach s0 s → Step s i s' → Reach s0 s'

/-! ### the emitted method bodies as programs -/

/-- one token of a regenerated schema (`lock`, `append`, …) as actions on the log `m` -/
def actsOfToken (m : Loc) (x : Nat) : String → Option (List Act)
  | "lock" => some [.lock m]
  | "unlock" => some [.unlock m]
  | "rlock" => some [.rlock m]
  | "runlock" => some [.runlock m]
  | "append" => some [.load m, .storeApp m x]
  | "clear" => some [.storeNil m]
  | "snapshot" => some [.snap m]
  | _ => none

def progOfSchema (m : Loc) (x : Nat) : List String → Option (List Act)
  | [] => some []
  | t :: ts => match actsOfToken m x t, progOfSchema m x ts with
    | some a, some r => some (a ++ r)
    | _, _ => none

/-- the programs of the unchanged template -/
def callProg (m : Loc) (x : Nat) : List Act := [.loc, .lock m, .load m, .storeApp m x, .unlock m, .loc]
def callsProg (m : Loc) : List Act := [.rlock m, .snap m, .runlock m]
def resetProg (m : Loc) : List Act := [.lock m, .storeNil m, .unlock m]
def resetAllProg : List Loc → List Act
  | [] => []
  | m :: ms => resetProg m ++ resetAllProg ms

/-- what a client does with a mock -/
inductive Op where
  | call (m : Loc) (x : Nat)
  | calls (m : Loc)
  | reset (m : Loc)
  | resetAll (ms : List Loc)
  deriving Repr, DecidableEq

def Op.prog : Op → List Act
  | .call m x => callProg m x
  | .calls m => callsProg m
  | .reset m => resetProg m
  | .resetAll ms => resetAllProg ms

def progOfOps : List Op → List Act
  | [] => []
  | o :: os => o.prog ++ progOfOps os

end Mockery.Sem.Conc
