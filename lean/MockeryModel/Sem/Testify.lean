/-
Behaviour of a testify-style mock (`/repo/internal/mock_testify.templ`) on top of a model of
testify's `mock.Mock` (v1.10.0: `On`, `MethodCalled`, `findExpectedCall`, `Arguments.Diff`,
`AssertExpectations`).  Values are opaque tokens.

The generated layer:
* the method body packs the arguments for `Called` in one of three ways (`calledArgs`),
  then extracts the results (`extract`);
* the expecter method registers `On(name, args...)` with the variadic matchers spread;
* the typed `Run`, `Return`, `RunAndReturn` wrappers register callbacks / return values.
-/
namespace Mockery.Sem.Testify

abbrev Val := String

structure Sig where
  name : String
  /-- number of ordinary (non-variadic) parameters -/
  nparams : Nat
  variadic : Bool
  nresults : Nat
  deriving Repr, DecidableEq

/-- a call as the client writes it -/
structure CallArgs where
  ords : List Val
  /-- the variadic parameter as one value (the nil slice when nothing was passed) -/
  varSlice : Val
  /-- and its elements -/
  varElems : List Val
  deriving Repr, DecidableEq

/-- **argument packing** of the method body (the three branches of the preamble) -/
def calledArgs (unroll : Bool) (sig : Sig) (a : CallArgs) : List Val :=
  if !sig.variadic then a.ords
  else if unroll then a.ords ++ a.varElems
  else if a.varElems.isEmpty then a.ords
  else a.ords ++ [a.varSlice]

/-- what a typed callback (`Run`, `RunAndReturn`, a provider) is handed: the parameters of the call -/
def typedArgs (sig : Sig) (a : CallArgs) : List Val :=
  if sig.variadic then a.ords ++ [a.varSlice] else a.ords

/-! ### testify's `mock.Mock` -/

inductive Matcher where
  | anything
  | exact (v : Val)
  deriving Repr, DecidableEq

/-- `Arguments.Diff(...) == 0`: position by position up to the longer list; a missing actual argument is
matched by `mock.Anything` only, a missing expected one by nothing -/
def diffZero : List Matcher → List Val → Bool
  | [], [] => true
  | [], _ :: _ => false
  | .anything :: ms, [] => diffZero ms []
  | .exact _ :: _, [] => false
  | .anything :: ms, _ :: as => diffZero ms as
  | .exact v :: ms, a :: as => v == a && diffZero ms as

inductive RetVal where
  /-- a value given to `Return` -/
  | val (v : Val)
  /-- a per-result function `func(args) R`: when called it reports and returns `v` -/
  | provider (v : Val)
  /-- a whole function `func(args) (R0, R1, …)` (`RunAndReturn`) -/
  | wholeFunc (vs : List Val)
  deriving Repr, DecidableEq

structure Expectation where
  id : Nat
  method : String
  matchers : List Matcher
  rets : List RetVal
  /-- a `RunFn` is registered; the label tells which wrapper registered it (`run` / `fn`) -/
  run : Option String
  /-- testify's `Repeatability`: 0 any number of times, n > 0 that many more, -1 used up -/
  repeatability : Int
  totalCalls : Nat
  deriving Repr, DecidableEq

structure Mock where
  expected : List Expectation
  calls : List (String × List Val)
  deriving Repr, DecidableEq

def Expectation.matchesCall (e : Expectation) (m : String) (args : List Val) : Bool :=
  e.method == m && diffZero e.matchers args

/-- `findExpectedCall`: the first expectation that matches and still has repetitions left -/
def findExpected (es : List Expectation) (m : String) (args : List Val) : Option Expectation :=
  es.find? (fun e => e.matchesCall m args && decide (e.repeatability > -1))

def consume (e : Expectation) : Expectation :=
  { e with repeatability := if e.repeatability = 1 then -1 else if e.repeatability > 1 then e.repeatability - 1 else e.repeatability,
           totalCalls := e.totalCalls + 1 }

/-- replace the first element satisfying `p` -/
def updateFirst (p : Expectation → Bool) (f : Expectation → Expectation) : List Expectation → List Expectation
  | [] => []
  | e :: es => if p e then f e :: es else e :: updateFirst p f es

/-- `MethodCalled`: `none` is `m.fail(...)` – the test fails and nothing is returned -/
def called (mk : Mock) (m : String) (args : List Val) : Option (Mock × Expectation) :=
  match findExpected mk.expected m args with
  | none => none
  | some e =>
    some ({ expected := updateFirst (fun x => x.matchesCall m args && decide (x.repeatability > -1)) consume mk.expected,
            calls := mk.calls ++ [(m, args)] }, e)

/-- `checkExpectation` for every expectation, as `AssertExpectations` (registered as the test's cleanup) does -/
def expectationMet (mk : Mock) (e : Expectation) : Bool :=
  !(!(mk.calls.any (fun c => e.matchesCall c.1 c.2)) && e.totalCalls == 0) && !(decide (e.repeatability > 0))

def assertExpectations (mk : Mock) : Bool := mk.expected.all (expectationMet mk)

/-! ### the generated method -/

inductive Ev where
  /-- a typed callback ran: label (`run`, `fn`, `provider`), expectation id, result index (providers), arguments -/
  | saw (label : String) (id : Nat) (idx : Option Nat) (args : List Val)
  | returned (vs : List Val)
  | panicked (cls : String)
  | failed
  deriving Repr, DecidableEq

/-- extraction of result `i` from the return arguments -/
def extractOne (e : Expectation) (typed : List Val) (i : Nat) : List Ev × Option Val :=
  match e.rets[i]? with
  | none => ([], none)                        -- `Get(i)` out of range
  | some (.val v) => ([], some v)
  | some (.provider v) => ([.saw "provider" e.id (some i) typed], some v)
  | some (.wholeFunc _) => ([], none)         -- a function where a value is expected: the assertion fails

def extractAll (e : Expectation) (typed : List Val) : Nat → Nat → List Ev × Option (List Val)
  | _, 0 => ([], some [])
  | i, n + 1 =>
    match extractOne e typed i, extractAll e typed (i + 1) n with
    | (evs, some v), (evs', some vs) => (evs ++ evs', some (v :: vs))
    | (evs, none), _ => (evs, none)
    | (evs, some _), (evs', none) => (evs ++ evs', none)

/-- the method body after `Called` returned the expectation's return arguments -/
def extract (sig : Sig) (e : Expectation) (typed : List Val) : List Ev :=
  if sig.nresults = 0 then [.returned []]
  else
    match e.rets with
    | [] => [.panicked ("no-return-value " ++ sig.name)]
    | [.wholeFunc vs] => [.saw "fn" e.id none typed, .returned vs]
    | _ =>
      match extractAll e typed 0 sig.nresults with
      | (evs, some vs) => evs ++ [.returned vs]
      | (evs, none) => evs ++ [.panicked "conversion"]

/-- one call of a mocked method -/
def invoke (unroll : Bool) (sig : Sig) (mk : Mock) (a : CallArgs) : Mock × List Ev :=
  match called mk sig.name (calledArgs unroll sig a) with
  | none => (mk, [.failed])
  | some (mk', e) =>
    let typed := typedArgs sig a
    (mk', (match e.run with
           | some label => [.saw label e.id none typed]
           | none => []) ++ extract sig e typed)

/-! ### the expecter and the typed wrappers -/

inductive Style where
  | ret (vs : List Val)
  | runRet (vs : List Val)
  | runAndReturn (vs : List Val)
  | providers (rs : List RetVal)
  | none
  deriving Repr, DecidableEq

/-- `EXPECT().M(ords…, vars…)` followed by the style's wrapper calls and `Once()` / `Twice()`:
the matchers are the ordinary ones followed by the variadic ones, element by element -/
def expect (sig : Sig) (mk : Mock) (id : Nat) (ords vars : List Matcher) (style : Style) (times : Nat) : Mock :=
  let (rets, run) : List RetVal × Option String := match style with
    | .ret vs => (vs.map .val, none)
    | .runRet vs => (vs.map .val, some "run")
    | .runAndReturn vs => if sig.nresults = 0 then ([], some "fn") else ([.wholeFunc vs], none)
    | .providers rs => (rs, none)
    | .none => ([], none)
  { mk with expected := mk.expected ++ [⟨id, sig.name, ords ++ vars, rets, run, (times : Int), 0⟩] }

end Mockery.Sem.Testify
