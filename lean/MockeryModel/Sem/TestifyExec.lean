import MockeryModel.Gen.TestifyEmit
import MockeryModel.Sem.Testify
/-!
Meaning of the statements the testify template emits for one mocked method (`Gen/TestifyEmit.emitBody`,
compared token for token with the generator's output on every C03 case): an interpreter over the model of
testify's `mock.Mock` (`Sem/Testify`: `called`), and the closure the typed `Run` wrapper registers
(`Gen/TestifyEmit.runText`) as a function on `mock.Arguments`.

`Sem/Testify.invoke` is the *specification* of one call (pack the arguments, look the expectation up,
run the callback, extract the results); `MockeryLemmas/TestifyExec` proves that interpreting the emitted
statements refines it for every method shape.
-/
namespace Mockery.Sem.TestifyExec
open Mockery.Gen.TestifyEmit
open Mockery.Sem.Testify

/-- what the model assumes about Go values (tokens) -/
structure World where
  /-- the slice holding these elements (the harness identifies the nil and the empty slice) -/
  mkSlice : List Val → Val
  /-- a value that, stored in an `interface{}`, compares equal to `nil` -/
  isNilIface : Val → Bool
  /-- the zero value of result `i` -/
  zero : Nat → Val

def sigOf (sh : Shape) : Sig := ⟨sh.name, sh.params.length, sh.isVariadic, sh.results.length⟩

/-- the closure registered by the typed `Run` wrapper, applied to the `mock.Arguments` testify hands it:
`arg<i> = args[i]` for the ordinary parameters (index out of range panics: `none`), the variadic parameter
rebuilt element by element with unroll-variadic, taken from position `n` (when present) without -/
def unpackRun (w : World) (sh : Shape) (args : List Val) : Option (List Val) :=
  let n := sh.params.length
  if args.length < n then none
  else
    some (args.take n ++
      (if sh.isVariadic then
        (if sh.unroll then [w.mkSlice (args.drop n)]
         else [match args[n]? with
               | some v => v
               | none => w.mkSlice []])
       else []))

structure St where
  mock : Mock
  evs : List Ev := []
  va : List Val := []
  ca : List Val := []
  tmpRet : Option Expectation := none
  ret : Option Expectation := none
  rs : List Val := []

inductive Res where
  | cont (s : St)
  | stop (mock : Mock) (evs : List Ev)

def St.rets (st : St) : List RetVal := (st.ret.map (·.rets)).getD []
def St.retId (st : St) : Nat := (st.ret.map (·.id)).getD 0

/-- `_mock.Called(args...)`: testify's `MethodCalled`, which fails the test when nothing matches and runs the
registered `RunFn` (the closure of the typed `Run` wrapper) before it returns the return arguments -/
def callWith (w : World) (sh : Shape) (st : St) (args : List Val) (k : St → Expectation → Res) : Res :=
  match called st.mock sh.name args with
  | none => .stop st.mock (st.evs ++ [.failed])
  | some (mk', e) =>
    match e.run with
    | none => k { st with mock := mk' } e
    | some label =>
      match unpackRun w sh args with
      | some typed => k { st with mock := mk', evs := st.evs ++ [.saw label e.id none typed] } e
      | none => .stop mk' (st.evs ++ [.panicked "run-wrapper"])

/-- the parameters as the method body names them: `a, b, rest` -/
def typedOf (sh : Shape) (a : CallArgs) : List Val :=
  a.ords ++ (if sh.isVariadic then [a.varSlice] else [])

/-- the arguments written in a `Called(...)` expression -/
def srcArgs (sh : Shape) (a : CallArgs) (st : St) : Src → List Val
  | .plain => a.ords ++ (if sh.isVariadic then a.varElems else [])   -- `Called(a, b, rest...)`
  | .ca => st.ca
  | .tmpRet => []
  | .empty => []

def step (w : World) (sh : Shape) (a : CallArgs) (st : St) : Stmt → Res
  | .declTmpRet => .cont st
  | .calledRolled assign =>
    -- `if len(rest) > 0 { Called(ords, rest) } else { Called(ords) }`
    let args := if a.varElems.isEmpty then a.ords
                else if sh.unroll then a.ords ++ a.varElems else a.ords ++ [a.varSlice]
    callWith w sh st args (fun st' e => .cont (if assign then { st' with tmpRet := some e } else st'))
  | .convertVa => .cont { st with va := a.varElems }
  | .declCa => .cont { st with ca := [] }
  | .appendOrds => .cont { st with ca := st.ca ++ a.ords }
  | .appendVar useVa => .cont { st with ca := st.ca ++ (if useVa then st.va else a.varElems) }
  | .calledStmt s =>
    if s == .empty then .cont st
    else if s == .tmpRet then .cont st
    else callWith w sh st (srcArgs sh a st s) (fun st' _ => .cont st')
  | .bindRet s =>
    if s == .tmpRet then .cont { st with ret := st.tmpRet }
    else if s == .empty then .cont { st with ret := none }
    else callWith w sh st (srcArgs sh a st s) (fun st' e => .cont { st' with ret := some e })
  | .panicIfEmpty =>
    if st.rets.isEmpty then .stop st.mock (st.evs ++ [.panicked ("no-return-value " ++ sh.name)]) else .cont st
  | .declResult i => .cont { st with rs := st.rs ++ [w.zero i] }
  | .wholeFunc ellipsisType _ =>
    -- the assertion succeeds for the function type `RunAndReturn` registers: `func(a A, rest ...T) (R0, R1)`
    match (st.rets[0]? : Option RetVal) with
    | some (.wholeFunc vs) =>
      if ellipsisType || !sh.isVariadic then .stop st.mock (st.evs ++ [.saw "fn" st.retId none (typedOf sh a), .returned vs])
      else .cont st
    | _ => .cont st
  | .extractResult i =>
    match (st.rets[i]? : Option RetVal) with
    | none => .stop st.mock (st.evs ++ [.panicked "conversion"])          -- `Get(i)` panics
    | some (.provider v) =>
      .cont { st with evs := st.evs ++ [.saw "provider" st.retId (some i) (typedOf sh a)], rs := st.rs.set i v }
    | some (.wholeFunc vs) =>
      -- with one result `func(args) R0` *is* the provider type
      if sh.results.length = 1 then
        match vs with
        | [v] => .cont { st with evs := st.evs ++ [.saw "fn" st.retId none (typedOf sh a)], rs := st.rs.set i v }
        | _ => .stop st.mock (st.evs ++ [.panicked "conversion"])
      else .stop st.mock (st.evs ++ [.panicked "conversion"])
    | some (.val v) =>
      match resultKind sh i with
      | .plain => if w.isNilIface v then .stop st.mock (st.evs ++ [.panicked "conversion"]) else .cont { st with rs := st.rs.set i v }
      | _ => if w.isNilIface v then .cont st else .cont { st with rs := st.rs.set i v }   -- `if ret.Get(i) != nil`
  | .returnResults => .stop st.mock (st.evs ++ [.returned st.rs])

def run (w : World) (sh : Shape) (a : CallArgs) : St → List Stmt → Mock × List Ev
  | st, [] => (st.mock, st.evs)      -- fell off the end (no `return`): does not happen for `emitBody`
  | st, s :: rest =>
    match step w sh a st s with
    | .cont st' => run w sh a st' rest
    | .stop mk evs => (mk, evs)

/-- one call of the mocked method as the template emits it -/
def invokeEmitted (w : World) (sh : Shape) (mk : Mock) (a : CallArgs) : Mock × List Ev :=
  run w sh a { mock := mk } (emitBody sh)

end Mockery.Sem.TestifyExec

namespace Mockery.Sem.TestifyExec
open Mockery.Gen.TestifyEmit
open Mockery.Sem.Testify

/-- the return arguments the typed wrappers can register for a method of this shape: nothing; the one
function given to `RunAndReturn` (returning as many values as the method has results); or values /
per-result functions, where a value that is a nil interface stands at a nillable result and is that result's
zero value (the typed `Return` accepts nothing else) -/
def RetsOK (w : World) (sh : Shape) (rets : List RetVal) : Prop :=
  rets = [] ∨ (∃ vs, rets = [.wholeFunc vs] ∧ vs.length = sh.results.length) ∨
  (∀ i : Nat, match (rets[i]? : Option RetVal) with
        | some (.wholeFunc _) => False
        | some (.val v) => w.isNilIface v = true → resultKind sh i ≠ .plain ∧ v = w.zero i
        | _ => True)

end Mockery.Sem.TestifyExec
