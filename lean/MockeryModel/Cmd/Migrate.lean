import MockeryModel.Config.Value
import MockeryModel.Generated.MigrateMap
/-
`mockery migrate` (`/repo/internal/cmd/migrate.go`): a v2 configuration tree is
mapped, level by level, to a v3 tree by the key table regenerated from
`migrateConfig` (`Generated.migrateMap`).  YAML decoding / encoding is outside
the model: a config level is the list of keys that are set, with their values.
-/
namespace Mockery.Cmd
open Mockery.Config

/-- (v2 key, goes to template-data?, v3 key) -/
abbrev MigRow := String × Bool × String

def migTable : List MigRow :=
  Generated.migrateMap.map (fun r => (r.1, r.2.1 == "template-data", r.2.2.1))

def tdOfVal : Val → TD
  | .b true => .leaf "true"
  | .b false => .leaf "false"
  | .s s => .leaf (toString (repr s))   -- canonical text of a string scalar; only equality matters
  | .l _ => .leaf "<list>"
  | .m kvs => .node kvs
  | .r _ => .leaf "<replace>"

/-- the plain v3 fields produced for one level -/
def migrateFields (tbl : List MigRow) (v2 : Cfg) : Cfg :=
  (tbl.filter (fun r => !r.2.1)).filterMap (fun r => (v2.get r.1).map (fun v => (r.2.2, v)))

/-- the template-data entries produced for one level: key ↦ the v2 value -/
def migrateTD (tbl : List MigRow) (v2 : Cfg) : List (String × Val) :=
  (tbl.filter (fun r => r.2.1)).filterMap (fun r => (v2.get r.1).map (fun v => (r.2.2, v)))

structure V3Level where
  fields : Cfg
  templateData : List (String × Val)
  deriving Repr, Inhabited

/-- `migrateConfig` on a level that is present (`nil` levels stay `nil`, see `migrateOpt`) -/
def migrateLevel (tbl : List MigRow) (v2 : Cfg) : V3Level := ⟨migrateFields tbl v2, migrateTD tbl v2⟩

def migrateOpt (tbl : List MigRow) (v2 : Option Cfg) : Option V3Level := v2.map (migrateLevel tbl)

structure V2Iface where
  config : Option Cfg
  configs : List Cfg
  deriving Repr, Inhabited

structure V2Pkg where
  config : Option Cfg
  interfaces : List (String × V2Iface)
  deriving Repr, Inhabited

structure V2Root where
  config : Cfg
  packages : List (String × V2Pkg)
  deriving Repr, Inhabited

structure V3Iface where
  config : Option V3Level
  configs : List V3Level
  deriving Repr, Inhabited

structure V3Pkg where
  config : Option V3Level
  interfaces : List (String × V3Iface)
  deriving Repr, Inhabited

structure V3Root where
  /-- top level: the migrated keys plus `template: testify` -/
  config : V3Level
  packages : List (String × V3Pkg)
  deriving Repr, Inhabited

def migrate (tbl : List MigRow) (r : V2Root) : V3Root :=
  let top := migrateLevel tbl r.config
  { config := { top with fields := top.fields ++ [("template", .s "testify")] },
    packages := r.packages.map (fun (n, p) =>
      (n, { config := migrateOpt tbl p.config,
            interfaces := p.interfaces.map (fun (i, ic) =>
              (i, { config := migrateOpt tbl ic.config, configs := ic.configs.map (migrateLevel tbl) })) })) }

end Mockery.Cmd
