import MockeryModel.Run.FS
import MockeryModel.Config.Select
import MockeryModel.Generated.InitFacts
/-
`mockery init <package>` (`/repo/internal/cmd/init.go`): exclusive creation of the
target file; its content is the loader's defaults plus `packages: {<package>: {config: {all: true}}}`.
YAML encoding is outside the model: the written file is the configuration tree it denotes.
-/
namespace Mockery.Cmd
open Mockery.Config Mockery.Run

/-- the configuration `init` writes -/
def initConfig (ft : FieldTable) (pkg : String) (allValue : Bool) : Tree :=
  { root := defaultsCfg ft,
    packages := [(pkg, some ⟨some [("all", .b allValue)], []⟩)] }

structure InitOutcome where
  state : PathState
  exitOk : Bool
  deriving Repr

/-- `rendered` is the YAML text of `initConfig` (encoding is a parameter) -/
def initRun (flags : List String) (st : PathState) (rendered : String) : InitOutcome :=
  let (st', r) := openWrite flags st rendered
  ⟨st', r == .ok⟩

end Mockery.Cmd
