/-
Model of the release tagger (`/repo/tools/cmd/tag.go`).

A repository is its list of tags (ref name, lightweight or annotated, the name
recorded inside an annotated tag object, target commit), the commit `HEAD`
points at and whether the work tree is clean.  Parsing a version string is a
parameter (`Masterminds/semver` is outside the model); *precedence* is modelled
(`Version.key` + `lexCmp`) and proved to be a strict total order, because
"strictly greater than every existing tag" is the property.
-/
namespace Mockery.Tools

/-- lexicographic comparison; a proper prefix is smaller -/
def lexCmp {α} (c : α → α → Ordering) : List α → List α → Ordering
  | [], [] => .eq
  | [], _ :: _ => .lt
  | _ :: _, [] => .gt
  | a :: as, b :: bs => match c a b with
    | .eq => lexCmp c as bs
    | o => o

def natCmp (a b : Nat) : Ordering := compare a b

/-- a pre-release identifier: numeric identifiers sort before alphanumeric ones, numerically;
alphanumeric ones in ASCII order -/
inductive PreId where
  | num (n : Nat)
  | alnum (codes : List Nat)
  deriving DecidableEq, Repr

def PreId.key : PreId → List Nat
  | .num n => [0, n]
  | .alnum cs => 1 :: cs

structure Version where
  major : Nat
  minor : Nat
  patch : Nat
  pre : List PreId
  deriving DecidableEq, Repr

/-- precedence key: major, minor, patch, then "release" (1) above "pre-release" (0), then the identifiers -/
def Version.key (v : Version) : List (List Nat) :=
  [[v.major], [v.minor], [v.patch], [if v.pre.isEmpty then 1 else 0]] ++ v.pre.map PreId.key

def Version.cmp (a b : Version) : Ordering := lexCmp (lexCmp natCmp) a.key b.key

/-- `a.GreaterThan(b)` -/
def Version.gt (a b : Version) : Bool := a.cmp b == .gt

def zeroVersion : Version := ⟨0, 0, 0, []⟩

structure Tag where
  /-- short ref name (`refs/tags/<name>`) -/
  name : String
  annotated : Bool
  /-- the name stored in the tag object (annotated tags only) -/
  inner : String
  target : Nat
  deriving DecidableEq, Repr

structure Repo where
  tags : List Tag
  head : Nat
  clean : Bool
  deriving DecidableEq, Repr

/-- the string the tagger parses for a tag -/
def Tag.versionString (t : Tag) : String := if t.annotated then t.inner else t.name

/-- how version strings are read: `parse` is `semver.NewVersion` (outside the model), `parts` is
`len(strings.Split(s, "."))` (instantiated by `dotParts` in the driver) -/
structure Parser where
  parse : String → Option Version
  parts : String → Nat

def dotParts (s : String) : Nat := (s.splitOn ".").length

inductive Exit where
  | ok            -- 0
  | nothingToDo   -- 8
  | error         -- 1
  deriving DecidableEq, Repr

/-- one step of the scan over the tags: `none` = a full-looking tag failed to parse (abort) -/
def scanStep (P : Parser) (major : Nat) (acc : Option Version) (t : Tag) : Option Version :=
  match acc with
  | none => none
  | some best =>
    let s := t.versionString
    if P.parts s < 3 then some best
    else match P.parse s with
      | none => none
      | some v => if v.gt best && v.major == major then some v else some best

/-- `largestTagSemver` -/
def largest (P : Parser) (major : Nat) (tags : List Tag) : Option Version :=
  tags.foldl (scanStep P major) (some zeroVersion)

def showVersion (v : Version) : String := s!"v{v.major}.{v.minor}.{v.patch}"  -- placeholder, the harness supplies names

/-- `createTag`: for the full version name and the major name: delete, then create annotated at HEAD -/
def createTags (r : Repo) (full majorName : String) : Repo :=
  let step (tags : List Tag) (n : String) : List Tag :=
    (tags.filter (·.name != n)) ++ [⟨n, true, n, r.head⟩]
  { r with tags := step (step r.tags full) majorName }

/-- `Tagger.Tag` + the command's exit status. `fullName` / `majorName` are the tag names derived
from the requested version (`"v" + requested.String()` and its first dot-part). -/
def tag (P : Parser) (r : Repo) (requested : String) (fullName majorName : String) (dryRun : Bool) : Repo × Exit :=
  match P.parse requested with
  | none => (r, .error)
  | some req =>
    match largest P req.major r.tags with
    | none => (r, .error)
    | some prev =>
      if !req.gt prev then (r, .nothingToDo)
      else if !r.clean then (r, .error)
      else if dryRun then (r, .ok)
      else (createTags r fullName majorName, .ok)

end Mockery.Tools
