import MockeryModel.Go.Types
import MockeryModel.Gen.Registry
import MockeryModel.Tmpl.Funcs
/-
The data model handed to templates (`TemplateGenerator.Generate`, `methodData`,
`typeParams` in `/repo/internal/template_generator.go`; `MethodScope.AddVar`,
`ResolveVariableNameCollisions` in `/repo/template/method_scope.go`; the string
accessors of `/repo/template/{method,param_data,interface}.go`).

For each output file: a registry of imports; per interface its methods in the
order go/types reports them; per method a fresh scope seeded with the qualifiers
registered so far, variables for parameters then results, each with its final
name, type string (under that variable's qualifiers) and flags; then the type
parameters in a separate scope.
-/
namespace Mockery.Gen
open Mockery.Go

structure VarIn where
  name : String
  type : GoType
  /-- `replace-type` hit: the replacement type (its package is the only import of the variable) -/
  replacement : Option GoType
  deriving Repr, Inhabited

structure MethodIn where
  name : String
  params : List VarIn
  results : List VarIn
  variadic : Bool
  deriving Repr, Inhabited

structure IfaceIn where
  name : String
  structName : String
  /-- (name, constraint type) -/
  typeParams : List (String × GoType)
  methods : List MethodIn
  deriving Repr, Inhabited

structure FileIn where
  dstPkgPath : String
  inPackage : Bool
  srcPkgName : String
  pkgName : String
  ifaces : List IfaceIn
  deriving Repr, Inhabited

/-- a variable of the data model -/
structure VarOut where
  name : String
  typeString : String
  nillable : Bool
  isSlice : Bool
  variadic : Bool
  /-- the identifiers of enclosing scopes the type string refers to (`Go.typeRefs`) -/
  refs : List String := []
  deriving Repr, Inhabited, DecidableEq

structure MethodOut where
  name : String
  params : List VarOut
  results : List VarOut
  /-- names visible in the method's scope after collision resolution -/
  scopeNames : List String
  deriving Repr, Inhabited

structure IfaceOut where
  name : String
  structName : String
  typeParams : List VarOut
  methods : List MethodOut
  deriving Repr, Inhabited

/-- `varName`: the declared name, or a name derived from the type (with `Param` appended when it would
shadow a keyword or a predeclared type) -/
def reservedVarNames : List String :=
  ["mock", "callInfo", "break", "default", "func", "interface", "select", "case", "defer", "go", "map", "struct",
   "chan", "else", "goto", "package", "switch", "const", "fallthrough", "if", "range", "type", "continue", "for",
   "import", "return", "var", "string", "bool", "byte", "rune", "uintptr", "int", "int8", "int16", "int32", "int64",
   "uint", "uint8", "uint16", "uint32", "uint64", "float32", "float64", "complex64", "complex128"]

def varName (name : String) (t : GoType) : String :=
  if name != "" && name != "_" then name
  else
    let n := varNameForType t
    if reservedVarNames.contains n then n ++ "Param" else n

/-- register the packages of a type (in traversal order); returns the per-variable import map
(path ↦ qualifier) and the qualifiers to add to the scope -/
def addImports (r : Registry) (pkgs : List (String × String)) : Registry × List (String × String) :=
  pkgs.foldl (fun (acc : Registry × List (String × String)) (p : String × String) =>
    let (r', imp) := acc.1.addImport p.2 p.1
    (r', acc.2 ++ [(p.1, Registry.qualOf imp)])) (r, [])

def qualifierOf (imports : List (String × String)) (path : String) : String :=
  match imports.find? (·.1 == path) with
  | some (_, q) => q
  | none => ""

structure VarState where
  reg : Registry
  scope : Scope
  /-- variables so far: (suggested name, rest of the record) -/
  vars : List VarOut

/-- `MethodScope.AddVar` -/
def addVar (st : VarState) (v : VarIn) (variadic : Bool) : VarState :=
  match v.replacement with
  | some rt =>
    -- only the replacement's own package is imported; the type string is not added to the scope
    let own := (pkgsOf rt).take 1
    let (reg', imps) := addImports st.reg own
    let scope1 := imps.foldl (fun s i => s.addName i.2) st.scope
    let ts := typeString (qualifierOf imps) rt
    let nm := scope1.suggest (varName v.name v.type)
    { reg := reg', scope := scope1,
      vars := st.vars ++ [⟨nm, ts, nillable rt, isSlice rt, variadic, typeRefs (qualifierOf imps) rt⟩] }
  | none =>
    let (reg', imps) := addImports st.reg (pkgsOf v.type)
    let scope1 := imps.foldl (fun s i => s.addName i.2) st.scope
    let ts := typeString (qualifierOf imps) v.type
    let scope2 := scope1.addName ts
    let nm := scope2.suggest (varName v.name v.type)
    { reg := reg', scope := scope2,
      vars := st.vars ++ [⟨nm, ts, nillable v.type, isSlice v.type, variadic, typeRefs (qualifierOf imps) v.type⟩] }

/-- `ResolveVariableNameCollisions`: in order, each variable takes the first free name and registers it -/
def resolveCollisions (scope : Scope) : List VarOut → Scope × List VarOut
  | [] => (scope, [])
  | v :: vs =>
    let n := scope.suggest v.name
    let (s', rest) := resolveCollisions (scope.addName n) vs
    (s', { v with name := n } :: rest)

/-- `template_funcs.Exported` on a name -/
def exportedName (s : String) : String :=
  match Mockery.Tmpl.exported Mockery.Tmpl.tableOps Mockery.Generated.golintInitialismsB s.toUTF8.toList with
  | some b => (String.fromUTF8? ⟨b.toArray⟩).getD s
  | none => s

/-- one method: fresh scope from the registry's qualifiers plus the (exported) names of the mock's type
parameters – they are declared in every method through the receiver –, parameters then results -/
def methodData (reg : Registry) (tparams : List String) (m : MethodIn) : Registry × (Scope × List VarOut × Nat) :=
  let st0 : VarState := ⟨reg, tparams.foldl (fun s n => s.addName (exportedName n)) reg.newScope, []⟩
  let np := m.params.length
  let st1 := (m.params.zip (List.range np)).foldl
    (fun st (p : VarIn × Nat) => addVar st p.1 (m.variadic && p.2 + 1 == np)) st0
  let st2 := m.results.foldl (fun st p => addVar st p false) st1
  (st2.reg, (st2.scope, st2.vars, np))

def finishMethod (name : String) (x : Scope × List VarOut × Nat) : MethodOut :=
  let (scope, vars, np) := x
  let (scope', vs) := resolveCollisions scope vars
  ⟨name, vs.take np, vs.drop np, scope'.names⟩

/-- one interface: all methods first, then collision resolution per method, then the type parameters
(their own scope; the constraint is the variable's type) -/
def ifaceData (reg : Registry) (i : IfaceIn) : Registry × IfaceOut :=
  let (reg1, raw) := i.methods.foldl
    (fun (acc : Registry × List (String × (Scope × List VarOut × Nat))) m =>
      let (r', d) := methodData acc.1 (i.typeParams.map (·.1)) m
      (r', acc.2 ++ [(m.name, d)])) (reg, [])
  let methods := raw.map (fun (n, d) => finishMethod n d)
  let stT : VarState := ⟨reg1, reg1.newScope, []⟩
  let stT' := i.typeParams.foldl (fun st (tp : String × GoType) => addVar st ⟨tp.1, tp.2, none⟩ false) stT
  (stT'.reg, ⟨i.name, i.structName, stT'.vars, methods⟩)

def fileData (f : FileIn) : Registry × List IfaceOut :=
  f.ifaces.foldl (fun (acc : Registry × List IfaceOut) i =>
    let (r', o) := ifaceData acc.1 i
    (r', acc.2 ++ [o])) (({ dstPkgPath := f.dstPkgPath, inPackage := f.inPackage, imports := [], dstPkgName := f.pkgName } : Registry), [])

/-! ### string accessors (`template/method.go`, `param_data.go`, `interface.go`) -/

def joinComma (l : List String) : String := ", ".intercalate l

def VarOut.methodArg (p : VarOut) : String :=
  if p.variadic then p.name ++ " ..." ++ (p.typeString.drop 2).toString else p.name ++ " " ++ p.typeString
def VarOut.callName (p : VarOut) (ellipsis : Bool) : String :=
  if ellipsis && p.variadic then p.name ++ "..." else p.name
/-- first `"[]"` replaced by `"..."` -/
def replaceFirst (s pat rep : String) : String :=
  match s.splitOn pat with
  | [] => s
  | [x] => x
  | x :: rest => x ++ rep ++ pat.intercalate rest
def VarOut.typeStringEllipsis (p : VarOut) : String :=
  if p.variadic then replaceFirst p.typeString "[]" "..." else p.typeString
def VarOut.typeStringVariadicUnderlying (p : VarOut) : String :=
  replaceFirst p.typeStringEllipsis "..." ""

def MethodOut.argList (m : MethodOut) : String := joinComma (m.params.map VarOut.methodArg)
def MethodOut.argTypeList (m : MethodOut) : String := joinComma (m.params.map (·.typeString))
def MethodOut.argTypeListEllipsis (m : MethodOut) : String := joinComma (m.params.map VarOut.typeStringEllipsis)
def MethodOut.argCallList (m : MethodOut) (ellipsis : Bool) : String := joinComma (m.params.map (·.callName ellipsis))
def MethodOut.returnArgTypeList (m : MethodOut) : String :=
  let s := joinComma (m.results.map (·.typeString))
  if m.results.length > 1 then "(" ++ s ++ ")" else s
def MethodOut.returnArgNameList (m : MethodOut) : String := joinComma (m.results.map (·.name))
def MethodOut.returnArgList (m : MethodOut) : String := joinComma (m.results.map (fun p => p.name ++ " " ++ p.typeString))
def MethodOut.signature (m : MethodOut) : String := "(" ++ m.argList ++ ") (" ++ m.returnArgList ++ ")"
def MethodOut.declaration (m : MethodOut) : String := m.name ++ m.signature
def MethodOut.call (m : MethodOut) : String := m.name ++ "(" ++ m.argCallList true ++ ")"
def MethodOut.isVariadic (m : MethodOut) : Bool := match m.params.getLast? with | some p => p.variadic | none => false
def MethodOut.acceptsContext (m : MethodOut) : Bool := match m.params.head? with | some p => p.typeString == "context.Context" | none => false
def MethodOut.returnsError (m : MethodOut) : Bool := m.results.any (·.typeString == "error")

end Mockery.Gen
