/-
Interface discovery (`NodeVisitor.Visit` in `/repo/internal/node_visitor.go`, the
loop of `Parser.ParsePackages` in `/repo/internal/parse.go`).

`ast.Walk` calls `Visit` on a node and descends into its children only when the
returned visitor is non-nil.  The visitor returns nil for function declarations
and function literals, records a type spec whose type expression is an interface
type or an index expression, and keeps walking everywhere else.  Each recorded
name is then looked up in the *package* scope.
-/
namespace Mockery.Gen

/-- the shape of the right-hand side of a type spec, as far as the visitor looks -/
inductive SpecKind
  | interfaceType | indexExpr | indexListExpr | other
  deriving Repr, DecidableEq, Inhabited

/-- the part of a Go syntax tree the visitor distinguishes -/
inductive Node
  | typeSpec (name : String) (kind : SpecKind)
  | funcDecl (body : List Node)
  | funcLit (body : List Node)
  /-- every other node (GenDecl, blocks, statements, expressions): just children -/
  | other (children : List Node)
  deriving Repr, Inhabited

def SpecKind.accepted : SpecKind → Bool
  | .interfaceType | .indexExpr | .indexListExpr => true
  | .other => false

mutual
/-- names recorded by `ast.Walk(nv, node)`, in visiting order -/
def visit : Node → List String
  | .typeSpec n k => if k.accepted then [n] else []
  | .funcDecl _ => []
  | .funcLit _ => []
  | .other cs => visitAll cs
def visitAll : List Node → List String
  | [] => []
  | c :: cs => visit c ++ visitAll cs
end

mutual
/-- expression-like subtrees: a type spec can only occur in them below a function literal
(Go's grammar: declarations are statements, statements occur only in function bodies) -/
def exprLike : Node → Bool
  | .typeSpec _ _ => false
  | .funcDecl _ => false
  | .funcLit _ => true
  | .other cs => exprLikeAll cs
def exprLikeAll : List Node → Bool
  | [] => true
  | c :: cs => exprLike c && exprLikeAll cs
end

/-- the top-level declarations of a file (`ast.File.Decls`) -/
inductive Decl
  /-- `type ( ... )` -/
  | types (specs : List (String × SpecKind))
  /-- a function or method with its body -/
  | func (body : List Node)
  /-- `var` / `const` / `import`: only expressions below -/
  | values (inits : List Node)
  deriving Repr, Inhabited

def Decl.toNode : Decl → Node
  | .types specs => .other (specs.map (fun s => .typeSpec s.1 s.2))
  | .func b => .funcDecl b
  | .values inits => .other inits

/-- what Go's grammar guarantees for a parsed file -/
def Decl.grammatical : Decl → Bool
  | .values inits => exprLikeAll inits
  | _ => true

/-- the candidate names a declaration puts into the *package* scope -/
def Decl.declared : Decl → List String
  | .types specs => (specs.filter (·.2.accepted)).map (·.1)
  | _ => []

def declaredCandidates (ds : List Decl) : List String := ds.flatMap Decl.declared
def fileNodes (ds : List Decl) : List Node := ds.map Decl.toNode

mutual
/-- every candidate type spec, function-local ones included (what a visitor that descends everywhere records) -/
def allSpecs : Node → List String
  | .typeSpec n k => if k.accepted then [n] else []
  | .funcDecl b => allSpecsAll b
  | .funcLit b => allSpecsAll b
  | .other cs => allSpecsAll cs
def allSpecsAll : List Node → List String
  | [] => []
  | c :: cs => allSpecs c ++ allSpecsAll cs
end

/-- the package scope: name ↦ is it a named interface type -/
abbrev PkgScope := List (String × Bool)

def lookupIface (sc : PkgScope) (n : String) : Bool :=
  match sc.find? (·.1 == n) with
  | some (_, b) => b
  | none => false

/-- `ParsePackages` for one file: the recorded names that resolve to a named interface in the package scope -/
def discover (sc : PkgScope) (file : List Node) : List String :=
  (visitAll file).filter (lookupIface sc)

end Mockery.Gen
