/-
The allocator functions of the templates' data model (`template/method_scope.go`, `registry.go`, `packages.go`,
`package.go`) statement by statement, as `Gen/Scope.lean` and `Gen/Registry.lean` were written against them.
`Generated/AllocFacts.lean` holds the same bodies as read from the current source;
`MockeryProps/C15.allocators_transcribed` compares the two.
-/
namespace Mockery.Gen.AllocText


/-- `NewMethodScope` (template/method_scope.go) -/
def expectedNewMethodScopeBody : List String := ["m := &MethodScope{ registry: r, vars: []*Var{}, conflicted: map[string]bool{}, visibleNames: map[string]any{}, imports: map[string]*Package{}, }", "for key := range r.importQualifiers { m.AddName(key) }", "return m"]

/-- `SuggestName` (template/method_scope.go) -/
def expectedSuggestNameBody : List String := ["var suggestion string", "for i := 0; ; i++ { if i == 0 { suggestion = prefix } else { suggestion = fmt.Sprintf(\"%s%d\", prefix, i) } if m.NameExists(suggestion) { continue } break }", "return suggestion"]

/-- `AllocateName` (template/method_scope.go) -/
def expectedAllocateNameBody : List String := ["suggestion := m.SuggestName(prefix)", "m.AddName(suggestion)", "return suggestion"]

/-- `AddName` (template/method_scope.go) -/
def expectedAddNameBody : List String := ["m.visibleNames[name] = nil"]

/-- `NameExists` (template/method_scope.go) -/
def expectedNameExistsBody : List String := ["_, exists := m.visibleNames[name]", "return exists"]

/-- `ResolveVariableNameCollisions` (template/method_scope.go) -/
def expectedResolveVariableNameCollisionsBody : List String := ["for _, v := range m.vars { varLog := log.With().Str(\"variable-name\", v.Name).Logger() newName := m.SuggestName(v.Name) if newName != v.Name { varLog.Debug().Str(\"new-name\", newName).Msg(\"variable was found to conflict with previously allocated name. Giving new name.\") } v.Name = newName m.AddName(v.Name) }"]

/-- `addImport` (template/registry.go) -/
def expectedRegistryAddImportBody : List String := ["path := pkg.Path()", "if path == r.dstPkgPath && (r.inPackage || (r.dstPkgName != \"\" && pkg.Name() == r.dstPkgName)) { log.Debug().Msg(\"path equals dst-pkg-path, not adding import\") return nil } else { log.Debug().Msg(\"path does not equal dst-pkg-path, adding import\") }", "if imprt, ok := r.imports[path]; ok { return imprt }", "imprt := Package{pkg: pkg}", "originalQualifier := imprt.Qualifier()", "var aliasSuggestion string = imprt.Qualifier()", "for i := 0; ; i++ { if _, conflict := r.importQualifiers[aliasSuggestion]; conflict { aliasSuggestion = fmt.Sprintf(\"%s%d\", imprt.Qualifier(), i) continue } if originalQualifier != aliasSuggestion { imprt.Alias = aliasSuggestion } break }", "r.imports[path] = &imprt", "r.importQualifiers[imprt.Qualifier()] = &imprt", "return &imprt"]

/-- `AddImport` (template/registry.go) -/
def expectedRegistryAddImportExportedBody : List String := ["return r.addImport(context.Background(), fakeTypesPackage{ name: pkgName, path: pkgPath, })"]

/-- `Imports` (template/registry.go) -/
def expectedRegistryImportsBody : List String := ["imports := make([]*Package, 0, len(r.imports))", "for _, imprt := range r.imports { imports = append(imports, imprt) }", "sort.Slice(imports, func(i, j int) bool { return imports[i].Path() < imports[j].Path() })", "return imports"]

/-- `MethodScope` (template/registry.go) -/
def expectedRegistryMethodScopeBody : List String := ["return NewMethodScope(r)"]

/-- `PkgQualifier` (template/packages.go) -/
def expectedPkgQualifierBody : List String := ["for _, imprt := range p { if imprt.Path() == pkgPath { return imprt.Qualifier(), nil } }", "return \"\", fmt.Errorf(\"unknown import %s\", pkgPath)"]

/-- `Qualifier` (template/package.go) -/
def expectedPackageQualifierBody : List String := ["if p == nil { return \"\" }", "if p.Alias != \"\" { return p.Alias }", "return p.pkg.Name()"]


end Mockery.Gen.AllocText
