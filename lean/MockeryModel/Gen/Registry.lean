import MockeryModel.Gen.Scope
/-
Model of `template.Registry`'s import allocator
(/repo/template/registry.go: addImport, Imports; /repo/template/package.go:
Qualifier; /repo/template/packages.go: PkgQualifier).

The Go registry keeps two maps, `imports` (by path) and `importQualifiers` (by
qualifier).  `importQualifiers` is only ever written together with `imports`,
under the key `imprt.Qualifier()`, so its key set is the set of qualifiers of
`imports`; the model therefore keeps one list of entries in insertion order.
-/
namespace Mockery.Gen

structure Pkg where
  name : String
  path : String
  alias : String      -- "" = no alias
deriving Repr, DecidableEq, Inhabited

/-- `Package.Qualifier` for a non-nil package. -/
def Pkg.qualifier (p : Pkg) : String := if p.alias ≠ "" then p.alias else p.name

structure Registry where
  dstPkgPath : String
  inPackage : Bool
  imports : List Pkg     -- insertion order
  /-- the package name the output file declares (`SetDstPkgName`); "" = not recorded -/
  dstPkgName : String := ""
deriving Repr

namespace Registry

def quals (r : Registry) : List String := r.imports.map Pkg.qualifier
def paths (r : Registry) : List String := r.imports.map Pkg.path

/-- Candidate sequence of `addImport`: `name, name0, name1, …`
(`fmt.Sprintf("%s%d", name, i)` with the *loop counter at the time of the conflict*). -/
def aliasCand (name : String) (k : Nat) : String :=
  if k = 0 then name else name ++ Nat.repr (k - 1)

def aliasFrom (taken : List String) (name : String) : Nat → Nat → Option String
  | _, 0 => none
  | k, fuel+1 =>
    if aliasCand name k ∈ taken then aliasFrom taken name (k+1) fuel else some (aliasCand name k)

def alias? (taken : List String) (name : String) : Option String :=
  aliasFrom taken name 0 (taken.length + 1)

theorem aliasCand_inj (p : String) {i j : Nat} (h : aliasCand p i = aliasCand p j) : i = j := by
  unfold aliasCand at h
  by_cases hi : i = 0 <;> by_cases hj : j = 0 <;> simp [hi, hj] at h ⊢
  all_goals first | omega | skip
  all_goals
    first
    | (have : p ++ "" = p ++ (j-1).repr := by simpa using h
       exact absurd ((String.append_right_inj p).1 this).symm Nat.repr_ne_empty)
    | (have : p ++ (i-1).repr = p ++ "" := by simpa using h
       exact absurd ((String.append_right_inj p).1 this) Nat.repr_ne_empty)

theorem aliasFrom_sound {taken name k fuel n} (h : aliasFrom taken name k fuel = some n) :
    n ∉ taken ∧ ∃ j, n = aliasCand name j := by
  induction fuel generalizing k with
  | zero => simp [aliasFrom] at h
  | succ f ih =>
    simp only [aliasFrom] at h
    split at h
    · exact ih h
    · cases h; exact ⟨by assumption, k, rfl⟩

theorem aliasFrom_none {taken name i fuel} (h : aliasFrom taken name i fuel = none) :
    ∀ k, k < fuel → aliasCand name (i + k) ∈ taken := by
  induction fuel generalizing i with
  | zero => intro k hk; omega
  | succ f ih =>
    simp only [aliasFrom] at h
    split at h
    · intro k hk
      cases k with
      | zero => simpa using ‹aliasCand name i ∈ taken›
      | succ k =>
        have := ih h k (by omega)
        simpa [Nat.add_assoc, Nat.add_comm 1 k] using this
    · cases h

/-- The unbounded alias search of `addImport` terminates. -/
theorem alias_total (taken : List String) (name : String) : (alias? taken name).isSome = true := by
  unfold alias?
  cases h : aliasFrom taken name 0 (taken.length + 1) with
  | some n => rfl
  | none =>
    exfalso
    have all := aliasFrom_none h
    let cs := (List.range (taken.length + 1)).map (aliasCand name)
    have hsub : ∀ c ∈ cs, c ∈ taken := by
      intro c hc
      simp only [cs, List.mem_map, List.mem_range] at hc
      obtain ⟨k, hk, rfl⟩ := hc
      simpa using all k hk
    have hnd : cs.Nodup := by
      simp only [cs, List.Nodup]
      refine List.Pairwise.map (aliasCand name) ?_ List.nodup_range
      intro a b hab hc; exact hab (aliasCand_inj name hc)
    have hle : cs.length ≤ taken.length := hnd.length_le_of_subset hsub
    simp [cs] at hle
    omega

def freeAlias (taken : List String) (name : String) : String :=
  (alias? taken name).get (alias_total taken name)

theorem freeAlias_not_mem (taken : List String) (name : String) : freeAlias taken name ∉ taken := by
  have h : alias? taken name = some (freeAlias taken name) := by unfold freeAlias; simp
  exact (aliasFrom_sound h).1

/-- The entry `addImport` creates: alias set iff the free suggestion differs from the name. -/
def mkPkg (taken : List String) (name path : String) : Pkg :=
  let sugg := freeAlias taken name
  { name := name, path := path, alias := if sugg ≠ name then sugg else "" }

def find? (r : Registry) (path : String) : Option Pkg := r.imports.find? (·.path == path)

/-- The guard of `addImport`: the package is the one the output file itself belongs to – it sits at the
destination path and either the registry was created in-package, or the package has the name the output file
declares (a mock written into a third, existing package). -/
def isSelf (r : Registry) (name path : String) : Bool :=
  decide (path = r.dstPkgPath) && (r.inPackage || (decide (r.dstPkgName ≠ "") && decide (name = r.dstPkgName)))

/-- `Registry.addImport`.  `none` is Go's `nil` result (destination package, in-package). -/
def addImport (r : Registry) (name path : String) : Registry × Option Pkg :=
  if r.isSelf name path = true then (r, none)
  else match r.find? path with
    | some p => (r, some p)
    | none =>
      let p : Pkg := mkPkg r.quals name path
      ({ r with imports := r.imports ++ [p] }, some p)

/-- `(*Package)(nil).Qualifier() = ""`. -/
def qualOf : Option Pkg → String
  | none => ""
  | some p => p.qualifier

def insertByPath (p : Pkg) : List Pkg → List Pkg
  | [] => [p]
  | q :: qs => if p.path < q.path then p :: q :: qs else q :: insertByPath p qs

/-- `Registry.Imports`: the entries sorted by path (paths are unique, so any
correct sort gives the same list; insertion sort is used for the model). -/
def sortedImports (r : Registry) : List Pkg := r.imports.foldr insertByPath []

/-- `Packages.PkgQualifier` applied to `Imports()`. -/
def pkgQualifier (r : Registry) (path : String) : Option String :=
  (r.sortedImports.find? (·.path == path)).map Pkg.qualifier

/-- `NewMethodScope`: names are the keys of `importQualifiers`. -/
def newScope (r : Registry) : Scope := { names := r.quals }

end Registry
end Mockery.Gen
