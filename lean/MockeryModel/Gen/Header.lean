import MockeryModel.Gen.HeaderLang
/-
What the Go toolchain does with the top of a file (`go/build`: `parseFileHeader`,
`isGoBuildComment`, `shouldBuild`; the generated-code convention of `go/ast.IsGenerated`),
build-constraint expressions and their evaluation (`go/build/constraint`).
-/
namespace Mockery.Gen

/-! ### build-constraint expressions -/

inductive BExpr where
  | tag (name : String)
  | not (e : BExpr)
  | and (a b : BExpr)
  | or (a b : BExpr)
  deriving Repr, Inhabited, DecidableEq

def BExpr.eval (tags : String → Bool) : BExpr → Bool
  | .tag n => tags n
  | .not e => !(e.eval tags)
  | .and a b => a.eval tags && b.eval tags
  | .or a b => a.eval tags || b.eval tags

/-- Go syntax, fully parenthesised below the top level -/
def BExpr.print : BExpr → String
  | .tag n => n
  | .not e => "!" ++ e.print
  | .and a b => "(" ++ a.print ++ " && " ++ b.print ++ ")"
  | .or a b => "(" ++ a.print ++ " || " ++ b.print ++ ")"

/-! ### the file header as `go/build` reads it -/

def isSp (c : Char) : Bool := c == ' ' || c == '\t' || c == '\r' || c == '\x0b' || c == '\x0c'

def trimLeft (l : List Char) : List Char := l.dropWhile isSp
def trimRight (l : List Char) : List Char := (l.reverse.dropWhile isSp).reverse
def trim (l : List Char) : List Char := trimRight (trimLeft l)

def goBuildPrefix : List Char := "//go:build".toList

/-- `isGoBuildComment` on a trimmed line -/
def isGoBuild (line : List Char) : Bool :=
  goBuildPrefix.isPrefixOf line &&
    (match line.drop goBuildPrefix.length with
     | [] => true
     | c :: _ => isSp c)

/-- the line the templates write for `mock-build-tags` -/
def constraintLine (tags : List Char) : List Char := goBuildPrefix ++ ' ' :: tags

/-- the rest of a line after the first `*/`, if any -/
def afterStarSlash : List Char → Option (List Char)
  | [] => none
  | '*' :: '/' :: rest => some rest
  | _ :: rest => afterStarSlash rest

/-- the `Comments:` loop: returns (still inside a block comment, found non-comment text) -/
def commentsLoop : Nat → List Char → Bool → Bool × Bool
  | 0, _, inBlock => (inBlock, false)
  | _, [], inBlock => (inBlock, false)
  | fuel + 1, line, true =>
    match afterStarSlash line with
    | some rest => commentsLoop fuel (trim rest) false
    | none => (true, false)
  | fuel + 1, line, false =>
    if "//".toList.isPrefixOf line then (false, false)
    else if "/*".toList.isPrefixOf line then commentsLoop fuel (trim (line.drop 2)) true
    else (false, true)

structure ScanState where
  /-- the current line so far, reversed -/
  cur : List Char
  inBlock : Bool
  goBuild : Option (List Char)
  multiple : Bool
  /-- the first non-comment text was reached: the header is over -/
  done : Bool
  deriving Repr, DecidableEq, Inhabited

def clean : ScanState := ⟨[], false, none, false, false⟩

/-- one line of `parseFileHeader` -/
def processLine (st : ScanState) (raw : List Char) : ScanState :=
  if st.done then st else
  let line := trim raw
  if line.isEmpty then st else
  let st1 :=
    if !st.inBlock && isGoBuild line then
      (match st.goBuild with
       | some _ => { st with multiple := true }
       | none => { st with goBuild := some line })
    else st
  let r := commentsLoop (line.length + 1) line st.inBlock
  { st1 with inBlock := r.1, done := r.2 }

def stepChar (st : ScanState) (c : Char) : ScanState :=
  if c == '\n' then processLine { st with cur := [] } st.cur.reverse
  else { st with cur := c :: st.cur }

def scan (cs : List Char) (st : ScanState) : ScanState := cs.foldl stepChar st

/-- a last line without a newline -/
def finish (st : ScanState) : ScanState :=
  if st.cur.isEmpty then st else processLine { st with cur := [] } st.cur.reverse

/-- `shouldBuild` for a file with a `//go:build` line (no legacy `+build` lines): the file is built
iff the expression of the line holds; without such a line it is always built -/
def included (goBuild : Option BExpr) (tags : String → Bool) : Bool :=
  match goBuild with
  | some e => e.eval tags
  | none => true

/-- the convention of `go/ast.IsGenerated` for one line -/
def isGeneratedMarker (line : List Char) : Bool :=
  "// Code generated ".toList.isPrefixOf line && " DO NOT EDIT.".toList.isSuffixOf line

def firstLine (cs : List Char) : List Char := cs.takeWhile (· != '\n')

/-- comment-only text: read from the start of a line, it leaves the header scanner where it was –
no code, no open block comment, no constraint of its own -/
def CommentOnly (b : List Char) : Prop := scan (b ++ ['\n']) clean = clean

instance (b : List Char) : Decidable (CommentOnly b) := inferInstanceAs (Decidable (scan (b ++ ['\n']) clean = clean))

/-- the header of the built-in templates, for a given marker block -/
def builtinHeader (marker : String) : List HeaderItem :=
  [.text marker,
   .ifData "boilerplate-file" [.text "\n", .readFile "boilerplate-file"],
   .ifData "mock-build-tags" [.text "\n\n//go:build ", .data "mock-build-tags"],
   .text "\n\npackage "]

def testifyMarker : String := "// Code generated by mockery; DO NOT EDIT.\n// github.com/vektra/mockery\n// template: testify"
def matryerMarker : String := "// Code generated by mockery; DO NOT EDIT.\n// github.com/vektra/mockery\n// template: matryer"

end Mockery.Gen
