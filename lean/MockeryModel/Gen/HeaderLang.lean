/-
The header block of a built-in template as data: what `harness/verifx/header.go`
translates the template text into (after text/template's trim markers were
applied), and its rendering.
-/
namespace Mockery.Gen

inductive HeaderItem where
  /-- literal text -/
  | text (s : String)
  /-- `{{ index .TemplateData key }}` -/
  | data (key : String)
  /-- `{{ index .TemplateData key | readFile }}` -/
  | readFile (key : String)
  /-- `{{ if (index .TemplateData key) }} body {{ end }}` -/
  | ifData (key : String) (body : List HeaderItem)
  deriving Repr, Inhabited

structure HeaderEnv where
  /-- string-valued template-data -/
  data : String → Option (List Char)
  /-- content of the file at a path; `ReadFile` returns it unchanged -/
  file : List Char → List Char
  pkgName : List Char

/-- text/template truth of a string-valued lookup: missing and empty are false -/
def truthy : Option (List Char) → Bool
  | some (_ :: _) => true
  | _ => false

mutual
def renderItem (env : HeaderEnv) : HeaderItem → List Char
  | .text s => s.toList
  | .data k => match env.data k with
    | some v => v
    | none => "<no value>".toList
  | .readFile k => match env.data k with
    | some (c :: p) => env.file (c :: p)
    | _ => []
  | .ifData k body => if truthy (env.data k) then renderItems env body else []
def renderItems (env : HeaderEnv) : List HeaderItem → List Char
  | [] => []
  | i :: is => renderItem env i ++ renderItems env is
end

/-- the header up to the end of the package clause -/
def renderHeader (env : HeaderEnv) (items : List HeaderItem) : List Char :=
  renderItems env items ++ env.pkgName ++ ['\n']

end Mockery.Gen
