import MockeryModel.Gen.Data
import MockeryModel.Generated.TemplateFacts
/-
Static view of the Go code the two built-in templates emit for one method:
for every emitted function, the identifiers it *declares* (receiver,
parameters, named results, locals of the template) and the identifiers of the
enclosing scopes it *uses* (package qualifiers and type names inside type
strings, the testify `mock` package).  A file type-checks only if, per
function, the declared names are pairwise distinct and shadow nothing that is
used (`ScopeWF`).

The template-owned names are transcribed per function and checked against the
list regenerated from the template text (`Generated.testifyLocals`,
`Generated.matryerLocals`).
-/
namespace Mockery.Gen

structure EmitFn where
  what : String
  /-- names the template itself declares in this function (receiver, helper parameters, locals) -/
  own : List String
  /-- names that come from the data model: parameters, named results, allocated and indexed locals -/
  user : List String
  usesOuter : List String
  deriving Repr, Inhabited

def EmitFn.declared (f : EmitFn) : List String := f.own ++ f.user

def EmitFn.wf (f : EmitFn) : Prop := f.declared.Nodup ∧ ∀ x ∈ f.usesOuter, x ∉ f.declared

def EmitFn.wfb (f : EmitFn) : Bool :=
  f.declared.eraseDups.length == f.declared.length && f.usesOuter.all (fun x => !f.declared.contains x)

/-- the identifiers of enclosing scopes the signature's type strings refer to -/
def typeIdents (m : MethodOut) : List String :=
  ((m.params ++ m.results).flatMap (fun v => v.refs)).eraseDups

/-- predeclared functions the emitted code calls: a parameter of that name would shadow them -/
def builtinsUsed : List String := ["len", "panic", "make", "append"]

/-- everything a method's emitted functions use from enclosing scopes: the identifiers of the type
strings and the predeclared functions -/
def outerIdents (m : MethodOut) : List String := builtinsUsed ++ typeIdents m

def resultLocals (n : Nat) : List String := (List.range n).map (fun i => "r" ++ toString i)
/-- `arg0 …` of the typed Run wrapper -/
def argLocals (n : Nat) : List String := (List.range n).map (fun i => "arg" ++ toString i)

/-- the functions the testify template emits for one method -/
def testifyFns (m : MethodOut) (retName : String) : List EmitFn :=
  let ps := m.params.map (·.name)
  let ty := outerIdents m
  [ ⟨"mock method", ["_mock", "tmpRet", "_va", "_i", "_ca", "returnFunc", "ok"],
      ps ++ retName :: resultLocals m.results.length, "mock" :: ty⟩,
    ⟨"expecter method", ["_e"], ps, []⟩,
    ⟨"Run", ["_c", "run", "args", "variadicArgs", "i", "a"], argLocals m.params.length, "mock" :: ty⟩,
    ⟨"Return", ["_c"], m.results.map (·.name), ty⟩,
    ⟨"RunAndReturn", ["_c", "run"], [], ty⟩ ]

/-- the functions (and the record struct) the matryer template emits for one method -/
def matryerFns (m : MethodOut) : List EmitFn :=
  let ps := m.params.map (·.name)
  let ty := outerIdents m
  [ ⟨"mock method", ["mock", "callInfo"], ps ++ m.results.map (·.name), ty⟩,
    ⟨"call record fields", [], ps.map exportedName, []⟩,
    ⟨"Calls", ["mock", "calls"], [], ty⟩ ]

/-- the template-owned names used above, for the check against the regenerated lists -/
def testifyOwnNames : List String :=
  ["_mock", "tmpRet", "_va", "_i", "_ca", "returnFunc", "ok", "rIDX", "_e", "_c", "run", "args", "variadicArgs", "i", "a", "mock", "t", "_m", "argIDX"]
def matryerOwnNames : List String := ["mock", "callInfo", "calls"]

end Mockery.Gen
