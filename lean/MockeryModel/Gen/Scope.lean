import Std.Data.String.ToNat
/-
Model of `template.MethodScope`'s name allocator
(/repo/template/method_scope.go: SuggestName, AllocateName, AddName, NameExists).

The Go code keeps `visibleNames map[string]any`; the model keeps the keys as a
list used as a set (membership only is ever observed).  `SuggestName` is an
unbounded `for i := 0; ; i++` loop in Go; here it is a fuelled search whose fuel
(`names.length + 1`) is *proved* sufficient (`suggest_total`), so the model
never invents a default the code does not compute.
-/
namespace Mockery.Gen

abbrev Names := List String

/-- `fmt.Sprintf("%s%d", prefix, i)` for `i ≥ 1`; the bare prefix for `i = 0`. -/
def cand (p : String) (i : Nat) : String := if i = 0 then p else p ++ Nat.repr i

def suggestFrom (names : Names) (p : String) : Nat → Nat → Option String
  | _, 0 => none
  | i, fuel+1 => if cand p i ∈ names then suggestFrom names p (i+1) fuel else some (cand p i)

def suggest? (names : Names) (p : String) : Option String :=
  suggestFrom names p 0 (names.length + 1)

theorem cand_inj (p : String) {i j : Nat} (h : cand p i = cand p j) : i = j := by
  unfold cand at h
  by_cases hi : i = 0 <;> by_cases hj : j = 0 <;> simp [hi, hj] at h ⊢
  · have : p ++ "" = p ++ j.repr := by simpa using h
    exact absurd ((String.append_right_inj p).1 this).symm Nat.repr_ne_empty
  · exact h

theorem suggestFrom_sound {names p i fuel n} (h : suggestFrom names p i fuel = some n) :
    n ∉ names ∧ ∃ k, i ≤ k ∧ n = cand p k ∧ ∀ j, i ≤ j → j < k → cand p j ∈ names := by
  induction fuel generalizing i with
  | zero => simp [suggestFrom] at h
  | succ f ih =>
    simp only [suggestFrom] at h
    split at h
    · rename_i hin
      obtain ⟨h1, k, hk, hn, hall⟩ := ih h
      refine ⟨h1, k, by omega, hn, ?_⟩
      intro j hj hjk
      by_cases hji : j = i
      · subst hji; exact hin
      · exact hall j (by omega) hjk
    · cases h
      exact ⟨by assumption, i, Nat.le_refl _, rfl, by intro j h1 h2; omega⟩

/-- If the search runs out of fuel, all `fuel` candidates from `i` were taken. -/
theorem suggestFrom_none {names p i fuel} (h : suggestFrom names p i fuel = none) :
    ∀ k, k < fuel → cand p (i + k) ∈ names := by
  induction fuel generalizing i with
  | zero => intro k hk; omega
  | succ f ih =>
    simp only [suggestFrom] at h
    split at h
    · intro k hk
      cases k with
      | zero => simpa using ‹cand p i ∈ names›
      | succ k =>
        have := ih h k (by omega)
        simpa [Nat.add_assoc, Nat.add_comm 1 k] using this
    · cases h

/-- The unbounded Go loop terminates: some candidate among the first
`|names|+1` is free (pigeonhole). -/
theorem suggest_total (names : Names) (p : String) : (suggest? names p).isSome = true := by
  unfold suggest?
  cases h : suggestFrom names p 0 (names.length + 1) with
  | some n => rfl
  | none =>
    exfalso
    have all := suggestFrom_none h
    let cs := (List.range (names.length + 1)).map (cand p)
    have hsub : ∀ c ∈ cs, c ∈ names := by
      intro c hc
      simp only [cs, List.mem_map, List.mem_range] at hc
      obtain ⟨k, hk, rfl⟩ := hc
      simpa using all k hk
    have hnd : cs.Nodup := by
      simp only [cs, List.Nodup]
      refine List.Pairwise.map (cand p) ?_ List.nodup_range
      intro a b hab hc; exact hab (cand_inj p hc)
    have hle : cs.length ≤ names.length := hnd.length_le_of_subset hsub
    simp [cs] at hle
    omega

/-- `MethodScope.SuggestName`. -/
def suggestName (names : Names) (p : String) : String :=
  (suggest? names p).get (suggest_total names p)

theorem suggestName_spec (names : Names) (p : String) :
    suggestName names p ∉ names ∧
    ∃ k, suggestName names p = cand p k ∧ ∀ j, j < k → cand p j ∈ names := by
  have h : suggest? names p = some (suggestName names p) := by
    unfold suggestName; simp
  obtain ⟨h1, k, _, h2, h3⟩ := suggestFrom_sound h
  exact ⟨h1, k, h2, fun j hj => h3 j (Nat.zero_le _) hj⟩

/-- A method scope: the set of visible names. -/
structure Scope where
  names : Names
deriving Repr

namespace Scope

def addName (s : Scope) (n : String) : Scope := { names := n :: s.names }
def nameExists (s : Scope) (n : String) : Bool := decide (n ∈ s.names)
def suggest (s : Scope) (p : String) : String := suggestName s.names p
/-- `AllocateName` = `SuggestName` then `AddName`. -/
def allocate (s : Scope) (p : String) : Scope × String :=
  let n := s.suggest p
  (s.addName n, n)

end Scope

/-- The four operations a template can perform on a scope. -/
inductive ScopeOp where
  | alloc (p : String)
  | suggest (p : String)
  | add (n : String)
  | exists_ (n : String)
deriving Repr

/-- One step: new state and the string the template sees. -/
def Scope.step (s : Scope) : ScopeOp → Scope × String
  | .alloc p => s.allocate p
  | .suggest p => (s, s.suggest p)
  | .add n => (s.addName n, "")
  | .exists_ n => (s, if s.nameExists n then "true" else "false")

/-- Run a history; returns the final scope and the outputs, oldest first. -/
def Scope.run (s : Scope) : List ScopeOp → Scope × List String
  | [] => (s, [])
  | op :: ops =>
    let (s', o) := s.step op
    let (s'', os) := s'.run ops
    (s'', o :: os)

/-- Results of the `alloc` operations of a history, oldest first. -/
def Scope.allocResults (s : Scope) : List ScopeOp → List String
  | [] => []
  | .alloc p :: ops => (s.allocate p).2 :: (s.allocate p).1.allocResults ops
  | op :: ops => (s.step op).1.allocResults ops

end Mockery.Gen
