/-
The code the testify template (`/repo/internal/mock_testify.templ`) emits for one method, as a function
of the method's shape: the mocked method itself as a list of statements (`emitBody`; their meaning is in
`Sem/TestifyExec.lean`), and the Go text of every declaration emitted per method (the mocked method, the
`<Mock>_<M>_Call` type, the expecter method, the typed `Run`, `Return` and `RunAndReturn` wrappers).

The conditions under which each statement is emitted are the template's (`if or (eq (len ArgList) 0) (not
IsVariadic) (not unroll-variadic)`, …).  The tie to the template is differential: for every method of every
generated case of the C03 harness the text printed here is compared, token for token (comments and
layout aside), with what the real generator wrote.
-/
namespace Mockery.Gen.TestifyEmit

/-- how a result is converted from `ret.Get(i)` -/
inductive RKind where
  | error | nillable | plain
  deriving Repr, DecidableEq

structure Shape where
  structName : String
  /-- `[T any]` / `[T]` of a generic interface, else empty -/
  tconstraint : String
  tinst : String
  /-- qualifier of testify's mock package -/
  testify : String
  name : String
  /-- ordinary parameters: name, type string -/
  params : List (String × String)
  /-- the variadic parameter: name, element type string -/
  variadic : Option (String × String)
  results : List (String × RKind)
  unroll : Bool
  /-- the name the method scope allocated for `ret` -/
  retName : String
  deriving Repr, DecidableEq

namespace Shape
def isVariadic (sh : Shape) : Bool := sh.variadic.isSome
def nAll (sh : Shape) : Nat := sh.params.length + (if sh.isVariadic then 1 else 0)
def vname (sh : Shape) : String := (sh.variadic.map (·.1)).getD ""
def velem (sh : Shape) : String := (sh.variadic.map (·.2)).getD ""
def commas (l : List String) : String := ", ".intercalate l
def argList (sh : Shape) : String :=
  commas (sh.params.map (fun p => p.1 ++ " " ++ p.2) ++ (sh.variadic.map (fun v => v.1 ++ " ..." ++ v.2)).toList)
def argTypeListEllipsis (sh : Shape) : String :=
  commas (sh.params.map (·.2) ++ (sh.variadic.map (fun v => "..." ++ v.2)).toList)
def argTypeList (sh : Shape) : String :=
  commas (sh.params.map (·.2) ++ (sh.variadic.map (fun v => "[]" ++ v.2)).toList)
def argCallList (sh : Shape) : String :=
  commas (sh.params.map (·.1) ++ (sh.variadic.map (fun v => v.1 ++ "...")).toList)
def argCallListNoEllipsis (sh : Shape) : String :=
  commas (sh.params.map (·.1) ++ (sh.variadic.map (·.1)).toList)
/-- `ArgCallListSlice 0 (len Params - 1)` of a variadic method: the ordinary parameters -/
def ordCallList (sh : Shape) : String := commas (sh.params.map (·.1))
def returnArgTypeList (sh : Shape) : String :=
  match sh.results with
  | [] => ""
  | [r] => r.1
  | rs => "(" ++ commas (rs.map (·.1)) ++ ")"
def callType (sh : Shape) : String := sh.structName ++ "_" ++ sh.name ++ "_Call"
end Shape

/-- where the value bound to `ret` (or the bare call statement) comes from: the template's `$calledString` -/
inductive Src where
  | plain      -- `_mock.Called(<ArgCallList>)`
  | tmpRet     -- `tmpRet`
  | ca         -- `_mock.Called(_ca...)`
  | empty      -- nothing (the call was already made and has no results)
  deriving Repr, DecidableEq

/-- the statements of the mocked method -/
inductive Stmt where
  | declTmpRet
  /-- `if len(v) > 0 { [tmpRet =] Called(ords, v) } else { [tmpRet =] Called(ords) }` -/
  | calledRolled (assign : Bool)
  /-- `_va := make([]interface{}, len(v)); for _i := range v { _va[_i] = v[_i] }` -/
  | convertVa
  | declCa
  | appendOrds
  | appendVar (useVa : Bool)
  | calledStmt (s : Src)
  | bindRet (s : Src)
  | panicIfEmpty
  | declResult (i : Nat)
  /-- `if returnFunc, ok := ret.Get(0).(func(<types>) <results>); ok { return returnFunc(<args>) }` -/
  | wholeFunc (ellipsisType ellipsisCall : Bool)
  | extractResult (i : Nat)
  | returnResults
  deriving Repr, DecidableEq

/-- the template's preamble (START PREAMBLE … END PREAMBLE): statements and the final `$calledString` -/
def preamble (sh : Shape) : List Stmt × Src :=
  let hasRes := !sh.results.isEmpty
  if sh.argList.isEmpty || !sh.isVariadic || !sh.unroll then
    if sh.isVariadic && !sh.unroll then
      ((if hasRes then [.declTmpRet] else []) ++ [.calledRolled hasRes], if hasRes then .tmpRet else .empty)
    else ([], .plain)
  else
    let conv := sh.velem != "interface{}" && sh.velem != "any"
    ((if conv then [.convertVa] else []) ++ [.declCa] ++ (if sh.nAll > 1 then [.appendOrds] else []) ++ [.appendVar conv], .ca)

def resultStmts (sh : Shape) : List Stmt :=
  let n := sh.results.length
  (List.range n).map .declResult ++
  (if n > 1 then
    (if sh.isVariadic && !sh.unroll then [.wholeFunc true true] else []) ++ [.wholeFunc sh.unroll sh.unroll]
   else []) ++
  (List.range n).map .extractResult

def emitBody (sh : Shape) : List Stmt :=
  let (pre, src) := preamble sh
  pre ++ (if sh.results.isEmpty then [.calledStmt src] else [.bindRet src, .panicIfEmpty] ++ resultStmts sh) ++ [.returnResults]

/-! ### Go text -/

def srcText (sh : Shape) : Src → String
  | .plain => "_mock.Called(" ++ sh.argCallList ++ ")"
  | .tmpRet => "tmpRet"
  | .ca => "_mock.Called(_ca...)"
  | .empty => ""

def resultType (sh : Shape) (i : Nat) : String := (sh.results[i]?.map (·.1)).getD "?"
def resultKind (sh : Shape) (i : Nat) : RKind := (sh.results[i]?.map (·.2)).getD .plain

def printStmt (sh : Shape) : Stmt → List String
  | .declTmpRet => ["var tmpRet " ++ sh.testify ++ ".Arguments"]
  | .calledRolled assign =>
    let lhs := if assign then "tmpRet = " else ""
    ["if len(" ++ sh.vname ++ ") > 0 {",
     lhs ++ "_mock.Called(" ++ (if sh.unroll then sh.argCallList else sh.argCallListNoEllipsis) ++ ")",
     "} else {",
     lhs ++ "_mock.Called(" ++ sh.ordCallList ++ ")",
     "}"]
  | .convertVa =>
    ["_va := make([]interface{}, len(" ++ sh.vname ++ "))",
     "for _i := range " ++ sh.vname ++ " {",
     "_va[_i] = " ++ sh.vname ++ "[_i]",
     "}"]
  | .declCa => ["var _ca []interface{}"]
  | .appendOrds => ["_ca = append(_ca, " ++ sh.ordCallList ++ ")"]
  | .appendVar useVa => ["_ca = append(_ca, " ++ (if useVa then "_va" else sh.vname) ++ "...)"]
  | .calledStmt s => if s == .empty then [] else [srcText sh s]
  | .bindRet s => [sh.retName ++ " := " ++ srcText sh s]
  | .panicIfEmpty =>
    ["if len(" ++ sh.retName ++ ") == 0 {", "panic(\"no return value specified for " ++ sh.name ++ "\")", "}"]
  | .declResult i => ["var r" ++ toString i ++ " " ++ resultType sh i]
  | .wholeFunc et ec =>
    ["if returnFunc, ok := " ++ sh.retName ++ ".Get(0).(func(" ++ (if et then sh.argTypeListEllipsis else sh.argTypeList) ++ ") "
        ++ sh.returnArgTypeList ++ "); ok {",
     "return returnFunc(" ++ (if ec then sh.argCallList else sh.argCallListNoEllipsis) ++ ")",
     "}"]
  | .extractResult i =>
    let r := "r" ++ toString i
    let get := sh.retName ++ ".Get(" ++ toString i ++ ")"
    let t := resultType sh i
    ["if returnFunc, ok := " ++ get ++ ".(func(" ++ sh.argTypeListEllipsis ++ ") " ++ t ++ "); ok {",
     r ++ " = returnFunc(" ++ sh.argCallList ++ ")",
     "} else {"] ++
    (match resultKind sh i with
     | .error => [r ++ " = " ++ sh.retName ++ ".Error(" ++ toString i ++ ")"]
     | .nillable => ["if " ++ get ++ " != nil {", r ++ " = " ++ get ++ ".(" ++ t ++ ")", "}"]
     | .plain => [r ++ " = " ++ get ++ ".(" ++ t ++ ")"]) ++
    ["}"]
  | .returnResults => ["return " ++ Shape.commas ((List.range sh.results.length).map (fun i => "r" ++ toString i))]

def recv (sh : Shape) : String := "(_mock *" ++ sh.structName ++ sh.tinst ++ ")"

/-- the mocked method -/
def methodText (sh : Shape) : List String :=
  ["func " ++ recv sh ++ " " ++ sh.name ++ "(" ++ sh.argList ++ ") " ++ sh.returnArgTypeList ++ " {"] ++
  (emitBody sh).flatMap (printStmt sh) ++ ["}"]

/-- `type <Mock>_<M>_Call struct { *mock.Call }` -/
def callTypeText (sh : Shape) : List String :=
  ["type " ++ sh.callType ++ sh.tconstraint ++ " struct {", "*" ++ sh.testify ++ ".Call", "}"]

/-- the expecter method: every parameter an `interface{}`, the variadic ones spread behind the ordinary ones -/
def expecterText (sh : Shape) : List String :=
  let ps := sh.params.map (fun p => p.1 ++ " interface{}") ++ (sh.variadic.map (fun v => v.1 ++ " ...interface{}")).toList
  let onArgs :=
    if !sh.isVariadic then sh.params.map (·.1)
    else ["append([]interface{}{" ++ Shape.commas (sh.params.map (·.1)) ++ "}, " ++ sh.vname ++ "...)..."]
  ["func (_e *" ++ sh.structName ++ "_Expecter" ++ sh.tinst ++ ") " ++ sh.name ++ "(" ++ Shape.commas ps ++ ") *" ++ sh.callType ++ sh.tinst ++ " {",
   "return &" ++ sh.callType ++ sh.tinst ++ "{Call: _e.mock.On(" ++ Shape.commas (("\"" ++ sh.name ++ "\"") :: onArgs) ++ ")}",
   "}"]

def zipIdx {α : Type} (l : List α) : List (Nat × α) := (List.range l.length).zip l

/-- the typed `Run` wrapper -/
def runText (sh : Shape) : List String :=
  let n := sh.params.length
  let ct := sh.callType ++ sh.tinst
  ["func (_c *" ++ ct ++ ") Run(run func(" ++ sh.argList ++ ")) *" ++ ct ++ " {",
   "_c.Call.Run(func(args " ++ sh.testify ++ ".Arguments) {"] ++
  (zipIdx sh.params).flatMap (fun (i, p) =>
    ["var arg" ++ toString i ++ " " ++ p.2,
     "if args[" ++ toString i ++ "] != nil {",
     "arg" ++ toString i ++ " = args[" ++ toString i ++ "].(" ++ p.2 ++ ")",
     "}"]) ++
  (if sh.isVariadic then
    (if sh.unroll then
      ["variadicArgs := make([]" ++ sh.velem ++ ", len(args) - " ++ toString n ++ ")",
       "for i, a := range args[" ++ toString n ++ ":] {",
       "if a != nil {",
       "variadicArgs[i] = a.(" ++ sh.velem ++ ")",
       "}",
       "}"]
     else
      ["var variadicArgs []" ++ sh.velem,
       "if len(args) > " ++ toString n ++ " {",
       "variadicArgs = args[" ++ toString n ++ "].([]" ++ sh.velem ++ ")",
       "}"])
   else []) ++
  ["run(" ++ Shape.commas ((List.range n).map (fun i => "arg" ++ toString i) ++ (if sh.isVariadic then ["variadicArgs..."] else [])) ++ ")",
   "})",
   "return _c",
   "}"]

/-- `Return`; the result names are the data model's (C14) and are written `_r<i>` on both sides of the comparison -/
def returnText (sh : Shape) : List String :=
  let ct := sh.callType ++ sh.tinst
  let names := (List.range sh.results.length).map (fun i => "_r" ++ toString i)
  ["func (_c *" ++ ct ++ ") Return(" ++ Shape.commas ((names.zip sh.results).map (fun (n, r) => n ++ " " ++ r.1)) ++ ") *" ++ ct ++ " {",
   "_c.Call.Return(" ++ Shape.commas names ++ ")",
   "return _c",
   "}"]

def runAndReturnText (sh : Shape) : List String :=
  let ct := sh.callType ++ sh.tinst
  ["func (_c *" ++ ct ++ ") RunAndReturn(run func(" ++ sh.argList ++ ") " ++ sh.returnArgTypeList ++ ") *" ++ ct ++ " {",
   (if sh.results.isEmpty then "_c.Run(run)" else "_c.Call.Return(run)"),
   "return _c",
   "}"]

/-- layout-free form used by the comparison (semicolons, written or inserted by the scanner, are layout) -/
def squeeze (ls : List String) : String :=
  String.ofList (("".intercalate ls).toList.filter (fun c => !(c == ' ' || c == '\t' || c == '\n' || c == ';')))

/-- every declaration emitted per method, keyed as the harness keys them -/
def declarations (sh : Shape) : List (String × String) :=
  [("method", squeeze (methodText sh)), ("calltype", squeeze (callTypeText sh)), ("expecter", squeeze (expecterText sh)),
   ("run", squeeze (runText sh)), ("return", squeeze (returnText sh)), ("runandreturn", squeeze (runAndReturnText sh))]

end Mockery.Gen.TestifyEmit
