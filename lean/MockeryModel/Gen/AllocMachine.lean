import MockeryModel.Gen.Registry
/-
The allocator interface a template sees, as one state machine: one file
registry and any number of method scopes created from it, with operations
interleaved arbitrarily (C15's quantifier).
-/
namespace Mockery.Gen

inductive Op where
  | imp (name path : String)      -- Registry.AddImport
  | imports                        -- Registry.Imports (sorted listing)
  | pkgq (path : String)           -- Imports().PkgQualifier
  | newScope                       -- Registry.MethodScope
  | scope (k : Nat) (op : ScopeOp) -- an operation on the k-th scope created
deriving Repr

structure St where
  reg : Registry
  scopes : List Scope
deriving Repr

def renderImports (l : List Pkg) : String :=
  ";".intercalate (l.map fun p => p.path ++ "=" ++ p.qualifier ++ "=" ++ p.alias)

def St.step (s : St) : Op → St × String
  | .imp n p =>
    let (r', res) := s.reg.addImport n p
    ({ s with reg := r' }, match res with | none => "<nil>" | some q => q.qualifier)
  | .imports => (s, renderImports s.reg.sortedImports)
  | .pkgq p => (s, match s.reg.pkgQualifier p with | none => "<err>" | some q => q)
  | .newScope => ({ s with scopes := s.scopes ++ [s.reg.newScope] }, toString s.scopes.length)
  | .scope k op =>
    match s.scopes[k]? with
    | none => (s, "<noscope>")
    | some sc =>
      let (sc', o) := sc.step op
      ({ s with scopes := s.scopes.set k sc' }, o)

def St.run (s : St) : List Op → St × List String
  | [] => (s, [])
  | op :: ops =>
    let (s', o) := s.step op
    let (s'', os) := s'.run ops
    (s'', o :: os)

def St.init (dst : String) (inPkg : Bool) (dstName : String := "") : St :=
  { reg := { dstPkgPath := dst, inPackage := inPkg, imports := [], dstPkgName := dstName }, scopes := [] }

/-- The operations of a history that address scope `k`, in order. -/
def opsOf (k : Nat) : List Op → List ScopeOp
  | [] => []
  | .scope j op :: ops => if j = k then op :: opsOf k ops else opsOf k ops
  | _ :: ops => opsOf k ops

end Mockery.Gen
