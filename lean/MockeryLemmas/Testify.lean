import MockeryModel.Sem.Testify
/-! Helper lemmas for C03: result extraction one by one. -/
namespace Mockery.C03
open Mockery.Sem.Testify

/-- matchers written from values, some of them relaxed to `mock.Anything` -/
def relaxed : List Bool → List Val → List Matcher
  | b :: bs, v :: vs => (if b then .anything else .exact v) :: relaxed bs vs
  | _, _ => []

/-- when the return arguments are neither empty nor a single whole function, the results are extracted one by one -/
theorem extract_eq (sig : Sig) (e : Expectation) (typed : List Val) (hr : sig.nresults ≠ 0)
    (hne : e.rets ≠ []) (hnw : ∀ vs, e.rets ≠ [.wholeFunc vs]) :
    extract sig e typed =
      match extractAll e typed 0 sig.nresults with
      | (evs, some vs) => evs ++ [.returned vs]
      | (evs, none) => evs ++ [.panicked "conversion"] := by
  unfold extract
  simp only [hr, if_false]
  cases hrets : e.rets with
  | nil => exact absurd hrets hne
  | cons r rs =>
    cases rs with
    | nil =>
      cases r with
      | wholeFunc vs => exact absurd hrets (hnw vs)
      | val v => rfl
      | provider v => rfl
    | cons r2 rs2 => rfl

theorem extractAll_values (e : Expectation) (typed : List Val) (vs : List Val) (he : e.rets = vs.map .val) :
    ∀ (n i : Nat), i + n ≤ vs.length → extractAll e typed i n = ([], some ((vs.drop i).take n))
  | 0, i, _ => by simp [extractAll]
  | n + 1, i, h => by
    have hi : i < vs.length := by omega
    have ih := extractAll_values e typed vs he n (i + 1) (by omega)
    have hget : e.rets[i]? = some (.val vs[i]) := by simp [he, hi]
    simp only [extractAll, extractOne, hget, ih]
    simp only [List.nil_append]
    congr 2
    rw [List.drop_eq_getElem_cons hi, List.take_succ_cons]

theorem extractAll_providers (e : Expectation) (typed : List Val) (vs : List Val) (he : e.rets = vs.map .provider) :
    ∀ (n i : Nat), i + n ≤ vs.length →
      extractAll e typed i n =
        ((List.range' i n).map (fun k => Ev.saw "provider" e.id (some k) typed), some ((vs.drop i).take n))
  | 0, i, _ => by simp [extractAll]
  | n + 1, i, h => by
    have hi : i < vs.length := by omega
    have ih := extractAll_providers e typed vs he n (i + 1) (by omega)
    have hget : e.rets[i]? = some (.provider vs[i]) := by simp [he, hi]
    simp only [extractAll, extractOne, hget, ih]
    simp only [List.range'_succ, List.map_cons, List.singleton_append]
    congr 2
    rw [List.drop_eq_getElem_cons hi, List.take_succ_cons]


/-- `k` successive calls of `m(args)`; `none` as soon as one of them fails the test -/
def callN (m : String) (args : List Val) : Nat → Mock → Option Mock
  | 0, mk => some mk
  | k + 1, mk =>
    match called mk m args with
    | some (mk', _) => callN m args k mk'
    | none => none

theorem consume_matches (e : Expectation) (m : String) (args : List Val) :
    (consume e).matchesCall m args = e.matchesCall m args := by
  simp [consume, Expectation.matchesCall]

theorem called_single (e : Expectation) (m : String) (args : List Val) (calls : List (String × List Val))
    (hm : e.matchesCall m args = true) (hr : e.repeatability > -1) :
    called ⟨[e], calls⟩ m args = some (⟨[consume e], calls ++ [(m, args)]⟩, e) := by
  simp [called, findExpected, updateFirst, hm, hr]

theorem called_used_up (e : Expectation) (m : String) (args : List Val) (calls : List (String × List Val))
    (hr : e.repeatability = -1) : called ⟨[e], calls⟩ m args = none := by
  simp [called, findExpected, hr]


end Mockery.C03
