import MockeryModel.Gen.Data
import MockeryLemmas.Alloc
/-! Helper lemmas about Go type trees and the naming fold of the data model (C01, C13, C14). -/
namespace Mockery.Go

mutual
theorem resolve_qualifyT (q inv : String → String) : ∀ (t : GoType),
    (∀ p ∈ pkgsOf t, inv (q p.1) = p.1) → qualifyT inv (qualifyT q t) = t
  | .basic _, _ => rfl
  | .universe _ _, _ => rfl
  | .unsafePtr, _ => rfl
  | .named p pn n k ts un us, h => by
    simp only [qualifyT]
    have hp : inv (q p) = p := h (p, pn) (by simp [pkgsOf])
    rw [hp, resolve_qualifyL q inv ts (fun x hx => h x (by simp [pkgsOf, hx]))]
  | .typeParam _ _, _ => rfl
  | .pointer e, h => by simp only [qualifyT]; rw [resolve_qualifyT q inv e (fun x hx => h x (by simpa [pkgsOf] using hx))]
  | .slice e, h => by simp only [qualifyT]; rw [resolve_qualifyT q inv e (fun x hx => h x (by simpa [pkgsOf] using hx))]
  | .array _ e, h => by simp only [qualifyT]; rw [resolve_qualifyT q inv e (fun x hx => h x (by simpa [pkgsOf] using hx))]
  | .map k e, h => by
    simp only [qualifyT]
    rw [resolve_qualifyT q inv k (fun x hx => h x (by simp [pkgsOf, hx])),
        resolve_qualifyT q inv e (fun x hx => h x (by simp [pkgsOf, hx]))]
  | .chan _ e, h => by simp only [qualifyT]; rw [resolve_qualifyT q inv e (fun x hx => h x (by simpa [pkgsOf] using hx))]
  | .func ps rs _, h => by
    simp only [qualifyT]
    rw [resolve_qualifyF q inv ps (fun x hx => h x (by simp [pkgsOf, hx])),
        resolve_qualifyF q inv rs (fun x hx => h x (by simp [pkgsOf, hx]))]
  | .struct fs _, h => by
    simp only [qualifyT]
    rw [resolve_qualifyF q inv fs (fun x hx => h x (by simpa [pkgsOf] using hx))]
  | .iface ms es, h => by
    simp only [qualifyT]
    rw [resolve_qualifyF q inv ms (fun x hx => h x (by simp [pkgsOf, hx])),
        resolve_qualifyL q inv es (fun x hx => h x (by simp [pkgsOf, hx]))]
  | .union ts, h => by
    simp only [qualifyT]
    rw [resolve_qualifyU q inv ts (fun x hx => h x (by simpa [pkgsOf] using hx))]
theorem resolve_qualifyL (q inv : String → String) : ∀ (ts : List GoType),
    (∀ p ∈ pkgsL ts, inv (q p.1) = p.1) → qualifyL inv (qualifyL q ts) = ts
  | [], _ => rfl
  | t :: ts, h => by
    simp only [qualifyL]
    rw [resolve_qualifyT q inv t (fun x hx => h x (by simp [pkgsL, hx])),
        resolve_qualifyL q inv ts (fun x hx => h x (by simp [pkgsL, hx]))]
theorem resolve_qualifyF (q inv : String → String) : ∀ (ts : List (String × GoType)),
    (∀ p ∈ pkgsF ts, inv (q p.1) = p.1) → qualifyF inv (qualifyF q ts) = ts
  | [], _ => rfl
  | (n, t) :: ts, h => by
    simp only [qualifyF]
    rw [resolve_qualifyT q inv t (fun x hx => h x (by simp [pkgsF, hx])),
        resolve_qualifyF q inv ts (fun x hx => h x (by simp [pkgsF, hx]))]
theorem resolve_qualifyU (q inv : String → String) : ∀ (ts : List (Bool × GoType)),
    (∀ p ∈ pkgsU ts, inv (q p.1) = p.1) → qualifyU inv (qualifyU q ts) = ts
  | [], _ => rfl
  | (b, t) :: ts, h => by
    simp only [qualifyU]
    rw [resolve_qualifyT q inv t (fun x hx => h x (by simp [pkgsU, hx])),
        resolve_qualifyU q inv ts (fun x hx => h x (by simp [pkgsU, hx]))]
end

end Mockery.Go

namespace Mockery.Gen
open Mockery.Go

/-! ### the import fold -/

theorem addImports_paths_aux (pkgs : List (String × String)) :
    ∀ (r : Registry) (acc : List (String × String)),
      (pkgs.foldl (fun (a : Registry × List (String × String)) (p : String × String) =>
        ((a.1.addImport p.2 p.1).1, a.2 ++ [(p.1, Registry.qualOf (a.1.addImport p.2 p.1).2)])) (r, acc)).2.map (·.1)
      = acc.map (·.1) ++ pkgs.map (·.1) := by
  induction pkgs with
  | nil => intro r acc; simp
  | cons p ps ih =>
    intro r acc
    simp only [List.foldl_cons, List.map_cons]
    rw [ih]
    simp

/-- **imports closed**: the per-variable import table has exactly one entry per package occurrence of
the type, in traversal order – every package the type mentions can be qualified -/
theorem addImports_paths (r : Registry) (pkgs : List (String × String)) :
    (addImports r pkgs).2.map (·.1) = pkgs.map (·.1) := by
  unfold addImports
  have := addImports_paths_aux pkgs r []
  simpa using this

theorem addImports_reg_aux (pkgs : List (String × String)) :
    ∀ (r : Registry) (acc : List (String × String)),
      (pkgs.foldl (fun (a : Registry × List (String × String)) (p : String × String) =>
        ((a.1.addImport p.2 p.1).1, a.2 ++ [(p.1, Registry.qualOf (a.1.addImport p.2 p.1).2)])) (r, acc)).1
      = pkgs.foldl (fun r p => (r.addImport p.2 p.1).1) r := by
  induction pkgs with
  | nil => intro r acc; rfl
  | cons p ps ih => intro r acc; simp only [List.foldl_cons]; exact ih _ _

theorem addImports_reg (r : Registry) (pkgs : List (String × String)) :
    (addImports r pkgs).1 = pkgs.foldl (fun r p => (r.addImport p.2 p.1).1) r := by
  unfold addImports
  exact addImports_reg_aux pkgs r []

theorem addImport_paths_step (r : Registry) (name path x : String)
    (hx : x ∈ (r.addImport name path).1.paths) : x ∈ r.paths ∨ x = path := by
  unfold Registry.addImport at hx
  split at hx
  · exact Or.inl hx
  · split at hx
    · exact Or.inl hx
    · simp only [Registry.paths, List.map_append, List.map_cons, List.map_nil, List.mem_append,
        List.mem_singleton] at hx
      rcases hx with hx | hx
      · exact Or.inl hx
      · right; rw [hx]; simp [Registry.mkPkg]

/-- a package is in the registry after a fold only if it was there before or was asked for -/
theorem addImports_origin (pkgs : List (String × String)) : ∀ (r : Registry) (x : String),
    x ∈ (pkgs.foldl (fun r p => (r.addImport p.2 p.1).1) r).paths → x ∈ r.paths ∨ x ∈ pkgs.map (·.1) := by
  induction pkgs with
  | nil => intro r x h; exact Or.inl h
  | cons p ps ih =>
    intro r x h
    simp only [List.foldl_cons] at h
    rcases ih _ x h with h' | h'
    · rcases addImport_paths_step r p.2 p.1 x h' with h'' | h''
      · exact Or.inl h''
      · right; simp [h'']
    · right; simp [h']

/-! ### collision resolution -/

theorem resolveCollisions_names (scope : Scope) : ∀ (vars : List VarOut),
    ((resolveCollisions scope vars).2.map (·.name)).Nodup ∧
    (∀ n ∈ (resolveCollisions scope vars).2.map (·.name), n ∉ scope.names) ∧
    (resolveCollisions scope vars).2.length = vars.length ∧
    (∀ n ∈ scope.names, n ∈ (resolveCollisions scope vars).1.names) ∧
    (∀ n ∈ (resolveCollisions scope vars).2.map (·.name), n ∈ (resolveCollisions scope vars).1.names) := by
  intro vars
  induction vars generalizing scope with
  | nil => simp [resolveCollisions]
  | cons v vs ih =>
    simp only [resolveCollisions]
    obtain ⟨h1, h2, h3, h4, h5⟩ := ih (scope.addName (scope.suggest v.name))
    have hfresh : scope.suggest v.name ∉ scope.names := (suggestName_spec scope.names v.name).1
    refine ⟨?_, ?_, ?_, ?_, ?_⟩
    · simp only [List.map_cons, List.nodup_cons]
      refine ⟨?_, h1⟩
      intro hmem
      have := h2 _ hmem
      simp [Scope.addName] at this
    · intro n hn
      simp only [List.map_cons, List.mem_cons] at hn
      rcases hn with rfl | hn
      · exact hfresh
      · have := h2 n hn
        simp only [Scope.addName, List.mem_cons, not_or] at this
        exact this.2
    · simp [h3]
    · intro n hn
      exact h4 n (by simp [Scope.addName, hn])
    · intro n hn
      simp only [List.map_cons, List.mem_cons] at hn
      rcases hn with rfl | hn
      · exact h4 _ (by simp [Scope.addName])
      · exact h5 n hn

end Mockery.Gen
