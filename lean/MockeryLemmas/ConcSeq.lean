import MockeryModel.Sem.Conc
import MockeryLemmas.Conc
/-! Helper lemmas for C05: disciplined programs compose. -/
namespace Mockery.C05
open Mockery.Sem.Conc

/-- the flag "tmp is a valid copy" is irrelevant while no lock is held -/
theorem wb_none_flag (l l' : Bool) : ∀ p : List Act, wb .none l p = wb .none l' p
  | [] => by simp [wb]
  | .lock _ :: _ => by simp [wb]
  | .rlock _ :: _ => by simp [wb]
  | .loc :: r => by simp only [wb]; exact wb_none_flag l l' r
  | .unlock _ :: _ => by simp [wb]
  | .runlock _ :: _ => by simp [wb]
  | .load _ :: _ => by simp [wb]
  | .storeApp _ _ :: _ => by simp [wb]
  | .storeNil _ :: _ => by simp [wb]
  | .snap _ :: _ => by simp [wb]

/-- disciplined programs compose -/
theorem wb_append (q : List Act) (hq : wb .none false q = true) :
    ∀ (p : List Act) (h : Held) (l : Bool), wb h l p = true → wb h l (p ++ q) = true := by
  intro p
  induction p with
  | nil =>
    intro h l hp
    cases h <;> simp [wb] at hp
    simpa [wb_none_flag l false q] using hq
  | cons a p ih =>
    intro h l hp
    have W := wb_head hp
    cases a <;> cases h <;> cases l <;> simp [wb] at hp ⊢ <;> simp_all

end Mockery.C05
