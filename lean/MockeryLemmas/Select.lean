import MockeryModel.Config.Select
import MockeryLemmas.Merge
/-! Helper lemmas for C07: selection, discovery, recursive injection. -/
namespace Mockery.Config

/-- every regular expression that occurs compiles -/
def MatcherTotal (m : Matcher) : Prop := ∀ r s, (m r s).isSome = true

/-- the documented selection rule, as a Boolean formula -/
def wants (m : Matcher) (all listed : Bool) (inc exc name : String) : Bool :=
  all || listed || (inc != "" && (m inc name == some true) && !(exc != "" && (m exc name == some true)))

theorem shouldGenerate_eq_wants (m : Matcher) (hm : MatcherTotal m) (all listed : Bool) (inc exc name : String) :
    shouldGenerate m all listed inc exc name = .ok (wants m all listed inc exc name) := by
  unfold shouldGenerate wants
  cases all <;> cases listed <;> simp
  · by_cases hi : inc = ""
    · simp [hi, pure, Except.pure]
    · simp only [hi, if_false]
      have h1 := hm inc name
      cases hmi : m inc name with
      | none => simp [hmi] at h1
      | some b =>
        cases b
        · simp [pure, Except.pure]
        · by_cases he : exc = ""
          · simp [he, hi, pure, Except.pure]
          · simp only [he, if_false]
            have h2 := hm exc name
            cases hme : m exc name with
            | none => simp [hme] at h2
            | some c => cases c <;> simp [hi, he, pure, Except.pure]
  all_goals simp [pure, Except.pure]

theorem mapM_ok_of_forall {α β} (f : α → Except SelErr β) (g : α → β) (l : List α)
    (h : ∀ a ∈ l, f a = .ok (g a)) : l.mapM f = .ok (l.map g) := by
  induction l with
  | nil => rfl
  | cons a as ih =>
    have h1 := h a (List.mem_cons_self ..)
    have h2 := ih (fun x hx => h x (List.mem_cons_of_mem _ hx))
    simp [List.mapM_cons, h1, h2, bind, Except.bind, pure, Except.pure]

/-! ### discovery -/

theorem mem_discover {decls : List Decl} {n : String} :
    n ∈ discover decls ↔ ∃ d ∈ decls, d.name = n ∧ d.isLocal = false ∧ d.rhsCandidate = true ∧ d.name ≠ "_" ∧
      d.isNamed = true ∧ d.isInterface = true := by
  simp only [discover, List.mem_map, List.mem_filter, Bool.and_eq_true, Bool.not_eq_true', bne_iff_ne]
  constructor
  · rintro ⟨d, ⟨hd, ⟨⟨⟨⟨h1, h2⟩, h3⟩, h4⟩, h5⟩⟩, rfl⟩
    exact ⟨d, hd, rfl, h1, h2, h3, h4, h5⟩
  · rintro ⟨d, hd, rfl, h1, h2, h3, h4, h5⟩
    exact ⟨d, ⟨hd, ⟨⟨⟨⟨h1, h2⟩, h3⟩, h4⟩, h5⟩⟩, rfl⟩

/-! ### packages as an association list -/

theorem getPkg_setPkg_same (ps : List (String × PkgOut)) (k : String) (v : PkgOut) :
    getPkg (setPkg ps k v) k = some v := by
  induction ps with
  | nil => simp [setPkg, getPkg]
  | cons a as ih =>
    simp only [setPkg]
    split
    · simp [getPkg]
    · rename_i h
      simp only [getPkg, List.find?_cons] at ih ⊢
      have : (a.1 == k) = false := by simpa using h
      simp [this, ih]

theorem getPkg_setPkg_other (ps : List (String × PkgOut)) (k k' : String) (v : PkgOut) (h : k' ≠ k) :
    getPkg (setPkg ps k v) k' = getPkg ps k' := by
  induction ps with
  | nil => simp [setPkg, getPkg, Ne.symm h]
  | cons a as ih =>
    simp only [setPkg]
    split
    · rename_i e
      have : (k == k') = false := by simpa using Ne.symm h
      have h2 : (a.1 == k') = false := by rw [e]; exact this
      simp [getPkg, List.find?_cons, this, h2]
    · simp only [getPkg, List.find?_cons] at ih ⊢
      cases a.1 == k' <;> simp [ih]

theorem keys_setPkg (ps : List (String × PkgOut)) (k : String) (v : PkgOut) (x : String) :
    x ∈ (setPkg ps k v).map (·.1) ↔ x = k ∨ x ∈ ps.map (·.1) := by
  induction ps with
  | nil => simp [setPkg]
  | cons a as ih =>
    simp only [setPkg]
    split
    · rename_i e; simp [e]
    · simp only [List.map_cons, List.mem_cons, ih]
      constructor
      · rintro (h | h | h)
        · right; left; exact h
        · left; exact h
        · right; right; exact h
      · rintro (h | h | h)
        · right; left; exact h
        · left; exact h
        · right; right; exact h

/-- one injection step (a sub-package that is not excluded) -/
def injectStep (ft : FieldTable) (pc : PkgOut) (acc : List (String × PkgOut)) (sub : String) :
    List (String × PkgOut) :=
  let existing := (getPkg acc sub).getD ⟨[], []⟩
  setPkg acc sub { existing with config := mergeConfigs ft pc.config existing.config }

theorem foldlM_inject_spec (ft : FieldTable) (m : Matcher) (pc : PkgOut) (regs : List String) :
    ∀ (subs : List String) (acc out : List (String × PkgOut)),
    subs.foldlM (fun acc sub => do
      if ← shouldExclude m regs sub then pure acc
      else
        let existing := (getPkg acc sub).getD ⟨[], []⟩
        pure (setPkg acc sub { existing with config := mergeConfigs ft pc.config existing.config })) acc = .ok out →
    -- every key of the result was there before or is a non-excluded sub-package
    (∀ x, x ∈ out.map (·.1) → x ∈ acc.map (·.1) ∨ (x ∈ subs ∧ shouldExclude m regs x = .ok false)) ∧
    -- every non-excluded sub-package is in the result, excluded ones are not added
    (∀ x, x ∈ subs → shouldExclude m regs x = .ok false → x ∈ out.map (·.1)) ∧
    (∀ x, x ∉ acc.map (·.1) → shouldExclude m regs x = .ok true → x ∉ out.map (·.1)) := by
  intro subs
  induction subs with
  | nil =>
    intro acc out h
    simp only [List.foldlM_nil, pure, Except.pure, Except.ok.injEq] at h
    subst h
    exact ⟨fun x hx => Or.inl hx, fun x hx _ => absurd hx (List.not_mem_nil), fun x hx _ => hx⟩
  | cons s rest ih =>
    intro acc out h
    simp only [List.foldlM_cons, bind, Except.bind] at h
    cases hs : shouldExclude m regs s with
    | error e => simp [hs] at h
    | ok b =>
      simp only [hs] at h
      cases b with
      | true =>
        simp only [↓reduceIte, pure, Except.pure] at h
        obtain ⟨h1, h2, h3⟩ := ih acc out h
        refine ⟨?_, ?_, h3⟩
        · intro x hx
          rcases h1 x hx with h | ⟨h, h'⟩
          · exact Or.inl h
          · exact Or.inr ⟨List.mem_cons_of_mem _ h, h'⟩
        · intro x hx hex
          rcases List.mem_cons.1 hx with rfl | hx
          · rw [hs] at hex; cases hex
          · exact h2 x hx hex
      | false =>
        simp only [Bool.false_eq_true, ↓reduceIte, pure, Except.pure] at h
        obtain ⟨h1, h2, h3⟩ := ih _ out h
        refine ⟨?_, ?_, ?_⟩
        · intro x hx
          rcases h1 x hx with h | ⟨h, h'⟩
          · rcases (keys_setPkg _ _ _ _).1 h with rfl | h
            · exact Or.inr ⟨List.mem_cons_self .., hs⟩
            · exact Or.inl h
          · exact Or.inr ⟨List.mem_cons_of_mem _ h, h'⟩
        · intro x hx hex
          rcases List.mem_cons.1 hx with rfl | hx
          · -- s itself was set in the first step and keys only grow
            have : x ∈ (setPkg acc x { (getPkg acc x).getD ⟨[], []⟩ with
                config := mergeConfigs ft pc.config ((getPkg acc x).getD ⟨[], []⟩).config }).map (·.1) :=
              (keys_setPkg _ _ _ _).2 (Or.inl rfl)
            -- keys are preserved by the remaining fold
            have grow : ∀ (l : List String) (a o : List (String × PkgOut)),
                l.foldlM (fun acc sub => do
                  if ← shouldExclude m regs sub then pure acc
                  else
                    let existing := (getPkg acc sub).getD ⟨[], []⟩
                    pure (setPkg acc sub { existing with config := mergeConfigs ft pc.config existing.config })) a = .ok o →
                ∀ y, y ∈ a.map (·.1) → y ∈ o.map (·.1) := by
              intro l
              induction l with
              | nil =>
                intro a o ho y hy
                simp only [List.foldlM_nil, pure, Except.pure, Except.ok.injEq] at ho
                subst ho; exact hy
              | cons t ts iht =>
                intro a o ho y hy
                simp only [List.foldlM_cons, bind, Except.bind] at ho
                cases ht : shouldExclude m regs t with
                | error e => simp [ht] at ho
                | ok b =>
                  simp only [ht] at ho
                  cases b with
                  | true => simp only [↓reduceIte, pure, Except.pure] at ho; exact iht a o ho y hy
                  | false =>
                    simp only [Bool.false_eq_true, ↓reduceIte, pure, Except.pure] at ho
                    exact iht _ o ho y ((keys_setPkg _ _ _ _).2 (Or.inr hy))
            exact grow rest _ out h x this
          · exact h2 x hx hex
        · intro x hx hex
          apply h3 x _ hex
          intro hc
          rcases (keys_setPkg _ _ _ _).1 hc with rfl | hc
          · rw [hs] at hex; cases hex
          · exact hx hc

end Mockery.Config
