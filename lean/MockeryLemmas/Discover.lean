import MockeryModel.Gen.Discover
import MockeryModel.Gen.Data
import MockeryLemmas.Types
/-! Helper lemmas for C02: expressions record nothing, folds that append one output per element, element-wise relation of emitted variables to their sources. -/
namespace Mockery.C02
open Mockery.Gen Mockery.Go

mutual
/-- an expression records nothing: type specs in it are below function literals -/
theorem visit_expr : ∀ n, exprLike n = true → visit n = []
  | .typeSpec _ _, h => by simp [exprLike] at h
  | .funcDecl _, _ => by simp [visit]
  | .funcLit _, _ => by simp [visit]
  | .other cs, h => by
      simp only [visit]; exact visitAll_expr cs (by simpa [exprLike] using h)

theorem visitAll_expr : ∀ cs, exprLikeAll cs = true → visitAll cs = []
  | [], _ => rfl
  | c :: cs, h => by
      simp [exprLikeAll] at h
      simp [visitAll, visit_expr c h.1, visitAll_expr cs h.2]
end

theorem visitAll_specs : ∀ specs : List (String × SpecKind),
    visitAll (specs.map (fun s => Node.typeSpec s.1 s.2)) = (specs.filter (·.2.accepted)).map (·.1)
  | [] => rfl
  | s :: ss => by
      simp only [List.map, visitAll, visit, visitAll_specs ss, List.filter]
      cases s.2.accepted <;> simp

/-- a fold that threads a state and appends one output per element keeps one output per element, in order -/
theorem foldl_append_map {α β σ γ : Type} (step : σ → α → σ × β) (proj : β → γ) (key : α → γ)
    (h : ∀ s a, proj (step s a).2 = key a) :
    ∀ (l : List α) (s : σ) (acc : List β),
      ((l.foldl (fun (acc : σ × List β) a => ((step acc.1 a).1, acc.2 ++ [(step acc.1 a).2])) (s, acc)).2).map proj
        = acc.map proj ++ l.map key
  | [], _, _ => by simp
  | a :: l, s, acc => by
      simp only [List.foldl]
      rw [foldl_append_map step proj key h l]
      simp [h]

/-- two lists related element by element -/
inductive Pointwise {α β : Type} (R : α → β → Prop) : List α → List β → Prop
  | nil : Pointwise R [] []
  | cons {a b as bs} : R a b → Pointwise R as bs → Pointwise R (a :: as) (b :: bs)

theorem Pointwise.length_eq {α β : Type} {R : α → β → Prop} {l₁ : List α} {l₂ : List β} (h : Pointwise R l₁ l₂) :
    l₁.length = l₂.length := by
  induction h with
  | nil => rfl
  | cons _ _ ih => simp [ih]

theorem Pointwise.append {α β : Type} {R : α → β → Prop} {a₁ a₂ : List α} {b₁ b₂ : List β}
    (h₁ : Pointwise R a₁ b₁) (h₂ : Pointwise R a₂ b₂) : Pointwise R (a₁ ++ a₂) (b₁ ++ b₂) := by
  induction h₁ with
  | nil => simpa using h₂
  | cons h _ ih => exact .cons h ih

/-- the type a variable is emitted with: the source type, or its `replace-type` replacement (C13) -/
def effType (v : VarIn) : GoType := v.replacement.getD v.type

/-- an emitted variable matches its source: the type string is the source type printed under some
qualifier map (C14 `resolve_qualify`: that reads back as the same type), and the flags are the type's -/
def VarMatches (o : VarOut) (v : VarIn × Bool) : Prop :=
  (∃ q, o.typeString = typeString q (effType v.1)) ∧ o.variadic = v.2 ∧
    o.nillable = nillable (effType v.1) ∧ o.isSlice = isSlice (effType v.1)

theorem addVar_appends (st : VarState) (v : VarIn) (b : Bool) :
    ∃ o, (addVar st v b).vars = st.vars ++ [o] ∧ VarMatches o (v, b) := by
  unfold addVar
  cases hr : v.replacement with
  | some rt =>
    exact ⟨_, rfl, ⟨qualifierOf (addImports st.reg ((pkgsOf rt).take 1)).2, by simp [effType, hr]⟩, rfl,
      by simp [effType, hr], by simp [effType, hr]⟩
  | none =>
    exact ⟨_, rfl, ⟨qualifierOf (addImports st.reg (pkgsOf v.type)).2, by simp [effType, hr]⟩, rfl,
      by simp [effType, hr], by simp [effType, hr]⟩

theorem addVars_appends : ∀ (l : List (VarIn × Bool)) (st : VarState),
    ∃ new, (l.foldl (fun st p => addVar st p.1 p.2) st).vars = st.vars ++ new ∧ Pointwise VarMatches new l
  | [], st => ⟨[], by simp, .nil⟩
  | p :: l, st => by
      obtain ⟨o, ho, hm⟩ := addVar_appends st p.1 p.2
      obtain ⟨new, hn, hf⟩ := addVars_appends l (addVar st p.1 p.2)
      refine ⟨o :: new, ?_, .cons hm hf⟩
      simp only [List.foldl]; rw [hn, ho]; simp

/-- the parameters with the variadic flag `methodData` gives them: the last one iff the method is variadic -/
def paramsFlagged (m : MethodIn) : List (VarIn × Bool) :=
  (m.params.zip (List.range m.params.length)).map (fun p => (p.1, m.variadic && p.2 + 1 == m.params.length))

theorem paramsFlagged_length (m : MethodIn) : (paramsFlagged m).length = m.params.length := by
  simp [paramsFlagged]

theorem methodData_vars (reg : Registry) (tps : List String) (m : MethodIn) :
    (methodData reg tps m).2.2.2 = m.params.length ∧
    Pointwise VarMatches (methodData reg tps m).2.2.1 (paramsFlagged m ++ m.results.map (fun v => (v, false))) := by
  refine ⟨rfl, ?_⟩
  simp only [methodData]
  have h1 := addVars_appends (paramsFlagged m) ⟨reg, tps.foldl (fun s n => s.addName (exportedName n)) reg.newScope, []⟩
  obtain ⟨n1, e1, f1⟩ := h1
  have h2 := addVars_appends (m.results.map (fun v => (v, false)))
    ((paramsFlagged m).foldl (fun st p => addVar st p.1 p.2) ⟨reg, tps.foldl (fun s n => s.addName (exportedName n)) reg.newScope, []⟩)
  obtain ⟨n2, e2, f2⟩ := h2
  simp only [paramsFlagged, List.foldl_map] at e1 e2
  rw [e2, e1]
  simpa using Pointwise.append f1 f2

theorem resolve_pointwise (scope : Scope) : ∀ (vars : List VarOut),
    Pointwise (fun (o v : VarOut) => o.typeString = v.typeString ∧ o.variadic = v.variadic ∧
      o.nillable = v.nillable ∧ o.isSlice = v.isSlice) (resolveCollisions scope vars).2 vars
  | [] => .nil
  | v :: vs => by
      simp only [resolveCollisions]
      exact .cons ⟨rfl, rfl, rfl, rfl⟩ (resolve_pointwise _ vs)

theorem pointwise_transport {os vs : List VarOut} {ins : List (VarIn × Bool)}
    (hp : Pointwise (fun (o v : VarOut) => o.typeString = v.typeString ∧ o.variadic = v.variadic ∧
      o.nillable = v.nillable ∧ o.isSlice = v.isSlice) os vs)
    (hf : Pointwise VarMatches vs ins) : Pointwise VarMatches os ins := by
  induction hp generalizing ins with
  | nil => cases hf; exact .nil
  | cons hab _ ih =>
      cases hf with
      | cons hm hrest =>
        refine .cons ?_ (ih hrest)
        obtain ⟨⟨q, hq⟩, h2, h3, h4⟩ := hm
        exact ⟨⟨q, hab.1.trans hq⟩, hab.2.1.trans h2, hab.2.2.1.trans h3, hab.2.2.2.trans h4⟩

end Mockery.C02
