import MockeryModel.Config.Select
import MockeryModel.Generated.MergeFacts
/-
The model's recursive injection step (`Config/Select.lean` `injectOne`) against the translation of the loop over the
sub-packages in `RootConfig.Initialize` (`Generated/MergeFacts.lean` `rootInjectEntryEffects`).
-/
namespace Mockery.Config
open Mockery.Generated

/-- one iteration of the loop over the sub-packages of a recursive package, as `injectOne` folds it -/
def injectStepE (ft : FieldTable) (m : Matcher) (parentCfg : Cfg) (acc : List (String × PkgOut)) (sub : String) :
    Except SelErr (List (String × PkgOut)) := do
  if ← shouldExclude m (listOf parentCfg "exclude-subpkg-regex") sub then pure acc
  else
    let existing := (getPkg acc sub).getD ⟨[], []⟩
    pure (setPkg acc sub { existing with config := mergeConfigs ft parentCfg existing.config })

theorem injectOne_is_fold (ft : FieldTable) (m : Matcher) (subPkgs : String → List String)
    (ps : List (String × PkgOut)) (parent : String) (pc : PkgOut) (h : getPkg ps parent = some pc) :
    injectOne ft m subPkgs ps parent = (subPkgs parent).foldlM (injectStepE ft m pc.config) ps := by
  simp only [injectOne, h]; rfl

structure InjSt where
  acc : List (String × PkgOut)
  cur : Option PkgOut
  failed : Bool

/-- what a declared effect of the translated loop body does -/
def applyInjectEffect (ft : FieldTable) (parentCfg : Cfg) (sub : String) (st : InjSt) : String → InjSt
  | "sub := existing" => { st with cur := getPkg st.acc sub }
  | "sub := new" => { st with cur := some ⟨[], []⟩ }
  | "merge parent config into sub.config" =>
    { st with cur := st.cur.map (fun s => { s with config := mergeConfigs ft parentCfg s.config }) }
  | "store sub" => match st.cur with
    | some s => { st with acc := setPkg st.acc sub s }
    | none => st
  | "error: exclude-subpkg-regex" => { st with failed := true }
  | _ => st

def runInject (ft : FieldTable) (parentCfg : Cfg) (sub : String) (acc : List (String × PkgOut)) (effs : List String) : InjSt :=
  effs.foldl (applyInjectEffect ft parentCfg sub) ⟨acc, none, false⟩

def exceptToOption {ε α : Type} : Except ε α → Option α
  | .ok a => some a
  | .error _ => none

theorem injectStep_translated (ft : FieldTable) (m : Matcher) (parentCfg : Cfg) (acc : List (String × PkgOut)) (sub : String) :
    let st := runInject ft parentCfg sub acc
      (Merge.rootInjectEntryEffects (exceptToOption (shouldExclude m (listOf parentCfg "exclude-subpkg-regex") sub))
        (getPkg acc sub).isSome)
    match injectStepE ft m parentCfg acc sub with
    | .ok acc' => st.failed = false ∧ st.acc = acc'
    | .error _ => st.failed = true ∧ st.acc = acc := by
  unfold injectStepE
  cases hx : shouldExclude m (listOf parentCfg "exclude-subpkg-regex") sub with
  | error e => simp [exceptToOption, Merge.rootInjectEntryEffects, runInject, applyInjectEffect, bind, Except.bind]
  | ok b =>
    cases b with
    | true => simp [exceptToOption, Merge.rootInjectEntryEffects, runInject, bind, Except.bind, pure, Except.pure]
    | false =>
      cases hg : getPkg acc sub with
      | none => simp [exceptToOption, Merge.rootInjectEntryEffects, runInject, applyInjectEffect, bind, Except.bind, pure, Except.pure, hg]
      | some s => simp [exceptToOption, Merge.rootInjectEntryEffects, runInject, applyInjectEffect, bind, Except.bind, pure, Except.pure, hg]

end Mockery.Config
