import MockeryModel.Sem.Conc
/-! Lemmas for C05: the invariant of the lock discipline is inductive. -/
namespace Mockery.Sem.Conc

theorem wb_lock_inv {h l m r} (w : wb h l (.lock m :: r) = true) : h = .none ∧ wb (.w m) false r = true := by
  cases h <;> cases l <;> simp_all [wb]

theorem noRace_of_inv {s} (h : Inv s) : ¬ Race s := by
  rintro ⟨i, j, a, b, ra, rb, m, wa, wb', hij, hi, hj, ha, hb, hw⟩
  have di := h.disc i
  have dj := h.disc j
  rw [hi] at di; rw [hj] at dj
  -- which of the two is the write
  have key : ∀ (x : Tid) (c : Act) (rc : List Act) (wr : Bool), wb (s.th x).held (s.th x).loaded (c :: rc) = true →
      access c = some (m, wr) → ((s.th x).held = .w m ∨ ((s.th x).held = .r m ∧ wr = false)) := by
    intro x c rc wr hx hc
    cases c <;> simp [access] at hc <;> obtain ⟨rfl, rfl⟩ := hc <;>
      generalize (s.th x).held = hh at hx <;> generalize (s.th x).loaded = ll at hx <;>
      cases hh <;> cases ll <;> simp_all [wb]
  have ki := key i a ra wa di ha
  have kj := key j b rb wb' dj hb
  rcases ki with ki | ⟨ki, kw⟩
  · have := h.excl i j m hij ki
    rcases kj with kj | ⟨kj, _⟩
    · exact this.1 kj
    · exact this.2 kj
  · rcases kj with kj | ⟨kj, kw'⟩
    · have := h.excl j i m (Ne.symm hij) kj
      exact this.2 ki
    · rcases hw with hw | hw <;> simp_all


theorem wb_head {h l a r} (w : wb h l (a :: r) = true) :
    match a with
    | .lock m => h = .none ∧ wb (.w m) false r = true
    | .rlock m => h = .none ∧ wb (.r m) false r = true
    | .unlock m => h = .w m ∧ wb .none false r = true
    | .runlock m => h = .r m ∧ wb .none false r = true
    | .load m => h = .w m ∧ wb (.w m) true r = true
    | .storeApp m _ => h = .w m ∧ l = true ∧ wb (.w m) false r = true
    | .storeNil m => h = .w m ∧ wb (.w m) false r = true
    | .snap m => (h = .w m ∨ h = .r m) ∧ wb h l r = true
    | .loc => wb h l r = true := by
  cases a <;> cases h <;> cases l <;> simp [wb] at w ⊢ <;>
    (try (obtain ⟨rfl, w⟩ := w)) <;> simp_all

/-- frame: facts about threads other than the stepping one -/
theorem step_inv {s i s'} (h : Inv s) (st : Step s i s') : Inv s' := by
  have D := h.disc i
  cases st with
  | lock hc hh hf =>
    rename_i m rest
    rw [hc] at D; have W := wb_head D; simp only at W
    refine ⟨?_, ?_, ?_, ?_⟩
    · intro j; by_cases e : j = i
      · subst e; simp [W.2]
      · simp [e, h.disc j]
    · intro a b m' hab ha
      by_cases ea : a = i <;> by_cases eb : b = i
      · exact absurd (ea.trans eb.symm) hab
      · subst ea; simp [eb] at ha ⊢; subst ha; exact hf b
      · subst eb; simp [ea] at ha ⊢
        have := hf a
        intro hm; subst hm; exact this.1 ha
      · simp [ea, eb] at ha ⊢; exact h.excl a b m' hab ha
    · intro a m' ha hl
      by_cases ea : a = i
      · subst ea; simp at hl
      · simp [ea] at ha hl ⊢; exact h.valid a m' ha hl
    · exact h.lin
  | storeApp hc =>
    rename_i m x rest
    rw [hc] at D; have W := wb_head D; simp only at W
    obtain ⟨hw, hl, hr⟩ := W
    refine ⟨?_, ?_, ?_, ?_⟩
    · intro j; by_cases e : j = i
      · subst e; simp [hw] at hr ⊢; exact hr
      · simp [e, h.disc j]
    · intro a b m' hab ha
      by_cases ea : a = i <;> by_cases eb : b = i
      · exact absurd (ea.trans eb.symm) hab
      · subst ea; simp [eb] at ha ⊢; exact h.excl a b m' hab ha
      · subst eb; simp [ea] at ha ⊢; exact h.excl a b m' hab ha
      · simp [ea, eb] at ha ⊢; exact h.excl a b m' hab ha
    · intro a m' ha hl'
      by_cases ea : a = i
      · subst ea; simp at hl'
      · simp [ea] at ha hl' ⊢
        have v := h.valid a m' ha hl'
        have : m' ≠ m := by
          intro e; subst e
          exact (h.excl a i m' ea ha).1 hw
        simp [upd, this, v]
    · intro m'
      by_cases e : m' = m
      · subst e; simp [upd]
        rw [h.valid i m' hw hl, h.lin m']
      · simp [upd, e, h.lin m']
  | unlock hc hh =>
    rename_i m rest
    rw [hc] at D; have W := wb_head D; simp only at W
    refine ⟨?_, ?_, ?_, ?_⟩
    · intro j; by_cases e : j = i
      · subst e; simp [W.2]
      · simp [e, h.disc j]
    · intro a b m' hab ha
      by_cases ea : a = i <;> by_cases eb : b = i
      · exact absurd (ea.trans eb.symm) hab
      · subst ea; simp [eb] at ha
      · subst eb; simp [ea] at ha ⊢
      · simp [ea, eb] at ha ⊢; exact h.excl a b m' hab ha
    · intro a m' ha hl
      by_cases ea : a = i
      · subst ea; simp at hl
      · simp [ea] at ha hl ⊢; exact h.valid a m' ha hl
    · exact h.lin
  | rlock hc hh hf =>
    rename_i m rest
    rw [hc] at D; have W := wb_head D; simp only at W
    refine ⟨?_, ?_, ?_, ?_⟩
    · intro j; by_cases e : j = i
      · subst e; simp [W.2]
      · simp [e, h.disc j]
    · intro a b m' hab ha
      by_cases ea : a = i <;> by_cases eb : b = i
      · exact absurd (ea.trans eb.symm) hab
      · subst ea; simp [eb] at ha
      · subst eb; simp [ea] at ha ⊢
        intro hm; subst hm; exact hf a ha
      · simp [ea, eb] at ha ⊢; exact h.excl a b m' hab ha
    · intro a m' ha hl
      by_cases ea : a = i
      · subst ea; simp at hl
      · simp [ea] at ha hl ⊢; exact h.valid a m' ha hl
    · exact h.lin
  | runlock hc hh =>
    rename_i m rest
    rw [hc] at D; have W := wb_head D; simp only at W
    refine ⟨?_, ?_, ?_, ?_⟩
    · intro j; by_cases e : j = i
      · subst e; simp [W.2]
      · simp [e, h.disc j]
    · intro a b m' hab ha
      by_cases ea : a = i <;> by_cases eb : b = i
      · exact absurd (ea.trans eb.symm) hab
      · subst ea; simp [eb] at ha
      · subst eb; simp [ea] at ha ⊢
      · simp [ea, eb] at ha ⊢; exact h.excl a b m' hab ha
    · intro a m' ha hl
      by_cases ea : a = i
      · subst ea; simp at ha
      · simp [ea] at ha hl ⊢; exact h.valid a m' ha hl
    · exact h.lin
  | load hc =>
    rename_i m rest
    rw [hc] at D; have W := wb_head D; simp only at W
    refine ⟨?_, ?_, ?_, ?_⟩
    · intro j; by_cases e : j = i
      · subst e; simp [W.1] at W ⊢; exact W
      · simp [e, h.disc j]
    · intro a b m' hab ha
      by_cases ea : a = i <;> by_cases eb : b = i
      · exact absurd (ea.trans eb.symm) hab
      · subst ea; simp [eb] at ha ⊢; exact h.excl a b m' hab ha
      · subst eb; simp [ea] at ha ⊢; exact h.excl a b m' hab ha
      · simp [ea, eb] at ha ⊢; exact h.excl a b m' hab ha
    · intro a m' ha hl
      by_cases ea : a = i
      · subst ea; simp at ha ⊢
        rw [W.1] at ha; cases ha; rfl
      · simp [ea] at ha hl ⊢; exact h.valid a m' ha hl
    · exact h.lin
  | storeNil hc =>
    rename_i m rest
    rw [hc] at D; have W := wb_head D; simp only at W
    obtain ⟨hw, hr⟩ := W
    refine ⟨?_, ?_, ?_, ?_⟩
    · intro j; by_cases e : j = i
      · subst e; simp [hw] at hr ⊢; exact hr
      · simp [e, h.disc j]
    · intro a b m' hab ha
      by_cases ea : a = i <;> by_cases eb : b = i
      · exact absurd (ea.trans eb.symm) hab
      · subst ea; simp [eb] at ha ⊢; exact h.excl a b m' hab ha
      · subst eb; simp [ea] at ha ⊢; exact h.excl a b m' hab ha
      · simp [ea, eb] at ha ⊢; exact h.excl a b m' hab ha
    · intro a m' ha hl'
      by_cases ea : a = i
      · subst ea; simp at hl'
      · simp [ea] at ha hl' ⊢
        have v := h.valid a m' ha hl'
        have : m' ≠ m := by
          intro e; subst e
          exact (h.excl a i m' ea ha).1 hw
        simp [upd, this, v]
    · intro m'
      by_cases e : m' = m
      · subst e; simp [upd]
      · simp [upd, e, h.lin m']
  | snap hc =>
    rename_i m rest
    rw [hc] at D; have W := wb_head D; simp only at W
    refine ⟨?_, ?_, ?_, ?_⟩
    · intro j; by_cases e : j = i
      · subst e; simp [W.2]
      · simp [e, h.disc j]
    · intro a b m' hab ha
      by_cases ea : a = i <;> by_cases eb : b = i
      · exact absurd (ea.trans eb.symm) hab
      · subst ea; simp [eb] at ha ⊢; exact h.excl a b m' hab ha
      · subst eb; simp [ea] at ha ⊢; exact h.excl a b m' hab ha
      · simp [ea, eb] at ha ⊢; exact h.excl a b m' hab ha
    · intro a m' ha hl
      by_cases ea : a = i
      · subst ea; simp at ha hl ⊢; exact h.valid a m' ha hl
      · simp [ea] at ha hl ⊢; exact h.valid a m' ha hl
    · exact h.lin
  | loc hc =>
    rename_i rest
    rw [hc] at D; have W := wb_head D; simp only at W
    refine ⟨?_, ?_, ?_, ?_⟩
    · intro j; by_cases e : j = i
      · subst e; simp [W]
      · simp [e, h.disc j]
    · intro a b m' hab ha
      by_cases ea : a = i <;> by_cases eb : b = i
      · exact absurd (ea.trans eb.symm) hab
      · subst ea; simp [eb] at ha ⊢; exact h.excl a b m' hab ha
      · subst eb; simp [ea] at ha ⊢; exact h.excl a b m' hab ha
      · simp [ea, eb] at ha ⊢; exact h.excl a b m' hab ha
    · intro a m' ha hl
      by_cases ea : a = i
      · subst ea; simp at ha hl ⊢; exact h.valid a m' ha hl
      · simp [ea] at ha hl ⊢; exact h.valid a m' ha hl
    · exact h.lin


theorem reach_inv {s0 s} (h0 : Inv s0) (r : Reach s0 s) : Inv s := by
  induction r with
  | refl => exact h0
  | step _ st ih => exact step_inv ih st

/-- C05, model level: from any initial state in which every thread runs a
lock-disciplined program, no reachable state has a data race and every log
equals the ghost history of appends since the last clear – for every
interleaving and any number of threads. -/
theorem no_race_and_linearizable {s0 s} (h0 : Inv s0) (r : Reach s0 s) :
    ¬ Race s ∧ ∀ m, s.log m = s.hist m :=
  ⟨noRace_of_inv (reach_inv h0 r), (reach_inv h0 r).lin⟩

/-- initial states: nothing held, nothing loaded, logs equal histories -/
theorem inv_init (s0 : St)
    (hheld : ∀ i, (s0.th i).held = .none) (hl : ∀ i, (s0.th i).loaded = false)
    (hwb : ∀ i, wb .none false (s0.th i).cont = true) (hlin : ∀ m, s0.log m = s0.hist m) : Inv s0 := by
  refine ⟨?_, ?_, ?_, hlin⟩
  · intro i; rw [hheld i, hl i]; exact hwb i
  · intro i j m _ hi; rw [hheld i] at hi; cases hi
  · intro i m hi; rw [hheld i] at hi; cases hi


end Mockery.Sem.Conc
