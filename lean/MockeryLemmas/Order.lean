import MockeryModel.Tools.Tag
/-! Lexicographic comparison is a lawful strict total order when the element comparison is. -/
namespace Mockery.Tools

structure Lawful {α} (c : α → α → Ordering) : Prop where
  eq_iff : ∀ a b, c a b = .eq ↔ a = b
  swap : ∀ a b, c a b = .lt ↔ c b a = .gt
  trans : ∀ a b d, c a b = .gt → c b d = .gt → c a d = .gt

theorem natCmp_lawful : Lawful natCmp := by
  refine ⟨?_, ?_, ?_⟩
  · intro a b; exact Nat.compare_eq_eq
  · intro a b; unfold natCmp; rw [Nat.compare_eq_lt, Nat.compare_eq_gt]
  · intro a b d; unfold natCmp; simp only [Nat.compare_eq_gt]; omega

theorem lexCmp_lawful {α} (c : α → α → Ordering) (h : Lawful c) : Lawful (lexCmp c) := by
  refine ⟨?_, ?_, ?_⟩
  · intro a
    induction a with
    | nil => intro b; cases b <;> simp [lexCmp]
    | cons x xs ih =>
      intro b
      cases b with
      | nil => simp [lexCmp]
      | cons y ys =>
        simp only [lexCmp]
        cases hc : c x y with
        | eq =>
          have := (h.eq_iff x y).1 hc
          subst this
          simp [ih ys]
        | lt =>
          simp only [List.cons.injEq]
          constructor
          · intro h'; cases h'
          · rintro ⟨rfl, _⟩
            rw [(h.eq_iff x x).2 rfl] at hc; cases hc
        | gt =>
          simp only [List.cons.injEq]
          constructor
          · intro h'; cases h'
          · rintro ⟨rfl, _⟩
            rw [(h.eq_iff x x).2 rfl] at hc; cases hc
  · intro a
    induction a with
    | nil => intro b; cases b <;> simp [lexCmp]
    | cons x xs ih =>
      intro b
      cases b with
      | nil => simp [lexCmp]
      | cons y ys =>
        simp only [lexCmp]
        cases hc : c x y with
        | eq =>
          have := (h.eq_iff x y).1 hc
          subst this
          rw [(h.eq_iff x x).2 rfl]
          exact ih ys
        | lt =>
          have := (h.swap x y).1 hc
          simp [this]
        | gt =>
          cases hc2 : c y x with
          | eq =>
            have := (h.eq_iff y x).1 hc2
            subst this
            rw [(h.eq_iff y y).2 rfl] at hc; cases hc
          | lt => simp
          | gt =>
            have := (h.swap x y).2 hc2
            rw [this] at hc; cases hc
  · intro a
    induction a with
    | nil => intro b d h1; cases b <;> simp [lexCmp] at h1
    | cons x xs ih =>
      intro b d h1 h2
      cases b with
      | nil => cases d <;> simp [lexCmp] at h2
      | cons y ys =>
        cases d with
        | nil => simp [lexCmp]
        | cons z zs =>
          simp only [lexCmp] at h1 h2 ⊢
          cases hxy : c x y with
          | lt => simp [hxy] at h1
          | eq =>
            have e := (h.eq_iff x y).1 hxy
            subst e
            simp only [hxy] at h1
            cases hyz : c x z with
            | lt => simp [hyz] at h2
            | eq => simp only [hyz] at h2 ⊢; exact ih ys zs h1 h2
            | gt => rfl
          | gt =>
            cases hyz : c y z with
            | lt => simp [hyz] at h2
            | eq =>
              have e := (h.eq_iff y z).1 hyz
              subst e
              simp [hxy]
            | gt =>
              have := h.trans x y z hxy hyz
              simp [this]

theorem versionCmp_lawful : Lawful (lexCmp (lexCmp natCmp)) :=
  lexCmp_lawful _ (lexCmp_lawful _ natCmp_lawful)

/-- trichotomy of a lawful comparison -/
theorem Lawful.tri {α} {c : α → α → Ordering} (h : Lawful c) (a b : α) :
    c a b = .gt ∨ a = b ∨ c b a = .gt := by
  cases hc : c a b with
  | gt => exact Or.inl rfl
  | eq => exact Or.inr (Or.inl ((h.eq_iff a b).1 hc))
  | lt => exact Or.inr (Or.inr ((h.swap a b).1 hc))

theorem Lawful.irrefl {α} {c : α → α → Ordering} (h : Lawful c) (a : α) : c a a ≠ .gt := by
  rw [(h.eq_iff a a).2 rfl]; intro h'; cases h'

theorem Lawful.asymm {α} {c : α → α → Ordering} (h : Lawful c) (a b : α) (h1 : c a b = .gt) : c b a ≠ .gt := by
  intro h2
  exact h.irrefl a (h.trans a b a h1 h2)

end Mockery.Tools
