import MockeryModel.Gen.Data
import MockeryLemmas.Types
/-! Lemmas for C01/C14: where the packages of a file's import registry come from. -/
namespace Mockery.Gen
open Mockery.Go

/-- a fold whose steps only add "explained" elements only contains explained elements -/
theorem foldl_grow {σ α : Type} (P : σ → List String) (O : α → List String) (step : σ → α → σ)
    (h : ∀ s a x, x ∈ P (step s a) → x ∈ P s ∨ x ∈ O a) :
    ∀ (l : List α) (s : σ) (x : String), x ∈ P (l.foldl step s) → x ∈ P s ∨ ∃ a ∈ l, x ∈ O a
  | [], s, x, hx => Or.inl hx
  | a :: l, s, x, hx => by
    simp only [List.foldl_cons] at hx
    rcases foldl_grow P O step h l (step s a) x hx with h1 | ⟨b, hb, hxb⟩
    · rcases h s a x h1 with h2 | h2
      · exact Or.inl h2
      · exact Or.inr ⟨a, List.mem_cons_self, h2⟩
    · exact Or.inr ⟨b, List.mem_cons_of_mem _ hb, hxb⟩

/-- the import paths a variable is responsible for: those of its type, or – when replaced – of the
replacement's own package only -/
def varOrigin (v : VarIn) : List String :=
  match v.replacement with
  | some rt => ((pkgsOf rt).take 1).map (·.1)
  | none => (pkgsOf v.type).map (·.1)

theorem addVar_origin (st : VarState) (v : VarIn) (b : Bool) (x : String)
    (h : x ∈ (addVar st v b).reg.paths) : x ∈ st.reg.paths ∨ x ∈ varOrigin v := by
  unfold addVar at h
  unfold varOrigin
  cases hr : v.replacement with
  | some rt =>
    simp only [hr] at h ⊢
    rw [addImports_reg] at h
    exact addImports_origin _ _ _ h
  | none =>
    simp only [hr] at h ⊢
    rw [addImports_reg] at h
    exact addImports_origin _ _ _ h

def methodOrigin (m : MethodIn) : List String := (m.params ++ m.results).flatMap varOrigin

theorem methodData_origin (reg : Registry) (tps : List String) (m : MethodIn) (x : String)
    (h : x ∈ (methodData reg tps m).1.paths) : x ∈ reg.paths ∨ x ∈ methodOrigin m := by
  simp only [methodData] at h
  -- results fold
  rcases foldl_grow (fun (st : VarState) => st.reg.paths) varOrigin (fun st p => addVar st p false)
      (fun s a x hx => addVar_origin s a false x hx) m.results _ x h with h1 | ⟨v, hv, hx⟩
  · -- params fold (over the zipped list)
    rcases foldl_grow (fun (st : VarState) => st.reg.paths) (fun (p : VarIn × Nat) => varOrigin p.1)
        (fun st (p : VarIn × Nat) => addVar st p.1 (m.variadic && p.2 + 1 == m.params.length))
        (fun s a x hx => addVar_origin s a.1 _ x hx) _ _ x h1 with h2 | ⟨p, hp, hx⟩
    · exact Or.inl h2
    · refine Or.inr ?_
      have : p.1 ∈ m.params := (List.of_mem_zip hp).1
      simp only [methodOrigin, List.mem_flatMap, List.mem_append]
      exact ⟨p.1, Or.inl this, hx⟩
  · refine Or.inr ?_
    simp only [methodOrigin, List.mem_flatMap, List.mem_append]
    exact ⟨v, Or.inr hv, hx⟩

def ifaceOrigin (i : IfaceIn) : List String :=
  i.methods.flatMap methodOrigin ++ i.typeParams.flatMap (fun tp => (pkgsOf tp.2).map (·.1))

theorem ifaceData_origin (reg : Registry) (i : IfaceIn) (x : String)
    (h : x ∈ (ifaceData reg i).1.paths) : x ∈ reg.paths ∨ x ∈ ifaceOrigin i := by
  simp only [ifaceData] at h
  rcases foldl_grow (fun (st : VarState) => st.reg.paths) (fun (tp : String × GoType) => (pkgsOf tp.2).map (·.1))
      (fun st (tp : String × GoType) => addVar st ⟨tp.1, tp.2, none⟩ false)
      (fun s a x hx => by simpa [varOrigin] using addVar_origin s ⟨a.1, a.2, none⟩ false x hx) i.typeParams _ x h with h1 | ⟨tp, htp, hx⟩
  · rcases foldl_grow (fun (acc : Registry × List (String × (Scope × List VarOut × Nat))) => acc.1.paths) methodOrigin
        (fun acc m => ((methodData acc.1 (i.typeParams.map (·.1)) m).1, acc.2 ++ [(m.name, (methodData acc.1 (i.typeParams.map (·.1)) m).2)]))
        (fun s a x hx => methodData_origin s.1 _ a x hx) i.methods _ x h1 with h2 | ⟨m, hm, hx⟩
    · exact Or.inl h2
    · refine Or.inr ?_
      simp only [ifaceOrigin, List.mem_append, List.mem_flatMap]
      exact Or.inl ⟨m, hm, hx⟩
  · refine Or.inr ?_
    simp only [ifaceOrigin, List.mem_append, List.mem_flatMap]
    exact Or.inr ⟨tp, htp, hx⟩

end Mockery.Gen
