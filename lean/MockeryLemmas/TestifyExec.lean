import MockeryModel.Sem.TestifyExec
import MockeryLemmas.Testify
/-! Helper lemmas for C03: interpreting the emitted statements of a mocked method refines `Sem.Testify.invoke`. -/
namespace Mockery.Sem.TestifyExec
open Mockery.Gen.TestifyEmit
open Mockery.Sem.Testify

/-! ### strings: a variadic method has a non-empty `ArgList` -/

theorem mem_intersperse {α} (sep : α) : ∀ (ls : List α) (x : α), x ∈ ls → x ∈ ls.intersperse sep
  | [], _, h => by simp at h
  | [a], x, h => by simpa using h
  | a :: b :: r, x, h => by
    rw [List.intersperse_cons_cons]
    rcases List.mem_cons.1 h with h | h
    · simp [h]
    · have := mem_intersperse sep (b :: r) x h
      simp [this]

theorem intercalate_nonempty (l : List String) (s : String) (h : s ≠ "") (hm : s ∈ l) :
    (", ".intercalate l).isEmpty = false := by
  cases hc : s.toList with
  | nil => exact absurd (String.toList_eq_nil_iff.1 hc) h
  | cons c cs =>
    have hmem : c ∈ (", ".intercalate l).toList := by
      rw [String.toList_intercalate]
      simp only [List.intercalate, List.mem_flatten]
      exact ⟨s.toList, mem_intersperse _ _ _ (List.mem_map_of_mem hm), by simp [hc]⟩
    cases hx : (", ".intercalate l).isEmpty with
    | false => rfl
    | true =>
      rw [String.isEmpty_iff] at hx
      rw [hx] at hmem; simp at hmem

theorem argList_nonempty (sh : Shape) (hv : sh.isVariadic = true) : sh.argList.isEmpty = false := by
  unfold Shape.isVariadic at hv
  cases hvar : sh.variadic with
  | none => simp [hvar] at hv
  | some v =>
    unfold Shape.argList Shape.commas
    apply intercalate_nonempty _ (v.1 ++ " ..." ++ v.2)
    · intro h
      have : (v.1 ++ " ..." ++ v.2).toList = [] := by rw [h]; rfl
      simp at this
    · simp [hvar]

/-! ### the typed `Run` wrapper hands the callback the call's arguments -/

theorem typedOf_eq (sh : Shape) (a : CallArgs) : typedOf sh a = typedArgs (sigOf sh) a := by
  unfold typedOf typedArgs sigOf
  cases sh.isVariadic <;> simp

theorem unpackRun_calledArgs (w : World) (sh : Shape) (a : CallArgs)
    (hl : a.ords.length = sh.params.length) (hs : sh.isVariadic = true → a.varSlice = w.mkSlice a.varElems) :
    unpackRun w sh (calledArgs sh.unroll (sigOf sh) a) = some (typedArgs (sigOf sh) a) := by
  unfold unpackRun calledArgs typedArgs sigOf
  cases hv : sh.isVariadic with
  | false => simp [← hl]
  | true =>
    have hs' := hs hv
    cases hu : sh.unroll with
    | true => simp [← hl, hs']
    | false =>
      cases he : a.varElems with
      | nil => simp [← hl, hs', he]
      | cons x xs => simp [← hl]

theorem extract_eq' (sig : Sig) (e : Expectation) (typed : List Val) (hr : sig.nresults ≠ 0)
    (hne : e.rets ≠ []) (hnw : ∀ vs, e.rets ≠ [.wholeFunc vs]) :
    extract sig e typed =
      match extractAll e typed 0 sig.nresults with
      | (evs, some vs) => evs ++ [.returned vs]
      | (evs, none) => evs ++ [.panicked "conversion"] :=
  Mockery.C03.extract_eq sig e typed hr hne hnw

/-! ### running the result section -/

theorem run_append_cont (w : World) (sh : Shape) (a : CallArgs) (f : St → St) :
    ∀ (ss : List Stmt) (st : St) (rest : List Stmt), (∀ s ∈ ss, ∀ st, step w sh a st s = .cont (f st)) →
      run w sh a st (ss ++ rest) = run w sh a (ss.foldl (fun st _ => f st) st) rest
  | [], _, _, _ => rfl
  | s :: ss, st, rest, h => by
    simp only [List.cons_append, run, h s (by simp), List.foldl_cons]
    exact run_append_cont w sh a f ss (f st) rest (fun s' hs' => h s' (by simp [hs']))

theorem run_decls (w : World) (sh : Shape) (a : CallArgs) : ∀ (m i : Nat) (st : St) (rest : List Stmt),
    run w sh a st ((List.range' i m).map .declResult ++ rest) =
      run w sh a { st with rs := st.rs ++ (List.range' i m).map w.zero } rest
  | 0, i, st, rest => by simp
  | m + 1, i, st, rest => by
    simp only [List.range'_succ, List.map_cons, List.cons_append, run, step]
    rw [run_decls w sh a m (i + 1)]
    simp

theorem set_mid {α} (done : List α) (x v : α) (rest : List α) (i : Nat) (h : done.length = i) :
    (done ++ x :: rest).set i v = done ++ v :: rest := by
  subst h
  induction done with
  | nil => rfl
  | cons d ds ih => simp [ih]

/-- the extraction loop: result `i`, `i+1`, …; `done` are the values already extracted -/
theorem run_extracts (w : World) (sh : Shape) (a : CallArgs) (e : Expectation)
    (hok : ∀ i : Nat, match (e.rets[i]? : Option RetVal) with
        | some (.wholeFunc _) => False
        | some (.val v) => w.isNilIface v = true → resultKind sh i ≠ .plain ∧ v = w.zero i
        | _ => True) :
    ∀ (m i : Nat) (st : St) (done : List Val), st.ret = some e → done.length = i →
      st.rs = done ++ (List.range' i m).map w.zero →
      run w sh a st ((List.range' i m).map .extractResult ++ [.returnResults]) =
        match extractAll e (typedOf sh a) i m with
        | (evs', some vs) => (st.mock, st.evs ++ evs' ++ [.returned (done ++ vs)])
        | (evs', none) => (st.mock, st.evs ++ evs' ++ [.panicked "conversion"])
  | 0, i, st, done, _, _, hrs => by
    simp [run, step, extractAll, hrs]
  | m + 1, i, st, done, hret, hlen, hrs => by
    have hrets : st.rets = e.rets := by simp [St.rets, hret]
    have hid : st.retId = e.id := by simp [St.retId, hret]
    have hrs' : st.rs = done ++ w.zero i :: (List.range' (i + 1) m).map w.zero := by
      simpa [List.range'_succ] using hrs
    simp only [List.range'_succ, List.map_cons, List.cons_append, run, step, hrets, hid, extractAll]
    have hoki := hok i
    cases hget : (e.rets[i]? : Option RetVal) with
    | none => simp [extractOne, hget]
    | some r =>
      rw [hget] at hoki
      cases r with
      | wholeFunc vs => exact absurd hoki (by simp)
      | provider v =>
        simp only [extractOne, hget]
        rw [run_extracts w sh a e hok m (i + 1)
          { st with evs := st.evs ++ [Ev.saw "provider" e.id (some i) (typedOf sh a)], rs := st.rs.set i v }
          (done ++ [v]) hret (by simp [hlen]) (by simp [hrs', set_mid done _ v _ i hlen])]
        cases extractAll e (typedOf sh a) (i + 1) m with
        | mk evs' o => cases o <;> simp
      | val v =>
        simp only [extractOne, hget]
        cases hk : resultKind sh i with
        | plain =>
          cases hn : w.isNilIface v with
          | true => exact absurd hk (hoki hn).1
          | false =>
            simp only [Bool.false_eq_true, if_false]
            rw [run_extracts w sh a e hok m (i + 1) { st with rs := st.rs.set i v }
              (done ++ [v]) hret (by simp [hlen]) (by simp [hrs', set_mid done _ v _ i hlen])]
            cases extractAll e (typedOf sh a) (i + 1) m with
            | mk evs' o => cases o <;> simp
        | error =>
          cases hn : w.isNilIface v with
          | true =>
            simp only [if_true]
            have hv : v = w.zero i := (hoki hn).2
            rw [run_extracts w sh a e hok m (i + 1) st (done ++ [v]) hret (by simp [hlen])
              (by simp [hrs', hv])]
            cases extractAll e (typedOf sh a) (i + 1) m with
            | mk evs' o => cases o <;> simp
          | false =>
            simp only [Bool.false_eq_true, if_false]
            rw [run_extracts w sh a e hok m (i + 1) { st with rs := st.rs.set i v }
              (done ++ [v]) hret (by simp [hlen]) (by simp [hrs', set_mid done _ v _ i hlen])]
            cases extractAll e (typedOf sh a) (i + 1) m with
            | mk evs' o => cases o <;> simp
        | nillable =>
          cases hn : w.isNilIface v with
          | true =>
            simp only [if_true]
            have hv : v = w.zero i := (hoki hn).2
            rw [run_extracts w sh a e hok m (i + 1) st (done ++ [v]) hret (by simp [hlen])
              (by simp [hrs', hv])]
            cases extractAll e (typedOf sh a) (i + 1) m with
            | mk evs' o => cases o <;> simp
          | false =>
            simp only [Bool.false_eq_true, if_false]
            rw [run_extracts w sh a e hok m (i + 1) { st with rs := st.rs.set i v }
              (done ++ [v]) hret (by simp [hlen]) (by simp [hrs', set_mid done _ v _ i hlen])]
            cases extractAll e (typedOf sh a) (i + 1) m with
            | mk evs' o => cases o <;> simp


/-! ### the whole result section -/

theorem range_map_decl (n : Nat) : (List.range n).map Stmt.declResult = (List.range' 0 n).map Stmt.declResult := by
  rw [List.range_eq_range']

/-- after `ret := Called(...)` bound the return arguments of `e`: the rest of the body computes `extract` -/
theorem run_results (w : World) (sh : Shape) (a : CallArgs) (e : Expectation) (st : St)
    (hret : st.ret = some e) (hrs : st.rs = []) (hn : sh.results.length ≠ 0) (hok : RetsOK w sh e.rets) :
    run w sh a st ([.panicIfEmpty] ++ resultStmts sh ++ [.returnResults]) =
      (st.mock, st.evs ++ extract (sigOf sh) e (typedOf sh a)) := by
  have hrets : st.rets = e.rets := by simp [St.rets, hret]
  have hid : st.retId = e.id := by simp [St.retId, hret]
  have hsig : (sigOf sh).nresults = sh.results.length := rfl
  by_cases hempty : e.rets = []
  · simp [run, step, hrets, hempty, extract, hsig, hn, sigOf]
  · have hne : e.rets.isEmpty = false := by cases h : e.rets <;> simp_all
    simp only [List.singleton_append, List.cons_append, run, step, hrets, hne, Bool.false_eq_true, if_false]
    unfold resultStmts
    simp only [List.append_assoc, List.nil_append]
    rw [List.range_eq_range', run_decls]
    rcases hok with h | ⟨vs, hvs, hlen⟩ | hgen
    · exact absurd h hempty
    · -- the function given to RunAndReturn
      have hext : extract (sigOf sh) e (typedOf sh a) = [.saw "fn" e.id none (typedOf sh a), .returned vs] := by
        simp [extract, hsig, hn, hvs]
      rw [hext]
      by_cases h1 : sh.results.length > 1
      · simp only [h1, if_true]
        by_cases hv : (sh.isVariadic && !sh.unroll) = true
        · simp [hv, run, step, St.rets, St.retId, hret, hvs]
        · have hcond : (sh.unroll || !sh.isVariadic) = true := by
            cases hu : sh.unroll <;> cases hvv : sh.isVariadic <;> simp_all
          simp [hv, run, step, St.rets, St.retId, hret, hvs, hcond]
      · have h1' : sh.results.length = 1 := by omega
        have hvs1 : ∃ v, vs = [v] := by
          match vs, hlen with
          | [v], _ => exact ⟨v, rfl⟩
          | [], h => simp [h1'] at h
          | _ :: _ :: _, h => simp [h1'] at h
        obtain ⟨v, rfl⟩ := hvs1
        simp [h1, h1', hrs, run, step, St.rets, St.retId, hret, hvs, List.range'_succ]
    · -- values and per-result functions
      have hnw : ∀ vs, e.rets ≠ [.wholeFunc vs] := by
        intro vs hvs
        have := hgen 0
        simp [hvs] at this
      rw [extract_eq' (sigOf sh) e (typedOf sh a) (by simpa [hsig] using hn) hempty hnw]
      have h0 : ∀ vs, (e.rets[0]? : Option RetVal) ≠ some (.wholeFunc vs) := by
        intro vs hvs
        have := hgen 0
        simp [hvs] at this
      -- the whole-function assertions fail and fall through
      have hskip : ∀ (st' : St) (et ec : Bool) (rest : List Stmt), st'.ret = some e →
          run w sh a st' (Stmt.wholeFunc et ec :: rest) = run w sh a st' rest := by
        intro st' et ec rest hr'
        have hrets' : st'.rets = e.rets := by simp [St.rets, hr']
        simp only [run, step, hrets']
      obtain ⟨st1, hst1⟩ : ∃ st1 : St, st1 = { st with rs := st.rs ++ (List.range' 0 sh.results.length).map w.zero } := ⟨_, rfl⟩
      have hret1 : st1.ret = some e := by rw [hst1]; exact hret
      have hm1 : st1.mock = st.mock := by rw [hst1]
      have he1 : st1.evs = st.evs := by rw [hst1]
      have hloop := run_extracts w sh a e hgen sh.results.length 0 st1 [] hret1 rfl (by rw [hst1]; simp [hrs])
      rw [← hst1]
      have hfin : run w sh a st1 ((List.range' 0 sh.results.length).map .extractResult ++ [.returnResults]) =
          (st.mock, st.evs ++ match extractAll e (typedOf sh a) 0 (sigOf sh).nresults with
            | (evs, some vs) => evs ++ [Ev.returned vs]
            | (evs, none) => evs ++ [Ev.panicked "conversion"]) := by
        rw [hloop, hsig]
        cases extractAll e (typedOf sh a) 0 sh.results.length with
        | mk evs' o => cases o <;> simp [hm1, he1]
      by_cases h1 : sh.results.length > 1
      · simp only [h1, if_true]
        by_cases hv : (sh.isVariadic && !sh.unroll) = true
        · simp only [hv, if_true, List.singleton_append, List.cons_append, List.nil_append]
          rw [hskip st1 _ _ _ hret1, hskip st1 _ _ _ hret1, hfin]
        · simp only [hv, List.nil_append, List.singleton_append, List.cons_append]
          simp only [Bool.false_eq_true, if_false, List.nil_append, List.singleton_append, List.cons_append]
          rw [hskip st1 _ _ _ hret1, hfin]
      · simp only [h1, if_false, List.nil_append]
        rw [hfin]


/-! ### the call phase -/

theorem called_mem (mk mk' : Mock) (m : String) (args : List Val) (e : Expectation)
    (h : called mk m args = some (mk', e)) : e ∈ mk.expected := by
  unfold called at h
  cases hf : findExpected mk.expected m args with
  | none => simp [hf] at h
  | some e' =>
    simp only [hf, Option.some.injEq, Prod.mk.injEq] at h
    rw [← h.2]
    exact List.mem_of_find?_eq_some hf

/-- what `invoke` reports for the `Run` callback -/
def runEvs (sh : Shape) (a : CallArgs) (e : Expectation) : List Ev :=
  match e.run with
  | some label => [Ev.saw label e.id none (typedArgs (sigOf sh) a)]
  | none => []

theorem callWith_calledArgs (w : World) (sh : Shape) (a : CallArgs) (st : St) (k : St → Expectation → Res)
    (hl : a.ords.length = sh.params.length) (hs : sh.isVariadic = true → a.varSlice = w.mkSlice a.varElems) :
    callWith w sh st (calledArgs sh.unroll (sigOf sh) a) k =
      match called st.mock sh.name (calledArgs sh.unroll (sigOf sh) a) with
      | none => .stop st.mock (st.evs ++ [.failed])
      | some (mk', e) => k { st with mock := mk', evs := st.evs ++ runEvs sh a e } e := by
  unfold callWith
  cases hc : called st.mock sh.name (calledArgs sh.unroll (sigOf sh) a) with
  | none => rfl
  | some p =>
    obtain ⟨mk', e⟩ := p
    simp only [runEvs]
    cases hr : e.run with
    | none => simp
    | some label => simp [unpackRun_calledArgs w sh a hl hs]

theorem invoke_eq (sh : Shape) (mk : Mock) (a : CallArgs) :
    invoke sh.unroll (sigOf sh) mk a =
      match called mk sh.name (calledArgs sh.unroll (sigOf sh) a) with
      | none => (mk, [.failed])
      | some (mk', e) => (mk', runEvs sh a e ++ extract (sigOf sh) e (typedArgs (sigOf sh) a)) := by
  unfold invoke runEvs
  have : (sigOf sh).name = sh.name := rfl
  rw [this]
  cases called mk sh.name (calledArgs sh.unroll (sigOf sh) a) with
  | none => rfl
  | some p =>
    obtain ⟨mk', e⟩ := p
    cases e.run <;> rfl

/-- the statements behind the call, for a method with and without results -/
theorem run_after_call (w : World) (sh : Shape) (a : CallArgs) (e : Expectation) (st : St)
    (hrs : st.rs = []) (hok : RetsOK w sh e.rets) (hres : sh.results.isEmpty = false) (hret : st.ret = some e) :
    run w sh a st ([.panicIfEmpty] ++ resultStmts sh ++ [.returnResults]) =
      (st.mock, st.evs ++ extract (sigOf sh) e (typedArgs (sigOf sh) a)) := by
  rw [← typedOf_eq]
  exact run_results w sh a e st hret hrs (by cases h : sh.results <;> simp_all) hok

theorem extract_noresults (sh : Shape) (e : Expectation) (typed : List Val) (h : sh.results.isEmpty = true) :
    extract (sigOf sh) e typed = [.returned []] := by
  have : sh.results.length = 0 := by cases hr : sh.results <;> simp_all
  simp [extract, sigOf, this]


/-! ### the refinement -/

theorem run_cons (w : World) (sh : Shape) (a : CallArgs) (st : St) (s : Stmt) (rest : List Stmt) :
    run w sh a st (s :: rest) =
      match step w sh a st s with
      | .cont st' => run w sh a st' rest
      | .stop mk evs => (mk, evs) := rfl

/-- a statement that is a call with the method's `Called` arguments, followed by `rest` -/
theorem run_call (w : World) (sh : Shape) (a : CallArgs) (st : St) (s : Stmt) (rest : List Stmt)
    (f : St → Expectation → St)
    (hl : a.ords.length = sh.params.length) (hs : sh.isVariadic = true → a.varSlice = w.mkSlice a.varElems)
    (hstep : step w sh a st s = callWith w sh st (calledArgs sh.unroll (sigOf sh) a) (fun st' e => .cont (f st' e))) :
    run w sh a st (s :: rest) =
      match called st.mock sh.name (calledArgs sh.unroll (sigOf sh) a) with
      | none => (st.mock, st.evs ++ [.failed])
      | some (mk', e) => run w sh a (f { st with mock := mk', evs := st.evs ++ runEvs sh a e } e) rest := by
  rw [run_cons, hstep, callWith_calledArgs w sh a st _ hl hs]
  cases called st.mock sh.name (calledArgs sh.unroll (sigOf sh) a) with
  | none => rfl
  | some p => rfl

theorem src_ne : (Src.plain == Src.empty) = false ∧ (Src.plain == Src.tmpRet) = false ∧
    (Src.ca == Src.empty) = false ∧ (Src.ca == Src.tmpRet) = false ∧ (Src.tmpRet == Src.tmpRet) = true ∧
    (Src.empty == Src.empty) = true := by decide

theorem invokeEmitted_eq_invoke (w : World) (sh : Shape) (mk : Mock) (a : CallArgs)
    (hl : a.ords.length = sh.params.length)
    (hs : sh.isVariadic = true → a.varSlice = w.mkSlice a.varElems)
    (hok : ∀ e ∈ mk.expected, RetsOK w sh e.rets) :
    invokeEmitted w sh mk a = invoke sh.unroll (sigOf sh) mk a := by
  rw [invoke_eq]
  unfold invokeEmitted emitBody
  obtain ⟨n1, n2, n3, n4, n5, n6⟩ := src_ne
  -- what follows the call, for a state in which `ret` is bound (results) or not needed (no results)
  have hfinish0 : ∀ (st : St), st.rs = [] → run w sh a st [.returnResults] = (st.mock, st.evs ++ [.returned []]) := by
    intro st h; simp [run, step, h]
  cases hv : sh.isVariadic with
  | false =>
    have hpre : preamble sh = ([], .plain) := by simp [preamble, hv]
    have hargs : ∀ st, srcArgs sh a st .plain = calledArgs sh.unroll (sigOf sh) a := by
      intro st; simp [srcArgs, calledArgs, sigOf, hv]
    rw [hpre]
    cases hres : sh.results.isEmpty with
    | true =>
      simp only [List.nil_append, if_true, List.singleton_append]
      rw [run_call w sh a _ _ _ (fun st' _ => st') hl hs (by simp [step, n1, n2, hargs])]
      cases hc : called mk sh.name (calledArgs sh.unroll (sigOf sh) a) with
      | none => simp
      | some p =>
        obtain ⟨mk', e⟩ := p
        simp only []
        rw [hfinish0 _ rfl, extract_noresults sh e _ hres]
        simp
    | false =>
      simp only [List.nil_append, Bool.false_eq_true, if_false, List.cons_append]
      rw [run_call w sh a _ _ _ (fun st' e => { st' with ret := some e }) hl hs (by simp [step, n1, n2, hargs])]
      cases hc : called mk sh.name (calledArgs sh.unroll (sigOf sh) a) with
      | none => simp
      | some p =>
        obtain ⟨mk', e⟩ := p
        have hok' := hok e (called_mem _ _ _ _ _ hc)
        have := run_after_call w sh a e
          { mock := mk', evs := [] ++ runEvs sh a e, ret := some e } rfl hok' hres rfl
        simp only [List.singleton_append, List.cons_append, List.nil_append] at this ⊢
        exact this
  | true =>
    rcases Bool.eq_false_or_eq_true sh.unroll with hu | hu
    rotate_left
    ·
      have hpre : preamble sh = ((if !sh.results.isEmpty then [Stmt.declTmpRet] else []) ++ [.calledRolled (!sh.results.isEmpty)],
          if !sh.results.isEmpty then .tmpRet else .empty) := by
        simp [preamble, hv, hu]
      have hargs : (if a.varElems.isEmpty then a.ords else if sh.unroll then a.ords ++ a.varElems else a.ords ++ [a.varSlice])
          = calledArgs sh.unroll (sigOf sh) a := by
        simp [calledArgs, sigOf, hv, hu]
      rw [hpre]
      cases hres : sh.results.isEmpty with
      | true =>
        simp only [Bool.not_true, Bool.false_eq_true, if_false, List.nil_append, if_true, List.singleton_append,
          List.cons_append]
        rw [run_call w sh a _ _ _ (fun st' _ => st') hl hs (by simp only [step, hargs, Bool.false_eq_true, if_false, if_true])]
        cases hc : called mk sh.name (calledArgs sh.unroll (sigOf sh) a) with
        | none => simp
        | some p =>
          obtain ⟨mk', e⟩ := p
          simp only []
          rw [run_cons]
          simp only [step, n6, if_true]
          rw [hfinish0 _ rfl, extract_noresults sh e _ hres]
          simp
      | false =>
        simp only [Bool.not_false, if_true, List.singleton_append, List.cons_append, List.nil_append, Bool.false_eq_true,
          if_false]
        rw [run_cons]
        simp only [step]
        rw [run_call w sh a _ _ _ (fun st' e => { st' with tmpRet := some e }) hl hs (by simp only [step, hargs, Bool.false_eq_true, if_false, if_true])]
        cases hc : called mk sh.name (calledArgs sh.unroll (sigOf sh) a) with
        | none => simp
        | some p =>
          obtain ⟨mk', e⟩ := p
          have hok' := hok e (called_mem _ _ _ _ _ hc)
          have := run_after_call w sh a e
            { mock := mk', evs := [] ++ runEvs sh a e, tmpRet := some e, ret := some e } rfl hok' hres rfl
          simp only [List.singleton_append, List.cons_append, List.nil_append] at this
          simp only []
          rw [run_cons]
          simp only [step, n5, if_true]
          exact this
    ·
      have hne := argList_nonempty sh hv
      have hargs : (if sh.nAll > 1 then a.ords else []) ++ a.varElems = calledArgs sh.unroll (sigOf sh) a := by
        have : sh.nAll = sh.params.length + 1 := by simp [Shape.nAll, hv]
        by_cases h1 : sh.nAll > 1
        · simp [calledArgs, sigOf, hv, hu, h1]
        · have h0 : a.ords = [] := by
            have : a.ords.length = 0 := by omega
            exact List.eq_nil_of_length_eq_zero this
          simp [calledArgs, sigOf, hv, hu, h1, h0]
      -- the statements of the unrolled preamble leave `_ca` holding exactly those arguments
      have hca : ∀ (rest : List Stmt), run w sh a { mock := mk } ((preamble sh).1 ++ rest) =
          run w sh a { mock := mk, va := (if (sh.velem != "interface{}" && sh.velem != "any") then a.varElems else []),
                       ca := calledArgs sh.unroll (sigOf sh) a } rest := by
        intro rest
        rw [← hargs]
        simp only [preamble, hne, hv, hu, Bool.not_true, Bool.or_false, Bool.false_eq_true, if_false]
        by_cases hconv : (sh.velem != "interface{}" && sh.velem != "any") = true <;>
          by_cases h1 : sh.nAll > 1 <;> simp [hconv, h1, run, step]
      have hsrc : (preamble sh).2 = .ca := by
        simp [preamble, hne, hv, hu]
      cases hpq : preamble sh with
      | mk pre src =>
      rw [hpq] at hca hsrc
      simp only [] at hca hsrc
      try simp only []
      subst hsrc
      simp only [List.append_assoc]
      rw [hca]
      cases hres : sh.results.isEmpty with
      | true =>
        simp only [if_true, List.singleton_append]
        rw [run_call w sh a _ _ _ (fun st' _ => st') hl hs (by simp [step, n3, n4, srcArgs])]
        cases hc : called mk sh.name (calledArgs sh.unroll (sigOf sh) a) with
        | none => simp
        | some p =>
          obtain ⟨mk', e⟩ := p
          simp only []
          rw [hfinish0 _ rfl, extract_noresults sh e _ hres]
          simp
      | false =>
        simp only [Bool.false_eq_true, if_false, List.cons_append, List.nil_append]
        rw [run_call w sh a _ _ _ (fun st' e => { st' with ret := some e }) hl hs (by simp [step, n3, n4, srcArgs])]
        cases hc : called mk sh.name (calledArgs sh.unroll (sigOf sh) a) with
        | none => simp
        | some p =>
          obtain ⟨mk', e⟩ := p
          have hok' := hok e (called_mem _ _ _ _ _ hc)
          have := run_after_call w sh a e
            { mock := mk', evs := [] ++ runEvs sh a e,
              va := (if (sh.velem != "interface{}" && sh.velem != "any") then a.varElems else []),
              ca := calledArgs sh.unroll (sigOf sh) a, ret := some e } rfl hok' hres rfl
          simp only [List.singleton_append, List.cons_append, List.nil_append] at this ⊢
          exact this

end Mockery.Sem.TestifyExec
