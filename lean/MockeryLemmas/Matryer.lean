import MockeryModel.Sem.Matryer
/-! Helper lemmas for C04: the statements each configuration emits. -/
namespace Mockery.C04
open Mockery.Sem.Matryer

def panicMsg : String := "STRUCT.METHODFunc: method is nil but IFACE.METHOD was just called"

theorem emitted_call_ff (r : Bool) : emitted ⟨false, r⟩ false expectedCallBody =
    [.decl, .nilPanic panicMsg, .decl, .recordFields, .lock, .append, .unlock, .forward] := rfl

theorem emitted_call_ft (r : Bool) : emitted ⟨false, r⟩ true expectedCallBody =
    [.decl, .nilPanic panicMsg, .decl, .recordFields, .lock, .append, .unlock, .forward] := rfl

theorem emitted_call_tf (r : Bool) : emitted ⟨true, r⟩ false expectedCallBody =
    [.decl, .decl, .recordFields, .lock, .append, .unlock, .nilReturnZero, .forward] := rfl

theorem emitted_call_tt (r : Bool) : emitted ⟨true, r⟩ true expectedCallBody =
    [.decl, .decl, .recordFields, .lock, .append, .unlock, .decl, .nilReturnZero, .forward] := rfl

theorem emitted_calls (cfg : Cfg) : emitted cfg false expectedCallsBody =
    [.decl, .decl, .decl, .rlock, .snapshot, .runlock, .returnCalls] := rfl

theorem emitted_reset (cfg : Cfg) : emitted cfg false expectedResetBody = [.decl, .lock, .clear, .unlock] := rfl

end Mockery.C04
