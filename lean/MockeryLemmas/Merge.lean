import MockeryModel.Config.Sources
/-! Helper lemmas: `mergeStringMaps` key-wise precedence, `mergeConfigs` field-wise. -/
namespace Mockery.Config

theorem lookup_replace_same {k v} : ∀ {l : KVs}, (lookup k l).isSome → lookup k (replace k v l) = some v
  | [], h => by simp [lookup] at h
  | (k', v') :: r, h => by
      by_cases e : k' = k
      · simp [replace, lookup, e]
      · simp [replace, lookup, e] at h ⊢; exact lookup_replace_same h

theorem lookup_replace_other {k k' v} (hne : k' ≠ k) : ∀ {l : KVs}, lookup k' (replace k v l) = lookup k' l
  | [] => by simp [replace]
  | (k2, v2) :: r => by
      by_cases e : k2 = k
      · subst e; simp [replace, lookup, Ne.symm hne]
      · by_cases e2 : k2 = k'
        · subst e2; simp [replace, lookup, e]
        · simp [replace, lookup, e, e2]; exact lookup_replace_other hne

theorem lookup_append_single {k k' v} : ∀ {l : KVs},
    lookup k' (l ++ [(k, v)]) = match lookup k' l with | some x => some x | none => if k = k' then some v else none
  | [] => by simp [lookup]
  | (k2, v2) :: r => by
      by_cases e : k2 = k'
      · simp [lookup, e]
      · simp [lookup, e]; exact lookup_append_single

theorem lookup_merge_notin {k'} : ∀ {src dst : KVs}, k' ∉ keys src → lookup k' (mergeKVs src dst) = lookup k' dst
  | [], dst, _ => by simp [mergeKVs]
  | (k, sv) :: rest, dst, h => by
      simp only [keys, List.map_cons, List.mem_cons, not_or] at h
      have hne : k' ≠ k := h.1
      have hr : k' ∉ keys rest := h.2
      rw [mergeKVs, lookup_merge_notin hr]
      cases hd : lookup k dst with
      | none => simp [lookup_append_single, Ne.symm hne]; cases lookup k' dst <;> simp
      | some dv => simp [lookup_replace_other hne]

/-- key-by-key precedence: dest wins, except that two maps are merged recursively -/
theorem lookup_merge_spec {k'} : ∀ {src dst : KVs}, (keys src).Nodup →
    lookup k' (mergeKVs src dst) =
      match lookup k' dst, lookup k' src with
      | some dv, some sv => some (mergeV sv dv)
      | some dv, none => some dv
      | none, s => s
  | [], dst, _ => by simp [mergeKVs, lookup]; cases lookup k' dst <;> simp
  | (k, sv) :: rest, dst, hnd => by
      simp only [keys, List.map_cons, List.nodup_cons] at hnd
      by_cases e : k = k'
      · subst e
        rw [mergeKVs, lookup_merge_notin hnd.1]
        cases hd : lookup k dst with
        | none => simp [lookup, lookup_append_single, hd]
        | some dv =>
          have hs : (lookup k dst).isSome := by rw [hd]; rfl
          simp [lookup, lookup_replace_same hs]
      · rw [mergeKVs, lookup_merge_spec hnd.2]
        have hne : k' ≠ k := fun h => e h.symm
        cases hd : lookup k dst with
        | none => simp [lookup, e, lookup_append_single]; cases lookup k' dst <;> simp
        | some dv => simp [lookup, e, lookup_replace_other hne]

/-- all key lists of a nested map are duplicate-free (what a Go map guarantees) -/
inductive WF : TD → Prop
  | leaf (j) : WF (.leaf j)
  | node (kvs : KVs) : (keys kvs).Nodup → (∀ k v, lookup k kvs = some v → WF v) → WF (.node kvs)

/-- the most specific level wins at every key path: a leaf in `dst` survives the merge -/
theorem getPath_merge_dest_leaf : ∀ (p : List String) (src dst : KVs) (x : String),
    WF (.node src) → getPath p (.node dst) = some (.leaf x) →
    getPath p (.node (mergeKVs src dst)) = some (.leaf x)
  | [], _, _, _, _, h => by simp [getPath] at h
  | k :: ks, src, dst, x, hw, h => by
    cases hw with
    | node _ hnd hsub =>
    simp only [getPath] at h ⊢
    rw [lookup_merge_spec hnd]
    cases hd : lookup k dst with
    | none => simp [hd] at h
    | some dv =>
      simp only [hd] at h
      cases hs : lookup k src with
      | none => simpa using h
      | some sv =>
        simp only
        cases dv with
        | leaf j => simpa [mergeV] using h
        | node dkv =>
          cases sv with
          | leaf j => simpa [mergeV] using h
          | node skv =>
            simp only [mergeV]
            exact getPath_merge_dest_leaf ks skv dkv x (hsub k _ hs) h

/-- a key the more specific level does not have at all is inherited unchanged -/
theorem getPath_merge_absent (k : String) (ks : List String) (src dst : KVs)
    (hw : (keys src).Nodup) (h : lookup k dst = none) :
    getPath (k :: ks) (.node (mergeKVs src dst)) = getPath (k :: ks) (.node src) := by
  simp only [getPath]
  rw [lookup_merge_spec hw, h]

/-- nothing is invented: a leaf of the merged map is a leaf of one of the two inputs at the same path -/
theorem getPath_merge_leaf_origin : ∀ (p : List String) (src dst : KVs) (x : String),
    WF (.node src) → getPath p (.node (mergeKVs src dst)) = some (.leaf x) →
    getPath p (.node dst) = some (.leaf x) ∨ getPath p (.node src) = some (.leaf x)
  | [], _, _, _, _, h => by simp [getPath] at h
  | k :: ks, src, dst, x, hw, h => by
    cases hw with
    | node _ hnd hsub =>
    simp only [getPath] at h ⊢
    rw [lookup_merge_spec hnd] at h
    cases hd : lookup k dst with
    | none =>
      simp only [hd] at h
      right; exact h
    | some dv =>
      simp only [hd] at h
      cases hs : lookup k src with
      | none => simp only [hs] at h; left; exact h
      | some sv =>
        simp only [hs] at h
        cases dv with
        | leaf j => left; simpa [mergeV] using h
        | node dkv =>
          cases sv with
          | leaf j => left; simpa [mergeV] using h
          | node skv =>
            simp only [mergeV] at h
            exact getPath_merge_leaf_origin ks skv dkv x (hsub k _ hs) h

/-! ### mergeConfigs, field-wise -/

theorem get_filterMap_table (ft : FieldTable) (g : String × Kind → Option Val) (k : String) (kind : Kind)
    (hnd : (ft.map (·.1)).Nodup) (hk : (k, kind) ∈ ft) :
    Cfg.get (ft.filterMap (fun f => (g f).map (fun v => (f.1, v)))) k = g (k, kind) := by
  induction ft with
  | nil => cases hk
  | cons f rest ih =>
    simp only [List.map_cons, List.nodup_cons] at hnd
    rcases List.mem_cons.1 hk with e | hm
    · subst e
      simp only [List.filterMap_cons]
      cases hg : g (k, kind) with
      | some v => simp [Cfg.get]
      | none =>
        simp only [Option.map_none]
        -- k does not occur in the rest
        have : ∀ (l : FieldTable), k ∉ l.map (·.1) →
            Cfg.get (l.filterMap (fun f => (g f).map (fun v => (f.1, v)))) k = none := by
          intro l
          induction l with
          | nil => intro _; rfl
          | cons a as iha =>
            intro hn
            simp only [List.map_cons, List.mem_cons, not_or] at hn
            simp only [List.filterMap_cons]
            cases g a with
            | none => simpa using iha hn.2
            | some v =>
              simp only [Option.map_some, Cfg.get]
              rw [if_neg (fun h => hn.1 h.symm)]
              exact iha hn.2
        exact this rest hnd.1
    · have hne : f.1 ≠ k := by
        intro h
        apply hnd.1
        rw [h]
        exact List.mem_map.2 ⟨(k, kind), hm, rfl⟩
      simp only [List.filterMap_cons]
      cases g f with
      | none => simpa using ih hnd.2 hm
      | some v =>
        simp only [Option.map_some, Cfg.get, if_neg hne]
        exact ih hnd.2 hm

theorem mergeConfigs_get (ft : FieldTable) (src dst : Cfg) (k : String) (kind : Kind)
    (hnd : (ft.map (·.1)).Nodup) (hk : (k, kind) ∈ ft) :
    (mergeConfigs ft src dst).get k = mergeField kind (src.get k) (dst.get k) := by
  unfold mergeConfigs
  exact get_filterMap_table ft (fun f => mergeField f.2 (src.get f.1) (dst.get f.1)) k kind hnd hk

/-- kinds whose value is inherited as a whole: the more specific level wins when set -/
def Kind.whole : Kind → Bool
  | .ptrBool | .ptrString | .strSlice | .typedMap => true
  | _ => false

theorem mergeField_whole (kind : Kind) (h : kind.whole = true) (src dst : Option Val) :
    mergeField kind src dst = firstSome [dst, src] := by
  cases kind <;> simp [Kind.whole] at h <;> cases dst <;> cases src <;> simp [mergeField, firstSome]

end Mockery.Config
