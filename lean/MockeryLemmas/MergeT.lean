import MockeryModel.Config.Merge
import MockeryModel.Generated.MergeFacts
import MockeryLemmas.Merge
/-
The model's `mergeKVs` / `mergeField` (`Config/Value.lean`, `Config/Merge.lean`) against the translation of
`mergeStringMaps` / `mergeConfigs` (`Generated/MergeFacts.lean`, rewritten from config/config.go on every run).
-/
namespace Mockery.Config
open Mockery.Generated

/-- Go map assignment `m[k] = v` on an association list with unique keys -/
def setKeyKVs (k : String) (v : TD) (l : KVs) : KVs :=
  if (lookup k l).isSome then replace k v l else l ++ [(k, v)]

theorem replace_self {k : String} {v : TD} : ∀ {l : KVs}, lookup k l = some v → replace k v l = l
  | [], h => by simp [lookup] at h
  | (k', v') :: r, h => by
    unfold lookup at h
    unfold replace
    by_cases hk : k' = k
    · simp only [hk, if_true] at h ⊢
      cases h; rfl
    · simp only [hk, if_false] at h ⊢
      rw [replace_self h]

/-- one iteration of the loop of `mergeStringMaps` is the translated loop body; the recursive call is the
model function itself, `copyMapValue` returns a value equal to its argument, `dest[k] = v` is `setKeyKVs` -/
theorem mergeKVs_cons_translated (k : String) (sv : TD) (rest dst : KVs) :
    mergeKVs ((k, sv) :: rest) dst = mergeKVs rest (Merge.mergeStringMapsStep mergeKVs id setKeyKVs k sv dst) := by
  rw [mergeKVs]
  congr 1
  unfold Merge.mergeStringMapsStep
  cases h : lookup k dst with
  | none => simp [setKeyKVs, h]
  | some dv =>
    cases dv with
    | leaf j => cases sv <;> simp [mergeV, replace_self h]
    | node dm =>
      cases sv with
      | leaf j => simp [mergeV, replace_self h]
      | node sm => simp [mergeV]

/-! ### `mergeConfigs`: one field -/

def Kind.isMap : Kind → Bool | .anyMap | .typedMap => true | _ => false
def Kind.isAnyMap : Kind → Bool | .anyMap => true | _ => false
def Kind.isPointer : Kind → Bool | .ptrBool | .ptrString => true | _ => false

/-- the value has the Go type of the field (only `map[string]any` fields are distinguished: the merge looks inside them) -/
def Kind.fits : Kind → Option Val → Bool
  | .anyMap, none => true
  | .anyMap, some (.m _) => true
  | .anyMap, _ => false
  | _, _ => true

/-- what a declared effect of the loop body does to the destination field (value semantics: a copy is the value) -/
def applyEffect (src : Option Val) (d : Option Val) : String → Option Val
  | "set-src" => src
  | "set-copy-of-src" => src
  | "init-dest-map" => some (.m [])
  | "merge-string-maps" =>
    match src, d with
    | some (.m s), some (.m dm) => some (.m (mergeKVs s dm))
    | _, d => d
  | _ => d

def applyEffects (effs : List String) (src d : Option Val) : Option Val := effs.foldl (applyEffect src) d

/-- the reflect tests of the loop body, for a field of the given kind: nil / zero is "not set" -/
def fieldEffects (kind : Kind) (src dst : Option Val) : List String :=
  Merge.mergeFieldEffects kind.isMap kind.isAnyMap kind.isAnyMap kind.isPointer dst.isNone src.isNone true dst.isNone

/-- `mergeField` is the translated loop body. Guard: a pointer-typed source field is never nil –
`NewRootConfig` zero-fills every pointer field of the top level and each merge fills the level below, so
`reflect.New(srcFieldValue.Elem().Type())` is never reached with a nil source (it would panic). -/
theorem mergeField_translated (kind : Kind) (src dst : Option Val)
    (hs : kind.fits src = true) (hd : kind.fits dst = true) (hp : kind.isPointer = true → src.isSome = true)
    (hk : kind ≠ .other) :
    mergeField kind src dst = applyEffects (fieldEffects kind src dst) src dst := by
  cases kind with
  | other => exact absurd rfl hk
  | ptrBool =>
    cases dst with
    | some d => rfl
    | none => cases src with
      | some s => rfl
      | none => simp [Kind.isPointer] at hp
  | ptrString =>
    cases dst with
    | some d => rfl
    | none => cases src with
      | some s => rfl
      | none => simp [Kind.isPointer] at hp
  | strSlice => cases dst <;> cases src <;> rfl
  | typedMap => cases dst <;> cases src <;> rfl
  | anyMap =>
    cases src with
    | none =>
      cases dst with
      | none => rfl
      | some d => cases d <;> first | rfl | (simp [Kind.fits] at hd)
    | some s =>
      cases s with
      | m skv =>
        cases dst with
        | none => rfl
        | some d => cases d <;> first | rfl | (simp [Kind.fits] at hd)
      | b v => simp [Kind.fits] at hs
      | s v => simp [Kind.fits] at hs
      | l v => simp [Kind.fits] at hs
      | r v => simp [Kind.fits] at hs

end Mockery.Config

namespace Mockery.Config
open Mockery.Generated

/-! ### `InterfaceConfig.Initialize`: the `configs` entries -/

/-- what a declared effect of one loop iteration does to the entry (`none`: a YAML null entry, a nil pointer) -/
def applyEntryEffect (ft : FieldTable) (cfg : Cfg) (e : Option Cfg) : String → Option Cfg
  | "entry := {}" => some []
  | "store entry" => e
  | "merge config into entry" => match e with
    | some c => some (mergeConfigs ft cfg c)
    | none => none
  | _ => e

def runEntryEffects (ft : FieldTable) (cfg : Cfg) (e : Option Cfg) (effs : List String) : Option Cfg :=
  effs.foldl (applyEntryEffect ft cfg) e

/-- the `configs` list after `InterfaceConfig.Initialize`, read off the translated function and the translated
loop body -/
def configsByTranslation (ft : FieldTable) (cfg : Cfg) (entries : List Cfg) : List Cfg :=
  match Merge.interfaceInitializeEffects entries.length with
  | ["configs := [config]"] => [cfg]
  | _ => entries.filterMap (fun e => runEntryEffects ft cfg (some e) (Merge.interfaceInitializeEntryEffects false))

theorem initIface_configs_translated (ft : FieldTable) (pkgCfg : Cfg) (ic : IfaceCfg) :
    (initIface ft pkgCfg (some ic)).configs =
      configsByTranslation ft (mergeConfigs ft pkgCfg (ic.config.getD [])) ic.configs := by
  unfold initIface configsByTranslation Merge.interfaceInitializeEffects
  cases h : ic.configs with
  | nil => simp [h]
  | cons e es =>
    simp [h, Merge.interfaceInitializeEntryEffects, runEntryEffects, applyEntryEffect]

/-- a null entry (`-`) is initialised to the empty config before the merge: it behaves like an entry that sets nothing -/
theorem null_entry_is_empty_entry (ft : FieldTable) (cfg : Cfg) :
    runEntryEffects ft cfg none (Merge.interfaceInitializeEntryEffects true) =
      runEntryEffects ft cfg (some []) (Merge.interfaceInitializeEntryEffects false) := by
  simp [Merge.interfaceInitializeEntryEffects, runEntryEffects, applyEntryEffect]

end Mockery.Config

namespace Mockery.Config
open Mockery.Generated

/-! ### `PackageConfig.Initialize`: one listed interface -/

/-- the interface being initialised (`none`: `Name:` with a null value) and, once `Initialize` ran, its result -/
structure PkgEntrySt where
  cur : Option IfaceCfg
  out : Option IfaceOut

def applyPkgEntryEffect (ft : FieldTable) (pkgCfg : Cfg) (st : PkgEntrySt) : String → PkgEntrySt
  | "iface := new" => { st with cur := some ⟨some [], []⟩ }
  | "store iface" => st
  | "iface.config := {}" => { st with cur := st.cur.map (fun ic => { ic with config := some [] }) }
  | "merge package config into iface.config" =>
    { st with cur := st.cur.map (fun ic => { ic with config := ic.config.map (mergeConfigs ft pkgCfg) }) }
  | "initialize iface" =>
    { st with out := st.cur.bind (fun ic => ic.config.map (fun c =>
        if ic.configs.isEmpty then ⟨c, [c]⟩ else ⟨c, ic.configs.map (fun e => mergeConfigs ft c e)⟩)) }
  | _ => st

def runPkgEntry (ft : FieldTable) (pkgCfg : Cfg) (i : Option IfaceCfg) (effs : List String) : Option IfaceOut :=
  (effs.foldl (applyPkgEntryEffect ft pkgCfg) ⟨i, none⟩).out

/-- is the interface's `config` nil when the loop body tests it (a fresh `NewInterfaceConfig()` has one) -/
def configIsNilAtTest : Option IfaceCfg → Bool
  | none => false
  | some ic => ic.config.isNone

theorem initIface_translated (ft : FieldTable) (pkgCfg : Cfg) (i : Option IfaceCfg) :
    runPkgEntry ft pkgCfg i (Merge.packageInitializeEntryEffects i.isNone (configIsNilAtTest i)) =
      some (initIface ft pkgCfg i) := by
  cases i with
  | none => simp [Merge.packageInitializeEntryEffects, configIsNilAtTest, runPkgEntry, applyPkgEntryEffect, initIface]
  | some ic =>
    obtain ⟨c, es⟩ := ic
    cases c with
    | none =>
      simp only [Merge.packageInitializeEntryEffects, configIsNilAtTest, runPkgEntry, applyPkgEntryEffect, initIface,
        Option.isNone_some, Option.isNone_none, List.foldl, Option.map, Option.bind, Option.getD]
      cases es <;> simp [applyPkgEntryEffect]
    | some c =>
      simp only [Merge.packageInitializeEntryEffects, configIsNilAtTest, runPkgEntry, applyPkgEntryEffect, initIface,
        Option.isNone_some, List.foldl, Option.map, Option.bind, Option.getD]
      cases es <;> simp [applyPkgEntryEffect]

end Mockery.Config

namespace Mockery.Config
open Mockery.Generated

/-! ### `RootConfig.Initialize`: one configured package -/

structure RootEntrySt where
  cur : Option PkgCfg
  out : Option PkgOut
  marked : Bool

/-- (a nil `interfaces` map reads like an empty one: the model does not distinguish them) -/
def applyRootEntryEffect (ft : FieldTable) (root : Cfg) (st : RootEntrySt) : String → RootEntrySt
  | "pkg := new" => { st with cur := some ⟨some [], []⟩ }
  | "store pkg" => st
  | "pkg.config := {}" => { st with cur := st.cur.map (fun pc => { pc with config := some [] }) }
  | "pkg.interfaces := {}" => st
  | "merge top-level config into pkg.config" =>
    { st with cur := st.cur.map (fun pc => { pc with config := pc.config.map (mergeConfigs ft root) }) }
  | "initialize pkg" =>
    { st with out := st.cur.bind (fun pc => pc.config.map (fun c =>
        ⟨c, pc.interfaces.map (fun (n, i) => (n, initIface ft c i))⟩)) }
  | "mark recursive" => { st with marked := true }
  | _ => st

def runRootEntry (ft : FieldTable) (root : Cfg) (p : Option PkgCfg) (effs : List String) : RootEntrySt :=
  effs.foldl (applyRootEntryEffect ft root) ⟨p, none, false⟩

def pkgConfigIsNilAtTest : Option PkgCfg → Bool
  | none => false
  | some pc => pc.config.isNone

theorem initPkg_translated (ft : FieldTable) (root : Cfg) (p : Option PkgCfg) (interfacesNil recursive : Bool) :
    let st := runRootEntry ft root p
      (Merge.rootInitializeEntryEffects p.isNone (pkgConfigIsNilAtTest p) interfacesNil recursive)
    st.out = some (initPkg ft root p) ∧ st.marked = recursive := by
  cases p with
  | none =>
    cases interfacesNil <;> cases recursive <;>
      simp [Merge.rootInitializeEntryEffects, pkgConfigIsNilAtTest, runRootEntry, applyRootEntryEffect, initPkg]
  | some pc =>
    obtain ⟨c, is⟩ := pc
    cases c <;> cases interfacesNil <;> cases recursive <;>
      simp [Merge.rootInitializeEntryEffects, pkgConfigIsNilAtTest, runRootEntry, applyRootEntryEffect, initPkg]

end Mockery.Config
