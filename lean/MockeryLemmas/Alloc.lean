import MockeryModel.Gen.Registry
/-! Helper lemmas for C15 (allocators). Property theorems live in `MockeryProps/C15.lean`. -/
namespace Mockery.Gen

theorem inj_of_nodup_map {α β} {f : α → β} {l : List α} (h : (l.map f).Nodup)
    {a b : α} (ha : a ∈ l) (hb : b ∈ l) (hab : f a = f b) : a = b := by
  induction l with
  | nil => cases ha
  | cons x xs ih =>
    simp only [List.map_cons, List.nodup_cons, List.mem_map, not_exists, not_and] at h
    simp only [List.mem_cons] at ha hb
    rcases ha with rfl | ha <;> rcases hb with rfl | hb
    · rfl
    · exact absurd hab.symm (h.1 b hb)
    · exact absurd hab (h.1 a ha)
    · exact ih h.2 ha hb

namespace Scope

theorem names_step_subset (s : Scope) (op : ScopeOp) : ∀ n ∈ s.names, n ∈ (s.step op).1.names := by
  intro n hn
  cases op <;> simp [step, allocate, addName, hn]

theorem run_cons (s : Scope) (op : ScopeOp) (ops : List ScopeOp) :
    s.run (op :: ops) = ((( s.step op).1.run ops).1, (s.step op).2 :: ((s.step op).1.run ops).2) := by
  simp [run]

theorem run_append (s : Scope) (a b : List ScopeOp) :
    s.run (a ++ b) = (((s.run a).1.run b).1, (s.run a).2 ++ ((s.run a).1.run b).2) := by
  induction a generalizing s with
  | nil => simp [run]
  | cons op ops ih => simp [run_cons, ih]

theorem names_run_subset (s : Scope) (ops : List ScopeOp) : ∀ n ∈ s.names, n ∈ (s.run ops).1.names := by
  induction ops generalizing s with
  | nil => intro n hn; simpa [run] using hn
  | cons op ops ih =>
    intro n hn
    rw [run_cons]
    exact ih _ n (names_step_subset s op n hn)

theorem allocate_fresh' (s : Scope) (p : String) :
    (s.allocate p).2 ∉ s.names ∧ (s.allocate p).2 ∈ (s.allocate p).1.names := by
  constructor
  · exact (suggestName_spec s.names p).1
  · simp [allocate, addName]

/-- Everything `alloc` returned during a history is visible afterwards. -/
theorem allocResults_subset (s : Scope) (ops : List ScopeOp) :
    ∀ r ∈ s.allocResults ops, r ∈ (s.run ops).1.names := by
  induction ops generalizing s with
  | nil => intro r hr; simp [allocResults] at hr
  | cons op ops ih =>
    intro r hr
    rw [run_cons]
    cases op with
    | alloc p =>
      simp only [allocResults, List.mem_cons] at hr
      rcases hr with rfl | hr
      · exact names_run_subset _ ops _ (allocate_fresh' s p).2
      · exact ih _ r hr
    | suggest p => exact ih _ r (by simpa [allocResults] using hr)
    | add n => exact ih _ r (by simpa [allocResults] using hr)
    | exists_ n => exact ih _ r (by simpa [allocResults] using hr)

theorem allocResults_fresh (s : Scope) (ops : List ScopeOp) :
    (∀ r ∈ s.allocResults ops, r ∉ s.names) ∧ (s.allocResults ops).Nodup := by
  induction ops generalizing s with
  | nil => simp [allocResults]
  | cons op ops ih =>
    cases op with
    | alloc p =>
      have ⟨h1, h2⟩ := ih (s.allocate p).1
      have hf := allocate_fresh' s p
      simp only [allocResults]
      refine ⟨?_, ?_⟩
      · intro r hr
        simp only [List.mem_cons] at hr
        rcases hr with rfl | hr
        · exact hf.1
        · intro hin
          exact h1 r hr (by simp [allocate, addName, hin])
      · refine List.nodup_cons.2 ⟨?_, h2⟩
        intro hin
        exact h1 _ hin hf.2
    | suggest p => simpa [allocResults, step] using ih s
    | add n =>
      have ⟨h1, h2⟩ := ih (s.addName n)
      simp only [allocResults, step]
      exact ⟨fun r hr hin => h1 r hr (by simp [addName, hin]), h2⟩
    | exists_ n => simpa [allocResults, step] using ih s

theorem allocResults_append (s : Scope) (a b : List ScopeOp) :
    s.allocResults (a ++ b) = s.allocResults a ++ (s.run a).1.allocResults b := by
  induction a generalizing s with
  | nil => simp [allocResults, run]
  | cons op ops ih =>
    cases op <;> simp [allocResults, run_cons, ih, step]

theorem added_subset (s : Scope) (ops : List ScopeOp) (n : String) (h : ScopeOp.add n ∈ ops) :
    n ∈ (s.run ops).1.names := by
  induction ops generalizing s with
  | nil => simp at h
  | cons op ops ih =>
    rw [run_cons]
    simp only [List.mem_cons] at h
    rcases h with rfl | h
    · exact names_run_subset _ ops _ (by simp [step, addName])
    · exact ih _ h

end Scope

namespace Registry

/-- Invariant of the import table. -/
structure Inv (r : Registry) : Prop where
  paths_nodup : r.paths.Nodup
  quals_nodup : r.quals.Nodup
  no_self : ∀ p ∈ r.imports, r.isSelf p.name p.path = false

theorem find?_some {r : Registry} {path : String} {p : Pkg} (h : r.find? path = some p) :
    p ∈ r.imports ∧ p.path = path := by
  unfold find? at h
  have h1 := List.mem_of_find?_eq_some h
  have h2 := List.find?_some h
  exact ⟨h1, by simpa using h2⟩

theorem find?_none {r : Registry} {path : String} (h : r.find? path = none) : path ∉ r.paths := by
  unfold find? at h
  simp only [List.find?_eq_none] at h
  intro hin
  simp only [paths, List.mem_map] at hin
  obtain ⟨p, hp, rfl⟩ := hin
  exact h p hp (by simp)

/-- The qualifier of a freshly allocated entry is the free suggestion itself. -/
theorem fresh_qualifier (taken : List String) (name path : String) :
    (mkPkg taken name path).qualifier = freeAlias taken name := by
  unfold Pkg.qualifier mkPkg
  simp only
  by_cases h : freeAlias taken name = name
  · simp [h]
  · simp only [ne_eq, h, not_false_eq_true, ↓reduceIte]
    -- the suggestion is `name ++ digits`, hence non-empty
    have hs : alias? taken name = some (freeAlias taken name) := by unfold freeAlias; simp
    obtain ⟨_, j, hj⟩ := aliasFrom_sound hs
    have hne : freeAlias taken name ≠ "" := by
      rw [hj]; unfold aliasCand
      by_cases hj0 : j = 0
      · simp only [hj0, ↓reduceIte]; intro h0; apply h; rw [hj]; simp [aliasCand, hj0]
      · simp only [hj0, ↓reduceIte]
        intro h0
        have := congrArg String.length h0
        simp only [String.length_append, String.length_empty] at this
        have h2 : (j-1).repr ≠ "" := Nat.repr_ne_empty
        have : (j-1).repr.length = 0 := by omega
        exact h2 (String.length_eq_zero_iff.1 this)
    simp [hne]

theorem addImport_inv {r : Registry} (h : r.Inv) (name path : String) : (r.addImport name path).1.Inv := by
  unfold addImport
  split
  · exact h
  · rename_i hcond
    split
    · exact h
    · rename_i hnone
      have hp := find?_none hnone
      refine ⟨?_, ?_, ?_⟩
      · have hpath : (mkPkg r.quals name path).path = path := rfl
        simp only [paths, List.map_append, List.map_cons, List.map_nil, hpath]
        refine List.nodup_append.2 ⟨h.paths_nodup, by simp, ?_⟩
        intro a ha b hb
        simp only [List.mem_singleton] at hb
        subst hb
        intro hab; subst hab; exact hp ha
      · have hq := fresh_qualifier r.quals name path
        have hnm := freeAlias_not_mem r.quals name
        generalize mkPkg r.quals name path = np at hq ⊢
        simp only [quals, List.map_append, List.map_cons, List.map_nil]
        refine List.nodup_append.2 ⟨h.quals_nodup, by simp, ?_⟩
        intro a ha b hb
        simp only [List.mem_singleton] at hb
        subst hb
        rw [hq]
        intro hab; subst hab
        exact hnm ha
      · intro p hp
        have hself : ∀ n q, isSelf { r with imports := r.imports ++ [mkPkg r.quals name path] } n q = r.isSelf n q :=
          fun _ _ => rfl
        rw [hself]
        simp only [List.mem_append, List.mem_singleton] at hp
        rcases hp with hp | rfl
        · exact h.no_self p hp
        · have h1 : (mkPkg r.quals name path).name = name := rfl
          have h2 : (mkPkg r.quals name path).path = path := rfl
          rw [h1, h2]
          simpa using hcond

/-- Entries are never modified or removed. -/
theorem addImport_find?_stable {r : Registry} {path : String} {p : Pkg} (h : r.find? path = some p)
    (name' path' : String) : (r.addImport name' path').1.find? path = some p := by
  unfold addImport
  split
  · exact h
  · split
    · exact h
    · simp only [find?, List.find?_append]
      unfold find? at h
      simp [h]

theorem addImport_result {r : Registry} (name path : String) :
    (r.addImport name path).2 = none ∧ r.isSelf name path = true ∨
    ∃ p, (r.addImport name path).2 = some p ∧ (r.addImport name path).1.find? path = some p := by
  unfold addImport
  split
  · left; exact ⟨rfl, by assumption⟩
  · right
    split
    · rename_i p hp; exact ⟨p, rfl, hp⟩
    · rename_i hnone
      refine ⟨_, rfl, ?_⟩
      simp only [find?, List.find?_append]
      unfold find? at hnone
      simp [hnone, mkPkg]

theorem addImport_cfg (r : Registry) (n p : String) :
    (r.addImport n p).1.dstPkgPath = r.dstPkgPath ∧ (r.addImport n p).1.inPackage = r.inPackage ∧
    (r.addImport n p).1.dstPkgName = r.dstPkgName := by
  unfold addImport
  split
  · exact ⟨rfl, rfl, rfl⟩
  · split <;> exact ⟨rfl, rfl, rfl⟩

theorem addImport_some_cond {r : Registry} {n path : String} {p : Pkg}
    (h : (r.addImport n path).2 = some p) : ¬(r.isSelf n path = true) := by
  intro hc
  unfold addImport at h
  simp [hc] at h

def addImports (r : Registry) : List (String × String) → Registry
  | [] => r
  | (n, p) :: rest => (r.addImport n p).1.addImports rest

theorem addImports_inv {r : Registry} (h : r.Inv) (reqs : List (String × String)) : (r.addImports reqs).Inv := by
  induction reqs generalizing r with
  | nil => exact h
  | cons x xs ih => obtain ⟨n, p⟩ := x; exact ih (addImport_inv h n p)

theorem addImports_cfg (r : Registry) (reqs : List (String × String)) :
    (r.addImports reqs).dstPkgPath = r.dstPkgPath ∧ (r.addImports reqs).inPackage = r.inPackage ∧
    (r.addImports reqs).dstPkgName = r.dstPkgName := by
  induction reqs generalizing r with
  | nil => exact ⟨rfl, rfl, rfl⟩
  | cons x xs ih =>
    obtain ⟨n, p⟩ := x
    have h1 := ih (r.addImport n p).1
    have h2 := addImport_cfg r n p
    exact ⟨h1.1.trans h2.1, h1.2.1.trans h2.2.1, h1.2.2.trans h2.2.2⟩

theorem addImports_find?_stable {r : Registry} {path : String} {p : Pkg} (h : r.find? path = some p)
    (reqs : List (String × String)) : (r.addImports reqs).find? path = some p := by
  induction reqs generalizing r with
  | nil => exact h
  | cons x xs ih => obtain ⟨n, q⟩ := x; exact ih (addImport_find?_stable h n q)

/-! ### sorted listing -/

theorem mem_insertByPath {p x : Pkg} {l : List Pkg} : x ∈ insertByPath p l ↔ x = p ∨ x ∈ l := by
  induction l with
  | nil => simp [insertByPath]
  | cons q qs ih =>
    simp only [insertByPath]
    split
    · simp
    · simp only [List.mem_cons, ih]
      constructor
      · rintro (h | h | h) <;> simp [h]
      · rintro (h | h | h) <;> simp [h]

theorem insertByPath_perm (p : Pkg) (l : List Pkg) : (insertByPath p l).Perm (p :: l) := by
  induction l with
  | nil => simp [insertByPath]
  | cons q qs ih =>
    simp only [insertByPath]
    split
    · exact List.Perm.refl _
    · exact (List.Perm.cons q ih).trans (List.Perm.swap p q qs)

theorem sortedImports_perm (l : List Pkg) : (l.foldr insertByPath []).Perm l := by
  induction l with
  | nil => simp
  | cons p ps ih =>
    simp only [List.foldr_cons]
    exact (insertByPath_perm p _).trans (List.Perm.cons p ih)

theorem insertByPath_sorted {p : Pkg} {l : List Pkg}
    (hs : l.Pairwise (fun a b => a.path < b.path)) (hne : ∀ q ∈ l, q.path ≠ p.path) :
    (insertByPath p l).Pairwise (fun a b => a.path < b.path) := by
  induction l with
  | nil => simp [insertByPath]
  | cons q qs ih =>
    simp only [insertByPath]
    have hq := List.pairwise_cons.1 hs
    split
    · rename_i hlt
      refine List.pairwise_cons.2 ⟨?_, hs⟩
      intro x hx
      simp only [List.mem_cons] at hx
      rcases hx with rfl | hx
      · exact hlt
      · exact String.lt_trans hlt (hq.1 x hx)
    · rename_i hnlt
      have hqp : q.path < p.path := by
        rcases Std.lt_trichotomy p.path q.path with h | h | h
        · exact absurd h hnlt
        · exact absurd h.symm (hne q (by simp))
        · exact h
      refine List.pairwise_cons.2 ⟨?_, ih hq.2 (fun x hx => hne x (by simp [hx]))⟩
      intro x hx
      rcases mem_insertByPath.1 hx with rfl | hx
      · exact hqp
      · exact hq.1 x hx

theorem foldr_sorted (l : List Pkg) (hnd : (l.map Pkg.path).Nodup) :
    (l.foldr insertByPath []).Pairwise (fun a b => a.path < b.path) := by
  induction l with
  | nil => simp
  | cons p ps ih =>
    simp only [List.map_cons, List.nodup_cons] at hnd
    simp only [List.foldr_cons]
    refine insertByPath_sorted (ih hnd.2) ?_
    intro q hq hqp
    have : q ∈ ps := (sortedImports_perm ps).mem_iff.1 hq
    exact hnd.1 (by rw [← hqp]; exact List.mem_map_of_mem this)

end Registry
end Mockery.Gen
