import MockeryModel.Config.Resolve
/-! Helper lemmas for the fixpoint loop of `ParseTemplates` (C11). -/
namespace Mockery.Config

theorem round_unchanged {render vs vs'} (h : round render vs = .ok (vs', false)) : vs' = vs := by
  induction vs generalizing vs' with
  | nil => simp only [round, Except.ok.injEq, Prod.mk.injEq] at h; exact h.1.symm
  | cons v r ih =>
    simp only [round] at h
    split at h
    · cases h
    · rename_i v' hv
      split at h
      · cases h
      · rename_i r' ch hp
        simp only [Except.ok.injEq, Prod.mk.injEq] at h
        obtain ⟨h1, h2⟩ := h
        simp only [Bool.or_eq_false_iff, bne_eq_false_iff_eq] at h2
        obtain ⟨hc, hv'⟩ := h2
        subst hc
        rw [← h1, hv', ih hp]

/-- when every value renders, a round is a `map` and the flag says whether any value changed -/
theorem round_eq_map (render : String → Except RErr String) (f : String → String) (vs : List String)
    (h : ∀ v ∈ vs, render v = .ok (f v)) :
    round render vs = .ok (vs.map f, vs.any (fun v => f v != v)) := by
  induction vs with
  | nil => rfl
  | cons v r ih =>
    have h1 := h v (List.mem_cons_self ..)
    have h2 := ih (fun x hx => h x (List.mem_cons_of_mem _ hx))
    simp only [round, h1, h2, List.map_cons, List.any_cons]
    rw [Bool.or_comm]

/-- a round fails exactly when some value fails to render -/
theorem round_error_of_mem (render : String → Except RErr String) (vs : List String) (v : String) (e : RErr)
    (hv : v ∈ vs) (he : render v = .error e) : ∃ e', round render vs = .error e' := by
  induction vs with
  | nil => cases hv
  | cons a r ih =>
    rcases List.mem_cons.1 hv with rfl | hr
    · exact ⟨e, by simp [round, he]⟩
    · simp only [round]
      cases render a with
      | error x => exact ⟨x, rfl⟩
      | ok a' =>
        obtain ⟨e', h'⟩ := ih hr
        exact ⟨e', by simp [h']⟩

theorem loop_ok_is_fixpoint {render} : ∀ {fuel vs out}, loop render fuel vs = .ok out →
    round render out = .ok (out, false)
  | 0, _, _, h => by simp [loop] at h
  | fuel+1, vs, out, h => by
    simp only [loop] at h
    split at h
    · cases h
    · rename_i vs' ch hp
      cases ch with
      | true => simp only [if_true] at h; exact loop_ok_is_fixpoint h
      | false =>
        simp only [Bool.false_eq_true, if_false, Except.ok.injEq] at h
        subst h
        have := round_unchanged hp
        rw [this] at hp ⊢; exact hp

/-- `k` rounds of a total rendering function -/
def iter (f : String → String) : Nat → List String → List String
  | 0, vs => vs
  | k+1, vs => iter f k (vs.map f)

/-- values that stabilise after `k` rounds are returned when the fuel allows `k+1` rounds -/
theorem loop_stabilises (render : String → Except RErr String) (f : String → String)
    (hr : ∀ v, render v = .ok (f v)) :
    ∀ (k fuel : Nat) (vs : List String), k < fuel →
      (∀ j, j < k → (iter f j vs).any (fun v => f v != v) = true) →
      (iter f k vs).any (fun v => f v != v) = false →
      loop render fuel vs = .ok (iter f (k+1) vs)
  | 0, fuel+1, vs, _, _, hstab => by
    simp only [loop, round_eq_map render f vs (fun v _ => hr v)]
    simp only [iter] at hstab
    simp [hstab, iter]
  | k+1, fuel+1, vs, hk, hch, hstab => by
    simp only [loop, round_eq_map render f vs (fun v _ => hr v)]
    have h0 := hch 0 (by omega)
    simp only [iter] at h0
    simp only [h0, if_true]
    have := loop_stabilises render f hr k fuel (vs.map f) (by omega)
      (fun j hj => by have := hch (j+1) (by omega); simpa [iter] using this)
      (by simpa [iter] using hstab)
    simpa [iter] using this
  | _, 0, _, hk, _, _ => by omega

/-- values that keep changing for `fuel` rounds end in the infinite-loop error – never in a value -/
theorem loop_never_stabilising (render : String → Except RErr String) (f : String → String)
    (hr : ∀ v, render v = .ok (f v)) :
    ∀ (fuel : Nat) (vs : List String),
      (∀ j, j < fuel → (iter f j vs).any (fun v => f v != v) = true) →
      loop render fuel vs = .error .infiniteLoop
  | 0, _, _ => rfl
  | fuel+1, vs, hch => by
    simp only [loop, round_eq_map render f vs (fun v _ => hr v)]
    have h0 := hch 0 (by omega)
    simp only [iter] at h0
    simp only [h0, if_true]
    exact loop_never_stabilising render f hr fuel (vs.map f)
      (fun j hj => by have := hch (j+1) (by omega); simpa [iter] using this)

/-- number of rounds the loop executes -/
def loopRounds (render : String → Except RErr String) : Nat → List String → Nat
  | 0, _ => 0
  | fuel+1, vs =>
    match round render vs with
    | .error _ => 1
    | .ok (vs', ch) => if ch then 1 + loopRounds render fuel vs' else 1

theorem loopRounds_le (render : String → Except RErr String) : ∀ fuel vs, loopRounds render fuel vs ≤ fuel
  | 0, _ => Nat.le_refl _
  | fuel+1, vs => by
    simp only [loopRounds]
    split
    · omega
    · split
      · have := loopRounds_le render fuel ‹_›; omega
      · omega

end Mockery.Config
