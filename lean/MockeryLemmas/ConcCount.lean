import MockeryModel.Sem.Conc
import MockeryLemmas.Conc
/-!
Counting lemmas for C05: along any execution without a clear of log `m`, the number of times a value
`v` is in the history of `m` plus the number of pending `storeApp m v` actions in the threads'
continuations is constant.
-/
namespace Mockery.Sem.Conc

/-- the ghost history after an action -/
def histAfter (a : Act) (h : Loc → List Nat) : Loc → List Nat :=
  match a with
  | .storeApp m x => upd h m (h m ++ [x])
  | .storeNil m => upd h m []
  | _ => h

/-- every step consumes the head action of the stepping thread, leaves the other threads alone and
changes the history as `histAfter` says -/
theorem step_shape {s i s'} (st : Step s i s') :
    ∃ a rest, (s.th i).cont = a :: rest ∧ (s'.th i).cont = rest ∧ (∀ j, j ≠ i → s'.th j = s.th j) ∧
      s'.hist = histAfter a s.hist := by
  cases st with
  | lock hc _ _ => exact ⟨_, _, hc, by simp, fun j hj => by simp [hj], rfl⟩
  | unlock hc _ => exact ⟨_, _, hc, by simp, fun j hj => by simp [hj], rfl⟩
  | rlock hc _ _ => exact ⟨_, _, hc, by simp, fun j hj => by simp [hj], rfl⟩
  | runlock hc _ => exact ⟨_, _, hc, by simp, fun j hj => by simp [hj], rfl⟩
  | load hc => exact ⟨_, _, hc, by simp, fun j hj => by simp [hj], rfl⟩
  | storeApp hc => exact ⟨_, _, hc, by simp, fun j hj => by simp [hj], rfl⟩
  | storeNil hc => exact ⟨_, _, hc, by simp, fun j hj => by simp [hj], rfl⟩
  | snap hc => exact ⟨_, _, hc, by simp, fun j hj => by simp [hj], rfl⟩
  | loc hc => exact ⟨_, _, hc, by simp, fun j hj => by simp [hj], rfl⟩

/-- pending appends of `v` to `m` in a continuation -/
def pending (m : Loc) (v : Nat) (cont : List Act) : Nat := cont.count (.storeApp m v)

theorem pending_cons (m : Loc) (v : Nat) (a : Act) (rest : List Act) :
    pending m v (a :: rest) = pending m v rest + (if a = .storeApp m v then 1 else 0) := by
  unfold pending
  by_cases h : a = .storeApp m v
  · subst h; simp
  · have : (a == Act.storeApp m v) = false := by simpa using h
    simp [List.count_cons, h, this]

/-- a sum over distinct thread ids changes only at the id whose summand changes -/
theorem sum_change (ts : List Tid) (hnd : ts.Nodup) (i : Tid) (hi : i ∈ ts) (f g : Tid → Nat)
    (h : ∀ j, j ≠ i → g j = f j) : (ts.map g).sum + f i = (ts.map f).sum + g i := by
  induction ts with
  | nil => cases hi
  | cons t ts ih =>
    have hnd' := (List.nodup_cons.1 hnd)
    rcases List.mem_cons.1 hi with rfl | hi'
    · have hrest : ts.map g = ts.map f := by
        apply List.map_congr_left
        intro j hj
        exact h j (fun e => hnd'.1 (e ▸ hj))
      simp [hrest]; omega
    · have hti : t ≠ i := fun e => hnd'.1 (e ▸ hi')
      have := ih hnd'.2 hi'
      simp [h t hti]; omega

/-- the conserved quantity -/
def total (ts : List Tid) (m : Loc) (v : Nat) (s : St) : Nat :=
  (s.hist m).count v + (ts.map (fun j => pending m v (s.th j).cont)).sum

def NoClear (m : Loc) (s : St) : Prop := ∀ j, Act.storeNil m ∉ (s.th j).cont
def IdleOutside (ts : List Tid) (s : St) : Prop := ∀ j, j ∉ ts → (s.th j).cont = []

theorem step_conserves (ts : List Tid) (hnd : ts.Nodup) (m : Loc) (v : Nat) {s i s'} (st : Step s i s')
    (hnc : NoClear m s) (hidle : IdleOutside ts s) :
    total ts m v s' = total ts m v s ∧ NoClear m s' ∧ IdleOutside ts s' := by
  obtain ⟨a, rest, hc, hc', hother, hh⟩ := step_shape st
  have hi : i ∈ ts := by
    apply Classical.byContradiction
    intro hn
    have := hidle i hn
    rw [hc] at this; cases this
  have hne : a ≠ .storeNil m := by
    intro e
    have := hnc i
    rw [hc, e] at this
    exact this List.mem_cons_self
  refine ⟨?_, ?_, ?_⟩
  · unfold total
    have hsum := sum_change ts hnd i hi (fun j => pending m v (s.th j).cont) (fun j => pending m v (s'.th j).cont)
      (fun j hj => by simp [hother j hj])
    rw [hc, hc', pending_cons] at hsum
    rw [hh]
    by_cases ha : a = .storeApp m v
    · subst ha
      simp [histAfter, upd, List.count_append] at hsum ⊢
      omega
    · have hcount : ((histAfter a s.hist) m).count v = (s.hist m).count v := by
        cases a with
        | storeApp m' x =>
          by_cases hm : m' = m
          · subst hm
            have hx : x ≠ v := fun e => ha (by rw [e])
            simp [histAfter, upd, List.count_append, hx]
          · have : m ≠ m' := fun e => hm e.symm
            simp [histAfter, upd, this]
        | storeNil m' =>
          have hm : m' ≠ m := fun e => hne (by rw [e])
          have : m ≠ m' := fun e => hm e.symm
          simp [histAfter, upd, this]
        | _ => rfl
      simp [ha] at hsum
      omega
  · intro j
    by_cases hj : j = i
    · subst hj
      rw [hc']
      intro hmem
      exact hnc j (by rw [hc]; exact List.mem_cons_of_mem _ hmem)
    · rw [hother j hj]; exact hnc j
  · intro j hj
    have hji : j ≠ i := fun e => hj (e ▸ hi)
    rw [hother j hji]; exact hidle j hj

theorem reach_conserves (ts : List Tid) (hnd : ts.Nodup) (m : Loc) (v : Nat) {s0 s} (r : Reach s0 s)
    (hnc : NoClear m s0) (hidle : IdleOutside ts s0) :
    total ts m v s = total ts m v s0 ∧ NoClear m s ∧ IdleOutside ts s := by
  induction r with
  | refl => exact ⟨rfl, hnc, hidle⟩
  | step _ st ih =>
    obtain ⟨h1, h2, h3⟩ := ih
    obtain ⟨g1, g2, g3⟩ := step_conserves ts hnd m v st h2 h3
    exact ⟨g1.trans h1, g2, g3⟩


theorem sum_zeros : ∀ ts : List Tid, (ts.map (fun _ => 0)).sum = 0
  | [] => rfl
  | _ :: ts => by simp [sum_zeros ts]

/-! ### the programs of operation sequences -/

theorem pending_append (m : Loc) (v : Nat) (p q : List Act) :
    pending m v (p ++ q) = pending m v p + pending m v q := by
  simp [pending, List.count_append]

theorem pending_resetAll (m : Loc) (v : Nat) : ∀ ms : List Loc, pending m v (resetAllProg ms) = 0
  | [] => by simp [resetAllProg, pending]
  | m' :: ms => by
    rw [resetAllProg, pending_append, pending_resetAll m v ms]
    simp [pending, resetProg, List.count_cons]

theorem pending_op (m : Loc) (v : Nat) (o : Op) :
    pending m v o.prog = if o = .call m v then 1 else 0 := by
  cases o with
  | call m' x =>
    by_cases h : m' = m ∧ x = v
    · obtain ⟨rfl, rfl⟩ := h
      simp [Op.prog, callProg, pending, List.count_cons]
    · have hne : Op.call m' x ≠ Op.call m v := by
        intro e; injection e with e1 e2; exact h ⟨e1, e2⟩
      have hact : (Act.storeApp m' x == Act.storeApp m v) = false := by
        simp; intro e1 e2; exact h ⟨e1, e2⟩
      simp [Op.prog, callProg, pending, List.count_cons, hne, hact]
  | calls m' => simp [Op.prog, callsProg, pending, List.count_cons]
  | reset m' => simp [Op.prog, resetProg, pending, List.count_cons]
  | resetAll ms => simp [Op.prog, pending_resetAll]

theorem pending_ops (m : Loc) (v : Nat) : ∀ os : List Op, pending m v (progOfOps os) = os.count (.call m v)
  | [] => by simp [progOfOps, pending]
  | o :: os => by
    rw [progOfOps, pending_append, pending_op, pending_ops m v os, List.count_cons]
    by_cases h : o = .call m v
    · simp [h]; omega
    · have : (o == Op.call m v) = false := by simpa using h
      simp [h, this]

theorem storeNil_resetAll (m : Loc) : ∀ ms : List Loc, Act.storeNil m ∈ resetAllProg ms → m ∈ ms
  | [], h => by simp [resetAllProg] at h
  | m' :: ms, h => by
    rw [resetAllProg] at h
    rcases List.mem_append.1 h with h | h
    · simp [resetProg] at h; simp [h]
    · exact List.mem_cons_of_mem _ (storeNil_resetAll m ms h)

/-- an operation sequence that never resets `m` has no clear of `m` in its program -/
theorem noClear_ops (m : Loc) : ∀ os : List Op,
    (∀ o ∈ os, o ≠ .reset m ∧ ∀ ms, o = .resetAll ms → m ∉ ms) → Act.storeNil m ∉ progOfOps os
  | [], _ => by simp [progOfOps]
  | o :: os, h => by
    rw [progOfOps]
    intro hm
    rcases List.mem_append.1 hm with hm | hm
    · have ho := h o List.mem_cons_self
      cases o with
      | call m' x => simp [Op.prog, callProg] at hm
      | calls m' => simp [Op.prog, callsProg] at hm
      | reset m' =>
        simp [Op.prog, resetProg] at hm
        exact ho.1 (by rw [hm])
      | resetAll ms => exact ho.2 ms rfl (storeNil_resetAll m ms (by simpa [Op.prog] using hm))
    · exact noClear_ops m os (fun o ho => h o (List.mem_cons_of_mem _ ho)) hm

end Mockery.Sem.Conc
