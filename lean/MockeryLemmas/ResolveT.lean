import MockeryModel.Config.Resolve
import MockeryModel.Generated.MergeFacts
/-
One parameter of one round of `Config.ParseTemplates` (`Config/Resolve.lean` `round`) against the translation of the
inner loop body (`Generated/MergeFacts.lean` `parseTemplatesEntryEffects`).
-/
namespace Mockery.Config
open Mockery.Generated

structure ParamSt where
  value : String
  changes : Bool
  err : Option RErr

/-- what a declared effect of the translated loop body does; `rendered` is what `Execute` wrote into the buffer -/
def applyParamEffect (rendered : String) (st : ParamSt) : String → ParamSt
  | "error: parse" => { st with err := some .parse }
  | "error: execute" => { st with err := some .exec }
  | "store rendered" => { st with value := rendered }
  | "changesMade := true" => { st with changes := true }
  | _ => st

def runParam (rendered : String) (v : String) (effs : List String) : ParamSt :=
  effs.foldl (applyParamEffect rendered) ⟨v, false, none⟩

/-- the outcome of rendering, as the two calls of the loop body see it -/
def parsedFlag : Except RErr String → Option Unit
  | .error .parse => none
  | _ => some ()
def executedFlag : Except RErr String → Option Unit
  | .ok _ => some ()
  | .error _ => none
def renderedOf : Except RErr String → String
  | .ok s => s
  | .error _ => ""

/-- one parameter of a round is the interpretation of the translated loop body; `render` fails only the way the two
calls of the body can fail (parsing, executing) -/
theorem round_cons_translated (render : String → Except RErr String) (v : String) (vs : List String)
    (herr : ∀ e, render v = .error e → e = .parse ∨ e = .exec) :
    let r := render v
    let st := runParam (renderedOf r) v
      (Merge.parseTemplatesEntryEffects (parsedFlag r) (executedFlag r) (renderedOf r != v))
    round render (v :: vs) =
      match st.err with
      | some e => .error e
      | none => match round render vs with
        | .error e => .error e
        | .ok (vs', ch) => .ok (st.value :: vs', ch || st.changes) := by
  simp only [round]
  cases hr : render v with
  | error e =>
    rcases herr e hr with rfl | rfl <;>
      simp [Merge.parseTemplatesEntryEffects, parsedFlag, executedFlag, runParam, applyParamEffect]
  | ok v' =>
    by_cases hc : (v' != v) = true
    · simp [Merge.parseTemplatesEntryEffects, parsedFlag, executedFlag, renderedOf, runParam, applyParamEffect, hc]
      rcases round render vs with e | ⟨vs', ch⟩ <;> rfl
    · simp only [Bool.not_eq_true] at hc
      simp [Merge.parseTemplatesEntryEffects, parsedFlag, executedFlag, renderedOf, runParam, applyParamEffect, hc]
      rcases round render vs with e | ⟨vs', ch⟩ <;> rfl

end Mockery.Config

namespace Mockery.Config
open Mockery.Generated

/-- one iteration of the outer loop of `ParseTemplates` (`loop` with `fuel = cap - i`) follows the translated loop
body: at the cap the run ends with the infinite-loop error, otherwise the flag is cleared and a round is made, and the
loop goes on exactly when that round changed something -/
theorem loop_step_translated (render : String → Except RErr String) (fuel : Nat) (vs : List String) :
    (Merge.parseTemplatesRoundEffects (fuel == 0) = ["error: infinite loop"] ∧ fuel = 0 ∧
        loop render fuel vs = .error .infiniteLoop) ∨
    (Merge.parseTemplatesRoundEffects (fuel == 0) = ["changesMade := false", "range templateMap"] ∧
      ∃ f, fuel = f + 1 ∧
        loop render fuel vs = match round render vs with
          | .error e => .error e
          | .ok (vs', ch) => if ch then loop render f vs' else .ok vs') := by
  cases fuel with
  | zero => left; simp [Merge.parseTemplatesRoundEffects, loop]
  | succ f =>
    right
    refine ⟨by simp [Merge.parseTemplatesRoundEffects], f, rfl, ?_⟩
    simp only [loop]
    rcases round render vs with e | ⟨vs', ch⟩ <;> rfl

end Mockery.Config
