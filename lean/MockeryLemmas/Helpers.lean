import MockeryModel.Tmpl.Funcs
import MockeryModel.Generated.Helpers
/-
The model's helper functions (`Tmpl/Funcs.lean`) against the translation of
`template_funcs/functions.go` (`Generated/Helpers.lean`).
-/
namespace Mockery.Tmpl
open Mockery.Generated

/-- a Unicode table that classifies every code point (the driver's `tableOps` knows the ranges the harness draws from) -/
def UnicodeOps.Total (U : UnicodeOps) : Prop := ∀ c, U.known c = true

/-- `strings.ToUpper` as a total function: the value `toUpperS` has wherever it is defined -/
def toUpperT (U : UnicodeOps) (s : Bytes) : Bytes :=
  if isAscii s then s.map asciiUpper else (runes s).flatMap (fun r => encodeRune (U.toUpper r.1))

theorem toUpperS_total (U : UnicodeOps) (hU : U.Total) (s : Bytes) : toUpperS U s = some (toUpperT U s) := by
  unfold toUpperS toUpperT mapRunes
  split
  · rfl
  · have : (runes s).all (fun r => U.known r.1) = true := by
      rw [List.all_eq_true]; intro r _; exact hU r.1
    simp [this]

/-- the search loop of the translated `Exported` is `List.find?` followed by the rune branch -/
theorem exported_loop (U : UnicodeOps) (s : Bytes) (ini : List Bytes) :
    Helpers.exported.loop (toUpperT U) decodeRune runeError U.toUpper encodeRune (fun s n => s.drop n) (· ++ ·) s ini =
      match ini.find? (fun i => i == toUpperT U s) with
      | some i => i
      | none => if (decodeRune s).1 == runeError then s else encodeRune (U.toUpper (decodeRune s).1) ++ s.drop (decodeRune s).2 := by
  induction ini with
  | nil => simp [Helpers.exported.loop]
  | cons i rest ih =>
    simp only [Helpers.exported.loop, List.find?]
    by_cases h : toUpperT U s == i
    · have h' : (i == toUpperT U s) = true := by rw [beq_iff_eq] at h ⊢; exact h.symm
      simp [h, h']
    · have h' : (i == toUpperT U s) = false := by
        rw [Bool.not_eq_true] at h; rw [beq_eq_false_iff_ne] at h ⊢; exact fun e => h e.symm
      simp [h, h', ih]

theorem exported_translated (U : UnicodeOps) (hU : U.Total) (ini : List Bytes) (s : Bytes) :
    exported U ini s =
      some (Helpers.exported [] ini (toUpperT U) decodeRune runeError U.toUpper encodeRune (fun s n => s.drop n) (· ++ ·) s) := by
  unfold exported Helpers.exported
  cases s with
  | nil => simp
  | cons b bs =>
    have hne : ((b :: bs) == ([] : Bytes)) = false := rfl
    simp only [List.isEmpty_cons, Bool.false_eq_true, if_false, hne, toUpperS_total U hU, exported_loop]
    cases List.find? (fun i => i == toUpperT U (b :: bs)) ini with
    | some i => rfl
    | none =>
      simp only [hU (decodeRune (b :: bs)).1, if_true]
      split <;> rfl

theorem firstIsLower_translated (U : UnicodeOps) (hU : U.Total) (s : Bytes) :
    firstIsLower U s = some (Helpers.firstIsLower List.length decodeRune U.isLetter U.isLower s) := by
  unfold firstIsLower Helpers.firstIsLower
  cases s with
  | nil => simp
  | cons b bs => simp [hU (decodeRune (b :: bs)).1]

/-! ### the integer helpers -/

theorem addI_translated (i : Int) (r : List Int) : addI i r = Helpers.add (fun a b => wrap64 (a + b)) i r := rfl
theorem subI_translated (i : Int) (r : List Int) : subI i r = Helpers.sub (fun a b => wrap64 (a - b)) i r := rfl
theorem mulI_translated (i : Int) (r : List Int) : mulI i r = Helpers.mul (fun a b => wrap64 (a * b)) i r := rfl

/-- Go's integer division and remainder on values that may already be "the run panicked" (`none`):
a zero divisor panics, a panic is final -/
def quoP : Option Int → Option Int → Option Int
  | some a, some d => if d == 0 then none else some (wrap64 (Int.tdiv a d))
  | _, _ => none
def remP : Option Int → Option Int → Option Int
  | some a, some d => if d == 0 then none else some (Int.tmod a d)
  | _, _ => none

theorem foldl_quoP_none (l : List Int) : List.foldl quoP none (l.map some) = none := by
  induction l with
  | nil => rfl
  | cons d ds ih => simpa [List.foldl, quoP] using ih
theorem foldl_remP_none (l : List Int) : List.foldl remP none (l.map some) = none := by
  induction l with
  | nil => rfl
  | cons d ds ih => simpa [List.foldl, remP] using ih

theorem divI_translated (i : Int) (r : List Int) : divI i r = Helpers.div quoP (some i) (r.map some) := by
  unfold Helpers.div
  induction r generalizing i with
  | nil => rfl
  | cons d ds ih =>
    simp only [divI, List.map, List.foldl, quoP]
    split
    · exact (foldl_quoP_none ds).symm
    · exact ih _

theorem modI_translated (i : Int) (r : List Int) : modI i r = Helpers.mod remP (some i) (r.map some) := by
  unfold Helpers.mod
  induction r generalizing i with
  | nil => rfl
  | cons d ds ih =>
    simp only [modI, List.map, List.foldl, remP]
    split
    · exact (foldl_remP_none ds).symm
    · exact ih _

end Mockery.Tmpl
