import MockeryModel.Sem.ConcExec
/-!
The executable scheduler semantics refines `Step`: whatever `xstep` does is a step of the abstract
machine on the abstracted state, so the theorems about all interleavings cover every run of the driver.
-/
namespace Mockery.Sem.Conc

theorem getD_set (l : List Thread) (i j : Nat) (t : Thread) (hi : i < l.length) :
    (l.set i t).getD j idle = if j = i then t else l.getD j idle := by
  by_cases h : j = i
  · subst h; simp [List.getD, hi]
  · simp [List.getD, List.getElem?_set, h, Ne.symm h]

theorem thread_set (l : List Thread) (i : Nat) (t : Thread) (hi : i < l.length) :
    (fun j => (l.set i t).getD j idle) = upd (fun j => l.getD j idle) i t := by
  funext j
  simp only [getD_set _ _ _ _ hi, upd]

theorem held_of_all (s : XSt) (p : Thread → Bool) (hidle : p idle = true) (h : s.th.all p = true) (j : Nat) :
    p (s.thread j) = true := by
  unfold XSt.thread List.getD
  cases hj : s.th[j]? with
  | none => simpa using hidle
  | some t =>
    have : t ∈ s.th := List.mem_of_getElem? hj
    simpa using (List.all_eq_true.1 h) t this

theorem free_of_freeB (s : XSt) (m : Loc) (h : freeB s m = true) : free s.abs m := by
  intro j
  have := held_of_all s (fun t => t.held != .w m && t.held != .r m) (by simp [idle]) h j
  simp only [Bool.and_eq_true, bne_iff_ne, ne_eq] at this
  exact this

theorem noWriter_of_noWriterB (s : XSt) (m : Loc) (h : noWriterB s m = true) : noWriter s.abs m := by
  intro j
  have := held_of_all s (fun t => t.held != .w m) (by simp [idle]) h j
  simp only [bne_iff_ne, ne_eq] at this
  exact this


theorem abs_set (s : XSt) (log hist : Loc → List Nat) (i : Nat) (t : Thread) (hi : i < s.th.length) :
    (XSt.mk log hist (s.th.set i t)).abs = ⟨log, hist, upd s.abs.th i t⟩ := by
  simp only [XSt.abs, St.mk.injEq, true_and]
  funext j
  simp only [XSt.thread, getD_set _ _ _ _ hi, upd]

/-- **the executable semantics refines `Step`** -/
theorem xstep_sound (s s' : XSt) (i : Nat) (h : xstep s i = some s') : Step s.abs i s'.abs := by
  unfold xstep at h
  by_cases hi : i < s.th.length
  · simp only [hi, if_true] at h
    cases hc : (s.thread i).cont with
    | nil => simp [hc] at h
    | cons a rest =>
      have hca : (s.abs.th i).cont = a :: rest := hc
      cases a with
      | lock m =>
        simp only [hc] at h
        split at h
        · rename_i hg
          injection h with h; subst h
          rw [abs_set s s.log s.hist i _ hi]
          exact Step.lock hca hg.1 (free_of_freeB s m hg.2)
        · cases h
      | unlock m =>
        simp only [hc] at h
        split at h
        · rename_i hg
          injection h with h; subst h
          rw [abs_set s s.log s.hist i _ hi]
          exact Step.unlock hca hg
        · cases h
      | rlock m =>
        simp only [hc] at h
        split at h
        · rename_i hg
          injection h with h; subst h
          rw [abs_set s s.log s.hist i _ hi]
          exact Step.rlock hca hg.1 (noWriter_of_noWriterB s m hg.2)
        · cases h
      | runlock m =>
        simp only [hc] at h
        split at h
        · rename_i hg
          injection h with h; subst h
          rw [abs_set s s.log s.hist i _ hi]
          exact Step.runlock hca hg
        · cases h
      | load m =>
        simp only [hc] at h
        injection h with h; subst h
        rw [abs_set s s.log s.hist i _ hi]
        exact Step.load hca
      | storeApp m x =>
        simp only [hc] at h
        injection h with h; subst h
        rw [abs_set s _ _ i _ hi]
        exact Step.storeApp hca
      | storeNil m =>
        simp only [hc] at h
        injection h with h; subst h
        rw [abs_set s _ _ i _ hi]
        exact Step.storeNil hca
      | snap m =>
        simp only [hc] at h
        injection h with h; subst h
        rw [abs_set s s.log s.hist i _ hi]
        exact Step.snap hca
      | loc =>
        simp only [hc] at h
        injection h with h; subst h
        rw [abs_set s s.log s.hist i _ hi]
        exact Step.loc hca
  · simp [hi] at h


theorem reach_trans {s0 s s' : St} (h1 : Reach s0 s) (h2 : Reach s s') : Reach s0 s' := by
  induction h2 with
  | refl => exact h1
  | step _ st ih => exact Reach.step ih st

/-- every run of the seeded scheduler is an execution of the abstract machine -/
theorem run_reach : ∀ (fuel seed : Nat) (s : XSt) (raced : Bool) (n : Nat),
    Reach s.abs (run fuel seed s raced n).final.abs
  | 0, _, _, _, _ => Reach.refl
  | fuel + 1, seed, s, raced, n => by
    unfold run
    simp only
    split
    · exact Reach.refl
    · split
      · rename_i s' hx
        exact reach_trans (Reach.step Reach.refl (xstep_sound _ _ _ hx)) (run_reach fuel _ s' _ _)
      · exact Reach.refl

end Mockery.Sem.Conc
