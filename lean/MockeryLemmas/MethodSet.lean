import MockeryModel.Go.MethodSet
/-! Lemmas about the method-set model: membership through dedup and sort, distinct names, sortedness. -/
namespace Mockery.Go

def names (l : List MethodSig) : List String := l.map (·.name)

theorem mem_insertByName (m x : MethodSig) : ∀ l : List MethodSig, x ∈ insertByName m l ↔ x = m ∨ x ∈ l
  | [] => by simp [insertByName]
  | y :: ys => by
    unfold insertByName
    split
    · simp
    · simp [mem_insertByName m x ys]
      constructor
      · rintro (h | h | h) <;> simp [h]
      · rintro (h | h | h) <;> simp [h]

theorem mem_sortByName (x : MethodSig) : ∀ l : List MethodSig, x ∈ sortByName l ↔ x ∈ l
  | [] => by simp [sortByName]
  | m :: ms => by simp [sortByName, mem_insertByName, mem_sortByName x ms]

theorem names_insertByName_nodup (m : MethodSig) : ∀ l : List MethodSig,
    (names (m :: l)).Nodup → (names (insertByName m l)).Nodup
  | [], h => by simpa [insertByName, names] using h
  | y :: ys, h => by
    unfold insertByName
    split
    · exact h
    · have h' : (names (m :: ys)).Nodup := by
        simp only [names, List.map_cons, List.nodup_cons, List.mem_cons, List.mem_map] at h ⊢
        exact ⟨fun hx => h.1 (Or.inr hx), h.2.2⟩
      have ih := names_insertByName_nodup m ys h'
      simp only [names, List.map_cons, List.nodup_cons, List.mem_map] at h ih ⊢
      refine ⟨?_, ih⟩
      rintro ⟨z, hz, hzn⟩
      rcases (mem_insertByName m z ys).1 hz with rfl | hz'
      · exact h.1 (by simp [hzn])
      · exact h.2.1 ⟨z, hz', hzn⟩

theorem names_sortByName_nodup : ∀ l : List MethodSig, (names l).Nodup → (names (sortByName l)).Nodup
  | [], _ => by simp [sortByName, names]
  | m :: ms, h => by
    have h' : (names ms).Nodup := by
      simp only [names, List.map_cons, List.nodup_cons] at h; exact h.2
    have ih := names_sortByName_nodup ms h'
    apply names_insertByName_nodup
    simp only [names, List.map_cons, List.nodup_cons, List.mem_map] at h ⊢
    refine ⟨?_, ih⟩
    rintro ⟨z, hz, hzn⟩
    exact h.1 ⟨z, (mem_sortByName z ms).1 hz, hzn⟩

/-- sorted by name -/
def SortedByName : List MethodSig → Prop
  | [] => True
  | m :: ms => (∀ x ∈ ms, m.name ≤ x.name) ∧ SortedByName ms

theorem insertByName_sorted (m : MethodSig) : ∀ l : List MethodSig, SortedByName l → SortedByName (insertByName m l)
  | [], _ => by simp [insertByName, SortedByName]
  | y :: ys, h => by
    unfold insertByName
    split
    · rename_i hle
      refine ⟨?_, h⟩
      intro x hx
      rcases List.mem_cons.1 hx with rfl | hx
      · exact hle
      · exact String.le_trans hle (h.1 x hx)
    · rename_i hnle
      have hym : y.name ≤ m.name := (String.le_total m.name y.name).resolve_left hnle
      refine ⟨?_, insertByName_sorted m ys h.2⟩
      intro x hx
      rcases (mem_insertByName m x ys).1 hx with rfl | hx
      · exact hym
      · exact h.1 x hx

theorem sortByName_sorted : ∀ l : List MethodSig, SortedByName (sortByName l)
  | [] => trivial
  | m :: ms => insertByName_sorted m _ (sortByName_sorted ms)

/-! dedup -/

theorem dedupAux_spec (l : List MethodSig) : ∀ (seen : List String),
    (∀ x, x ∈ dedupAux seen l → x ∈ l ∧ x.name ∉ seen) ∧
    (∀ n, n ∈ names l → n ∉ seen → n ∈ names (dedupAux seen l)) ∧
    (names (dedupAux seen l)).Nodup := by
  induction l with
  | nil => intro seen; simp [dedupAux, names]
  | cons m ms ih =>
    intro seen
    unfold dedupAux
    by_cases hs : seen.contains m.name = true
    · simp only [hs, if_true]
      obtain ⟨h1, h2, h3⟩ := ih seen
      refine ⟨fun x hx => ⟨List.mem_cons_of_mem _ (h1 x hx).1, (h1 x hx).2⟩, ?_, h3⟩
      intro n hn hns
      simp only [names, List.map_cons, List.mem_cons] at hn
      rcases hn with rfl | hn
      · exact absurd (by simpa using hs) hns
      · exact h2 n hn hns
    · simp only [hs, Bool.false_eq_true, if_false]
      have hms : m.name ∉ seen := by simpa using hs
      obtain ⟨h1, h2, h3⟩ := ih (m.name :: seen)
      refine ⟨?_, ?_, ?_⟩
      · intro x hx
        rcases List.mem_cons.1 hx with rfl | hx
        · exact ⟨List.mem_cons_self, hms⟩
        · have := h1 x hx
          exact ⟨List.mem_cons_of_mem _ this.1, fun h => this.2 (List.mem_cons_of_mem _ h)⟩
      · intro n hn hns
        simp only [names, List.map_cons, List.mem_cons] at hn ⊢
        rcases hn with rfl | hn
        · exact Or.inl rfl
        · by_cases hnm : n = m.name
          · exact Or.inl hnm
          · exact Or.inr (h2 n hn (by simp [hnm, hns]))
      · simp only [names, List.map_cons, List.nodup_cons, List.mem_map]
        refine ⟨?_, h3⟩
        rintro ⟨z, hz, hzn⟩
        exact (h1 z hz).2 (by simp [hzn])

mutual
theorem mem_allMethods_explicit : ∀ (d : IfaceDecl) (m : MethodSig), m ∈ d.methods → m ∈ allMethods d
  | .mk ms es, m, h => by simp [allMethods]; exact Or.inl h
end

theorem mem_allMethodsL (e : IfaceDecl) (m : MethodSig) : ∀ es : List IfaceDecl, e ∈ es → m ∈ allMethods e → m ∈ allMethodsL es
  | [], h, _ => by cases h
  | x :: xs, h, hm => by
    simp only [allMethodsL, List.mem_append]
    rcases List.mem_cons.1 h with rfl | h
    · exact Or.inl hm
    · exact Or.inr (mem_allMethodsL e m xs h hm)

theorem mem_allMethods_embedded (d e : IfaceDecl) (m : MethodSig) (he : e ∈ d.embeds) (hm : m ∈ allMethods e) :
    m ∈ allMethods d := by
  cases d with
  | mk ms es =>
    simp only [allMethods, List.mem_append]
    exact Or.inr (mem_allMethodsL e m es he hm)

end Mockery.Go

namespace Mockery.Go

theorem methodSet_sound (d : IfaceDecl) (x : MethodSig) (h : x ∈ methodSet d) : x ∈ allMethods d := by
  unfold methodSet dedupByName at h
  exact ((dedupAux_spec (allMethods d) []).1 x ((mem_sortByName x _).1 h)).1

theorem methodSet_complete (d : IfaceDecl) (m : MethodSig) (h : m ∈ allMethods d) : m.name ∈ names (methodSet d) := by
  unfold methodSet dedupByName
  have h2 := (dedupAux_spec (allMethods d) []).2.1 m.name (List.mem_map.2 ⟨m, h, rfl⟩) (by simp)
  obtain ⟨z, hz, hzn⟩ := List.mem_map.1 h2
  exact List.mem_map.2 ⟨z, (mem_sortByName z _).2 hz, hzn⟩

theorem methodSet_distinct (d : IfaceDecl) : (names (methodSet d)).Nodup :=
  names_sortByName_nodup _ (dedupAux_spec (allMethods d) []).2.2

theorem methodSet_sorted (d : IfaceDecl) : SortedByName (methodSet d) := sortByName_sorted _

end Mockery.Go
