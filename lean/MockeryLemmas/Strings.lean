import MockeryModel.Tmpl.Funcs
/-! Helper lemmas about the byte-string reference functions (C16). -/
namespace Mockery.Tmpl

theorem hasPrefix_iff (s p : Bytes) : hasPrefix s p = true ↔ ∃ t, s = p ++ t := by
  unfold hasPrefix
  rw [List.isPrefixOf_iff_prefix]
  constructor
  · rintro ⟨t, rfl⟩; exact ⟨t, rfl⟩
  · rintro ⟨t, rfl⟩; exact ⟨t, rfl⟩

theorem hasSuffix_iff (s p : Bytes) : hasSuffix s p = true ↔ ∃ t, s = t ++ p := by
  unfold hasSuffix
  rw [List.isSuffixOf_iff_suffix]
  constructor
  · rintro ⟨t, rfl⟩; exact ⟨t, rfl⟩
  · rintro ⟨t, rfl⟩; exact ⟨t, rfl⟩

theorem index_go_some {sub : Bytes} : ∀ (s : Bytes) (i k : Nat), index.go sub s i = some k →
    i ≤ k ∧ sub.isPrefixOf (s.drop (k - i)) = true ∧ k - i ≤ s.length ∧
    ∀ j, j < k - i → sub.isPrefixOf (s.drop j) = false := by
  intro s
  induction s with
  | nil =>
    intro i k h
    simp only [index.go] at h
    split at h
    · cases h
      rename_i he
      have : sub = [] := by simpa using he
      subst this
      simp
    · cases h
  | cons b t ih =>
    intro i k h
    simp only [index.go] at h
    split at h
    · cases h
      rename_i hp
      refine ⟨Nat.le_refl _, by simpa using hp, by simp, ?_⟩
      intro j hj; omega
    · rename_i hp
      obtain ⟨h1, h2, h3, h4⟩ := ih (i+1) k h
      refine ⟨by omega, ?_, by simp; omega, ?_⟩
      · have : k - i = (k - (i+1)) + 1 := by omega
        rw [this]; simpa using h2
      · intro j hj
        cases j with
        | zero => exact Bool.eq_false_iff.2 hp
        | succ j =>
          have := h4 j (by omega)
          simpa using this

theorem index_go_none {sub : Bytes} : ∀ (s : Bytes) (i : Nat), index.go sub s i = none →
    ∀ j, j ≤ s.length → sub.isPrefixOf (s.drop j) = false := by
  intro s
  induction s with
  | nil =>
    intro i h j hj
    simp only [index.go] at h
    split at h
    · cases h
    · rename_i he
      have : j = 0 := by simpa using hj
      subst this
      cases sub with
      | nil => simp at he
      | cons a as => simp
  | cons b t ih =>
    intro i h j hj
    simp only [index.go] at h
    split at h
    · cases h
    · rename_i hp
      cases j with
      | zero => exact Bool.eq_false_iff.2 hp
      | succ j =>
        have := ih (i+1) h j (by simpa using hj)
        simpa using this

/-- `Index` returns the first occurrence. -/
theorem index_some {s sub : Bytes} {k : Nat} (h : index s sub = some k) :
    k + sub.length ≤ s.length ∧ s = s.take k ++ sub ++ s.drop (k + sub.length) ∧
    ∀ j, j < k → sub.isPrefixOf (s.drop j) = false := by
  obtain ⟨_, h2, h3, h4⟩ := index_go_some s 0 k h
  simp only [Nat.sub_zero] at h2 h3 h4
  rw [List.isPrefixOf_iff_prefix] at h2
  obtain ⟨t, ht⟩ := h2
  have hlen : (s.drop k).length = sub.length + t.length := by rw [← ht]; simp
  have hl : k + sub.length ≤ s.length := by
    have : (s.drop k).length = s.length - k := by simp
    omega
  refine ⟨hl, ?_, h4⟩
  have hd : s.drop (k + sub.length) = t := by
    rw [← List.drop_drop, ← ht]; simp
  rw [hd, List.append_assoc, ht, List.take_append_drop]

theorem index_none {s sub : Bytes} (h : index s sub = none) :
    ¬ ∃ a b, s = a ++ sub ++ b := by
  rintro ⟨a, b, rfl⟩
  have := index_go_none (a ++ sub ++ b) 0 h a.length (by simp)
  have h2 : sub.isPrefixOf (sub ++ b) = true := List.isPrefixOf_iff_prefix.2 ⟨b, rfl⟩
  simp [List.append_assoc, h2] at this

theorem contains_iff (s sub : Bytes) : contains s sub = true ↔ ∃ a b, s = a ++ sub ++ b := by
  unfold contains
  cases h : index s sub with
  | none => simpa using index_none h
  | some k =>
    simp only [Option.isSome_some, true_iff]
    exact ⟨s.take k, s.drop (k + sub.length), (index_some h).2.1⟩

theorem trimPrefix_spec (s p : Bytes) :
    (hasPrefix s p = true → p ++ trimPrefix s p = s) ∧ (hasPrefix s p = false → trimPrefix s p = s) := by
  constructor
  · intro h
    obtain ⟨t, rfl⟩ := (hasPrefix_iff s p).1 h
    simp [trimPrefix, h]
  · intro h; simp [trimPrefix, h]

theorem trimSuffix_spec (s p : Bytes) :
    (hasSuffix s p = true → trimSuffix s p ++ p = s) ∧ (hasSuffix s p = false → trimSuffix s p = s) := by
  constructor
  · intro h
    obtain ⟨t, rfl⟩ := (hasSuffix_iff s p).1 h
    simp [trimSuffix, h]
  · intro h; simp [trimSuffix, h]

/-! ### Split / Join -/

theorem join_cons_ne (e : Bytes) (rest : List Bytes) (sep : Bytes) (h : rest ≠ []) :
    join (e :: rest) sep = e ++ sep ++ join rest sep := by
  cases rest with
  | nil => exact absurd rfl h
  | cons a as => simp [join]

theorem splitLoop_ne_nil (sep : Bytes) (save : Nat) (s : Bytes) (lim : Option Nat) (fuel : Nat) :
    splitLoop sep save s lim fuel ≠ [] := by
  cases fuel with
  | zero => simp [splitLoop]
  | succ f =>
    simp only [splitLoop]
    split
    · simp
    · split <;> simp

/-- joining the pieces with the separator gives the string back (any limit, any fuel) -/
theorem join_splitLoop (sep : Bytes) (s : Bytes) (lim : Option Nat) (fuel : Nat) :
    join (splitLoop sep 0 s lim fuel) sep = s := by
  induction fuel generalizing s lim with
  | zero => simp [splitLoop, join]
  | succ f ih =>
    simp only [splitLoop]
    split
    · simp [join]
    · split
      · simp [join]
      · rename_i m hm
        rw [join_cons_ne _ _ _ (splitLoop_ne_nil _ _ _ _ _), ih]
        have := (index_some hm).2.1
        simpa using this.symm

/-- concatenating the pieces of `SplitAfter`/`SplitAfterN` gives the string back -/
theorem flatten_splitLoop_after (sep : Bytes) (s : Bytes) (lim : Option Nat) (fuel : Nat) :
    (splitLoop sep sep.length s lim fuel).flatten = s := by
  induction fuel generalizing s lim with
  | zero => simp [splitLoop]
  | succ f ih =>
    simp only [splitLoop]
    split
    · simp
    · split
      · simp
      · rename_i m hm
        simp only [List.flatten_cons, ih]
        exact List.take_append_drop _ _

/-- every piece cut off before a separator contains no separator that ends inside it:
the cut is at the *first* occurrence -/
theorem splitLoop_head_minimal (sep : Bytes) (s : Bytes) (lim : Option Nat) (fuel : Nat) (m : Nat)
    (hl : (lim == some 0) = false) (hm : index s sep = some m) :
    splitLoop sep 0 s lim (fuel+1) = s.take m :: splitLoop sep 0 (s.drop (m + sep.length)) (lim.map (· - 1)) fuel ∧
    ∀ j, j < m → sep.isPrefixOf (s.drop j) = false := by
  constructor
  · simp [splitLoop, hl, hm]
  · exact (index_some hm).2.2

/-! ### integer helpers -/

theorem wrap64_idem (i : Int) : wrap64 (wrap64 i) = wrap64 i := by
  unfold wrap64; exact Int.bmod_bmod

theorem wrap64_add_left (a b : Int) : wrap64 (wrap64 a + b) = wrap64 (a + b) := by
  unfold wrap64; exact Int.bmod_add_bmod

theorem wrap64_sub_left (a b : Int) : wrap64 (wrap64 a - b) = wrap64 (a - b) := by
  unfold wrap64; exact Int.bmod_sub_bmod

theorem wrap64_mul_left (a b : Int) : wrap64 (wrap64 a * b) = wrap64 (a * b) := by
  unfold wrap64; exact Int.bmod_mul_bmod

theorem addI_spec (i : Int) (xs : List Int) : wrap64 (addI i xs) = wrap64 (i + xs.sum) := by
  unfold addI
  induction xs generalizing i with
  | nil => simp
  | cons x xs ih =>
    simp only [List.foldl_cons, List.sum_cons]
    rw [ih, wrap64_add_left, Int.add_assoc]

theorem subI_spec (i : Int) (xs : List Int) : wrap64 (subI i xs) = wrap64 (i - xs.sum) := by
  unfold subI
  induction xs generalizing i with
  | nil => simp
  | cons x xs ih =>
    simp only [List.foldl_cons, List.sum_cons]
    rw [ih, wrap64_sub_left]
    congr 1; omega

theorem mulI_spec (i : Int) (xs : List Int) : wrap64 (mulI i xs) = wrap64 (i * xs.foldr (· * ·) 1) := by
  unfold mulI
  induction xs generalizing i with
  | nil => simp
  | cons x xs ih =>
    simp only [List.foldl_cons, List.foldr_cons]
    rw [ih, wrap64_mul_left, Int.mul_assoc]

theorem divI_none_iff (i : Int) (ds : List Int) : divI i ds = none ↔ (0 : Int) ∈ ds := by
  induction ds generalizing i with
  | nil => simp [divI]
  | cons d ds ih =>
    simp only [divI]
    split
    · rename_i h; simp at h; simp [h]
    · rename_i h
      rw [ih]
      have : d ≠ 0 := by simpa using h
      simp [Ne.symm this]

theorem modI_none_iff (i : Int) (ds : List Int) : modI i ds = none ↔ (0 : Int) ∈ ds := by
  induction ds generalizing i with
  | nil => simp [modI]
  | cons d ds ih =>
    simp only [modI]
    split
    · rename_i h; simp at h; simp [h]
    · rename_i h
      rw [ih]
      have : d ≠ 0 := by simpa using h
      simp [Ne.symm this]

theorem foldl_min_le (xs : List Int) (x : Int) : xs.foldl min x ≤ x ∧ ∀ y ∈ xs, xs.foldl min x ≤ y := by
  induction xs generalizing x with
  | nil => simp
  | cons a as ih =>
    simp only [List.foldl_cons, List.mem_cons]
    obtain ⟨h1, h2⟩ := ih (min x a)
    refine ⟨Int.le_trans h1 (Int.min_le_left _ _), ?_⟩
    rintro y (rfl | hy)
    · exact Int.le_trans h1 (Int.min_le_right _ _)
    · exact h2 y hy

theorem foldl_min_mem (xs : List Int) (x : Int) : xs.foldl min x = x ∨ xs.foldl min x ∈ xs := by
  induction xs generalizing x with
  | nil => simp
  | cons a as ih =>
    simp only [List.foldl_cons, List.mem_cons]
    rcases ih (min x a) with h | h
    · rw [h]
      rcases Int.min_def x a ▸ (by split <;> simp : (if x ≤ a then x else a) = x ∨ (if x ≤ a then x else a) = a) with h' | h'
      · left; exact h'
      · right; left; exact h'
    · right; right; exact h

/-! ### argument permutation -/

/-- "subject last": callee argument 0 is the last template argument, callee
argument `k+1` is template argument `k` -/
def subjectLast (n : Nat) : List Nat := (n - 1) :: List.range (n - 1)

theorem mapM_getElem_range' (pre args extra : List Val) :
    (List.range' pre.length args.length).mapM (fun i => (pre ++ args ++ extra)[i]?) = some args := by
  induction args generalizing pre with
  | nil => simp
  | cons a as ih =>
    simp only [List.length_cons, List.range'_succ, List.mapM_cons]
    have h0 : (pre ++ a :: as ++ extra)[pre.length]? = some a := by simp
    have h1 := ih (pre ++ [a])
    simp only [List.length_append, List.length_cons, List.length_nil, Nat.zero_add,
      List.append_assoc, List.cons_append, List.nil_append] at h1
    simp only [List.append_assoc, List.cons_append] at h0 ⊢
    rw [h0, h1]
    rfl

theorem mapM_getElem_range (args : List Val) (extra : List Val) :
    (List.range args.length).mapM (fun i => (args ++ extra)[i]?) = some args := by
  have := mapM_getElem_range' [] args extra
  simpa [List.range_eq_range'] using this

theorem permute_subjectLast (args : List Val) (s : Val) :
    permute (subjectLast (args.length + 1)) (args ++ [s]) = some (s :: args) := by
  unfold permute subjectLast
  simp only [Nat.add_sub_cancel, List.length_cons, List.length_range, List.length_append,
    List.length_nil, Nat.zero_add, beq_self_eq_true, ↓reduceIte, List.mapM_cons]
  have h0 : (args ++ [s])[args.length]? = some s := by simp
  rw [h0, mapM_getElem_range args [s]]
  rfl

end Mockery.Tmpl
