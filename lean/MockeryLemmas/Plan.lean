import MockeryModel.Run.Plan
import MockeryModel.Run.EndToEnd
/-! Lemmas about the grouping of planned mocks into output files. -/
namespace Mockery.Run

def Homog (c : Collection) : Prop :=
  ∀ m ∈ c.mocks, m.path = c.path ∧ m.pkgName = c.pkgName ∧ m.srcPkg = c.srcPkg ∧ m.template = c.template

theorem append_ok {c c' : Collection} {m : PlannedMock} (h : c.append m = .ok c') :
    c' = { c with mocks := c.mocks ++ [m] } ∧ c.pkgName = m.pkgName ∧ c.srcPkg = m.srcPkg ∧ c.template = m.template := by
  unfold Collection.append at h
  by_cases h1 : c.pkgName ≠ m.pkgName
  · simp [h1] at h
  · by_cases h2 : c.srcPkg ≠ m.srcPkg
    · simp [h1, h2] at h
    · by_cases h3 : c.template ≠ m.template
      · simp [h1, h2, h3] at h
      · simp only [h1, h2, h3, if_false] at h
        injection h with h
        exact ⟨h.symm, Decidable.of_not_not h1, Decidable.of_not_not h2, Decidable.of_not_not h3⟩

theorem append_error {c : Collection} {m : PlannedMock} {e : PlanErr} (h : c.append m = .error e) :
    c.pkgName ≠ m.pkgName ∨ c.srcPkg ≠ m.srcPkg ∨ c.template ≠ m.template := by
  unfold Collection.append at h
  by_cases h1 : c.pkgName ≠ m.pkgName
  · exact Or.inl h1
  · by_cases h2 : c.srcPkg ≠ m.srcPkg
    · exact Or.inr (Or.inl h2)
    · by_cases h3 : c.template ≠ m.template
      · exact Or.inr (Or.inr h3)
      · simp [h1, h2, h3] at h

/-- the paths after adding a mock: unchanged if its file is known, else its path is appended -/
theorem addMock_paths : ∀ (cs : List Collection) (m : PlannedMock) (cs' : List Collection), addMock cs m = .ok cs' →
    cs'.map (·.path) = if m.path ∈ cs.map (·.path) then cs.map (·.path) else cs.map (·.path) ++ [m.path]
  | [], m, cs', h => by simp [addMock] at h; subst h; simp
  | c :: rest, m, cs', h => by
    unfold addMock at h
    by_cases hp : c.path = m.path
    · simp only [hp, if_true] at h
      cases ha : c.append m with
      | error e => simp [ha] at h
      | ok c' =>
        simp only [ha] at h
        injection h with h; subst h
        have := (append_ok ha).1
        simp [this, hp]
    · simp only [hp, if_false] at h
      cases hr : addMock rest m with
      | error e => simp [hr] at h
      | ok rest' =>
        simp only [hr] at h
        injection h with h; subst h
        have ih := addMock_paths rest m rest' hr
        have hne : ¬ m.path = c.path := fun e => hp e.symm
        simp only [List.map_cons, ih, List.mem_cons, hne, false_or]
        split <;> simp

structure Inv (cs : List Collection) (seen : List PlannedMock) : Prop where
  nodup : (cs.map (·.path)).Nodup
  homog : ∀ c ∈ cs, Homog c ∧ ∀ m ∈ c.mocks, m ∈ seen
  complete : ∀ m ∈ seen, ∃ c ∈ cs, c.path = m.path ∧ m ∈ c.mocks
  nonempty : ∀ c ∈ cs, c.mocks ≠ []

theorem addMock_mem : ∀ (cs : List Collection) (m : PlannedMock) (cs' : List Collection), addMock cs m = .ok cs' →
    (∀ c' ∈ cs', (c' ∈ cs) ∨ (∃ c ∈ cs, c.path = m.path ∧ c' = { c with mocks := c.mocks ++ [m] } ∧
        c.pkgName = m.pkgName ∧ c.srcPkg = m.srcPkg ∧ c.template = m.template) ∨
        c' = ⟨m.path, m.srcPkg, m.pkgName, m.template, [m]⟩) ∧
    (∃ c' ∈ cs', c'.path = m.path ∧ m ∈ c'.mocks) ∧
    (∀ c ∈ cs, ∃ c' ∈ cs', c'.path = c.path ∧ ∀ x ∈ c.mocks, x ∈ c'.mocks)
  | [], m, cs', h => by
    simp [addMock] at h; subst h
    refine ⟨?_, ?_, ?_⟩
    · intro c' hc'; simp at hc'; exact Or.inr (Or.inr hc')
    · exact ⟨_, List.mem_singleton.2 rfl, rfl, List.mem_singleton.2 rfl⟩
    · intro c hc; cases hc
  | c :: rest, m, cs', h => by
    unfold addMock at h
    by_cases hp : c.path = m.path
    · simp only [hp, if_true] at h
      cases ha : c.append m with
      | error e => simp [ha] at h
      | ok c1 =>
        simp only [ha] at h
        injection h with h; subst h
        obtain ⟨hc1, h1, h2, h3⟩ := append_ok ha
        refine ⟨?_, ?_, ?_⟩
        · intro c' hc'
          rcases List.mem_cons.1 hc' with rfl | hc'
          · exact Or.inr (Or.inl ⟨c, List.mem_cons_self, hp, hc1, h1, h2, h3⟩)
          · exact Or.inl (List.mem_cons_of_mem _ hc')
        · exact ⟨c1, List.mem_cons_self, by simp [hc1, hp], by simp [hc1]⟩
        · intro x hx
          rcases List.mem_cons.1 hx with rfl | hx
          · exact ⟨c1, List.mem_cons_self, by simp [hc1], fun y hy => by simp [hc1, hy]⟩
          · exact ⟨x, List.mem_cons_of_mem _ hx, rfl, fun y hy => hy⟩
    · simp only [hp, if_false] at h
      cases hr : addMock rest m with
      | error e => simp [hr] at h
      | ok rest' =>
        simp only [hr] at h
        injection h with h; subst h
        obtain ⟨i1, i2, i3⟩ := addMock_mem rest m rest' hr
        refine ⟨?_, ?_, ?_⟩
        · intro c' hc'
          rcases List.mem_cons.1 hc' with rfl | hc'
          · exact Or.inl List.mem_cons_self
          · rcases i1 c' hc' with h | ⟨c0, hc0, hrest⟩ | h
            · exact Or.inl (List.mem_cons_of_mem _ h)
            · exact Or.inr (Or.inl ⟨c0, List.mem_cons_of_mem _ hc0, hrest⟩)
            · exact Or.inr (Or.inr h)
        · obtain ⟨c', hc', hh⟩ := i2
          exact ⟨c', List.mem_cons_of_mem _ hc', hh⟩
        · intro x hx
          rcases List.mem_cons.1 hx with rfl | hx
          · exact ⟨x, List.mem_cons_self, rfl, fun y hy => hy⟩
          · obtain ⟨c', hc', hh⟩ := i3 x hx
            exact ⟨c', List.mem_cons_of_mem _ hc', hh⟩

theorem addMock_inv {cs cs' : List Collection} {m : PlannedMock} {seen : List PlannedMock}
    (h : addMock cs m = .ok cs') (inv : Inv cs seen) : Inv cs' (seen ++ [m]) := by
  obtain ⟨i1, i2, i3⟩ := addMock_mem cs m cs' h
  refine ⟨?_, ?_, ?_, ?_⟩
  · rw [addMock_paths cs m cs' h]
    split
    · exact inv.nodup
    · rename_i hn
      exact List.nodup_append.2 ⟨inv.nodup, (by simp), fun x hx y hy e => by
        simp at hy; subst hy; exact hn (e ▸ hx)⟩
  · intro c' hc'
    rcases i1 c' hc' with hin | ⟨c0, hc0, hpath, hdef, h1, h2, h3⟩ | hnew
    · obtain ⟨hh, hs⟩ := inv.homog c' hin
      exact ⟨hh, fun x hx => List.mem_append_left _ (hs x hx)⟩
    · obtain ⟨hh, hs⟩ := inv.homog c0 hc0
      subst hdef
      refine ⟨?_, ?_⟩
      · intro x hx
        rcases List.mem_append.1 hx with hx | hx
        · exact hh x hx
        · simp at hx; subst hx; exact ⟨hpath.symm, h1.symm, h2.symm, h3.symm⟩
      · intro x hx
        rcases List.mem_append.1 hx with hx | hx
        · exact List.mem_append_left _ (hs x hx)
        · exact List.mem_append_right _ hx
    · subst hnew
      refine ⟨?_, ?_⟩
      · intro x hx; simp at hx; subst hx; exact ⟨rfl, rfl, rfl, rfl⟩
      · intro x hx; simp at hx; subst hx; simp
  · intro x hx
    rcases List.mem_append.1 hx with hx | hx
    · obtain ⟨c, hc, hcp, hxm⟩ := inv.complete x hx
      obtain ⟨c', hc', hp', hsub⟩ := i3 c hc
      exact ⟨c', hc', hp'.trans hcp, hsub x hxm⟩
    · simp at hx; subst hx
      obtain ⟨c', hc', hp', hm⟩ := i2
      exact ⟨c', hc', hp', hm⟩
  · intro c' hc'
    rcases i1 c' hc' with hin | ⟨c0, _, _, hdef, _⟩ | hnew
    · exact inv.nonempty c' hin
    · subst hdef; simp
    · subst hnew; simp

theorem groupFrom_inv : ∀ (ms : List PlannedMock) (cs cs' : List Collection) (seen : List PlannedMock),
    groupFrom cs ms = .ok cs' → Inv cs seen → Inv cs' (seen ++ ms)
  | [], cs, cs', seen, h, inv => by simp [groupFrom] at h; subst h; simpa using inv
  | m :: ms, cs, cs', seen, h, inv => by
    unfold groupFrom at h
    cases ha : addMock cs m with
    | error e => simp [ha] at h
    | ok cs1 =>
      simp only [ha] at h
      have := groupFrom_inv ms cs1 cs' (seen ++ [m]) h (addMock_inv ha inv)
      simpa using this

/-- an error of `addMock` exhibits a collection with the mock's path and a different attribute -/
theorem addMock_error : ∀ (cs : List Collection) (m : PlannedMock) (e : PlanErr), addMock cs m = .error e →
    ∃ c ∈ cs, c.path = m.path ∧ (c.pkgName ≠ m.pkgName ∨ c.srcPkg ≠ m.srcPkg ∨ c.template ≠ m.template)
  | [], m, e, h => by simp [addMock] at h
  | c :: rest, m, e, h => by
    unfold addMock at h
    by_cases hp : c.path = m.path
    · simp only [hp, if_true] at h
      cases ha : c.append m with
      | ok c' => simp [ha] at h
      | error e' => exact ⟨c, List.mem_cons_self, hp, append_error ha⟩
    · simp only [hp, if_false] at h
      cases hr : addMock rest m with
      | ok r => simp [hr] at h
      | error e' =>
        obtain ⟨c0, hc0, hh⟩ := addMock_error rest m e' hr
        exact ⟨c0, List.mem_cons_of_mem _ hc0, hh⟩

theorem groupFrom_error : ∀ (ms : List PlannedMock) (cs : List Collection) (seen : List PlannedMock) (e : PlanErr),
    groupFrom cs ms = .error e → Inv cs seen →
    ∃ m1 ∈ seen ++ ms, ∃ m2 ∈ seen ++ ms, m1.path = m2.path ∧
      (m1.pkgName ≠ m2.pkgName ∨ m1.srcPkg ≠ m2.srcPkg ∨ m1.template ≠ m2.template)
  | [], cs, seen, e, h, _ => by simp [groupFrom] at h
  | m :: ms, cs, seen, e, h, inv => by
    unfold groupFrom at h
    cases ha : addMock cs m with
    | ok cs1 =>
      simp only [ha] at h
      obtain ⟨m1, h1, m2, h2, hh⟩ := groupFrom_error ms cs1 (seen ++ [m]) e h (addMock_inv ha inv)
      exact ⟨m1, by simpa using h1, m2, by simpa using h2, hh⟩
    | error e' =>
      obtain ⟨c, hc, hp, hd⟩ := addMock_error cs m e' ha
      obtain ⟨hh, hs⟩ := inv.homog c hc
      -- any mock already in that collection carries the collection's attributes; the collection is not empty
      -- because it was created from a mock: use completeness on one of its members
      cases hmocks : c.mocks with
      | nil => exact absurd hmocks (inv.nonempty c hc)
      | cons x xs =>
        have hx : x ∈ c.mocks := by rw [hmocks]; exact List.mem_cons_self
        obtain ⟨hxp, hxn, hxs, hxt⟩ := hh x hx
        refine ⟨x, List.mem_append_left _ (hs x hx), m, List.mem_append_right _ List.mem_cons_self, hxp.trans hp, ?_⟩
        rcases hd with hd | hd | hd
        · exact Or.inl (hxn ▸ hd)
        · exact Or.inr (Or.inl (hxs ▸ hd))
        · exact Or.inr (Or.inr (hxt ▸ hd))

open Mockery.Config

theorem planAll_spec (configFile cwd : String) (srcOf : String → String → SrcInfo) :
    ∀ (ms : List Mock) (ps : List PlannedMock), planAll configFile cwd srcOf ms = .ok ps →
      ∀ p ∈ ps, ∃ m ∈ ms, planMock configFile cwd (srcOf m.pkg m.iface) m = .ok p
  | [], ps, h => by simp [planAll] at h; subst h; intro p hp; cases hp
  | m :: ms, ps, h => by
    unfold planAll at h
    cases h1 : planMock configFile cwd (srcOf m.pkg m.iface) m with
    | error e => simp [h1] at h
    | ok p1 =>
      cases h2 : planAll configFile cwd srcOf ms with
      | error e => simp [h1, h2] at h
      | ok ps2 =>
        simp only [h1, h2] at h
        injection h with h; subst h
        intro p hp
        rcases List.mem_cons.1 hp with rfl | hp
        · exact ⟨m, List.mem_cons_self, h1⟩
        · obtain ⟨m', hm', hpm⟩ := planAll_spec configFile cwd srcOf ms ps2 h2 p hp
          exact ⟨m', List.mem_cons_of_mem _ hm', hpm⟩

theorem planMock_fields {configFile cwd : String} {src : SrcInfo} {m : Mock} {p : PlannedMock}
    (h : planMock configFile cwd src m = .ok p) : p.srcPkg = m.pkg ∧ p.iface = m.iface ∧ p.entry = m.entry := by
  unfold planMock at h
  simp only at h
  split at h
  · injection h with h; subst h; exact ⟨rfl, rfl, rfl⟩
  · cases h
  · cases h

theorem planAll_complete (configFile cwd : String) (srcOf : String → String → SrcInfo) :
    ∀ (ms : List Mock) (ps : List PlannedMock), planAll configFile cwd srcOf ms = .ok ps →
      ∀ m ∈ ms, ∃ p ∈ ps, planMock configFile cwd (srcOf m.pkg m.iface) m = .ok p
  | [], ps, _ => by intro m hm; cases hm
  | m0 :: ms, ps, h => by
    unfold planAll at h
    cases h1 : planMock configFile cwd (srcOf m0.pkg m0.iface) m0 with
    | error e => simp [h1] at h
    | ok p1 =>
      cases h2 : planAll configFile cwd srcOf ms with
      | error e => simp [h1, h2] at h
      | ok ps2 =>
        simp only [h1, h2] at h
        injection h with h; subst h
        intro m hm
        rcases List.mem_cons.1 hm with rfl | hm
        · exact ⟨p1, List.mem_cons_self, h1⟩
        · obtain ⟨p, hp, hpm⟩ := planAll_complete configFile cwd srcOf ms ps2 h2 m hm
          exact ⟨p, List.mem_cons_of_mem _ hp, hpm⟩


end Mockery.Run
