import MockeryModel.Run.Pipeline
/-! Helper lemmas about the per-file loop of `RootApp.Run` (C06, C09, C10, C12). -/
namespace Mockery.Run

theorem FS.set_same (fs : FS) (p : String) (s : PathState) : (fs.set p s) p = s := by simp [FS.set]
theorem FS.set_other (fs : FS) (p q : String) (s : PathState) (h : q ≠ p) : (fs.set p s) q = fs q := by
  simp [FS.set, h]

theorem stepJob_some {fs fs' : FS} {j : FileJob} (h : stepJob fs j = some fs') :
    jobOk fs j = true ∧ fs' = fs.set j.path (.file j.content) := by
  unfold stepJob at h
  unfold jobOk
  cases hs : j.stagesOk <;> simp only [hs, Bool.not_false, Bool.not_true, ↓reduceIte, Bool.false_eq_true] at h
  · cases h
  · cases hp : j.parentOk <;> simp only [hp, Bool.not_false, Bool.not_true, ↓reduceIte, Bool.false_eq_true] at h
    · cases h
    · cases ha : fs j.path with
      | absent => simp only [ha] at h; exact ⟨by simp, (Option.some.inj h).symm⟩
      | file old =>
        simp only [ha] at h
        cases hf : j.force <;> simp only [hf, ↓reduceIte, Bool.false_eq_true] at h
        · cases h
        · exact ⟨by simp, (Option.some.inj h).symm⟩
      | dir => simp only [ha] at h; cases h

theorem stepJob_none {fs : FS} {j : FileJob} (h : stepJob fs j = none) : jobOk fs j = false := by
  unfold stepJob at h
  unfold jobOk
  cases hs : j.stagesOk <;> simp only [hs, Bool.not_false, Bool.not_true, ↓reduceIte, Bool.false_eq_true] at h ⊢
  · simp
  · cases hp : j.parentOk <;> simp only [hp, Bool.not_false, Bool.not_true, ↓reduceIte, Bool.false_eq_true] at h ⊢
    · simp
    · cases ha : fs j.path with
      | absent => simp only [ha] at h; cases h
      | file old =>
        simp only [ha] at h
        cases hf : j.force <;> simp only [hf, ↓reduceIte, Bool.false_eq_true] at h ⊢
        · simp
        · cases h
      | dir => simp

/-- paths the loop does not name are never touched -/
theorem processJobs_untouched : ∀ (jobs : List FileJob) (fs : FS) (p : String),
    p ∉ jobs.map (·.path) → (processJobs jobs fs).1 p = fs p
  | [], _, _, _ => rfl
  | j :: js, fs, p, h => by
    simp only [List.map_cons, List.mem_cons, not_or] at h
    simp only [processJobs]
    cases hs : stepJob fs j with
    | none => rfl
    | some fs' =>
      simp only
      rw [processJobs_untouched js fs' p h.2, (stepJob_some hs).2, FS.set_other _ _ _ _ h.1]

/-- every path ends up with its old state or with the complete new content of one of its jobs -/
theorem processJobs_old_or_new : ∀ (jobs : List FileJob) (fs : FS) (p : String),
    (processJobs jobs fs).1 p = fs p ∨
    ∃ j ∈ jobs, j.path = p ∧ (processJobs jobs fs).1 p = .file j.content ∧ j.stagesOk = true
  | [], _, _ => Or.inl rfl
  | j :: js, fs, p => by
    simp only [processJobs]
    cases hs : stepJob fs j with
    | none => exact Or.inl rfl
    | some fs' =>
      simp only
      obtain ⟨hok, hfs⟩ := stepJob_some hs
      rcases processJobs_old_or_new js fs' p with h | ⟨j', hj', hp, hc, hst⟩
      · by_cases e : p = j.path
        · right
          refine ⟨j, List.mem_cons_self .., e.symm, ?_, ?_⟩
          · rw [h, hfs, e, FS.set_same]
          · unfold jobOk at hok; simp only [Bool.and_eq_true] at hok; exact hok.1.1
        · left; rw [h, hfs, FS.set_other _ _ _ _ e]
      · exact Or.inr ⟨j', List.mem_cons_of_mem _ hj', hp, hc, hst⟩

/-- with pairwise distinct output paths, whether a later file can be written does not depend on the
files written before it -/
theorem jobOk_set_other (fs : FS) (j k : FileJob) (h : k.path ≠ j.path) (s : PathState) :
    jobOk (fs.set j.path s) k = jobOk fs k := by
  unfold jobOk
  rw [FS.set_other _ _ _ _ h]

theorem processJobs_ok_iff : ∀ (jobs : List FileJob) (fs : FS), (jobs.map (·.path)).Nodup →
    ((processJobs jobs fs).2 = true ↔ ∀ j ∈ jobs, jobOk fs j = true)
  | [], _, _ => by simp [processJobs]
  | j :: js, fs, hnd => by
    simp only [List.map_cons, List.nodup_cons] at hnd
    simp only [processJobs]
    cases hs : stepJob fs j with
    | none =>
      have := stepJob_none hs
      simp only [Bool.false_eq_true, false_iff]
      intro hall
      have := hall j (List.mem_cons_self ..)
      simp_all
    | some fs' =>
      simp only
      obtain ⟨hok, hfs⟩ := stepJob_some hs
      rw [processJobs_ok_iff js fs' hnd.2]
      constructor
      · intro hall k hk
        rcases List.mem_cons.1 hk with rfl | hk
        · exact hok
        · have hne : k.path ≠ j.path := by
            intro e; apply hnd.1; rw [← e]; exact List.mem_map.2 ⟨k, hk, rfl⟩
          have := hall k hk
          rwa [hfs, jobOk_set_other _ _ _ hne] at this
      · intro hall k hk
        have hne : k.path ≠ j.path := by
          intro e; apply hnd.1; rw [← e]; exact List.mem_map.2 ⟨k, hk, rfl⟩
        rw [hfs, jobOk_set_other _ _ _ hne]
        exact hall k (List.mem_cons_of_mem _ hk)

/-- on success every named path holds the complete new content of its job -/
theorem processJobs_success_content : ∀ (jobs : List FileJob) (fs : FS), (jobs.map (·.path)).Nodup →
    (processJobs jobs fs).2 = true → ∀ j ∈ jobs, (processJobs jobs fs).1 j.path = .file j.content
  | [], _, _, _ => by intro j hj; cases hj
  | j :: js, fs, hnd, hok => by
    simp only [List.map_cons, List.nodup_cons] at hnd
    simp only [processJobs] at hok ⊢
    cases hs : stepJob fs j with
    | none => simp [hs] at hok
    | some fs' =>
      simp only [hs] at hok ⊢
      obtain ⟨_, hfs⟩ := stepJob_some hs
      intro k hk
      rcases List.mem_cons.1 hk with rfl | hk
      · have : k.path ∉ js.map (·.path) := hnd.1
        rw [processJobs_untouched js fs' k.path this, hfs, FS.set_same]
      · exact processJobs_success_content js fs' hnd.2 hok k hk

/-- a job that cannot be written stops the loop with an error and leaves its path as it was -/
theorem processJobs_failed_job_untouched : ∀ (jobs : List FileJob) (fs : FS), (jobs.map (·.path)).Nodup →
    ∀ j ∈ jobs, jobOk fs j = false → (processJobs jobs fs).2 = false ∧ (processJobs jobs fs).1 j.path = fs j.path
  | [], _, _ => by intro j hj; cases hj
  | k :: ks, fs, hnd => by
    intro j hj hbad
    simp only [List.map_cons, List.nodup_cons] at hnd
    simp only [processJobs]
    cases hs : stepJob fs k with
    | none => exact ⟨rfl, rfl⟩
    | some fs' =>
      simp only
      obtain ⟨hok, hfs⟩ := stepJob_some hs
      rcases List.mem_cons.1 hj with rfl | hj'
      · rw [hbad] at hok; cases hok
      · have hne : j.path ≠ k.path := by
          intro e; apply hnd.1; rw [← e]; exact List.mem_map.2 ⟨j, hj', rfl⟩
        have hbad' : jobOk fs' j = false := by rw [hfs, jobOk_set_other _ _ _ hne]; exact hbad
        obtain ⟨h1, h2⟩ := processJobs_failed_job_untouched ks fs' hnd.2 j hj' hbad'
        refine ⟨h1, ?_⟩
        rw [h2, hfs, FS.set_other _ _ _ _ hne]

end Mockery.Run
