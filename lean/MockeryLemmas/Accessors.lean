import MockeryModel.Gen.Data
import MockeryModel.Generated.Accessors
/-! Helper lemmas for C14: the string accessors of `Gen/Data.lean` equal the definitions translated from
`template/param_data.go` and `template/method.go` (`Generated/Accessors.lean`). -/
namespace Mockery.Gen.AccessorsEq
open Mockery.Gen Mockery.Generated Mockery.Go.StrPrelude

/-- a variable / method of the model as the records the translation works on -/
def toParam (v : VarOut) : Accessors.Param := ⟨v.name, v.typeString, v.variadic⟩
def toMethod (m : MethodOut) : Accessors.Method := ⟨m.name, m.params.map toParam, m.results.map toParam⟩

theorem goReplaceFirst_eq (s a b : String) : goReplaceFirst s a b = replaceFirst s a b := rfl

theorem methodArg_eq (v : VarOut) : Accessors.Param.MethodArg (toParam v) = v.methodArg := by
  unfold Accessors.Param.MethodArg VarOut.methodArg toParam
  cases v.variadic <;> simp [Accessors.Param.Name, Accessors.Param.TypeString, goStrFrom, String.append_assoc]

theorem callName_eq (v : VarOut) (e : Bool) : Accessors.Param.CallName (toParam v) e = v.callName e := by
  unfold Accessors.Param.CallName VarOut.callName toParam
  simp [Accessors.Param.Name]

theorem typeStringEllipsis_eq (v : VarOut) : Accessors.Param.TypeStringEllipsis (toParam v) = v.typeStringEllipsis := by
  unfold Accessors.Param.TypeStringEllipsis VarOut.typeStringEllipsis toParam
  cases v.variadic <;> simp [Accessors.Param.TypeString, goReplaceFirst_eq]

theorem typeStringVariadicUnderlying_eq (v : VarOut) :
    Accessors.Param.TypeStringVariadicUnderlying (toParam v) = v.typeStringVariadicUnderlying := by
  unfold Accessors.Param.TypeStringVariadicUnderlying VarOut.typeStringVariadicUnderlying
  simp [typeStringEllipsis_eq, goReplaceFirst_eq]

theorem argList_eq (m : MethodOut) : Accessors.Method.ArgList (toMethod m) = m.argList := by
  unfold Accessors.Method.ArgList MethodOut.argList toMethod joinComma goJoin
  simp [List.map_map, Function.comp_def, methodArg_eq]

theorem argTypeList_eq (m : MethodOut) : Accessors.Method.ArgTypeList (toMethod m) = m.argTypeList := by
  unfold Accessors.Method.ArgTypeList MethodOut.argTypeList toMethod joinComma goJoin
  simp [List.map_map, Function.comp_def, Accessors.Param.TypeString, toParam]

theorem argTypeListEllipsis_eq (m : MethodOut) : Accessors.Method.ArgTypeListEllipsis (toMethod m) = m.argTypeListEllipsis := by
  unfold Accessors.Method.ArgTypeListEllipsis MethodOut.argTypeListEllipsis toMethod joinComma goJoin
  simp [List.map_map, Function.comp_def, typeStringEllipsis_eq]

theorem argCallList_eq (m : MethodOut) (e : Bool) :
    Accessors.Method.argCallListSlice (toMethod m) 0 (-1) e = m.argCallList e := by
  unfold Accessors.Method.argCallListSlice MethodOut.argCallList toMethod joinComma goJoin goSlice
  simp only [List.map_map, Function.comp_def, callName_eq, List.length_map]
  have hneg : (-1 : Int) < 0 := by decide
  simp only [hneg, decide_true, if_true]
  have hc : (((m.params.length : Int) == 1) && ((m.params.length : Int) == 0)) = false := by
    cases h : m.params.length with
    | zero => simp
    | succ n => simp; omega
  simp only [hc, Bool.false_eq_true, if_false]
  have hk : ((m.params.length : Int) - 0).toNat = m.params.length := by omega
  have hfun : ((fun v_p => Accessors.Param.CallName v_p e) ∘ toParam) = (fun x : VarOut => x.callName e) := by
    funext x; simp [Function.comp_def, callName_eq]
  simp [hk, hfun, List.take_of_length_le]

theorem returnArgTypeList_eq (m : MethodOut) : Accessors.Method.ReturnArgTypeList (toMethod m) = m.returnArgTypeList := by
  unfold Accessors.Method.ReturnArgTypeList MethodOut.returnArgTypeList toMethod joinComma goJoin
  simp only [List.map_map, Function.comp_def, Accessors.Param.TypeString, toParam, List.length_map]
  by_cases h : m.results.length > 1
  · have : ((m.results.length : Int) > 1) := by omega
    simp [h, this, String.append_assoc]
  · have : ¬ ((m.results.length : Int) > 1) := by omega
    simp [h, this]

theorem returnArgNameList_eq (m : MethodOut) : Accessors.Method.ReturnArgNameList (toMethod m) = m.returnArgNameList := by
  unfold Accessors.Method.ReturnArgNameList MethodOut.returnArgNameList toMethod joinComma goJoin
  simp [List.map_map, Function.comp_def, Accessors.Param.Name, toParam]

theorem returnArgList_eq (m : MethodOut) : Accessors.Method.ReturnArgList (toMethod m) = m.returnArgList := by
  unfold Accessors.Method.ReturnArgList MethodOut.returnArgList toMethod joinComma goJoin
  simp [List.map_map, Function.comp_def, Accessors.Param.Name, Accessors.Param.TypeString, toParam, String.append_assoc]

theorem argCallListTrue_eq (m : MethodOut) : Accessors.Method.ArgCallList (toMethod m) = m.argCallList true := by
  unfold Accessors.Method.ArgCallList; exact argCallList_eq m true

theorem argCallListNoEllipsis_eq (m : MethodOut) : Accessors.Method.ArgCallListNoEllipsis (toMethod m) = m.argCallList false := by
  unfold Accessors.Method.ArgCallListNoEllipsis; exact argCallList_eq m false

theorem signature_eq (m : MethodOut) : Accessors.Method.Signature (toMethod m) = m.signature := by
  unfold Accessors.Method.Signature MethodOut.signature
  simp [argList_eq, returnArgList_eq, String.append_assoc]

theorem declaration_eq (m : MethodOut) : Accessors.Method.Declaration (toMethod m) = m.declaration := by
  unfold Accessors.Method.Declaration MethodOut.declaration
  rw [signature_eq]; rfl

theorem call_eq (m : MethodOut) : Accessors.Method.Call (toMethod m) = m.call := by
  unfold Accessors.Method.Call MethodOut.call
  rw [argCallListTrue_eq]; simp [toMethod, String.append_assoc]

theorem returnsError_eq (m : MethodOut) : Accessors.Method.ReturnsError (toMethod m) = m.returnsError := by
  unfold Accessors.Method.ReturnsError MethodOut.returnsError toMethod
  simp [List.any_map, Function.comp_def, toParam]

theorem acceptsContext_eq (m : MethodOut) : Accessors.Method.AcceptsContext (toMethod m) = m.acceptsContext := by
  unfold Accessors.Method.AcceptsContext MethodOut.acceptsContext toMethod goIndex
  cases h : m.params with
  | nil => simp
  | cons p ps =>
    simp [Accessors.Param.TypeString, toParam]
    cases hd : decide (p.typeString = "context.Context") <;> simp_all

theorem isVariadic_eq (m : MethodOut) : Accessors.Method.IsVariadic (toMethod m) = m.isVariadic := by
  unfold Accessors.Method.IsVariadic MethodOut.isVariadic toMethod goIndex
  cases h : m.params.getLast? with
  | none =>
    have : m.params = [] := by simpa using h
    simp [this]
  | some p =>
    have hne : m.params ≠ [] := by intro hh; simp [hh] at h
    have hlen : m.params.length > 0 := List.length_pos_iff.mpr hne
    have hl : m.params.getLast? = m.params[m.params.length - 1]? := by
      rw [List.getLast?_eq_getElem?]
    rw [hl] at h
    have hpos : ((m.params.length : Int) > 0) := by omega
    have hidx : ((m.params.length : Int) - 1).toNat = m.params.length - 1 := by omega
    simp [hidx, List.getD_eq_getElem?_getD, List.getElem?_map, h, toParam]
    intro _; exact hlen

end Mockery.Gen.AccessorsEq
