import MockeryModel.Sem.Conc
import MockeryLemmas.Conc
import MockeryLemmas.ConcSeq
import MockeryLemmas.ConcCount
import MockeryLemmas.ConcExec
import MockeryModel.Generated.TemplateFacts
/-!
# C05 — generated mocks are safe under concurrent use

Property theorems only.  The lock/access sequence of every method body the matryer
template emits is regenerated from the template text on every run
(`Generated.matryerSchema_*`); `schemas_disciplined` shows that the programs built from
those sequences obey the lock discipline `wb`, and `concurrent_use_is_safe` shows that
any number of threads running any sequences of such programs never race and never
lose or duplicate a record, for every interleaving.
-/
namespace Mockery.C05
open Mockery.Sem.Conc

/-- the regenerated sequences are the ones of the modelled programs (the surrounding `loc` actions are the
method's own locals: building the record before, calling the user's function after) -/
theorem schemas_transcribed (m : Loc) (x : Nat) :
    progOfSchema m x Generated.matryerSchema_call = some [.lock m, .load m, .storeApp m x, .unlock m] ∧
    progOfSchema m x Generated.matryerSchema_calls = some (callsProg m) ∧
    progOfSchema m x Generated.matryerSchema_resetOne = some (resetProg m) ∧
    progOfSchema m x Generated.matryerSchema_resetAll = some (resetProg m) := by
  refine ⟨?_, ?_, ?_, ?_⟩ <;> rfl

/-- every body the template emits is disciplined -/
theorem schemas_disciplined (m : Loc) (x : Nat) :
    wb .none false (callProg m x) = true ∧ wb .none false (callsProg m) = true ∧
    wb .none false (resetProg m) = true := by
  simp [callProg, callsProg, resetProg, wb]

theorem resetAll_disciplined : ∀ ms : List Loc, wb .none false (resetAllProg ms) = true
  | [] => by simp [resetAllProg, wb]
  | m :: ms => by
    simp only [resetAllProg]
    exact wb_append _ (resetAll_disciplined ms) _ _ _ (schemas_disciplined m 0).2.2

theorem op_disciplined : ∀ o : Op, wb .none false o.prog = true
  | .call m x => (schemas_disciplined m x).1
  | .calls m => (schemas_disciplined m 0).2.1
  | .reset m => (schemas_disciplined m 0).2.2
  | .resetAll ms => resetAll_disciplined ms

/-- any sequence of calls, `Calls()` reads and resets by one goroutine is disciplined -/
theorem ops_disciplined : ∀ os : List Op, wb .none false (progOfOps os) = true
  | [] => by simp [progOfOps, wb]
  | o :: os => by
    simp only [progOfOps]
    exact wb_append _ (ops_disciplined os) _ _ _ (op_disciplined o)

/-- **C05 (matryer)**: any number of goroutines, each performing any sequence of method calls, `Calls()`
reads, per-method resets and `ResetCalls` on one shared mock, under every interleaving: no reachable state
has two threads about to access the same call log with one of them writing (no data race), and every call
log equals the ghost history of the appends that took effect since its last clear (no call lost, none
recorded twice, each record holding the argument of exactly one call). -/
theorem concurrent_use_is_safe (s0 s : St) (ops : Tid → List Op)
    (hprog : ∀ i, (s0.th i).cont = progOfOps (ops i))
    (hheld : ∀ i, (s0.th i).held = .none) (hl : ∀ i, (s0.th i).loaded = false)
    (hlin : ∀ m, s0.log m = s0.hist m) (r : Reach s0 s) :
    ¬ Race s ∧ ∀ m, s.log m = s.hist m :=
  no_race_and_linearizable
    (inv_init s0 hheld hl (fun i => by rw [hprog i]; exact ops_disciplined (ops i)) hlin) r

/-- **no call lost, none recorded twice**: the goroutines `ts` run operation sequences that never reset
the log of method `m`; starting from empty logs, once all of them have finished – under every
interleaving – the argument `v` occurs in the call log of `m` exactly as often as the operation
sequences call `m` with `v`.  (With distinct arguments per call: every call is recorded exactly once and
every record is the argument of exactly one call.) -/
theorem no_call_lost_or_duplicated (ts : List Tid) (hnd : ts.Nodup) (s0 s : St) (ops : Tid → List Op)
    (m : Loc) (v : Nat)
    (hprog : ∀ i, (s0.th i).cont = progOfOps (ops i)) (hidle : ∀ j, j ∉ ts → ops j = [])
    (hheld : ∀ i, (s0.th i).held = .none) (hl : ∀ i, (s0.th i).loaded = false)
    (hempty : ∀ k, s0.log k = [] ∧ s0.hist k = [])
    (hnoreset : ∀ i, ∀ o ∈ ops i, o ≠ .reset m ∧ ∀ ms, o = .resetAll ms → m ∉ ms)
    (r : Reach s0 s) (hdone : ∀ i, (s.th i).cont = []) :
    (s.log m).count v = (ts.map (fun i => (ops i).count (.call m v))).sum := by
  have hsafe := concurrent_use_is_safe s0 s ops hprog hheld hl (fun k => by rw [(hempty k).1, (hempty k).2]) r
  have hnc : NoClear m s0 := fun j => by rw [hprog j]; exact noClear_ops m (ops j) (hnoreset j)
  have hid : IdleOutside ts s0 := fun j hj => by rw [hprog j, hidle j hj]; rfl
  have hcons := (reach_conserves ts hnd m v r hnc hid).1
  unfold total at hcons
  rw [hsafe.2 m]
  have h0 : (ts.map (fun j => pending m v (s0.th j).cont)).sum = (ts.map (fun i => (ops i).count (.call m v))).sum := by
    congr 1
    apply List.map_congr_left
    intro j _
    rw [hprog j, pending_ops]
  have h1 : (ts.map (fun j => pending m v (s.th j).cont)).sum = 0 := by
    have : ts.map (fun j => pending m v (s.th j).cont) = ts.map (fun _ => 0) := by
      apply List.map_congr_left
      intro j _
      rw [hdone j]; rfl
    rw [this]
    exact sum_zeros ts
  rw [h1, (hempty m).2, h0] at hcons
  simpa using hcons

/-- **the model the harness executes is the model of the theorems**: a step of the executable scheduler
semantics (`Sem/ConcExec.lean`, what the driver runs next to the real stress test) is a step of the
abstract machine, and every scheduler run is one of its executions – so `concurrent_use_is_safe` and
`no_call_lost_or_duplicated` speak about everything the driver can observe. -/
theorem scheduler_runs_are_executions (fuel seed : Nat) (s : XSt) :
    (∀ i s', xstep s i = some s' → Step s.abs i s'.abs) ∧ Reach s.abs (run fuel seed s false 0).final.abs :=
  ⟨fun i s' h => xstep_sound s s' i h, run_reach fuel seed s false 0⟩

/-- **C05 (testify)**: the code the testify template emits declares no shared state of its own – the only
fields of the struct types it declares are testify's own objects (`mock.Mock`, `*mock.Mock`, `*mock.Call`,
written with the qualifier the registry gives testify's package: `TESTIFY`),
and it declares no package-level variable; every method body works on locals and on those objects, whose
synchronisation is testify's. -/
theorem testify_adds_no_shared_state :
    Generated.testifyStructFields = ["*TESTIFY.Call", "TESTIFY.Mock", "mock *TESTIFY.Mock"] ∧
    Generated.testifyPackageVars = [] := by decide

/-- the discipline is necessary: an append after the unlock, an append under a read lock, and a read
without a lock are all rejected -/
example : wb .none false [.lock 0, .load 0, .unlock 0, .storeApp 0 5] = false := by decide
example : wb .none false [.rlock 0, .load 0, .storeApp 0 5, .runlock 0] = false := by decide
example : wb .none false [.snap 0] = false := by decide
/-- non-vacuity: a mixed sequence -/
example : wb .none false (progOfOps [.call 0 5, .calls 0, .reset 1, .call 1 7, .resetAll [0, 1]]) = true := by decide

end Mockery.C05
