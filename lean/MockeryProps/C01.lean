import MockeryLemmas.Origin
import MockeryModel.Gen.Emit
import MockeryLemmas.Types
import MockeryLemmas.Alloc
import MockeryProps.C14
import MockeryProps.C15
/-!
# C01 — Generated mock files are valid Go in their destination package

Property theorems only.  The theorems are about the static shape of what the
templates emit (scopes, imports, type strings); the Go type checker itself is
the concrete oracle of the harness (every generated file is compiled with its
destination package).  `_partial`: the conditions of `scopes_wellformed_partial`
are exactly the complement of the open findings C01-K1 … (see DESIGN.md).
-/
namespace Mockery.C01
open Mockery.Go Mockery.Gen Mockery

/-! ## regenerated facts about the templates -/

/-- the names the testify template declares in the code it emits are the ones the scope model uses -/
theorem testify_locals_transcribed :
    Generated.testifyLocals.all (fun n => testifyOwnNames.contains n) = true ∧
    testifyOwnNames.all (fun n => Generated.testifyLocals.contains n) = true := by decide

theorem matryer_locals_transcribed :
    Generated.matryerLocals.all (fun n => matryerOwnNames.contains n) = true ∧
    matryerOwnNames.all (fun n => Generated.matryerLocals.contains n) = true := by decide

/-- the only imports a template adds on its own: testify's `mock` package, and `sync` for matryer
(after `fix: matryer mocks imported "fmt"…` nothing unused) -/
theorem template_own_imports :
    Generated.testifyOwnImports = ["github.com/stretchr/testify/mock"] ∧ Generated.matryerOwnImports = ["sync"] := by decide

/-- no nondeterministic or environment-reading function is called by the built-in templates -/
theorem templates_pure :
    (Generated.testifyFuncs ++ Generated.matryerFuncs).all
      (fun f => !["randInt", "getenv", "expandEnv"].contains f) = true := by decide

/-! ## imports and type strings (from the data model, C14 / C15) -/

/-- every package a signature type mentions is imported under the qualifier its type string uses -/
theorem imports_closed (r : Registry) (t : GoType) (p : String × String) (hp : p ∈ pkgsOf t) :
    p.1 ∈ (addImports r (pkgsOf t)).2.map (·.1) := C14.imports_closed r t p hp

/-- type strings read back, under the file's imports, as the source types – any nesting of constructors -/
theorem typeString_roundtrip (q inv : String → String) (t : GoType)
    (h : ∀ p ∈ pkgsOf t, inv (q p.1) = p.1) : qualifyT inv (qualifyT q t) = t := C14.resolve_qualify q inv t h

/-- distinct import paths never share a qualifier, for any history of registrations on a file's
registry (the import table of an output file is such a history) -/
theorem import_qualifiers_distinct {r : Registry} (h : C15.Reachable r) (p q : Pkg) (hp : p ∈ r.imports)
    (hq : q ∈ r.imports) (hpq : p.qualifier = q.qualifier) : p = q :=
  C15.distinct_paths_distinct_qualifiers h p hp q hq hpq

/-- **no import without a reason**: every package in a file's import registry is mentioned by the type
(or configured replacement) of some parameter, result or type-parameter constraint of some mocked
interface of that file -/
theorem no_import_without_reason (f : FileIn) (x : String) (h : x ∈ (fileData f).1.paths) :
    ∃ i ∈ f.ifaces, x ∈ ifaceOrigin i := by
  simp only [fileData] at h
  rcases foldl_grow (fun (acc : Registry × List IfaceOut) => acc.1.paths) ifaceOrigin
      (fun acc i => ((ifaceData acc.1 i).1, acc.2 ++ [(ifaceData acc.1 i).2]))
      (fun s a x hx => ifaceData_origin s.1 a x hx) f.ifaces _ x h with h1 | h1
  · simp [Registry.paths] at h1
  · exact h1


/-! ## scopes of the emitted functions -/

/-- the generic argument: template-owned names and data-model names are each duplicate-free, disjoint
from each other, and nothing used from the enclosing scopes is among them -/
theorem wf_of_disjoint (f : EmitFn) (hown : f.own.Nodup) (huser : f.user.Nodup)
    (hdisj : ∀ x ∈ f.own, x ∉ f.user) (houter : ∀ x ∈ f.usesOuter, x ∉ f.own ∧ x ∉ f.user) : f.wf := by
  refine ⟨?_, ?_⟩
  · unfold EmitFn.declared
    rw [List.nodup_append]
    exact ⟨hown, huser, fun x hx y hy e => hdisj x hx (e ▸ hy)⟩
  · intro x hx hd
    unfold EmitFn.declared at hd
    rcases List.mem_append.1 hd with h | h
    · exact (houter x hx).1 h
    · exact (houter x hx).2 h

/-- **Scopes of matryer's emitted code are well-formed** when: parameter and result names are pairwise
distinct (data model, C14), avoid the template's own names, stay distinct after `exported`, and no
identifier of the signature's type strings equals a declared name. -/
theorem matryer_scopes_wellformed_partial (m : MethodOut)
    (hnd : (m.params.map (·.name) ++ m.results.map (·.name)).Nodup)
    (hown : ∀ n ∈ m.params.map (·.name) ++ m.results.map (·.name), n ∉ ["mock", "callInfo", "calls"])
    (hty : ∀ x ∈ outerIdents m, x ∉ m.params.map (·.name) ++ m.results.map (·.name) ∧ x ∉ ["mock", "callInfo", "calls"])
    (hexp : ((m.params.map (·.name)).map exportedName).Nodup) :
    ∀ f ∈ matryerFns m, f.wf := by
  intro f hf
  simp only [matryerFns, List.mem_cons, List.not_mem_nil, or_false] at hf
  rcases hf with rfl | rfl | rfl
  · apply wf_of_disjoint
    · simp
    · exact hnd
    · intro x hx hu
      have := hown x hu
      simp only [List.mem_cons, List.not_mem_nil, or_false] at hx this
      rcases hx with rfl | rfl <;> simp at this
    · intro x hx
      have := hty x hx
      refine ⟨?_, this.1⟩
      intro h
      apply this.2
      simp only [List.mem_cons, List.not_mem_nil, or_false] at h ⊢
      rcases h with rfl | rfl <;> simp
  · exact wf_of_disjoint _ (by simp) hexp (fun x hx => by cases hx) (fun x hx => by cases hx)
  · apply wf_of_disjoint
    · simp
    · simp
    · intro x _ hu; cases hu
    · intro x hx
      refine ⟨?_, by simp⟩
      intro h
      apply (hty x hx).2
      simp only [List.mem_cons, List.not_mem_nil, or_false] at h ⊢
      rcases h with rfl | rfl <;> simp

/-- all names the testify template declares somewhere in the code for one method -/
def testifyOwn : List String :=
  ["_mock", "tmpRet", "_va", "_i", "_ca", "returnFunc", "ok", "_e", "_c", "run", "args", "variadicArgs", "i", "a"]

/-- **Scopes of testify's emitted code are well-formed** under the analogous conditions; `retName` is
the name the template obtains from the method scope (`AllocateName "ret"`, fresh by C15) and
`r0 … r(n-1)` are the result locals. -/
theorem testify_scopes_wellformed_partial (m : MethodOut) (retName : String)
    (hnd : (m.params.map (·.name) ++ retName :: resultLocals m.results.length).Nodup)
    (hrs : (m.results.map (·.name)).Nodup)
    (hown : ∀ n ∈ (m.params.map (·.name) ++ retName :: resultLocals m.results.length) ++ m.results.map (·.name),
      n ∉ testifyOwn ∧ n ≠ "mock")
    (hty : ∀ x ∈ outerIdents m,
      x ∉ (m.params.map (·.name) ++ retName :: resultLocals m.results.length) ++ m.results.map (·.name) ∧ x ∉ testifyOwn)
    (hargs : (argLocals m.params.length).Nodup ∧
      ∀ x ∈ argLocals m.params.length, x ∉ testifyOwn ∧ x ≠ "mock" ∧ x ∉ outerIdents m) :
    ∀ f ∈ testifyFns m retName, f.wf := by
  intro f hf
  simp only [testifyFns, List.mem_cons, List.not_mem_nil, or_false] at hf
  have sub : ∀ (own : List String), (∀ x ∈ own, x ∈ testifyOwn) →
      ∀ x ∈ own, ∀ (u : List String), (∀ y ∈ u, y ∈ (m.params.map (·.name) ++ retName :: resultLocals m.results.length) ++ m.results.map (·.name)) →
      x ∉ u := by
    intro own ho x hx u hu hxu
    exact (hown x (hu x hxu)).1 (ho x hx)
  have outer : ∀ (own u : List String), (∀ x ∈ own, x ∈ testifyOwn) →
      (∀ y ∈ u, y ∈ (m.params.map (·.name) ++ retName :: resultLocals m.results.length) ++ m.results.map (·.name)) →
      ∀ x, (x = "mock" ∨ x ∈ outerIdents m) → x ∉ own ∧ x ∉ u := by
    intro own u ho hu x hx
    rcases hx with rfl | hx
    · refine ⟨fun h => ?_, fun h => (hown _ (hu _ h)).2 rfl⟩
      have := ho _ h
      simp [testifyOwn] at this
    · exact ⟨fun h => (hty x hx).2 (ho x h), fun h => (hty x hx).1 (hu x h)⟩
  rcases hf with rfl | rfl | rfl | rfl | rfl
  · apply wf_of_disjoint
    · simp
    · exact hnd
    · exact fun x hx => sub _ (by simp [testifyOwn]) x hx _ (fun y hy => List.mem_append_left _ hy)
    · intro x hx
      exact outer _ _ (by simp [testifyOwn]) (fun y hy => List.mem_append_left _ hy) x (by simpa using hx)
  · apply wf_of_disjoint
    · simp
    · exact (List.nodup_append.1 hnd).1
    · exact fun x hx => sub _ (by simp [testifyOwn]) x hx _ (fun y hy => List.mem_append_left _ (List.mem_append_left _ hy))
    · intro x hx; cases hx
  · have hsub : ∀ x ∈ ["_c", "run", "args", "variadicArgs", "i", "a"], x ∈ testifyOwn := by simp [testifyOwn]
    apply wf_of_disjoint
    · simp
    · exact hargs.1
    · intro x hx hu
      exact (hargs.2 x hu).1 (hsub x hx)
    · intro x hx
      rcases List.mem_cons.1 hx with rfl | hx
      · exact ⟨by simp, fun h => (hargs.2 _ h).2.1 rfl⟩
      · exact ⟨fun h => (hty x hx).2 (hsub x h), fun h => (hargs.2 x h).2.2 hx⟩
  · apply wf_of_disjoint
    · simp
    · exact hrs
    · exact fun x hx => sub _ (by simp [testifyOwn]) x hx _ (fun y hy => List.mem_append_right _ hy)
    · intro x hx
      exact outer _ _ (by simp [testifyOwn]) (fun y hy => List.mem_append_right _ hy) x (Or.inr hx)
  · apply wf_of_disjoint
    · simp
    · simp
    · intro x _ hu; cases hu
    · intro x hx
      exact outer _ [] (by simp [testifyOwn]) (fun y hy => by cases hy) x (Or.inr hx)

/-- non-vacuity of the generic argument -/
example : (⟨"f", ["_c", "run"], ["x", "y"], ["http", "string"]⟩ : EmitFn).wf :=
  wf_of_disjoint _ (by decide) (by decide) (by decide) (by decide)


/-- non-vacuity of the testify theorem: a variadic method with a foreign parameter type, an unnamed and a
named result meets every hypothesis -/
example :
    let m : MethodOut :=
      ⟨"Fetch", [⟨"ctx", "context.Context", true, false, false, ["context"]⟩, ⟨"ids", "[]int", true, true, true, ["int"]⟩],
       [⟨"", "string", false, false, false, ["string"]⟩, ⟨"err", "error", true, false, false, ["error"]⟩],
       ["ctx", "ids", "err", "context"]⟩
    ∀ f ∈ testifyFns m "ret", f.wf :=
  testify_scopes_wellformed_partial _ "ret" (by decide) (by decide) (by decide) (by decide) (by decide)

end Mockery.C01
