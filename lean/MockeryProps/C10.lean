import MockeryModel.Run.Pipeline
import MockeryLemmas.Pipeline
import MockeryLemmas.Plan
import MockeryModel.Run.EndToEnd
import MockeryModel.Generated.Decide
/-!
# C10 — Output files are written safely: no stray writes, no clobbering, all-or-nothing

Property theorems only.  Quantification: every initial file system, every list
of output files in every order, every force-file-write setting, every
combination of stage failures, every early error.
-/
namespace Mockery.C10
open Mockery.Run Mockery

/-! ## regenerated facts: the shape of the write path in `RootApp.Run` / `Generate` -/

/-- per output file: everything is rendered, validated and formatted (`Generate`) before the
directory is created, the existence check comes before the single `WriteFile`, and `WriteFile`
is the last call of the loop body -/
theorem write_path_order :
    Generated.runFileLoopCalls =
      ["GetPackageConfig", "ParseTemplates", "NewTemplateGenerator", "Generate", "MkdirAll", "Exists", "WriteFile"] := by decide

/-- the only file-system mutations of a run are that `MkdirAll` and that `WriteFile`
(no temporary files, renames or removals) -/
theorem only_mkdir_and_writefile : Generated.runWrites = ["MkdirAll", "WriteFile"] := by decide

/-- inside `Generate`: template retrieval, then schema validation, then parsing and execution,
then formatting – all in memory -/
theorem generate_stage_order :
    Generated.generateStages = ["getTemplate", "validateSchema", "New", "Execute", "format"] := by decide

/-- the overwrite guard stops the run when the file exists and force-file-write is off
(`_partial`: it reads the *package's* force-file-write – known findings C10-K1 / C08-K4) -/
theorem overwrite_guard_partial :
    Generated.runOverwriteGuard =
      "outFileExists && !*packageConfig.Config.ForceFileWrite → return fmt.Errorf(\"outfile exists\")" := by decide

/-! ## the state machine -/

/-- **Only designated paths are touched**: a path that is no output file of the run is left exactly
as it was – whatever fails, in whatever order. -/
theorem only_designated_touched (i : RunInput) (fs : FS) (p : String) (h : p ∉ i.jobs.map (·.path)) :
    (run i fs).1 p = fs p := by
  unfold run
  split
  · rfl
  · exact processJobs_untouched i.jobs fs p h

/-- **All-or-nothing per path**: every path ends up holding its complete old state or the complete
new content of one of its output files whose in-memory stages all succeeded – never anything else. -/
theorem all_or_nothing (i : RunInput) (fs : FS) (p : String) :
    (run i fs).1 p = fs p ∨ ∃ j ∈ i.jobs, j.path = p ∧ (run i fs).1 p = .file j.content ∧ j.stagesOk = true := by
  unfold run
  split
  · exact Or.inl rfl
  · exact processJobs_old_or_new i.jobs fs p

/-- **No clobbering**: an existing file at an output path whose force-file-write is off is left
untouched and the run fails. -/
theorem no_clobber (i : RunInput) (fs : FS) (hnd : (i.jobs.map (·.path)).Nodup)
    (j : FileJob) (hj : j ∈ i.jobs) (old : String) (hex : fs j.path = .file old) (hf : j.force = false) :
    (run i fs).1 j.path = .file old ∧ (run i fs).2 = false := by
  unfold run
  split
  · exact ⟨hex, rfl⟩
  · have hbad : jobOk fs j = false := by simp [jobOk, hex, hf]
    obtain ⟨h1, h2⟩ := processJobs_failed_job_untouched i.jobs fs hnd j hj hbad
    simp only [h1, Bool.false_and]
    exact ⟨by rw [h2, hex], trivial⟩

/-- a directory at an output path is never replaced, with or without force -/
theorem directory_never_replaced (i : RunInput) (fs : FS) (hnd : (i.jobs.map (·.path)).Nodup)
    (j : FileJob) (hj : j ∈ i.jobs) (hex : fs j.path = .dir) :
    (run i fs).1 j.path = .dir ∧ (run i fs).2 = false := by
  unfold run
  split
  · exact ⟨hex, rfl⟩
  · have hbad : jobOk fs j = false := by simp [jobOk, hex]
    obtain ⟨h1, h2⟩ := processJobs_failed_job_untouched i.jobs fs hnd j hj hbad
    simp only [h1, Bool.false_and]
    exact ⟨by rw [h2, hex], trivial⟩

/-- **A file whose production fails at any stage keeps its previous content or absence** (template
retrieval, schema validation, template execution, formatting, or creating the parent directory),
and the run fails. -/
theorem failed_file_untouched (i : RunInput) (fs : FS) (hnd : (i.jobs.map (·.path)).Nodup)
    (j : FileJob) (hj : j ∈ i.jobs)
    (hfail : j.templateOk = false ∨ j.validateOk = false ∨ j.executeOk = false ∨ j.formatOk = false ∨ j.parentOk = false) :
    (run i fs).1 j.path = fs j.path ∧ (run i fs).2 = false := by
  unfold run
  split
  · exact ⟨rfl, rfl⟩
  · have hbad : jobOk fs j = false := by
      unfold jobOk FileJob.stagesOk
      rcases hfail with h | h | h | h | h <;> simp [h]
    obtain ⟨h1, h2⟩ := processJobs_failed_job_untouched i.jobs fs hnd j hj hbad
    simp only [h1, Bool.false_and]
    exact ⟨h2, trivial⟩

/-- an error before the per-file loop (configuration, loading, selection, template resolution,
conflicting requirements for one file) writes nothing at all -/
theorem early_error_writes_nothing (i : RunInput) (fs : FS) (h : i.earlyError = true) :
    run i fs = (fs, false) := by simp [run, h]

/-- with force-file-write on, an existing file is replaced by the complete new content -/
theorem force_replaces (i : RunInput) (fs : FS) (hnd : (i.jobs.map (·.path)).Nodup) (he : i.earlyError = false)
    (hall : ∀ j ∈ i.jobs, jobOk fs j = true) (j : FileJob) (hj : j ∈ i.jobs) :
    (run i fs).1 j.path = .file j.content := by
  unfold run
  simp only [he, Bool.false_eq_true, ↓reduceIte]
  exact processJobs_success_content i.jobs fs hnd ((processJobs_ok_iff i.jobs fs hnd).2 hall) j hj

/-- non-vacuity: two files, the second one exists without force – the first is written (it came
first in this order), the second untouched, the run fails -/
example :
    let fs : FS := fun p => if p = "b" then .file "user" else .absent
    let j1 : FileJob := ⟨"a", false, true, true, true, true, true, "A"⟩
    let j2 : FileJob := ⟨"b", false, true, true, true, true, true, "B"⟩
    let r := run ⟨false, [j1, j2], false⟩ fs
    r.1 "a" = .file "A" ∧ r.1 "b" = .file "user" ∧ r.2 = false := by decide


/-! ## which files are designated: from the selected mocks to output files (`Run/Plan.lean`) -/

/-- **the designated output files**: when the selected mocks can be collected (no conflict), the output
files of the run are exactly the distinct resolved paths `Clean(dir/filename)` of the mocks, each file
holds exactly the mocks that resolve to it, in discovery order of first use, and all mocks of a file
share its source package, `pkgname` and `template`. -/
theorem output_files_are_the_resolved_paths (ms : List PlannedMock) (cs : List Collection) (h : group ms = .ok cs) :
    (cs.map (·.path)).Nodup ∧
    (∀ m ∈ ms, ∃ c ∈ cs, c.path = m.path ∧ m ∈ c.mocks) ∧
    (∀ c ∈ cs, ∀ m ∈ c.mocks, m ∈ ms ∧ m.path = c.path ∧ m.pkgName = c.pkgName ∧ m.srcPkg = c.srcPkg ∧
      m.template = c.template) := by
  have inv := groupFrom_inv ms [] cs [] h ⟨by simp, by simp, by simp, by simp⟩
  simp only [List.nil_append] at inv
  refine ⟨inv.nodup, inv.complete, ?_⟩
  intro c hc m hm
  obtain ⟨hh, hs⟩ := inv.homog c hc
  exact ⟨hs m hm, hh m hm⟩

/-- **conflicts are errors, and only conflicts**: collecting fails exactly when two selected mocks resolve
to the same output file but differ in source package, `pkgname` or `template` -/
theorem conflict_is_error (ms : List PlannedMock) (e : PlanErr) (h : group ms = .error e) :
    ∃ m1 ∈ ms, ∃ m2 ∈ ms, m1.path = m2.path ∧
      (m1.pkgName ≠ m2.pkgName ∨ m1.srcPkg ≠ m2.srcPkg ∨ m1.template ≠ m2.template) := by
  simpa using groupFrom_error ms [] [] e h ⟨by simp, by simp, by simp, by simp⟩

theorem no_conflict_no_error (ms : List PlannedMock)
    (hc : ∀ m1 ∈ ms, ∀ m2 ∈ ms, m1.path = m2.path →
      m1.pkgName = m2.pkgName ∧ m1.srcPkg = m2.srcPkg ∧ m1.template = m2.template) :
    ∃ cs, group ms = .ok cs := by
  cases h : group ms with
  | ok cs => exact ⟨cs, rfl⟩
  | error e =>
    obtain ⟨m1, h1, m2, h2, hp, hd⟩ := conflict_is_error ms e h
    obtain ⟨a, b, c⟩ := hc m1 h1 m2 h2 hp
    rcases hd with hd | hd | hd
    · exact absurd a hd
    · exact absurd b hd
    · exact absurd c hd

example :
    let m1 : PlannedMock := ⟨"p", "A", 0, "/m/p/mocks_test.go", "p", "testify", "MockA"⟩
    let m2 : PlannedMock := ⟨"p", "B", 0, "/m/p/mocks_test.go", "p", "testify", "MockB"⟩
    let m3 : PlannedMock := ⟨"p", "B", 1, "/m/out/b.go", "out", "matryer", "StubB"⟩
    (group [m1, m2, m3]).map (fun cs => cs.map (fun c => (c.path, c.mocks.map (·.structName)))) =
      .ok [("/m/p/mocks_test.go", ["MockA", "MockB"]), ("/m/out/b.go", ["StubB"])] ∧
    group [m1, { m2 with pkgName := "p_test" }] = .error .pkgName := ⟨rfl, rfl⟩

/-! ## the whole run -/

open Mockery.Config in
/-- **end to end**: a path whose state a run changes is the resolved output file `Clean(dir/filename)` of a
selected (package, interface, configs entry) – nothing else is ever created or modified, whatever the
configuration, the sources, the initial file system and the outcome of the rendering stages -/
theorem end_to_end_only_resolved_paths_of_selected_mocks (w : World) (t : Tree) (fs : FS) (p : String)
    (hchg : (endToEnd w t fs).1 p ≠ fs p) :
    ∃ pkgs mocks, initializeFull w.ft w.matcher w.subPkgs t = .ok pkgs ∧ selected w.matcher pkgs w.srcs = .ok mocks ∧
      ∃ m ∈ mocks, ∃ pm, planMock w.configFile w.cwd (w.srcOf m.pkg m.iface) m = .ok pm ∧ pm.path = p ∧
        pm.srcPkg = m.pkg ∧ pm.iface = m.iface ∧ pm.entry = m.entry := by
  unfold endToEnd at hchg
  cases hi : initializeFull w.ft w.matcher w.subPkgs t with
  | error e => simp [hi] at hchg
  | ok pkgs =>
    cases hs : selected w.matcher pkgs w.srcs with
    | error e => simp [hi, hs] at hchg
    | ok mocks =>
      cases hp : planAll w.configFile w.cwd w.srcOf mocks with
      | error e => simp [hi, hs, hp] at hchg
      | ok planned =>
        cases hg : group planned with
        | error e => simp [hi, hs, hp, hg] at hchg
        | ok cs =>
          simp only [hi, hs, hp, hg] at hchg
          -- the changed path is the path of some job, i.e. of some collection
          have hmem : p ∈ (cs.map (fun c => ({ w.render c with path := c.path } : FileJob))).map (·.path) := by
            apply Classical.byContradiction
            intro hn
            apply hchg
            simp only [run, Bool.false_eq_true, if_false]
            exact processJobs_untouched _ fs p hn
          simp only [List.map_map, List.mem_map, Function.comp] at hmem
          obtain ⟨c, hc, hcp⟩ := hmem
          have inv := groupFrom_inv planned [] cs [] hg ⟨by simp, by simp, by simp, by simp⟩
          simp only [List.nil_append] at inv
          have hne := inv.nonempty c hc
          obtain ⟨hh, hsub⟩ := inv.homog c hc
          cases hmk : c.mocks with
          | nil => exact absurd hmk hne
          | cons pm rest =>
            have hpm : pm ∈ c.mocks := by rw [hmk]; exact List.mem_cons_self
            obtain ⟨m, hm, hplan⟩ := planAll_spec _ _ _ mocks planned hp pm (hsub pm hpm)
            obtain ⟨f1, f2, f3⟩ := planMock_fields hplan
            exact ⟨pkgs, mocks, rfl, hs, m, hm, pm, hplan, ((hh pm hpm).1).trans hcp, f1, f2, f3⟩


/-! ### the conflict check of the model is the source's -/

def planErrName : PlanErr → String
  | .pkgName => "pkgname"
  | .srcPkg => "srcpkg"
  | .template => "template"
  | _ => "other"

open Mockery.Generated.Decide in
/-- `Collection.append` decides as `InterfaceCollection.Append` does, translated statement by statement from the
current source (Generated/Decide.lean): for a mock whose resolved path is the collection's (the collections are
keyed by path), the same conflict is reported, or none -/
theorem conflict_check_is_the_translated_source (c : Collection) (m : PlannedMock) (hp : c.path = m.path) :
    collectionAppend c.path c.pkgName c.srcPkg c.template m.path m.pkgName m.srcPkg m.template =
      ((c.append m).mapError planErrName).map (fun _ => ()) := by
  unfold collectionAppend Collection.append
  simp only [hp, bne_self_eq_false, Bool.false_eq_true, if_false]
  by_cases h1 : c.pkgName = m.pkgName <;> by_cases h2 : c.srcPkg = m.srcPkg <;> by_cases h3 : c.template = m.template <;>
    simp [h1, h2, h3, Except.mapError, Except.map, planErrName, throw, throwThe, MonadExceptOf.throw, pure, Except.pure]

/-- and a mock with another path never reaches a collection: the translated check itself refuses it -/
theorem other_path_is_refused (a b c d e f g h : String) (hne : a ≠ e) :
    Mockery.Generated.Decide.collectionAppend a b c d e f g h = .error "path" := by
  unfold Mockery.Generated.Decide.collectionAppend
  simp [hne, throw, throwThe, MonadExceptOf.throw]

end Mockery.C10
