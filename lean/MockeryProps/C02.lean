import MockeryModel.Gen.Discover
import MockeryModel.Gen.Data
import MockeryModel.Generated.VisitorFacts
import MockeryLemmas.Types
import MockeryProps.C14
/-!
# C02 — the generated mock type implements exactly the source interface

Property theorems only.  Two halves:

* discovery (`node_visitor.go`, `parse.go`): the names handed to the generator
  are exactly the package-level candidate type specs, so a function-local type
  that shares its name with a package-level interface never produces a second
  mock (`discovery_exact`, `mocked_once`);
* the data model (`template_generator.go`): one mock per selected interface,
  one method record per method of the method set, in order, each with as many
  parameters and results as the source method, the same types (C14
  `resolve_qualify`) and the variadic flag on the last parameter only.

The method set itself (`types.Interface.Complete`) is an input of the model.
-/
namespace Mockery.C02
open Mockery.Gen Mockery.Go

/-- the model's visitor is the one in the source: same stop nodes, same accepted shapes, nothing else records,
every other path keeps walking, names are looked up in the package scope -/
theorem visitor_transcribed :
    Generated.visitorSkips = ["FuncDecl", "FuncLit"] ∧
    Generated.visitorAccepts = ["InterfaceType", "IndexExpr", "IndexListExpr"] ∧
    Generated.visitorOtherAdds = [] ∧ Generated.visitorContinues = "nv" ∧
    Generated.discoveryScope = "pkg.Types.Scope()" := by decide

mutual
/-- an expression records nothing: type specs in it are below function literals -/
theorem visit_expr : ∀ n, exprLike n = true → visit n = []
  | .typeSpec _ _, h => by simp [exprLike] at h
  | .funcDecl _, _ => by simp [visit]
  | .funcLit _, _ => by simp [visit]
  | .other cs, h => by
      simp only [visit]; exact visitAll_expr cs (by simpa [exprLike] using h)
theorem visitAll_expr : ∀ cs, exprLikeAll cs = true → visitAll cs = []
  | [], _ => rfl
  | c :: cs, h => by
      simp [exprLikeAll] at h
      simp [visitAll, visit_expr c h.1, visitAll_expr cs h.2]
end

theorem visitAll_specs : ∀ specs : List (String × SpecKind),
    visitAll (specs.map (fun s => Node.typeSpec s.1 s.2)) = (specs.filter (·.2.accepted)).map (·.1)
  | [] => rfl
  | s :: ss => by
      simp only [List.map, visitAll, visit, visitAll_specs ss, List.filter]
      cases s.2.accepted <;> simp

/-- **discovery is exact**: for a grammatical file the walk records precisely the candidate type specs
declared at package level, in source order — nothing from any function body -/
theorem discovery_exact : ∀ ds : List Decl, (∀ d ∈ ds, d.grammatical = true) →
    visitAll (fileNodes ds) = declaredCandidates ds
  | [], _ => rfl
  | d :: ds, h => by
      have ih := discovery_exact ds (fun d hd => h d (List.mem_cons_of_mem _ hd))
      have hd := h d List.mem_cons_self
      simp only [fileNodes, List.map, visitAll, declaredCandidates, List.flatMap_cons] at *
      rw [ih]
      congr 1
      cases d with
      | types specs => simp [Decl.toNode, visit, Decl.declared, visitAll_specs]
      | func b => simp [Decl.toNode, visit, Decl.declared]
      | values inits => simp [Decl.toNode, visit, Decl.declared, visitAll_expr inits (by simpa [Decl.grammatical] using hd)]

/-- **an interface is never mocked twice**: package-level names are distinct in a type-correct package,
so the discovered list has no duplicates, whatever the function bodies contain -/
theorem mocked_once (sc : PkgScope) (ds : List Decl) (hg : ∀ d ∈ ds, d.grammatical = true)
    (hdistinct : (declaredCandidates ds).Nodup) : (discover sc (fileNodes ds)).Nodup := by
  unfold discover
  rw [discovery_exact ds hg]
  exact hdistinct.filter _

/-- everything discovered is a named interface of the package scope -/
theorem discovered_are_package_interfaces (sc : PkgScope) (file : List Node) (n : String)
    (h : n ∈ discover sc file) : lookupIface sc n = true := by
  unfold discover at h
  exact (List.mem_filter.mp h).2

/-- the guard is necessary: a walk that descends into function bodies records a function-local type that
shares its name with a package-level interface a second time -/
example :
    let file := [Decl.types [("I", .interfaceType)], Decl.func [.other [.typeSpec "I" .interfaceType]]]
    visitAll (fileNodes file) = ["I"] ∧ allSpecsAll (fileNodes file) = ["I", "I"] := by decide

/-! ### the data model -/

/-- a fold that threads a state and appends one output per element keeps one output per element, in order -/
theorem foldl_append_map {α β σ γ : Type} (step : σ → α → σ × β) (proj : β → γ) (key : α → γ)
    (h : ∀ s a, proj (step s a).2 = key a) :
    ∀ (l : List α) (s : σ) (acc : List β),
      ((l.foldl (fun (acc : σ × List β) a => ((step acc.1 a).1, acc.2 ++ [(step acc.1 a).2])) (s, acc)).2).map proj
        = acc.map proj ++ l.map key
  | [], _, _ => by simp
  | a :: l, s, acc => by
      simp only [List.foldl]
      rw [foldl_append_map step proj key h l]
      simp [h]

/-- **one mock per selected interface, in order** -/
theorem one_mock_per_interface (f : FileIn) : (fileData f).2.map (·.name) = f.ifaces.map (·.name) := by
  unfold fileData
  have := foldl_append_map (σ := Registry) (fun r i => ifaceData r i) (fun (o : IfaceOut) => o.name) (fun (i : IfaceIn) => i.name)
    (by intro s a; simp [ifaceData]) f.ifaces
    ({ dstPkgPath := f.dstPkgPath, inPackage := f.inPackage, imports := [] } : Registry) []
  simpa using this

/-- **every method of the method set exactly once, in order** -/
theorem methods_exact (reg : Registry) (i : IfaceIn) :
    (ifaceData reg i).2.methods.map (·.name) = i.methods.map (·.name) := by
  unfold ifaceData
  simp only [List.map_map]
  have := foldl_append_map (σ := Registry) (fun r m => (methodData r m |>.1, (m.name, (methodData r m).2)))
    (fun (x : String × (Scope × List VarOut × Nat)) => x.1) (fun (m : MethodIn) => m.name)
    (by intro s a; rfl) i.methods reg []
  simp only [List.map_nil, List.nil_append] at this
  rw [← this]
  congr 1


/-! ### signatures -/

/-- two lists related element by element -/
inductive Pointwise {α β : Type} (R : α → β → Prop) : List α → List β → Prop
  | nil : Pointwise R [] []
  | cons {a b as bs} : R a b → Pointwise R as bs → Pointwise R (a :: as) (b :: bs)

theorem Pointwise.length_eq {α β : Type} {R : α → β → Prop} {l₁ : List α} {l₂ : List β} (h : Pointwise R l₁ l₂) :
    l₁.length = l₂.length := by
  induction h with
  | nil => rfl
  | cons _ _ ih => simp [ih]

theorem Pointwise.append {α β : Type} {R : α → β → Prop} {a₁ a₂ : List α} {b₁ b₂ : List β}
    (h₁ : Pointwise R a₁ b₁) (h₂ : Pointwise R a₂ b₂) : Pointwise R (a₁ ++ a₂) (b₁ ++ b₂) := by
  induction h₁ with
  | nil => simpa using h₂
  | cons h _ ih => exact .cons h ih

/-- the type a variable is emitted with: the source type, or its `replace-type` replacement (C13) -/
def effType (v : VarIn) : GoType := v.replacement.getD v.type

/-- an emitted variable matches its source: the type string is the source type printed under some
qualifier map (C14 `resolve_qualify`: that reads back as the same type), and the flags are the type's -/
def VarMatches (o : VarOut) (v : VarIn × Bool) : Prop :=
  (∃ q, o.typeString = typeString q (effType v.1)) ∧ o.variadic = v.2 ∧
    o.nillable = nillable (effType v.1) ∧ o.isSlice = isSlice (effType v.1)

theorem addVar_appends (st : VarState) (v : VarIn) (b : Bool) :
    ∃ o, (addVar st v b).vars = st.vars ++ [o] ∧ VarMatches o (v, b) := by
  unfold addVar
  cases hr : v.replacement with
  | some rt =>
    exact ⟨_, rfl, ⟨qualifierOf (addImports st.reg ((pkgsOf rt).take 1)).2, by simp [effType, hr]⟩, rfl,
      by simp [effType, hr], by simp [effType, hr]⟩
  | none =>
    exact ⟨_, rfl, ⟨qualifierOf (addImports st.reg (pkgsOf v.type)).2, by simp [effType, hr]⟩, rfl,
      by simp [effType, hr], by simp [effType, hr]⟩

theorem addVars_appends : ∀ (l : List (VarIn × Bool)) (st : VarState),
    ∃ new, (l.foldl (fun st p => addVar st p.1 p.2) st).vars = st.vars ++ new ∧ Pointwise VarMatches new l
  | [], st => ⟨[], by simp, .nil⟩
  | p :: l, st => by
      obtain ⟨o, ho, hm⟩ := addVar_appends st p.1 p.2
      obtain ⟨new, hn, hf⟩ := addVars_appends l (addVar st p.1 p.2)
      refine ⟨o :: new, ?_, .cons hm hf⟩
      simp only [List.foldl]; rw [hn, ho]; simp

/-- the parameters with the variadic flag `methodData` gives them: the last one iff the method is variadic -/
def paramsFlagged (m : MethodIn) : List (VarIn × Bool) :=
  (m.params.zip (List.range m.params.length)).map (fun p => (p.1, m.variadic && p.2 + 1 == m.params.length))

theorem paramsFlagged_length (m : MethodIn) : (paramsFlagged m).length = m.params.length := by
  simp [paramsFlagged]

theorem methodData_vars (reg : Registry) (m : MethodIn) :
    (methodData reg m).2.2.2 = m.params.length ∧
    Pointwise VarMatches (methodData reg m).2.2.1 (paramsFlagged m ++ m.results.map (fun v => (v, false))) := by
  refine ⟨rfl, ?_⟩
  simp only [methodData]
  have h1 := addVars_appends (paramsFlagged m) ⟨reg, reg.newScope, []⟩
  obtain ⟨n1, e1, f1⟩ := h1
  have h2 := addVars_appends (m.results.map (fun v => (v, false)))
    ((paramsFlagged m).foldl (fun st p => addVar st p.1 p.2) ⟨reg, reg.newScope, []⟩)
  obtain ⟨n2, e2, f2⟩ := h2
  simp only [paramsFlagged, List.foldl_map] at e1 e2
  rw [e2, e1]
  simpa using Pointwise.append f1 f2

theorem resolve_pointwise (scope : Scope) : ∀ (vars : List VarOut),
    Pointwise (fun (o v : VarOut) => o.typeString = v.typeString ∧ o.variadic = v.variadic ∧
      o.nillable = v.nillable ∧ o.isSlice = v.isSlice) (resolveCollisions scope vars).2 vars
  | [] => .nil
  | v :: vs => by
      simp only [resolveCollisions]
      exact .cons ⟨rfl, rfl, rfl, rfl⟩ (resolve_pointwise _ vs)

theorem pointwise_transport {os vs : List VarOut} {ins : List (VarIn × Bool)}
    (hp : Pointwise (fun (o v : VarOut) => o.typeString = v.typeString ∧ o.variadic = v.variadic ∧
      o.nillable = v.nillable ∧ o.isSlice = v.isSlice) os vs)
    (hf : Pointwise VarMatches vs ins) : Pointwise VarMatches os ins := by
  induction hp generalizing ins with
  | nil => cases hf; exact .nil
  | cons hab _ ih =>
      cases hf with
      | cons hm hrest =>
        refine .cons ?_ (ih hrest)
        obtain ⟨⟨q, hq⟩, h2, h3, h4⟩ := hm
        exact ⟨⟨q, hab.1.trans hq⟩, hab.2.1.trans h2, hab.2.2.1.trans h3, hab.2.2.2.trans h4⟩

/-- **identical parameter types, variadic-ness and result types**: the record of a method has as many
parameters and results as the source method, in order; each is printed from the source type (or its
configured replacement), only the last parameter of a variadic method is flagged variadic. -/
theorem signature_exact (reg : Registry) (m : MethodIn) :
    let o := finishMethod m.name (methodData reg m).2
    o.name = m.name ∧ o.params.length = m.params.length ∧ o.results.length = m.results.length ∧
    Pointwise VarMatches (o.params ++ o.results) (paramsFlagged m ++ m.results.map (fun v => (v, false))) := by
  obtain ⟨hnp, hf⟩ := methodData_vars reg m
  have hlen := hf.length_eq
  simp only [List.length_append, List.length_map, paramsFlagged_length] at hlen
  generalize hmd : (methodData reg m).2 = x at *
  obtain ⟨scope, vars, np⟩ := x
  simp only at hnp hf hlen
  subst hnp
  have hc := C14.finishMethod_counts m.name scope vars m.params.length (by omega)
  refine ⟨hc.1, hc.2.1, by rw [hc.2.2]; omega, ?_⟩
  simp only [finishMethod, List.take_append_drop]
  exact pointwise_transport (resolve_pointwise scope vars) hf

/-- with C14: reading the emitted type string back through any left inverse of the qualifier map gives the source type -/
theorem emitted_type_reads_back (q inv : String → String) (t : GoType)
    (h : ∀ p ∈ pkgsOf t, inv (q p.1) = p.1) : qualifyT inv (qualifyT q t) = t :=
  C14.resolve_qualify q inv t h

/-- non-vacuity: a variadic method with a foreign parameter type and two results -/
example :
    let m : MethodIn := ⟨"Do", [⟨"ctx", .named "context" "context" "Context" .defined [] false false, none⟩,
      ⟨"xs", .slice (.basic "int"), none⟩], [⟨"", .basic "string", none⟩, ⟨"", .universe "error" .defined, none⟩], true⟩
    let o := finishMethod m.name (methodData ({ dstPkgPath := "p", inPackage := false, imports := [] } : Registry) m).2
    (o.params.map (fun v => (v.typeString, v.variadic)), o.results.map (·.typeString)) =
      ([("context.Context", false), ("[]int", true)], ["string", "error"]) := by decide

end Mockery.C02
