import MockeryModel.Gen.Discover
import MockeryModel.Gen.Data
import MockeryModel.Generated.VisitorFacts
import MockeryLemmas.Types
import MockeryProps.C14
import MockeryLemmas.Discover
import MockeryLemmas.MethodSet
/-!
# C02 — the generated mock type implements exactly the source interface

Property theorems only.  Two halves:

* discovery (`node_visitor.go`, `parse.go`): the names handed to the generator
  are exactly the package-level candidate type specs, so a function-local type
  that shares its name with a package-level interface never produces a second
  mock (`discovery_exact`, `mocked_once`);
* the data model (`template_generator.go`): one mock per selected interface,
  one method record per method of the method set, in order, each with as many
  parameters and results as the source method, the same types (C14
  `resolve_qualify`) and the variadic flag on the last parameter only.

The method set itself (`types.Interface.Complete`) is an input of the model.
-/
namespace Mockery.C02
open Mockery.Gen Mockery.Go

/-- the model's visitor is the one in the source: same stop nodes, same accepted shapes, nothing else records,
every other path keeps walking, names are looked up in the package scope -/
theorem visitor_transcribed :
    Generated.visitorSkips = ["FuncDecl", "FuncLit"] ∧
    Generated.visitorAccepts = ["InterfaceType", "IndexExpr", "IndexListExpr"] ∧
    Generated.visitorOtherAdds = [] ∧ Generated.visitorContinues = "nv" ∧
    Generated.discoveryScope = "pkg.Types.Scope()" := by decide

/-- **discovery is exact**: for a grammatical file the walk records precisely the candidate type specs
declared at package level, in source order — nothing from any function body -/
theorem discovery_exact : ∀ ds : List Decl, (∀ d ∈ ds, d.grammatical = true) →
    visitAll (fileNodes ds) = declaredCandidates ds
  | [], _ => rfl
  | d :: ds, h => by
      have ih := discovery_exact ds (fun d hd => h d (List.mem_cons_of_mem _ hd))
      have hd := h d List.mem_cons_self
      simp only [fileNodes, List.map, visitAll, declaredCandidates, List.flatMap_cons] at *
      rw [ih]
      congr 1
      cases d with
      | types specs => simp [Decl.toNode, visit, Decl.declared, visitAll_specs]
      | func b => simp [Decl.toNode, visit, Decl.declared]
      | values inits => simp [Decl.toNode, visit, Decl.declared, visitAll_expr inits (by simpa [Decl.grammatical] using hd)]

/-- **an interface is never mocked twice**: package-level names are distinct in a type-correct package,
so the discovered list has no duplicates, whatever the function bodies contain -/
theorem mocked_once (sc : PkgScope) (ds : List Decl) (hg : ∀ d ∈ ds, d.grammatical = true)
    (hdistinct : (declaredCandidates ds).Nodup) : (discover sc (fileNodes ds)).Nodup := by
  unfold discover
  rw [discovery_exact ds hg]
  exact hdistinct.filter _

/-- everything discovered is a named interface of the package scope -/
theorem discovered_are_package_interfaces (sc : PkgScope) (file : List Node) (n : String)
    (h : n ∈ discover sc file) : lookupIface sc n = true := by
  unfold discover at h
  exact (List.mem_filter.mp h).2

/-- the guard is necessary: a walk that descends into function bodies records a function-local type that
shares its name with a package-level interface a second time -/
example :
    let file := [Decl.types [("I", .interfaceType)], Decl.func [.other [.typeSpec "I" .interfaceType]]]
    visitAll (fileNodes file) = ["I"] ∧ allSpecsAll (fileNodes file) = ["I", "I"] := by decide

/-! ### the data model -/

/-- **one mock per selected interface, in order** -/
theorem one_mock_per_interface (f : FileIn) : (fileData f).2.map (·.name) = f.ifaces.map (·.name) := by
  unfold fileData
  have := foldl_append_map (σ := Registry) (fun r i => ifaceData r i) (fun (o : IfaceOut) => o.name) (fun (i : IfaceIn) => i.name)
    (by intro s a; simp [ifaceData]) f.ifaces
    ({ dstPkgPath := f.dstPkgPath, inPackage := f.inPackage, imports := [], dstPkgName := f.pkgName } : Registry) []
  simpa using this

/-- **every method of the method set exactly once, in order** -/
theorem methods_exact (reg : Registry) (i : IfaceIn) :
    (ifaceData reg i).2.methods.map (·.name) = i.methods.map (·.name) := by
  unfold ifaceData
  simp only [List.map_map]
  have := foldl_append_map (σ := Registry) (fun r m => (methodData r (i.typeParams.map (·.1)) m |>.1, (m.name, (methodData r (i.typeParams.map (·.1)) m).2)))
    (fun (x : String × (Scope × List VarOut × Nat)) => x.1) (fun (m : MethodIn) => m.name)
    (by intro s a; rfl) i.methods reg []
  simp only [List.map_nil, List.nil_append] at this
  rw [← this]
  congr 1


/-! ### signatures -/

/-- **identical parameter types, variadic-ness and result types**: the record of a method has as many
parameters and results as the source method, in order; each is printed from the source type (or its
configured replacement), only the last parameter of a variadic method is flagged variadic. -/
theorem signature_exact (reg : Registry) (tps : List String) (m : MethodIn) :
    let o := finishMethod m.name (methodData reg tps m).2
    o.name = m.name ∧ o.params.length = m.params.length ∧ o.results.length = m.results.length ∧
    Pointwise VarMatches (o.params ++ o.results) (paramsFlagged m ++ m.results.map (fun v => (v, false))) := by
  obtain ⟨hnp, hf⟩ := methodData_vars reg tps m
  have hlen := hf.length_eq
  simp only [List.length_append, List.length_map, paramsFlagged_length] at hlen
  generalize hmd : (methodData reg tps m).2 = x at *
  obtain ⟨scope, vars, np⟩ := x
  simp only at hnp hf hlen
  subst hnp
  have hc := C14.finishMethod_counts m.name scope vars m.params.length (by omega)
  refine ⟨hc.1, hc.2.1, by rw [hc.2.2]; omega, ?_⟩
  simp only [finishMethod, List.take_append_drop]
  exact pointwise_transport (resolve_pointwise scope vars) hf

/-- with C14: reading the emitted type string back through any left inverse of the qualifier map gives the source type -/
theorem emitted_type_reads_back (q inv : String → String) (t : GoType)
    (h : ∀ p ∈ pkgsOf t, inv (q p.1) = p.1) : qualifyT inv (qualifyT q t) = t :=
  C14.resolve_qualify q inv t h

/-- non-vacuity: a variadic method with a foreign parameter type and two results -/
example :
    let m : MethodIn := ⟨"Do", [⟨"ctx", .named "context" "context" "Context" .defined [] false false, none⟩,
      ⟨"xs", .slice (.basic "int"), none⟩], [⟨"", .basic "string", none⟩, ⟨"", .universe "error" .defined, none⟩], true⟩
    let o := finishMethod m.name (methodData ({ dstPkgPath := "p", inPackage := false, imports := [] } : Registry) ["T"] m).2
    (o.params.map (fun v => (v.typeString, v.variadic)), o.results.map (·.typeString)) =
      ([("context.Context", false), ("[]int", true)], ["string", "error"]) := by decide


/-! ### the method set (`go/types`: `Complete`) -/

/-- **the full method set**: every method declared by the interface or – through any depth of embedding –
by an embedded interface (`allMethods` walks the whole declaration tree) is in the method set handed to
the generator; nothing else is; a method reached along several paths is there once; the set is sorted by
name (the order the mock's methods are emitted in). -/
theorem method_set_exact (d : IfaceDecl) :
    (∀ m ∈ allMethods d, m.name ∈ names (methodSet d)) ∧ (∀ x ∈ methodSet d, x ∈ allMethods d) ∧
    (names (methodSet d)).Nodup ∧ SortedByName (methodSet d) :=
  ⟨methodSet_complete d, methodSet_sound d, methodSet_distinct d, methodSet_sorted d⟩

/-- methods of an embedded interface are promoted, whatever it embeds itself -/
theorem embedded_methods_promoted (d e : IfaceDecl) (he : e ∈ d.embeds) (m : MethodSig) (hm : m ∈ allMethods e) :
    m.name ∈ names (methodSet d) :=
  methodSet_complete d m (mem_allMethods_embedded d e m he hm)

/-- non-vacuity: two levels of embedding with a diamond (`M` is reached directly and through `RC`) -/
example :
    let i : IfaceDecl := .mk [⟨"M", .basic ""⟩] []
    let closer : IfaceDecl := .mk [⟨"Close2", .basic ""⟩] []
    let rc : IfaceDecl := .mk [⟨"Flush2", .basic ""⟩] [i, closer]
    names (methodSet (.mk [⟨"Put", .basic ""⟩, ⟨"Apply", .basic ""⟩] [rc, i])) = ["Apply", "Close2", "Flush2", "M", "Put"] := by
  decide

end Mockery.C02
