import MockeryModel.Gen.Data
import MockeryLemmas.Types
import MockeryModel.Generated.TypeSwitchFacts
import MockeryModel.Go.TypeSwitchText
import MockeryLemmas.Accessors
/-!
# C14 — Data handed to custom templates describes the interfaces faithfully

Property theorems only.  Quantification: every Go type tree (all constructors,
any nesting), every registry state, every scope, every list of variables.
-/
namespace Mockery.C14
open Mockery.Go Mockery.Gen Mockery

/-- **Imports closed**: after a variable of type `t` is added, the variable's import table has an
entry for every package `t` mentions – every qualifier its type string needs is defined. -/
theorem imports_closed (r : Registry) (t : GoType) (p : String × String) (hp : p ∈ pkgsOf t) :
    p.1 ∈ (addImports r (pkgsOf t)).2.map (·.1) := by
  rw [addImports_paths]
  exact List.mem_map.2 ⟨p, hp, rfl⟩

/-- **Type strings denote the source type**: writing a type with qualifiers and reading it back
under *any* left inverse of the qualifier map (what a Go file importing the reported imports under
the reported qualifiers does) gives the original type – for every constructor, at any depth. -/
theorem resolve_qualify (q inv : String → String) (t : GoType)
    (h : ∀ p ∈ pkgsOf t, inv (q p.1) = p.1) : qualifyT inv (qualifyT q t) = t :=
  resolve_qualifyT q inv t h

/-- the same for whole parameter / result lists (signatures) -/
theorem resolve_qualify_signature (q inv : String → String) (ps : List (String × GoType))
    (h : ∀ p ∈ pkgsF ps, inv (q p.1) = p.1) : qualifyF inv (qualifyF q ps) = ps :=
  resolve_qualifyF q inv ps h

/-- qualifying does not change the shape: variadic-ness, arity and names of a signature are kept -/
theorem qualify_keeps_shape (q : String → String) (ps rs : List (String × GoType)) (v : Bool) :
    qualifyT q (.func ps rs v) = .func (qualifyF q ps) (qualifyF q rs) v := by simp [qualifyT]

theorem qualifyF_length (q : String → String) : ∀ ps : List (String × GoType), (qualifyF q ps).length = ps.length
  | [] => rfl
  | (_, _) :: ps => by simp [qualifyF, qualifyF_length q ps]

theorem qualifyF_names (q : String → String) : ∀ ps : List (String × GoType), (qualifyF q ps).map (·.1) = ps.map (·.1)
  | [] => rfl
  | (_, _) :: ps => by simp [qualifyF, qualifyF_names q ps]

/-- **Names offered are pairwise distinct and capture nothing that is visible in the scope**: after
collision resolution the variables' names are duplicate-free and none of them equals a name that was
visible before (import qualifiers, whole type strings, names a template added). -/
theorem names_distinct_and_fresh (scope : Scope) (vars : List VarOut) :
    ((resolveCollisions scope vars).2.map (·.name)).Nodup ∧
    ∀ n ∈ (resolveCollisions scope vars).2.map (·.name), n ∉ scope.names :=
  ⟨(resolveCollisions_names scope vars).1, (resolveCollisions_names scope vars).2.1⟩

/-- every variable is kept, in order, with its type string and flags untouched by renaming -/
theorem resolve_keeps_variables (scope : Scope) : ∀ (vars : List VarOut),
    (resolveCollisions scope vars).2.map (fun v => (v.typeString, v.nillable, v.isSlice, v.variadic)) =
      vars.map (fun v => (v.typeString, v.nillable, v.isSlice, v.variadic))
  | [] => rfl
  | v :: vs => by
    simp only [resolveCollisions, List.map_cons]
    rw [resolve_keeps_variables (scope.addName (scope.suggest v.name)) vs]

/-- the allocated names stay reserved: a template asking the scope for a fresh name afterwards cannot
get one of the parameter names -/
theorem names_reserved (scope : Scope) (vars : List VarOut) (n : String)
    (hn : n ∈ (resolveCollisions scope vars).2.map (·.name)) :
    n ∈ (resolveCollisions scope vars).1.names :=
  (resolveCollisions_names scope vars).2.2.2.2 n hn

/-- **Every method exactly once, parameters then results, counts preserved.** -/
theorem finishMethod_counts (name : String) (scope : Scope) (vars : List VarOut) (np : Nat) (h : np ≤ vars.length) :
    (finishMethod name (scope, vars, np)).name = name ∧
    (finishMethod name (scope, vars, np)).params.length = np ∧
    (finishMethod name (scope, vars, np)).results.length = vars.length - np := by
  have hl := (resolveCollisions_names scope vars).2.2.1
  simp only [finishMethod]
  refine ⟨trivial, ?_, ?_⟩
  · simp [List.length_take, hl]; omega
  · simp [List.length_drop, hl]

/-- variadic-ness is carried by the last parameter only -/
theorem variadic_last_only (m : MethodOut) :
    m.isVariadic = (match m.params.getLast? with | some p => p.variadic | none => false) := rfl

/-- the list accessors are the per-variable accessors joined in order (declarations, type lists,
call lists, result lists are all functions of the same variables) -/
theorem accessor_lists (m : MethodOut) :
    m.argTypeList = joinComma (m.params.map (·.typeString)) ∧
    m.argList = joinComma (m.params.map VarOut.methodArg) ∧
    m.argCallList true = joinComma (m.params.map (·.callName true)) ∧
    m.returnArgList = joinComma (m.results.map (fun p => p.name ++ " " ++ p.typeString)) := ⟨rfl, rfl, rfl, rfl⟩

/-- non-vacuity: a nested type under an aliased qualifier, and its inverse reading -/
example :
    typeString (fun p => if p == "net/http" then "http0" else p)
      (.map (.basic "string") (.slice (.named "net/http" "http" "Request" .defined [] false false))) =
      "map[string][]http0.Request" := by decide

/-- the type switches the model's walks over the type AST were written against (`populateImportsHelper`: which
children of every type constructor are searched for imports, `populateImportNamedType`, `nillable`,
`varNameForType`) are the current source's, case by case and in source order -/
theorem type_switches_transcribed :
    Generated.populateImportsCases = Go.SwitchText.expectedPopulateImportsCases ∧
    Generated.populateImportsCasesAfter = Go.SwitchText.expectedPopulateImportsCasesAfter ∧
    Generated.populateImportNamedTypeBody = Go.SwitchText.expectedPopulateImportNamedTypeBody ∧
    Generated.nillableCases = Go.SwitchText.expectedNillableCases ∧
    Generated.nillableCasesAfter = Go.SwitchText.expectedNillableCasesAfter ∧
    Generated.varNameForTypeCases = Go.SwitchText.expectedVarNameForTypeCases ∧
    Generated.varNameForTypeCasesAfter = Go.SwitchText.expectedVarNameForTypeCasesAfter := by
  exact ⟨rfl, rfl, rfl, rfl, rfl, rfl, rfl⟩

open Mockery.Gen.AccessorsEq Mockery.Generated in
/-- **the string accessors of the model are the source's**: `Generated/Accessors.lean` is written on every run by a
translator (harness/verifx/gostrings.go) from the Go text of every `Param` and `Method` accessor, statement by
statement (`strings.Join`, `strings.Replace(…, 1)`, slicing and indexing are the small prelude `Go/StrPrelude.lean`).
For every method of the model, each accessor of `Gen/Data.lean` – the strings the theorems above are about and the
templates are rendered from – equals the translated function -/
theorem accessors_are_the_translated_source (m : MethodOut) :
    Accessors.Method.ArgList (toMethod m) = m.argList ∧
    Accessors.Method.ArgTypeList (toMethod m) = m.argTypeList ∧
    Accessors.Method.ArgTypeListEllipsis (toMethod m) = m.argTypeListEllipsis ∧
    Accessors.Method.ArgCallList (toMethod m) = m.argCallList true ∧
    Accessors.Method.ArgCallListNoEllipsis (toMethod m) = m.argCallList false ∧
    Accessors.Method.ReturnArgTypeList (toMethod m) = m.returnArgTypeList ∧
    Accessors.Method.ReturnArgNameList (toMethod m) = m.returnArgNameList ∧
    Accessors.Method.ReturnArgList (toMethod m) = m.returnArgList ∧
    Accessors.Method.Signature (toMethod m) = m.signature ∧
    Accessors.Method.Declaration (toMethod m) = m.declaration ∧
    Accessors.Method.Call (toMethod m) = m.call ∧
    Accessors.Method.IsVariadic (toMethod m) = m.isVariadic ∧
    Accessors.Method.AcceptsContext (toMethod m) = m.acceptsContext ∧
    Accessors.Method.ReturnsError (toMethod m) = m.returnsError :=
  ⟨argList_eq m, argTypeList_eq m, argTypeListEllipsis_eq m, argCallListTrue_eq m, argCallListNoEllipsis_eq m,
   returnArgTypeList_eq m, returnArgNameList_eq m, returnArgList_eq m, signature_eq m, declaration_eq m, call_eq m,
   isVariadic_eq m, acceptsContext_eq m, returnsError_eq m⟩

open Mockery.Gen.AccessorsEq Mockery.Generated in
/-- and so do the per-parameter accessors -/
theorem param_accessors_are_the_translated_source (v : VarOut) (ellipsis : Bool) :
    Accessors.Param.MethodArg (toParam v) = v.methodArg ∧
    Accessors.Param.CallName (toParam v) ellipsis = v.callName ellipsis ∧
    Accessors.Param.TypeStringEllipsis (toParam v) = v.typeStringEllipsis ∧
    Accessors.Param.TypeStringVariadicUnderlying (toParam v) = v.typeStringVariadicUnderlying :=
  ⟨methodArg_eq v, callName_eq v ellipsis, typeStringEllipsis_eq v, typeStringVariadicUnderlying_eq v⟩

end Mockery.C14
