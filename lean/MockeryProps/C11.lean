import MockeryModel.Config.Resolve
import MockeryModel.Generated.ResolveFacts
import MockeryLemmas.Resolve
import MockeryLemmas.ResolveT
/-!
# C11 — Templated config values resolve correctly, to a fixpoint, and always terminate

Property theorems only.  The loop theorems hold for **every** rendering
function (any template language, any function library); the binding theorems
are about `bind`, the model of the data `ParseTemplates` builds, and about the
facts regenerated from `ParseTemplates` itself on every run.
-/
namespace Mockery.C11
open Mockery.Config Mockery.Tmpl Mockery

/-! ## regenerated facts about `ParseTemplates` -/

/-- the model's cap is the one in the code -/
theorem cap_matches_code : iterationCap = Generated.parseTemplatesCap := by decide

/-- the loop has the shape the model transcribes: counted from zero, continues while a change was
made, and the capped branch returns the infinite-loop error -/
theorem loop_shape :
    Generated.parseTemplatesLoop = "i := 0; changesMade; i++ / if i >= 20 → return ErrInfiniteLoop" := by decide

/-- exactly the five documented parameters are templated -/
theorem templated_parameters :
    Generated.templatedParams =
      ["dir=c.Dir", "filename=c.FileName", "pkgname=c.PkgName", "structname=c.StructName",
       "template-schema=c.TemplateSchema"] := by decide

/-- each documented variable is bound, and bound to the expression the model transcribes -/
theorem bindings_in_code :
    Generated.templateBindings = [
      ("ConfigDir", "filepath.Dir(*c.ConfigFile)"), ("InterfaceDir", "interfaceDir"),
      ("InterfaceDirRelative", "interfaceDirRelative"), ("InterfaceFile", "interfaceFile"),
      ("InterfaceName", "interfaceName"), ("Mock", "mock"), ("StructName", "*c.StructName"),
      ("SrcPackageName", "srcPkg.Types.Name()"), ("SrcPackagePath", "srcPkg.Types.Path()"),
      ("Template", "*c.Template")] := by decide

/-! ## the fixpoint loop, for every rendering function -/

/-- **Termination**: the loop performs at most `cap` rounds, whatever the values and the
rendering function do. -/
theorem resolve_terminates (render : String → Except RErr String) (vs : List String) :
    loopRounds render iterationCap vs ≤ iterationCap := loopRounds_le render _ vs

/-- **Fixpoint**: a successful resolution is stable – rendering the result once more changes nothing. -/
theorem resolve_ok_is_fixpoint (render : String → Except RErr String) (vs out : List String)
    (h : resolve render vs = .ok out) : round render out = .ok (out, false) :=
  loop_ok_is_fixpoint h

/-- **Values may refer to other templated values**: whatever stabilises after `k < cap` rounds
is returned, fully rendered (`k+1` rounds: the last one confirms nothing changes). -/
theorem resolve_reaches_fixpoint (render : String → Except RErr String) (f : String → String)
    (hr : ∀ v, render v = .ok (f v)) (k : Nat) (vs : List String) (hk : k < iterationCap)
    (hch : ∀ j, j < k → (iter f j vs).any (fun v => f v != v) = true)
    (hstab : (iter f k vs).any (fun v => f v != v) = false) :
    resolve render vs = .ok (iter f (k+1) vs) :=
  loop_stabilises render f hr k iterationCap vs hk hch hstab

/-- **Never a truncated result**: values that have not stabilised when the cap is reached
yield the infinite-loop error, not a half-rendered value. -/
theorem cycle_is_error (render : String → Except RErr String) (f : String → String)
    (hr : ∀ v, render v = .ok (f v)) (vs : List String)
    (hch : ∀ j, j < iterationCap → (iter f j vs).any (fun v => f v != v) = true) :
    resolve render vs = .error .infiniteLoop :=
  loop_never_stabilising render f hr iterationCap vs hch

/-- the only way to get a value is through a stable round: `resolve` returns either an
error or a fixpoint (no third possibility) -/
theorem resolve_error_or_fixpoint (render : String → Except RErr String) (vs : List String) :
    (∃ e, resolve render vs = .error e) ∨ (∃ out, resolve render vs = .ok out ∧ round render out = .ok (out, false)) := by
  cases h : resolve render vs with
  | error e => exact Or.inl ⟨e, rfl⟩
  | ok out => exact Or.inr ⟨out, rfl, resolve_ok_is_fixpoint render vs out h⟩

/-- **Order independence of a round**: the parameters are rendered against fixed data, so the
(unspecified) order in which the real code visits them cannot matter – a round over any
permutation gives the permuted values and the same "changed" flag. -/
theorem round_order_independent (render : String → Except RErr String) (f : String → String)
    (hr : ∀ v, render v = .ok (f v)) (vs ws : List String) (hp : vs.Perm ws) :
    ∃ a b flag, round render vs = .ok (a, flag) ∧ round render ws = .ok (b, flag) ∧ a.Perm b := by
  refine ⟨vs.map f, ws.map f, vs.any (fun v => f v != v), round_eq_map render f vs (fun v _ => hr v), ?_, hp.map f⟩
  rw [round_eq_map render f ws (fun v _ => hr v)]
  congr 2
  exact (hp.any_eq).symm

/-- a value that fails to render fails the round in every order -/
theorem round_fails_in_any_order (render : String → Except RErr String) (vs : List String) (v : String) (e : RErr)
    (hv : v ∈ vs) (he : render v = .error e) (ws : List String) (hp : vs.Perm ws) :
    (∃ e', round render vs = .error e') ∧ (∃ e', round render ws = .error e') :=
  ⟨round_error_of_mem render vs v e hv he, round_error_of_mem render ws v e (hp.mem_iff.1 hv) he⟩

/-! ## bindings -/

def getVar (env : Env) (k : String) : Option Bytes := (env.find? (·.1 == k)).map (·.2)

/-- every documented variable is bound -/
theorem all_variables_bound (b : BindInput) :
    ["ConfigDir", "InterfaceDir", "InterfaceDirRelative", "InterfaceFile", "InterfaceName", "Mock",
     "StructName", "SrcPackageName", "SrcPackagePath", "Template"].all
      (fun k => (getVar (bind b) k).isSome) = true := by
  simp [Config.bind, getVar, List.find?]

/-- `Mock` is "Mock" for exported interfaces and "mock" otherwise -/
theorem mock_by_exportedness (b : BindInput) (i : IfaceInfo) (h : b.iface = some i) :
    getVar (bind b) "Mock" = some (sb (if b.exported then "Mock" else "mock")) := by
  simp [Config.bind, getVar, List.find?, h]

theorem interface_bindings (b : BindInput) (i : IfaceInfo) (h : b.iface = some i) :
    getVar (bind b) "InterfaceName" = some (sb i.name) ∧
    getVar (bind b) "InterfaceFile" = some (sb i.file) ∧
    getVar (bind b) "InterfaceDir" = some (dir (sb i.file)) := by
  simp [Config.bind, getVar, List.find?, h]

theorem package_and_config_bindings (b : BindInput) :
    getVar (bind b) "SrcPackageName" = some (sb b.srcPkgName) ∧
    getVar (bind b) "SrcPackagePath" = some (sb b.srcPkgPath) ∧
    getVar (bind b) "Template" = some (sb b.template) ∧
    getVar (bind b) "StructName" = some (sb b.structName) ∧
    getVar (bind b) "ConfigDir" = some (dir (sb b.configFile)) := by
  simp [Config.bind, getVar, List.find?]

/-- `InterfaceDirRelative` is the interface directory relative to the **working directory**
(and "." when the interface lies outside it).  The documentation says "relative to the
ConfigDir"; the two agree exactly when the run starts in the config file's directory
(`_partial`: known finding C11-K1 for the other layouts). -/
theorem interfaceDirRelative_partial (b : BindInput) (i : IfaceInfo) (h : b.iface = some i) :
    getVar (bind b) "InterfaceDirRelative" = some ((relativeTo (dir (sb i.file)) (sb b.cwd)).getD [dot]) := by
  simp [Config.bind, getVar, List.find?, h]

/-- witness for the deviation: config in /m, run from /m/sub, interface in /m/sub/deep →
`deep`, where the documented meaning (relative to ConfigDir) is `sub/deep` -/
theorem interfaceDirRelative_witness :
    let cwdRel := relativeTo [0x2F,0x6D,0x2F,0x73,0x75,0x62,0x2F,0x64,0x65,0x65,0x70] [0x2F,0x6D,0x2F,0x73,0x75,0x62]
    let cfgRel := relativeTo [0x2F,0x6D,0x2F,0x73,0x75,0x62,0x2F,0x64,0x65,0x65,0x70] [0x2F,0x6D]
    cwdRel = some [0x64,0x65,0x65,0x70] ∧ cfgRel = some [0x73,0x75,0x62,0x2F,0x64,0x65,0x65,0x70] := by decide

/-- non-vacuity of the loop theorems: a reference chain that needs two rounds, and a self-growing
value that hits the cap -/
example :
    let f : String → String := fun v => if v == "A" then "B" else if v == "B" then "C" else v
    resolve (fun v => .ok (f v)) ["A", "x"] = .ok ["C", "x"] := by rfl
example : resolve (fun v => .ok (v ++ "x")) ["a"] = .error .infiniteLoop := by rfl


/-! ## one parameter of a round is the translated source -/

/-- **model = translation** (the inner loop of `Config.ParseTemplates`, translated from config/config.go on every run): the
treatment of one templated parameter in a round – parse, execute, store what was rendered, note a change – is the
interpretation of the translated loop body; a failure of either call ends the round with that error and leaves the value
alone. (`render` fails only the way the two calls can fail.) -/
theorem round_step_is_the_translated_source (render : String → Except RErr String) (v : String) (vs : List String)
    (herr : ∀ e, render v = .error e → e = .parse ∨ e = .exec) :
    let r := render v
    let st := runParam (renderedOf r) v
      (Generated.Merge.parseTemplatesEntryEffects (parsedFlag r) (executedFlag r) (renderedOf r != v))
    round render (v :: vs) =
      match st.err with
      | some e => .error e
      | none => match round render vs with
        | .error e => .error e
        | .ok (vs', ch) => .ok (st.value :: vs', ch || st.changes) :=
  round_cons_translated render v vs herr

/-- the translated loop body, spelled out -/
example : Generated.Merge.parseTemplatesEntryEffects none (some ()) true = ["error: parse"] ∧
    Generated.Merge.parseTemplatesEntryEffects (some ()) none true = ["error: execute"] ∧
    Generated.Merge.parseTemplatesEntryEffects (some ()) (some ()) true = ["store rendered", "changesMade := true"] ∧
    Generated.Merge.parseTemplatesEntryEffects (some ()) (some ()) false = ["store rendered"] := by decide


/-- **model = translation** (the outer loop of `Config.ParseTemplates`): with `fuel` rounds left before the cap of 20 the
loop does what the translated loop body says – at the cap it ends with `ErrInfiniteLoop` (never a truncated result),
otherwise it clears the flag, makes one round over the templated parameters and goes on exactly when that round changed
a value -/
theorem loop_step_is_the_translated_source (render : String → Except RErr String) (fuel : Nat) (vs : List String) :
    (Generated.Merge.parseTemplatesRoundEffects (fuel == 0) = ["error: infinite loop"] ∧ fuel = 0 ∧
        loop render fuel vs = .error .infiniteLoop) ∨
    (Generated.Merge.parseTemplatesRoundEffects (fuel == 0) = ["changesMade := false", "range templateMap"] ∧
      ∃ f, fuel = f + 1 ∧
        loop render fuel vs = match round render vs with
          | .error e => .error e
          | .ok (vs', ch) => if ch then loop render f vs' else .ok vs') :=
  loop_step_translated render fuel vs

end Mockery.C11
