import MockeryModel.Gen.Header
import MockeryModel.Generated.HeaderFacts
import MockeryModel.Generated.Helpers
import MockeryLemmas.Header
/-!
# C17 — generated-file marker, boilerplate and build constraints are effective

Property theorems only.  The header block of each built-in template is translated from
the template text on every run (`Generated.testifyHeader`, `Generated.matryerHeader`);
`header_transcribed` ties it to `builtinHeader`, about which the theorems speak.  The
reader of the header is a model of `go/build.parseFileHeader` (`scan`).
-/
namespace Mockery.C17
open Mockery.Gen

/-- the templates' header blocks are the modelled one; `readFile` returns the file's bytes unchanged -/
theorem header_transcribed :
    Generated.testifyHeader = builtinHeader testifyMarker ∧
    Generated.matryerHeader = builtinHeader matryerMarker ∧
    Generated.readFileReturns = ["\"\", nil", "\"\", err", "string(fileBytes), nil"] ∧
    Generated.readFileLines = 7 := ⟨rfl, rfl, by decide, by decide⟩

/-- **`readFile` is the translated source**: what the header model renders for `{{ index .TemplateData k | readFile }}`
is the value of the translation of `template_funcs.ReadFile` (`Generated/Helpers.lean`, rewritten from the Go text on
every run) on the configured path, with `os.ReadFile` returning the file's content: the empty path gives the empty
string without touching the file system, any other path the content unchanged -/
theorem readFile_is_the_translated_source (env : HeaderEnv) (k : String) (p : List Char) (h : env.data k = some p) :
    Generated.Helpers.readFile [] (fun q => some (env.file q)) id p = .ok (renderItem env (.readFile k)) := by
  cases p with
  | nil => simp [Generated.Helpers.readFile, renderItem, h]; rfl
  | cons c cs =>
    have hne : ((c :: cs) == ([] : List Char)) = false := rfl
    simp [Generated.Helpers.readFile, renderItem, h, hne]; rfl

/-- an unreadable file is an error of the template call, never an empty boilerplate -/
theorem readFile_failure_is_error (c : Char) (cs : List Char) :
    Generated.Helpers.readFile (B := List Char) [] (fun _ => none) id (c :: cs) = .error "read" := by
  have hne : ((c :: cs) == ([] : List Char)) = false := rfl
  simp [Generated.Helpers.readFile, hne]; rfl

/-! ### the rendered header -/

/-- **the header, spelled out**: marker block, then (if configured) a newline and the boilerplate file's
content verbatim, then (if configured) a blank line and the constraint line, then a blank line and the
package clause -/
theorem rendered (env : HeaderEnv) (marker : String) :
    renderHeader env (builtinHeader marker) =
      marker.toList ++ boilerPart env ++ tagsPart env ++ "\n\npackage ".toList ++ env.pkgName ++ ['\n'] := by
  simp only [renderHeader, builtinHeader, renderItems, renderItem, boilerPart, tagsPart, truthy]
  cases hb : env.data "boilerplate-file" with
  | none => cases ht : env.data "mock-build-tags" with
    | none => simp
    | some t => cases t <;> simp
  | some b => cases b with
    | nil => cases ht : env.data "mock-build-tags" with
      | none => simp
      | some t => cases t <;> simp
    | cons c p => cases ht : env.data "mock-build-tags" with
      | none => simp
      | some t => cases t <;> simp

/-- **boilerplate verbatim**: the file's content appears unchanged, starting at the beginning of a line
directly after the marker block, and is followed by a line break; nothing but comments precedes it -/
theorem boilerplate_verbatim (env : HeaderEnv) (marker : String) (c : Char) (p : List Char)
    (hb : env.data "boilerplate-file" = some (c :: p)) :
    ∃ post, renderHeader env (builtinHeader marker) =
      (marker.toList ++ ['\n']) ++ env.file (c :: p) ++ ('\n' :: post) := by
  rw [rendered]
  simp only [boilerPart, hb, tagsPart]
  cases ht : env.data "mock-build-tags" with
  | none => exact ⟨"\npackage ".toList ++ env.pkgName ++ ['\n'], by simp⟩
  | some t => cases t with
    | nil => exact ⟨"\npackage ".toList ++ env.pkgName ++ ['\n'], by simp⟩
    | cons d t => exact ⟨"\n//go:build ".toList ++ (d :: t) ++ "\n\npackage ".toList ++ env.pkgName ++ ['\n'], by simp⟩

/-! ### the marker -/

/-- **the first line of every generated file is a generated-code marker**, whatever the configuration -/
theorem marker_first (env : HeaderEnv) (marker : String) (hm : marker = testifyMarker ∨ marker = matryerMarker) :
    firstLine (renderHeader env (builtinHeader marker)) = markerLine ∧ isGeneratedMarker markerLine = true := by
  refine ⟨?_, by decide⟩
  rw [rendered]
  have hsplit : ∃ rest, marker.toList = markerLine ++ '\n' :: rest := by
    rcases hm with rfl | rfl
    · exact ⟨"// github.com/vektra/mockery\n// template: testify".toList, by decide⟩
    · exact ⟨"// github.com/vektra/mockery\n// template: matryer".toList, by decide⟩
  obtain ⟨rest, hr⟩ := hsplit
  rw [hr]
  simp only [List.append_assoc, List.cons_append]
  exact firstLine_append _ _ (by decide)

/-! ### the header as the toolchain reads it -/

/-- both marker blocks are line comments: read from the top of the file they leave the scanner clean -/
theorem marker_is_comment (marker : String) (hm : marker = testifyMarker ∨ marker = matryerMarker) :
    scan (marker.toList ++ ['\n']) clean = clean := by
  rcases hm with rfl | rfl <;> decide

theorem scan_prefix (env : HeaderEnv) (marker : String) (hm : marker = testifyMarker ∨ marker = matryerMarker)
    (hb : BoilerplateOK env) (rest : List Char) :
    scan (marker.toList ++ boilerPart env ++ '\n' :: rest) clean = scan rest clean := by
  unfold BoilerplateOK at hb
  unfold boilerPart
  split at hb
  · rename_i c p hbp
    have e : marker.toList ++ '\n' :: env.file (c :: p) ++ '\n' :: rest =
        (marker.toList ++ ['\n']) ++ ((env.file (c :: p) ++ ['\n']) ++ rest) := by simp
    rw [e, scan_append, marker_is_comment marker hm, scan_append, hb]
  · rename_i hbp
    have e2 : marker.toList ++ [] ++ '\n' :: rest = (marker.toList ++ ['\n']) ++ rest := by simp
    rw [e2, scan_append, marker_is_comment marker hm]

/-- **the build constraint is effective**: with `mock-build-tags` set (no line break in it, not ending in
white space) and comment-only boilerplate, the toolchain's header reader finds exactly one `//go:build`
line, it is `//go:build <tags>`, and everything before the package clause is comments and blank lines
(the header ends at the package clause, not earlier). -/
theorem constraint_effective (env : HeaderEnv) (marker : String)
    (hm : marker = testifyMarker ∨ marker = matryerMarker)
    (t : List Char) (d : Char) (htags : env.data "mock-build-tags" = some (t ++ [d]))
    (hd : isSp d = false) (hnl : ∀ x ∈ t ++ [d], x ≠ '\n') (hpkg : ∀ x ∈ env.pkgName, x ≠ '\n')
    (hb : BoilerplateOK env) :
    scan (renderHeader env (builtinHeader marker)) clean =
      { clean with goBuild := some (constraintLine (t ++ [d])), done := true } := by
  rw [rendered]
  have htp : tagsPart env = '\n' :: '\n' :: constraintLine (t ++ [d]) := by
    unfold tagsPart
    rw [htags]
    have hl : "\n\n//go:build ".toList = ['\n', '\n', '/', '/', 'g', 'o', ':', 'b', 'u', 'i', 'l', 'd', ' '] := by decide
    cases t with
    | nil => simp [constraintLine, goBuildPrefix_eq, hl]
    | cons c t => simp [constraintLine, goBuildPrefix_eq, hl]
  have hpk : "\n\npackage ".toList = '\n' :: '\n' :: "package ".toList := by decide
  rw [htp, hpk]
  have e : marker.toList ++ boilerPart env ++ '\n' :: '\n' :: constraintLine (t ++ [d]) ++ '\n' :: '\n' :: "package ".toList ++
      env.pkgName ++ ['\n'] =
      marker.toList ++ boilerPart env ++ '\n' :: ('\n' :: (constraintLine (t ++ [d]) ++ '\n' :: '\n' :: ("package ".toList ++ env.pkgName ++ ['\n']))) := by
    simp
  rw [e, scan_prefix env marker hm hb, scan_tail_with t d env.pkgName hd hnl hpkg]

/-- without `mock-build-tags` the file carries no constraint of mockery's making (and is always built) -/
theorem no_tags_no_constraint (env : HeaderEnv) (marker : String)
    (hm : marker = testifyMarker ∨ marker = matryerMarker)
    (htags : env.data "mock-build-tags" = none ∨ env.data "mock-build-tags" = some [])
    (hpkg : ∀ x ∈ env.pkgName, x ≠ '\n') (hb : BoilerplateOK env) :
    scan (renderHeader env (builtinHeader marker)) clean = { clean with done := true } := by
  rw [rendered]
  have htp : tagsPart env = [] := by
    unfold tagsPart
    rcases htags with h | h <;> rw [h]
  have hpk : "\n\npackage ".toList = '\n' :: '\n' :: "package ".toList := by decide
  rw [htp, hpk]
  have e : marker.toList ++ boilerPart env ++ [] ++ '\n' :: '\n' :: "package ".toList ++ env.pkgName ++ ['\n'] =
      marker.toList ++ boilerPart env ++ '\n' :: ('\n' :: ("package ".toList ++ env.pkgName ++ ['\n'])) := by simp
  rw [e, scan_prefix env marker hm hb, scan_tail_without env.pkgName hpkg]

/-- **included exactly when the expression is satisfied** -/
theorem included_iff (e : BExpr) (tags : String → Bool) : included (some e) tags = e.eval tags := rfl

theorem eval_not (e : BExpr) (tags : String → Bool) : (BExpr.not e).eval tags = !(e.eval tags) := rfl
theorem eval_and (a b : BExpr) (tags : String → Bool) : (BExpr.and a b).eval tags = (a.eval tags && b.eval tags) := rfl
theorem eval_or (a b : BExpr) (tags : String → Bool) : (BExpr.or a b).eval tags = (a.eval tags || b.eval tags) := rfl

/-! ### non-vacuity -/

/-- a licence header as line comments without a final newline, and as a block comment with one, are comment-only -/
example : CommentOnly "// Copyright © 2024 Müller GmbH\n// SPDX-License-Identifier: MIT".toList := by decide
example : CommentOnly "/*\n * Licensed under the Apache License\n */\n".toList := by decide
/-- code is not -/
example : ¬ CommentOnly "var x = 1".toList := by decide
/-- the whole header of a concrete configuration, read by the scanner -/
example :
    let env : HeaderEnv := ⟨fun k => if k == "boilerplate-file" then some "b.txt".toList else if k == "mock-build-tags" then some "a && !b".toList else none,
      fun _ => "// licence".toList, "mocks".toList⟩
    (scan (renderHeader env (builtinHeader testifyMarker)) clean).goBuild = some "//go:build a && !b".toList := by decide

end Mockery.C17
