import MockeryModel.Run.Pipeline
import MockeryModel.Config.Select
import MockeryLemmas.Pipeline
import MockeryProps.C07
/-!
# C06 — Generation is deterministic and idempotent

Property theorems only.  Go's map iteration order appears in the model as the
*order of the list* of output files (and, in C07, of recursive packages); the
theorems say that nothing observable depends on it.
-/
namespace Mockery.C06
open Mockery.Run Mockery.Config Mockery

/-- whether the per-file loop succeeds does not depend on the order in which files are handled -/
theorem loop_status_order_independent (a b : List FileJob) (fs : FS) (hp : a.Perm b)
    (hnd : (a.map (·.path)).Nodup) : (processJobs a fs).2 = (processJobs b fs).2 := by
  have hndb : (b.map (·.path)).Nodup := (hp.map _).nodup_iff.1 hnd
  have ha := processJobs_ok_iff a fs hnd
  have hb := processJobs_ok_iff b fs hndb
  cases h1 : (processJobs a fs).2 <;> cases h2 : (processJobs b fs).2 <;> try rfl
  · exfalso
    have := hb.1 h2
    have h3 := ha.2 (fun j hj => this j (hp.mem_iff.1 hj))
    rw [h1] at h3; cases h3
  · exfalso
    have := ha.1 h1
    have h3 := hb.2 (fun j hj => this j (hp.mem_iff.2 hj))
    rw [h2] at h3; cases h3

/-- **The exit status of a run is independent of the iteration order.** -/
theorem status_order_independent (early missing : Bool) (a b : List FileJob) (fs : FS) (hp : a.Perm b)
    (hnd : (a.map (·.path)).Nodup) : (run ⟨early, a, missing⟩ fs).2 = (run ⟨early, b, missing⟩ fs).2 := by
  unfold run
  cases early
  · simp only [Bool.false_eq_true, ↓reduceIte]
    rw [loop_status_order_independent a b fs hp hnd]
  · rfl

/-- **Every successful run leaves the same file system**, whatever the order: each output path
holds the content of its file, every other path is as before. -/
theorem success_result_order_independent (a b : List FileJob) (fs : FS) (hp : a.Perm b)
    (hnd : (a.map (·.path)).Nodup) (hok : (processJobs a fs).2 = true) (p : String) :
    (processJobs a fs).1 p = (processJobs b fs).1 p := by
  have hndb : (b.map (·.path)).Nodup := (hp.map _).nodup_iff.1 hnd
  have hokb : (processJobs b fs).2 = true := by rw [← loop_status_order_independent a b fs hp hnd]; exact hok
  by_cases hin : p ∈ a.map (·.path)
  · obtain ⟨j, hj, rfl⟩ := List.mem_map.1 hin
    rw [processJobs_success_content a fs hnd hok j hj,
        processJobs_success_content b fs hndb hokb j (hp.mem_iff.1 hj)]
  · have hinb : p ∉ b.map (·.path) := fun h => hin ((hp.map _).mem_iff.2 h)
    rw [processJobs_untouched a fs p hin, processJobs_untouched b fs p hinb]

/-- **Idempotence**: running again over a tree that already holds the previous output, with
overwriting enabled, succeeds and reproduces exactly the same file system. -/
theorem rerun_reproduces (jobs : List FileJob) (fs : FS) (hnd : (jobs.map (·.path)).Nodup)
    (hforce : ∀ j ∈ jobs, j.force = true) (hok : (processJobs jobs fs).2 = true) :
    (processJobs jobs (processJobs jobs fs).1).2 = true ∧
    ∀ p, (processJobs jobs (processJobs jobs fs).1).1 p = (processJobs jobs fs).1 p := by
  have hfirst := (processJobs_ok_iff jobs fs hnd).1 hok
  have hcontent := processJobs_success_content jobs fs hnd hok
  have hall : ∀ j ∈ jobs, jobOk (processJobs jobs fs).1 j = true := by
    intro j hj
    have h1 := hfirst j hj
    unfold jobOk at h1 ⊢
    simp only [Bool.and_eq_true] at h1 ⊢
    refine ⟨h1.1, ?_⟩
    rw [hcontent j hj]
    exact hforce j hj
  have hok2 := (processJobs_ok_iff jobs _ hnd).2 hall
  refine ⟨hok2, ?_⟩
  intro p
  by_cases hin : p ∈ jobs.map (·.path)
  · obtain ⟨j, hj, rfl⟩ := List.mem_map.1 hin
    rw [processJobs_success_content jobs _ hnd hok2 j hj, hcontent j hj]
  · rw [processJobs_untouched jobs _ p hin]

/-- the order in which recursive packages are expanded is a function of the *set* of
recursive packages, not of map iteration order (after `fix: nested recursive packages …`) -/
theorem recursive_expansion_order_deterministic (a b : List String) (h : a.Perm b) (hnd : a.Nodup) :
    recursiveOrder a = recursiveOrder b := C07.recursive_order_deterministic a b h hnd

/-- non-vacuity: two files in both orders -/
example :
    let fs : FS := fun _ => .absent
    let j1 : FileJob := ⟨"a", true, true, true, true, true, true, "A"⟩
    let j2 : FileJob := ⟨"b", true, true, true, true, true, true, "B"⟩
    (processJobs [j1, j2] fs).2 = true ∧ (processJobs [j2, j1] fs).1 "a" = (processJobs [j1, j2] fs).1 "a" := by decide

end Mockery.C06
