import MockeryModel.Run.Pipeline
import MockeryModel.Config.Select
import MockeryModel.Config.Resolve
import MockeryLemmas.Pipeline
import MockeryLemmas.Select
import MockeryLemmas.Resolve
import MockeryLemmas.Plan
/-!
# C09 — Invalid or unsatisfiable input fails loudly: non-zero exit, never a crash

Property theorems only.  The run is a total function to (file system, status);
"crash" has no value in it: every failure of the modelled stages is a status-1
outcome.  The classes of invalid input enter the run model through the stage
that detects them (`earlyError`, a failing stage of an output file, `missing`);
the theorems below connect each class to its stage in the component models.
-/
namespace Mockery.C09
open Mockery.Run Mockery.Config Mockery

/-- **Status zero only if everything configured was generated and written**: no early error, no
missing interface, every output file passed every stage and holds its complete content. -/
theorem exit_zero_complete (i : RunInput) (fs : FS) (hnd : (i.jobs.map (·.path)).Nodup)
    (h : (run i fs).2 = true) :
    i.earlyError = false ∧ i.missing = false ∧
    ∀ j ∈ i.jobs, j.templateOk = true ∧ j.validateOk = true ∧ j.executeOk = true ∧ j.formatOk = true ∧
      (run i fs).1 j.path = .file j.content := by
  unfold run at h ⊢
  cases he : i.earlyError
  · simp only [he, Bool.false_eq_true, ↓reduceIte, Bool.and_eq_true, Bool.not_eq_true'] at h ⊢
    refine ⟨?_, h.2, ?_⟩
    · trivial
    intro j hj
    have hok := (processJobs_ok_iff i.jobs fs hnd).1 h.1 j hj
    have hc := processJobs_success_content i.jobs fs hnd h.1 j hj
    unfold jobOk FileJob.stagesOk at hok
    simp only [Bool.and_eq_true] at hok
    exact ⟨hok.1.1.1.1.1, hok.1.1.1.1.2, hok.1.1.1.2, hok.1.1.2, hc⟩
  · simp [he] at h

/-- each way of being invalid gives status 1 -/
theorem early_error_fails (i : RunInput) (fs : FS) (h : i.earlyError = true) : (run i fs).2 = false := by
  simp [run, h]

theorem missing_interface_fails (i : RunInput) (fs : FS) (h : i.missing = true) : (run i fs).2 = false := by
  unfold run; split <;> simp [h]

theorem failing_stage_fails (i : RunInput) (fs : FS) (hnd : (i.jobs.map (·.path)).Nodup) (j : FileJob) (hj : j ∈ i.jobs)
    (hfail : j.templateOk = false ∨ j.validateOk = false ∨ j.executeOk = false ∨ j.formatOk = false) :
    (run i fs).2 = false := by
  unfold run
  split
  · rfl
  · have hbad : jobOk fs j = false := by
      unfold jobOk FileJob.stagesOk
      rcases hfail with h | h | h | h <;> simp [h]
    simp [(processJobs_failed_job_untouched i.jobs fs hnd j hj hbad).1]

/-- a listed interface that does not exist is reported as missing (and only then) -/
theorem listed_but_absent_is_missing (pkgs : List (String × PkgOut)) (srcs : List SrcPkg)
    (path : String) (pc : PkgOut) (hp : (path, pc) ∈ pkgs) (name : String) (i : IfaceOut)
    (hl : (name, i) ∈ pc.interfaces)
    (habs : ∀ src ∈ srcs, src.path = path → name ∉ src.files.flatMap discover) :
    (path, name) ∈ missing pkgs srcs := by
  unfold missing
  simp only [List.mem_flatMap, List.mem_map, List.mem_filter]
  refine ⟨(path, pc), hp, (name, i), ⟨hl, ?_⟩, rfl⟩
  simp only
  cases hf : srcs.find? (·.path == path) with
  | none => simp
  | some src =>
    have hm := List.mem_of_find?_eq_some hf
    have hpth : src.path = path := by simpa using List.find?_some hf
    simp only [Bool.not_eq_true', List.contains_eq_mem, decide_eq_false_iff_not]
    exact habs src hm hpth

/-- an invalid include / exclude / sub-package expression is an error of the selection stage -/
theorem invalid_regex_is_error (m : Matcher) (inc exc name : String) (hi : inc ≠ "") (h : m inc name = none) :
    ∃ e, shouldGenerate m false false inc exc name = .error e := ⟨_, by simp [shouldGenerate, hi, h]; rfl⟩

theorem invalid_subpkg_regex_is_error (m : Matcher) (r : String) (rs : List String) (p : String) (h : m r p = none) :
    shouldExclude m (r :: rs) p = .error .subpkgRegex := by simp [shouldExclude, h]; rfl

/-- a cyclic (never stabilising) templated value is an error of template resolution -/
theorem cyclic_value_is_error (render : String → Except RErr String) (f : String → String)
    (hr : ∀ v, render v = .ok (f v)) (vs : List String)
    (hch : ∀ j, j < iterationCap → (iter f j vs).any (fun v => f v != v) = true) :
    resolve render vs = .error .infiniteLoop := loop_never_stabilising render f hr iterationCap vs hch

/-- an unknown configuration key, or a value of the wrong type, is an error of the strict decode -/
theorem unknown_key_is_error (ft : FieldTable) (k : String) (v : Val) (rest : Cfg) (h : kindOfKey ft k = none) :
    decode ft ((k, v) :: rest) = .error (.unknownKey k) := by
  simp [decode, checkEntry, h]

/-- the stages that detect an unknown template / formatter and a schema violation are part of
`Generate`, before anything is written (regenerated fact) -/
theorem detection_before_write :
    Generated.generateStages = ["getTemplate", "validateSchema", "New", "Execute", "format"] ∧
    Generated.runFileLoopCalls.getLast? = some "WriteFile" := by decide

/-- non-vacuity -/
example : (run ⟨false, [⟨"a", false, true, false, true, true, true, "A"⟩], false⟩ (fun _ => .absent)).2 = false := by decide
example : (run ⟨false, [⟨"a", false, true, true, true, true, true, "A"⟩], false⟩ (fun _ => .absent)).2 = true := by decide

/-! ## the whole run -/

/-- **end to end, success**: if a run exits 0 then no listed interface is missing and, for every selected
(package, interface, configs entry), the output file it resolves to passed every stage and holds the
complete rendered content of its collection -/
theorem end_to_end_exit_zero_writes_every_selected_mock (w : World) (t : Tree) (fs : FS)
    (hok : (endToEnd w t fs).2 = true) :
    ∃ pkgs mocks, initializeFull w.ft w.matcher w.subPkgs t = .ok pkgs ∧ selected w.matcher pkgs w.srcs = .ok mocks ∧
      (missing pkgs w.srcs).isEmpty = true ∧
      ∀ m ∈ mocks, ∃ pm c, planMock w.configFile w.cwd (w.srcOf m.pkg m.iface) m = .ok pm ∧ pm ∈ c.mocks ∧ c.path = pm.path ∧
        (w.render c).stagesOk = true ∧ (endToEnd w t fs).1 pm.path = .file (w.render c).content := by
  unfold endToEnd at hok ⊢
  cases hi : initializeFull w.ft w.matcher w.subPkgs t with
  | error e => simp [hi] at hok
  | ok pkgs =>
    cases hs : selected w.matcher pkgs w.srcs with
    | error e => simp [hi, hs] at hok
    | ok mocks =>
      cases hp : planAll w.configFile w.cwd w.srcOf mocks with
      | error e => simp [hi, hs, hp] at hok
      | ok planned =>
        cases hg : group planned with
        | error e => simp [hi, hs, hp, hg] at hok
        | ok cs =>
          simp only [hi, hs, hp, hg] at hok ⊢
          have inv := groupFrom_inv planned [] cs [] hg ⟨by simp, by simp, by simp, by simp⟩
          simp only [List.nil_append] at inv
          have hnd : ((cs.map (fun c => ({ w.render c with path := c.path } : FileJob))).map (·.path)).Nodup := by
            have : (cs.map (fun c => ({ w.render c with path := c.path } : FileJob))).map (·.path) = cs.map (·.path) := by
              simp [List.map_map, Function.comp]
            rw [this]; exact inv.nodup
          obtain ⟨_, hmiss, hjobs⟩ := exit_zero_complete _ fs hnd hok
          refine ⟨pkgs, mocks, rfl, hs, by simpa using hmiss, ?_⟩
          intro m hm
          obtain ⟨pm, hpm, hplan⟩ := planAll_complete _ _ _ mocks planned hp m hm
          obtain ⟨c, hc, hcp, hmc⟩ := inv.complete pm hpm
          have hj := hjobs ({ w.render c with path := c.path } : FileJob) (List.mem_map.2 ⟨c, hc, rfl⟩)
          refine ⟨pm, c, hplan, hmc, hcp, ?_, ?_⟩
          · have h1 : (w.render c).templateOk = true := hj.1
            have h2 : (w.render c).validateOk = true := hj.2.1
            have h3 : (w.render c).executeOk = true := hj.2.2.1
            have h4 : (w.render c).formatOk = true := hj.2.2.2.1
            simp [FileJob.stagesOk, h1, h2, h3, h4]
          · have h5 := hj.2.2.2.2
            rw [← hcp]
            exact h5


end Mockery.C09
