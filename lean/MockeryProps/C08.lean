import MockeryModel.Config.Sources
import MockeryLemmas.Merge
import MockeryLemmas.MergeT
import MockeryModel.Generated.RunFacts
/-!
# C08 — Configuration resolves hierarchically; the most specific setting wins

Property theorems only.  `ft` is the field table *regenerated from
`config/config.go`* on every run (`fieldTable`); the theorems quantify over all
configuration trees (any packages, interfaces, `configs` entries; any subset of
levels setting any parameter).
-/
namespace Mockery.C08
open Mockery.Config Mockery

/-! ## the regenerated field table -/

/-- Every field of `Config` is of a kind that `mergeConfigs` inherits: nothing is skipped. -/
theorem every_field_is_inherited : ∀ f ∈ fieldTable, f.2 ≠ Kind.other := by decide

theorem field_keys_unique : (fieldTable.map (·.1)).Nodup := by decide

/-- The parameters the property names are fields of the table, with the expected kind. -/
theorem named_parameters_present :
    [("dir", Kind.ptrString), ("filename", .ptrString), ("pkgname", .ptrString), ("structname", .ptrString),
     ("template", .ptrString), ("template-data", .anyMap), ("template-schema", .ptrString),
     ("require-template-schema-exists", .ptrBool), ("formatter", .ptrString), ("force-file-write", .ptrBool),
     ("replace-type", .typedMap), ("all", .ptrBool), ("include-interface-regex", .ptrString),
     ("exclude-interface-regex", .ptrString), ("recursive", .ptrBool), ("exclude-subpkg-regex", .strSlice)].all
      (fun p => fieldTable.contains p) = true := by decide

/-! ## most specific level wins -/

/-- One merge step, any whole-valued field: the more specific value if set, else the inherited one. -/
theorem merge_step (src dst : Cfg) (k : String) (kind : Kind) (hk : (k, kind) ∈ fieldTable)
    (hw : kind.whole = true) :
    (mergeConfigs fieldTable src dst).get k = firstSome [dst.get k, src.get k] := by
  rw [mergeConfigs_get fieldTable src dst k kind field_keys_unique hk, mergeField_whole kind hw]

theorem firstSome_cons (a : Option Val) (l : List (Option Val)) :
    firstSome (a :: l) = match a with | some v => some v | none => firstSome l := by
  cases a <;> rfl

/-- **Effective value of a `configs` entry** of a listed interface, for every
whole-valued parameter (everything except the key-wise merged maps): the value
set at the most specific of entry → interface `config` → package `config` → top level. -/
theorem effective_entry (root : Cfg) (pc : PkgCfg) (ic : IfaceCfg) (entry : Cfg)
    (k : String) (kind : Kind) (hk : (k, kind) ∈ fieldTable) (hw : kind.whole = true) :
    let pkgCfg := (initPkg fieldTable root (some pc)).config
    let out := initIface fieldTable pkgCfg (some { ic with configs := ic.configs ++ [entry] })
    ∃ e ∈ out.configs, e.get k =
      firstSome [entry.get k, (ic.config.getD []).get k, (pc.config.getD []).get k, root.get k] := by
  intro pkgCfg out
  refine ⟨mergeConfigs fieldTable (mergeConfigs fieldTable pkgCfg (ic.config.getD [])) entry, ?_, ?_⟩
  · simp only [out, initIface, Option.getD_some]
    have : (ic.configs ++ [entry]).isEmpty = false := by cases ic.configs <;> simp
    simp [this]
  · rw [merge_step _ _ k kind hk hw, merge_step _ _ k kind hk hw]
    simp only [pkgCfg, initPkg, Option.getD_some]
    rw [merge_step _ _ k kind hk hw]
    simp only [firstSome_cons]
    cases entry.get k <;> cases (ic.config.getD []).get k <;> cases (pc.config.getD []).get k <;>
      cases root.get k <;> rfl

/-- Every entry of `configs` gets exactly that resolution (not only the last one). -/
theorem effective_every_entry (cfg : Cfg) (entries : List Cfg) (hne : entries ≠ [])
    (k : String) (kind : Kind) (hk : (k, kind) ∈ fieldTable) (hw : kind.whole = true) :
    (initIface fieldTable cfg (some ⟨none, entries⟩)).configs.map (·.get k) =
      entries.map (fun e => firstSome [e.get k, cfg.get k]) := by
  have : entries.isEmpty = false := by cases entries <;> simp_all
  simp only [initIface, Option.getD_some, this, Bool.false_eq_true, ↓reduceIte, List.map_map]
  apply List.map_congr_left
  intro e _
  simp only [Function.comp]
  rw [merge_step _ _ k kind hk hw, merge_step _ _ k kind hk hw]
  simp [Option.getD, Cfg.get, firstSome_cons]
  cases e.get k <;> cases cfg.get k <;> rfl

/-- A listed interface without `configs`: its single entry is the interface
`config` resolved against package and top level. -/
theorem effective_iface_no_entries (root : Cfg) (pc : PkgCfg) (icfg : Option Cfg)
    (k : String) (kind : Kind) (hk : (k, kind) ∈ fieldTable) (hw : kind.whole = true) :
    let pkgCfg := (initPkg fieldTable root (some pc)).config
    (initIface fieldTable pkgCfg (some ⟨icfg, []⟩)).configs.map (·.get k) =
      [firstSome [(icfg.getD []).get k, (pc.config.getD []).get k, root.get k]] := by
  intro pkgCfg
  simp only [initIface, Option.getD_some, List.isEmpty_nil, ↓reduceIte, List.map_cons, List.map_nil]
  rw [merge_step _ _ k kind hk hw]
  simp only [pkgCfg, initPkg, Option.getD_some]
  rw [merge_step _ _ k kind hk hw]
  simp only [firstSome_cons]
  cases (icfg.getD []).get k <;> cases (pc.config.getD []).get k <;> cases root.get k <;> rfl

/-- An interface that is not listed (selected by `all` or a regex) gets the
package `config` resolved against the top level. -/
theorem effective_unlisted (root : Cfg) (pc : PkgCfg) (name : String)
    (hun : pc.interfaces.find? (·.1 == name) = none)
    (k : String) (kind : Kind) (hk : (k, kind) ∈ fieldTable) (hw : kind.whole = true) :
    (getInterfaceConfig (initPkg fieldTable root (some pc)) name).configs.map (·.get k) =
      [firstSome [(pc.config.getD []).get k, root.get k]] := by
  have : (initPkg fieldTable root (some pc)).interfaces.find? (·.1 == name) = none := by
    simp only [initPkg, Option.getD_some]
    rw [List.find?_map]
    simp only [Option.map_eq_none_iff]
    have : ((fun x : String × IfaceOut => x.1 == name) ∘ fun x : String × Option IfaceCfg =>
        (x.1, initIface fieldTable (mergeConfigs fieldTable root (pc.config.getD [])) x.2)) =
        (fun x => x.1 == name) := by funext x; rfl
    rw [this]; exact hun
  simp only [getInterfaceConfig, this, List.map_cons, List.map_nil]
  simp only [initPkg, Option.getD_some]
  rw [merge_step _ _ k kind hk hw]

/-! ## template-data: key by key, same precedence -/

/-- One level of keys: the more specific map's value wins; two nested maps are merged recursively;
a key only the less specific level has is inherited. -/
theorem template_data_keywise (src dst : KVs) (k : String) (h : (keys src).Nodup) :
    lookup k (mergeKVs src dst) =
      match lookup k dst, lookup k src with
      | some dv, some sv => some (mergeV sv dv)
      | some dv, none => some dv
      | none, s => s := lookup_merge_spec h

/-- At any key path: a scalar set at the more specific level is the effective one. -/
theorem template_data_specific_leaf_wins (p : List String) (src dst : KVs) (x : String)
    (hw : WF (.node src)) (h : getPath p (.node dst) = some (.leaf x)) :
    getPath p (.node (mergeKVs src dst)) = some (.leaf x) := getPath_merge_dest_leaf p src dst x hw h

/-- A top-level key the more specific level lacks is inherited with its whole subtree. -/
theorem template_data_inherited (k : String) (ks : List String) (src dst : KVs)
    (hw : (keys src).Nodup) (h : lookup k dst = none) :
    getPath (k :: ks) (.node (mergeKVs src dst)) = getPath (k :: ks) (.node src) :=
  getPath_merge_absent k ks src dst hw h

/-- No value is invented by merging. -/
theorem template_data_nothing_invented (p : List String) (src dst : KVs) (x : String)
    (hw : WF (.node src)) (h : getPath p (.node (mergeKVs src dst)) = some (.leaf x)) :
    getPath p (.node dst) = some (.leaf x) ∨ getPath p (.node src) = some (.leaf x) :=
  getPath_merge_leaf_origin p src dst x hw h

/-- The template-data field of a merged config is the key-wise merge of the two levels. -/
theorem template_data_field (src dst : Cfg) (s d : KVs)
    (hs : src.get "template-data" = some (.m s)) (hd : dst.get "template-data" = some (.m d)) :
    (mergeConfigs fieldTable src dst).get "template-data" = some (.m (mergeKVs s d)) := by
  rw [mergeConfigs_get fieldTable src dst "template-data" .anyMap field_keys_unique (by decide), hs, hd]
  rfl

/-! ## no leaks between siblings -/

/-- The resolved configuration of a package depends only on the top level and
that package's own subtree – whatever the other packages (before or after it) say. -/
theorem no_leak_between_packages (root : Cfg) (pre post : List (String × Option PkgCfg))
    (a : String × Option PkgCfg) :
    (initTree fieldTable ⟨root, pre ++ a :: post⟩)[pre.length]? = some (a.1, initPkg fieldTable root a.2) := by
  simp [initTree]

/-- Sibling interfaces and sibling entries: each is computed from its own chain only. -/
theorem no_leak_between_interfaces (root : Cfg) (pcfg : Option Cfg)
    (ifs ifs' : List (String × Option IfaceCfg)) (a : String × Option IfaceCfg) :
    (initPkg fieldTable root (some ⟨pcfg, a :: ifs⟩)).interfaces.head? =
    (initPkg fieldTable root (some ⟨pcfg, a :: ifs'⟩)).interfaces.head? := by
  simp [initPkg]

/-! ## sources: defaults < environment < file < flags -/

theorem get_setKey_same (c : Cfg) (k : String) (v : Val) : (setKey c k v).get k = some v := by
  induction c with
  | nil => simp [setKey, Cfg.get]
  | cons a as ih =>
    simp only [setKey]
    split
    · simp [Cfg.get]
    · rename_i h; simp [Cfg.get, h, ih]

theorem get_setKey_other (c : Cfg) (k k' : String) (v : Val) (h : k' ≠ k) : (setKey c k v).get k' = c.get k' := by
  induction c with
  | nil => simp [setKey, Cfg.get, Ne.symm h]
  | cons a as ih =>
    simp only [setKey]
    split
    · rename_i e; simp [Cfg.get, e, Ne.symm h]
    · by_cases e2 : a.1 = k' <;> simp [Cfg.get, e2, ih]

/-- a layer that does not mention `k` leaves it alone -/
theorem overlay_get_absent (base layer : Cfg) (k : String) (h : k ∉ layer.map (·.1)) :
    (overlay base layer).get k = base.get k := by
  unfold overlay
  induction layer generalizing base with
  | nil => rfl
  | cons a as ih =>
    simp only [List.map_cons, List.mem_cons, not_or] at h
    simp only [List.foldl_cons]
    rw [ih _ h.2, get_setKey_other _ _ _ _ h.1]

/-- a layer that sets a scalar `k` (once) overrides whatever was there -/
theorem overlay_get_scalar (base layer : Cfg) (k : String) (v : Val)
    (hnd : (layer.map (·.1)).Nodup) (hm : (k, v) ∈ layer) (hs : ∀ kvs, v ≠ .m kvs) :
    (overlay base layer).get k = some v := by
  unfold overlay
  induction layer generalizing base with
  | nil => cases hm
  | cons a as ih =>
    simp only [List.map_cons, List.nodup_cons] at hnd
    simp only [List.foldl_cons]
    rcases List.mem_cons.1 hm with e | hm'
    · subst e
      have := overlay_get_absent (setKey base k (overlayVal (base.get k) v)) as k hnd.1
      unfold overlay at this
      rw [this, get_setKey_same]
      cases v with
      | m kvs => exact absurd rfl (hs kvs)
      | b _ => cases base.get k with | none => rfl | some o => cases o <;> rfl
      | s _ => cases base.get k with | none => rfl | some o => cases o <;> rfl
      | l _ => cases base.get k with | none => rfl | some o => cases o <;> rfl
      | r _ => cases base.get k with | none => rfl | some o => cases o <;> rfl
    · exact ih _ hnd.2 hm'

/-- **Source precedence** for a scalar parameter: a flag beats the file, the file
beats the environment, the environment beats the default. -/
theorem sources_precedence (defaults envL file flags : Cfg) (k : String)
    (hf : (flags.map (·.1)).Nodup) (hfi : (file.map (·.1)).Nodup) (he : (envL.map (·.1)).Nodup) :
    (∀ v, (k, v) ∈ flags → (∀ kvs, v ≠ .m kvs) →
      (overlay (overlay (overlay defaults envL) file) flags).get k = some v) ∧
    (k ∉ flags.map (·.1) → ∀ v, (k, v) ∈ file → (∀ kvs, v ≠ .m kvs) →
      (overlay (overlay (overlay defaults envL) file) flags).get k = some v) ∧
    (k ∉ flags.map (·.1) → k ∉ file.map (·.1) → ∀ v, (k, v) ∈ envL → (∀ kvs, v ≠ .m kvs) →
      (overlay (overlay (overlay defaults envL) file) flags).get k = some v) ∧
    (k ∉ flags.map (·.1) → k ∉ file.map (·.1) → k ∉ envL.map (·.1) →
      (overlay (overlay (overlay defaults envL) file) flags).get k = defaults.get k) := by
  refine ⟨?_, ?_, ?_, ?_⟩
  · intro v hm hs; exact overlay_get_scalar _ _ _ _ hf hm hs
  · intro h1 v hm hs; rw [overlay_get_absent _ _ _ h1]; exact overlay_get_scalar _ _ _ _ hfi hm hs
  · intro h1 h2 v hm hs
    rw [overlay_get_absent _ _ _ h1, overlay_get_absent _ _ _ h2]; exact overlay_get_scalar _ _ _ _ he hm hs
  · intro h1 h2 h3
    rw [overlay_get_absent _ _ _ h1, overlay_get_absent _ _ _ h2, overlay_get_absent _ _ _ h3]

/-- The defaults the loader starts from give a value to every parameter the
resolution falls back on (regenerated from `NewDefaultKoanf`). -/
theorem defaults_cover_fallbacks :
    ["all", "dir", "filename", "force-file-write", "formatter", "structname", "pkgname", "recursive",
     "require-template-schema-exists", "template", "template-data", "template-schema"].all
      (fun k => ((defaultsCfg fieldTable).get k).isSome) = true := by decide

/-! ## which level each per-output-file consumer reads (regenerated from `RootApp.Run`) -/

/-- `_partial`: the generator of an output file is handed the *package-level* template,
template-schema and require-template-schema-exists, the *top-level* formatter, and the overwrite
guard reads the *package-level* force-file-write – not the value resolved for the mocks sharing
the file (known findings C08-K1 … C08-K4).  Any further drift of a consumer to another level
changes this regenerated table and fails here. -/
theorem consumers_partial :
    Generated.runGeneratorArgs =
      ["fileCtx", "interfacesInFile.srcPkg", "interfacesInFile.outFilePath.Parent()",
       "*packageConfig.Config.Template", "*packageConfig.Config.TemplateSchema",
       "*packageConfig.Config.RequireTemplateSchemaExists", "remoteTemplateCache",
       "pkg.Formatter(*r.Config.Formatter)", "packageConfig.Config", "interfacesInFile.outPkgName"] ∧
    Generated.runOverwriteGuard =
      "outFileExists && !*packageConfig.Config.ForceFileWrite → return fmt.Errorf(\"outfile exists\")" := by decide

def strOf : Option Val → Option String | some (.s v) => some v | _ => none
def boolOf : Option Val → Option Bool | some (.b v) => some v | _ => none

/-- non-vacuity: a tree where `dir` is set at three levels and the entry wins -/
example :
    let root : Cfg := [("dir", .s "R"), ("all", .b false)]
    let out := initPkg fieldTable root (some ⟨some [("dir", .s "P")],
      [("I", some ⟨some [("all", .b true)], [[("dir", .s "E")], []]⟩)]⟩)
    (out.interfaces.map (fun i => i.2.configs.map (fun c => (strOf (c.get "dir"), boolOf (c.get "all"))))) =
      [[(some "E", some true), (some "P", some true)]] := by decide


/-! ## the merge is the translated source

`Generated/MergeFacts.lean` is written by `harness/verifx` (gomerge.go) from the text of `config/config.go` on every
run: one iteration of the loop of `mergeStringMaps` as a function on the destination map, and one iteration of the
field loop of `mergeConfigs` as the list of effects on the destination field, a function of the `reflect` tests the
code makes.  The model functions all theorems above speak about are these translations. -/

/-- **model = translation**: (1) every iteration of `mergeStringMaps` is the translated loop body (the recursive call
is the model function, `copyMapValue` returns an equal value, `dest[k] = v` is map assignment); (2) for every field
kind of the regenerated table and all well-typed values, `mergeField` is the interpretation of the effects of the
translated loop body of `mergeConfigs` (guard: a pointer-typed source field is never nil, which `NewRootConfig`'s
zero-filling of the top level guarantees) -/
theorem merge_is_the_translated_source :
    (∀ (k : String) (sv : TD) (rest dst : KVs),
      mergeKVs ((k, sv) :: rest) dst =
        mergeKVs rest (Generated.Merge.mergeStringMapsStep mergeKVs id setKeyKVs k sv dst)) ∧
    (∀ f ∈ fieldTable, ∀ (src dst : Option Val),
      f.2.fits src = true → f.2.fits dst = true → (f.2.isPointer = true → src.isSome = true) →
      mergeField f.2 src dst = applyEffects (fieldEffects f.2 src dst) src dst) :=
  ⟨mergeKVs_cons_translated, fun f hf src dst hs hd hp =>
    mergeField_translated f.2 src dst hs hd hp (every_field_is_inherited f hf)⟩

/-- the effects of the translated loop body on concrete fields: an unset `template-data` below a set one is created
and merged; a set pointer is kept; a nil typed map (`replace-type`) takes the source map as a whole -/
example : fieldEffects .anyMap (some (.m [("a", .leaf "1")])) none = ["init-dest-map", "merge-string-maps"] ∧
    fieldEffects .ptrString (some (.s "x")) (some (.s "y")) = [] ∧
    fieldEffects .ptrString (some (.s "x")) none = ["set-copy-of-src"] ∧
    fieldEffects .typedMap (some (.r [])) none = ["set-src"] ∧
    fieldEffects .strSlice (some (.l ["a"])) none = ["set-src"] := by decide

/-- one translated iteration on a concrete nested map: `{a: {x: 1}}` into `{a: {y: 2}}` keeps `y` and adds `x` -/
example : Generated.Merge.mergeStringMapsStep mergeKVs id setKeyKVs "a" (.node [("x", .leaf "1")])
      [("a", .node [("y", .leaf "2")])] = [("a", .node [("y", .leaf "2"), ("x", .leaf "1")])] := by
  simp [Generated.Merge.mergeStringMapsStep, lookup, replace, mergeKVs]


/-- **`InterfaceConfig.Initialize` is the translated source**: the `configs` entries of an interface after initialisation
are what the translated function and its translated loop body give – without entries the single entry *is* the interface
config, otherwise every entry is merged with the interface config, a null entry (`-`) being initialised to the empty
config first (so it behaves like an entry that sets nothing) -/
theorem interface_initialize_is_the_translated_source (ft : FieldTable) (pkgCfg cfg : Cfg) (ic : IfaceCfg) :
    (initIface ft pkgCfg (some ic)).configs =
      configsByTranslation ft (mergeConfigs ft pkgCfg (ic.config.getD [])) ic.configs ∧
    runEntryEffects ft cfg none (Generated.Merge.interfaceInitializeEntryEffects true) =
      runEntryEffects ft cfg (some []) (Generated.Merge.interfaceInitializeEntryEffects false) :=
  ⟨initIface_configs_translated ft pkgCfg ic, null_entry_is_empty_entry ft cfg⟩

/-- the translated effects, spelled out: no entries; an ordinary entry; a null entry -/
example : Generated.Merge.interfaceInitializeEffects 0 = ["configs := [config]"] ∧
    Generated.Merge.interfaceInitializeEffects 2 = ["range c.Configs"] ∧
    Generated.Merge.interfaceInitializeEntryEffects false = ["merge config into entry"] ∧
    Generated.Merge.interfaceInitializeEntryEffects true = ["entry := {}", "store entry", "merge config into entry"] := by decide


/-- **`PackageConfig.Initialize` is the translated source**: for every listed interface – written with a value, as
`Name:` (null), with or without a `config` of its own – running the effects of the translated loop body (create what is
missing, merge the package's config into the interface's, initialise the interface) gives the model's `initIface` -/
theorem package_initialize_is_the_translated_source (ft : FieldTable) (pkgCfg : Cfg) (i : Option IfaceCfg) :
    runPkgEntry ft pkgCfg i
        (Generated.Merge.packageInitializeEntryEffects i.isNone (configIsNilAtTest i)) =
      some (initIface ft pkgCfg i) :=
  initIface_translated ft pkgCfg i

/-- the translated loop body on a null interface and on one that has no `config`: what is missing is created first -/
example : Generated.Merge.packageInitializeEntryEffects true false =
      ["iface := new", "store iface", "merge package config into iface.config", "initialize iface"] ∧
    Generated.Merge.packageInitializeEntryEffects false true =
      ["iface.config := {}", "merge package config into iface.config", "initialize iface"] := by decide


/-- **the package loop of `RootConfig.Initialize` is the translated source**: for every configured package – written with a
value or as `path:` (null), with or without `config` / `interfaces` – running the effects of the translated loop body
gives the model's `initPkg`, and the package is put on the list of recursive packages exactly when its merged `recursive`
is true -/
theorem root_initialize_is_the_translated_source (ft : FieldTable) (root : Cfg) (p : Option PkgCfg)
    (interfacesNil recursive : Bool) :
    let st := runRootEntry ft root p
      (Generated.Merge.rootInitializeEntryEffects p.isNone (pkgConfigIsNilAtTest p) interfacesNil recursive)
    st.out = some (initPkg ft root p) ∧ st.marked = recursive :=
  initPkg_translated ft root p interfacesNil recursive

/-- the translated loop body on a null package entry that turns out recursive -/
example : Generated.Merge.rootInitializeEntryEffects true false false true =
    ["pkg := new", "store pkg", "merge top-level config into pkg.config", "initialize pkg", "mark recursive"] := by decide

end Mockery.C08
