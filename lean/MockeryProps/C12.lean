import MockeryModel.Run.Validate
import MockeryModel.Run.Pipeline
import MockeryModel.Config.Sources
import MockeryLemmas.Pipeline
import MockeryModel.Generated.Decide
/-!
# C12 — template-data is validated against the template's JSON schema at every level

Property theorems only.  Quantification: every schema of the modelled subset
(type / properties / required / additionalProperties, nested), every JSON
value, every set of retrievable templates and schemas.
-/
namespace Mockery.C12
open Mockery.Run Mockery.Config Mockery

/-! ## regenerated facts -/

/-- `validateSchema` verifies the file-level data and, in a loop over all interfaces of the file,
each interface's own data -/
theorem validation_covers_file_and_every_interface :
    Generated.validateReceivers = ["data.TemplateData", "intf.TemplateData"] ∧
    Generated.validateLoopOver = "data.Interfaces" := by decide

/-- validation happens after template retrieval and before execution, formatting and writing -/
theorem validation_before_write :
    Generated.generateStages = ["getTemplate", "validateSchema", "New", "Execute", "format"] ∧
    Generated.runFileLoopCalls = ["GetPackageConfig", "ParseTemplates", "NewTemplateGenerator", "Generate", "MkdirAll", "Exists", "WriteFile"] := by decide

/-- the default schema location is the template location plus `.schema.json` -/
theorem default_schema_location :
    ((defaultsCfg fieldTable).get "template-schema").map (fun v => match v with | .s x => x | _ => "") =
      some "{{.Template}}.schema.json" := by decide

/-! ## validation and what it lets through -/

/-- **Data that violates the schema at any level fails the stage** (file-level data or any single
interface's data). -/
theorem violating_data_fails (w : World) (g : GenRequest) (s : Schema)
    (hs : getTemplate w g = .found (some s))
    (hv : validate s g.fileData = false ∨ ∃ d ∈ g.ifaceData, validate s d = false) :
    (stages w g).2 = false := by
  simp only [stages, hs, validateAll]
  rcases hv with h | ⟨d, hd, h⟩
  · simp [h]
  · have : g.ifaceData.all (validate s) = false := by
      rw [List.all_eq_false]; exact ⟨d, hd, by simp [h]⟩
    simp [this]

/-- **Conforming data is accepted.** -/
theorem conforming_accepted (w : World) (g : GenRequest) (s : Schema)
    (hs : getTemplate w g = .found (some s))
    (hf : validate s g.fileData = true) (hi : ∀ d ∈ g.ifaceData, validate s d = true) :
    stages w g = (true, true) := by
  simp only [stages, hs, validateAll, hf, Bool.true_and]
  congr 1
  exact List.all_eq_true.2 hi

/-- a stage pair `(true, true)` with a schema in effect means every level was valid -/
theorem passed_implies_valid (w : World) (g : GenRequest) (s : Schema)
    (hs : getTemplate w g = .found (some s)) (hok : (stages w g).2 = true) :
    validate s g.fileData = true ∧ ∀ d ∈ g.ifaceData, validate s d = true := by
  simp only [stages, hs, validateAll, Bool.and_eq_true] at hok
  exact ⟨hok.1, List.all_eq_true.1 hok.2⟩

/-- **Built-in templates always validate against their embedded schema.** -/
theorem builtin_always_validated (w : World) (g : GenRequest) (s : Schema)
    (hb : isRemoteTemplate g.template = false) (hw : w.builtin g.template = some s) :
    getTemplate w g = .found (some s) := by simp [getTemplate, hb, hw]

/-- an unknown built-in template is an error -/
theorem unknown_template_is_error (w : World) (g : GenRequest)
    (hb : isRemoteTemplate g.template = false) (hw : w.builtin g.template = none) :
    stages w g = (false, false) := by simp [stages, getTemplate, hb, hw]

/-- **A custom template without a retrievable schema is an error …** -/
theorem missing_schema_is_error (w : World) (g : GenRequest)
    (hr : isRemoteTemplate g.template = true) (hreq : g.requireSchema = true)
    (hm : w.fetchSchema g.schemaURL = none) : stages w g = (false, false) := by
  simp only [stages, getTemplate, hr, hreq, hm]
  cases w.templateExists g.template <;> rfl

/-- **… unless require-template-schema-exists is false: then nothing is validated.** -/
theorem require_false_skips_validation (w : World) (g : GenRequest)
    (hr : isRemoteTemplate g.template = true) (hreq : g.requireSchema = false)
    (ht : w.templateExists g.template = true) : stages w g = (true, true) := by
  simp [stages, getTemplate, hr, hreq, ht]

/-- a custom template is validated against the schema at `template-schema` -/
theorem custom_uses_configured_schema (w : World) (g : GenRequest) (s : Schema)
    (hr : isRemoteTemplate g.template = true) (hreq : g.requireSchema = true)
    (ht : w.templateExists g.template = true) (hm : w.fetchSchema g.schemaURL = some s) :
    getTemplate w g = .found (some s) := by simp [getTemplate, hr, hreq, ht, hm]

/-! ## the built-in schemas (regenerated) reject unknown keys and wrongly typed values -/

theorem validateProps_rejects_unknown (props : List (String × Schema)) :
    ∀ (kvs : List (String × JVal)) (k : String) (v : JVal), (k, v) ∈ kvs → lookupKV k props = none →
      validateProps props false kvs = false
  | [], _, _, h, _ => by cases h
  | (k', v') :: rest, k, v, h, hn => by
    simp only [validateProps]
    rcases List.mem_cons.1 h with e | h'
    · cases e
      simp [hn]
    · simp [validateProps_rejects_unknown props rest k v h' hn]

/-- **Unknown keys are rejected by both built-in schemas**, whatever else the data contains. -/
theorem builtin_rejects_unknown_key (kvs : List (String × JVal)) (k : String) (v : JVal) (hk : (k, v) ∈ kvs) :
    (lookupKV k Generated.testifySchema.properties = none → validate Generated.testifySchema (.obj kvs) = false) ∧
    (lookupKV k Generated.matryerSchema.properties = none → validate Generated.matryerSchema (.obj kvs) = false) := by
  constructor
  · intro hn
    have := validateProps_rejects_unknown Generated.testifySchema.properties kvs k v hk hn
    simp only [Generated.testifySchema, validate, Schema.properties] at this ⊢
    simp [this]
  · intro hn
    have := validateProps_rejects_unknown Generated.matryerSchema.properties kvs k v hk hn
    simp only [Generated.matryerSchema, validate, Schema.properties] at this ⊢
    simp [this]

/-- the documented options, and only they, are the properties of the built-in schemas -/
theorem builtin_schema_keys :
    Generated.testifySchema.properties.map (·.1) = ["boilerplate-file", "mock-build-tags", "unroll-variadic"] ∧
    Generated.matryerSchema.properties.map (·.1) = ["boilerplate-file", "mock-build-tags", "skip-ensure", "stub-impl", "with-resets"] ∧
    Generated.testifySchema.additionalProperties = false ∧ Generated.matryerSchema.additionalProperties = false := by decide

/-- a wrongly typed value of a known key is rejected (e.g. `unroll-variadic: "no"`, `mock-build-tags: 17`) -/
example : validate Generated.testifySchema (.obj [("unroll-variadic", .str "no")]) = false := by decide
example : validate Generated.testifySchema (.obj [("mock-build-tags", .int 17)]) = false := by decide
example : validate Generated.matryerSchema (.obj [("stub-impl", .bool true), ("with-resets", .bool false)]) = true := by decide

/-! ## nothing is written unless it was validated -/

/-- **Written ⇒ validated**: if a run changed an output path, the file's validation stage (and its
template retrieval) had succeeded. -/
theorem written_implies_validated (i : RunInput) (fs : FS) (hnd : (i.jobs.map (·.path)).Nodup) (p : String)
    (hch : (run i fs).1 p ≠ fs p) :
    ∃ j ∈ i.jobs, j.path = p ∧ j.templateOk = true ∧ j.validateOk = true := by
  unfold run at hch
  split at hch
  · exact absurd rfl hch
  · rcases processJobs_old_or_new i.jobs fs p with h | ⟨j, hj, hp, _, hst⟩
    · exact absurd h hch
    · unfold FileJob.stagesOk at hst
      simp only [Bool.and_eq_true] at hst
      exact ⟨j, hj, hp, hst.1.1.1, hst.1.1.2⟩

/-! ### the validation order of the model is the source's

`Generated.Decide.validateSchema` is `validateSchema` of internal/template_generator.go translated statement by
statement on every run (`VerifyJSONSchema` is a parameter): the file-level data first, then every interface of the
file in order, the first failure ends it. -/

def okIf (b : Bool) : Option Unit := if b then some () else none

open Mockery.Generated.Decide in
theorem validate_loop_translated (s : Schema) : ∀ (l : List JVal),
    validateSchema.loop (fun d => okIf (validate s d)) l = if l.all (validate s) then .ok () else .error "interface-level"
  | [] => by simp [validateSchema.loop, pure, Except.pure]
  | d :: ds => by
    have ih := validate_loop_translated s ds
    simp only [validateSchema.loop, List.all_cons]
    by_cases hv : validate s d = true
    · simp only [okIf, hv, if_true, Bool.true_and]
      simpa [okIf] using ih
    · have hv' : validate s d = false := by simpa using hv
      simp [okIf, hv', throw, throwThe, MonadExceptOf.throw]

open Mockery.Generated.Decide in
/-- `validateAll` accepts exactly when the translated `validateSchema` returns no error, for every schema and every request -/
theorem validation_is_the_translated_source (s : Schema) (g : GenRequest) :
    (validateSchema false (okIf (validate s g.fileData)) g.ifaceData (fun d => okIf (validate s d))).isOk = validateAll s g := by
  unfold validateSchema validateAll okIf
  cases hf : validate s g.fileData
  · simp [throw, throwThe, MonadExceptOf.throw, Except.isOk, Except.toBool]
  · simp only [Bool.false_eq_true, if_false, if_true, Bool.true_and]
    have := validate_loop_translated s g.ifaceData
    unfold okIf at this
    rw [this]
    cases g.ifaceData.all (validate s) <;> simp [Except.isOk, Except.toBool]


open Mockery.Generated.Decide in
/-- **`VerifyJSONSchema` is the translated source**: the per-level verdict that `validateSchema` consumes (`okIf (validate s d)`)
is what the translated `TemplateData.VerifyJSONSchema` returns when gojsonschema's verdict on the data is `validate s d`:
it succeeds exactly on valid data, and a failing validation *call* is an error as well, never an acceptance -/
theorem verify_is_the_translated_source (s : Schema) (d : JVal) :
    okIf (validate s d) = (match verifyJSONSchema (some (validate s d)) id with | .ok _ => some () | .error _ => none) ∧
    (verifyJSONSchema (R := Bool) none id).isOk = false := by
  unfold verifyJSONSchema okIf
  cases validate s d <;> simp [throw, throwThe, MonadExceptOf.throw, pure, Except.pure, Except.isOk, Except.toBool]


/-- how the result of the translated `getTemplate` reads as a stage outcome -/
def outcomeOf {T : Type} : Except String (T × Option Schema) → TemplateOutcome
  | .ok (_, s) => .found s
  | .error _ => .error

open Mockery.Generated.Decide in
theorem getTemplate_general (hp : String → Bool) (req ex : Bool) (fs bi : Option Schema) :
    outcomeOf (Generated.Decide.getTemplate (T := Unit) ["file://", "https://", "http://"] hp req
      (if ex then some () else none) (fs.map some) (bi.map (fun _ => ())) (bi.map some)) =
    (if hp "file://" || hp "https://" || hp "http://" then
      (if !ex then TemplateOutcome.error
       else if req then (match fs with | some s => .found (some s) | none => .error) else .found none)
     else match bi with | some s => .found (some s) | none => .error) := by
  unfold Generated.Decide.getTemplate
  simp only [getTemplate.loop]
  cases h1 : hp "file://" <;> cases h2 : hp "https://" <;> cases h3 : hp "http://" <;>
    cases req <;> cases ex <;> cases fs <;> cases bi <;>
    simp [outcomeOf, pure, Except.pure, throw, throwThe, MonadExceptOf.throw]

/-- **`getTemplate` is the translated source**: the model's choice of template and schema – a `file://`, `https://` or
`http://` name is retrieved, its schema only when `require-template-schema-exists` is true, and what cannot be retrieved
is an error; every other name must be a built-in template and is validated against its built-in schema *whatever* that
option says – is the translation of `TemplateGenerator.getTemplate` (rewritten from the Go text on every run) with
retrieval as the model's `World` -/
theorem getTemplate_is_the_translated_source (w : World) (g : GenRequest) :
    outcomeOf (Generated.Decide.getTemplate (T := Unit) ["file://", "https://", "http://"] (fun p => g.template.startsWith p)
      g.requireSchema (if w.templateExists g.template then some () else none) ((w.fetchSchema g.schemaURL).map some)
      ((w.builtin g.template).map (fun _ => ())) ((w.builtin g.template).map some)) = Run.getTemplate w g := by
  rw [getTemplate_general]
  unfold Run.getTemplate isRemoteTemplate
  cases g.template.startsWith "file://" <;> cases g.template.startsWith "https://" <;>
    cases g.template.startsWith "http://" <;> cases w.templateExists g.template <;> cases g.requireSchema <;>
    cases w.fetchSchema g.schemaURL <;> cases w.builtin g.template <;> simp

end Mockery.C12
