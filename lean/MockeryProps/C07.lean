import MockeryModel.Config.Select
import MockeryLemmas.Select
import MockeryModel.Generated.Decide
import MockeryLemmas.InjectT
/-!
# C07 — Exactly the configured interfaces and packages are mocked, once per config entry

Property theorems only.  Quantification: every matcher (any regular-expression
semantics, including expressions that do not compile), every declaration mix,
every configuration tree and every package tree (`subPkgs`).
-/
namespace Mockery.C07
open Mockery.Config Mockery

/-! ## the per-interface decision, stated outright -/

/-- With compilable expressions: an interface is selected iff `all`, or it is
listed, or it matches include-interface-regex and does not match
exclude-interface-regex – the expressions being ignored under `all`, and
exclude being ignored without include. -/
theorem selection_rule (m : Matcher) (hm : MatcherTotal m) (all listed : Bool) (inc exc name : String) :
    shouldGenerate m all listed inc exc name =
      .ok (all || listed || (inc != "" && (m inc name == some true) && !(exc != "" && (m exc name == some true)))) :=
  shouldGenerate_eq_wants m hm all listed inc exc name

/-- `all: true` selects everything and never looks at the expressions (even invalid ones). -/
theorem all_ignores_regexes (m : Matcher) (listed : Bool) (inc exc name : String) :
    shouldGenerate m true listed inc exc name = .ok true := rfl

/-- A listed interface is selected whatever the expressions say. -/
theorem listed_is_selected (m : Matcher) (all : Bool) (inc exc name : String) :
    shouldGenerate m all true inc exc name = .ok true := by
  cases all <;> rfl

/-- Without include-interface-regex the exclude expression is ignored (even an invalid one). -/
theorem exclude_ignored_without_include (m : Matcher) (exc name : String) :
    shouldGenerate m false false "" exc name = .ok false := rfl

/-- An include expression that does not compile is an error, not a silent "no". -/
theorem invalid_include_is_error (m : Matcher) (inc exc name : String) (hi : inc ≠ "")
    (h : m inc name = none) : shouldGenerate m false false inc exc name = .error .includeRegex := by
  simp [shouldGenerate, hi, h]
  rfl

/-- An exclude expression that does not compile is an error when it is consulted. -/
theorem invalid_exclude_is_error (m : Matcher) (inc exc name : String) (hi : inc ≠ "") (he : exc ≠ "")
    (h1 : m inc name = some true) (h : m exc name = none) :
    shouldGenerate m false false inc exc name = .error .excludeRegex := by
  simp [shouldGenerate, hi, he, h1, h]
  rfl

/-- The complete decision table for valid expressions (all × listed × include{unset, match, no match} ×
exclude{unset, match, no match}), 2·2·3·3 rows, each evaluated. -/
theorem decision_table (all listed incSet incM excSet excM : Bool) :
    shouldGenerate (fun r _ => some (if r == "I" then incM else excM)) all listed
        (if incSet then "I" else "") (if excSet then "E" else "") "X" =
      .ok (all || listed || (incSet && incM && !(excSet && excM))) := by
  cases all <;> cases listed <;> cases incSet <;> cases incM <;> cases excSet <;> cases excM <;> rfl

/-! ## discovery: only package-level named interface types -/

theorem never_function_local (decls : List Decl) (d : Decl) (hd : d ∈ decls) (hl : d.isLocal = true)
    (huniq : ∀ d' ∈ decls, d'.name = d.name → d' = d) : d.name ∉ discover decls := by
  intro h
  obtain ⟨d', hd', hn, hloc, _⟩ := mem_discover.1 h
  have := huniq d' hd' hn
  subst this
  rw [hl] at hloc; cases hloc

theorem never_noninterface (decls : List Decl) (n : String) (h : n ∈ discover decls) :
    ∃ d ∈ decls, d.name = n ∧ d.isLocal = false ∧ d.isNamed = true ∧ d.isInterface = true := by
  obtain ⟨d, hd, hn, hl, _, _, h4, h5⟩ := mem_discover.1 h
  exact ⟨d, hd, hn, hl, h4, h5⟩

/-- every package-level named interface declared with an interface literal or an instantiation is found -/
theorem every_candidate_found (decls : List Decl) (d : Decl) (hd : d ∈ decls)
    (h : d.isLocal = false ∧ d.rhsCandidate = true ∧ d.name ≠ "_" ∧ d.isNamed = true ∧ d.isInterface = true) :
    d.name ∈ discover decls :=
  mem_discover.2 ⟨d, hd, rfl, h.1, h.2.1, h.2.2.1, h.2.2.2.1, h.2.2.2.2⟩

/-- discovery keeps declaration order and multiplicity (a sublist of the declared names) -/
theorem discover_sublist (decls : List Decl) : (discover decls).Sublist (decls.map (·.name)) := by
  unfold discover
  exact List.Sublist.map _ List.filter_sublist

/-! ## exactly one mock per `configs` entry (one if there is none) -/

theorem entries_count (ft : FieldTable) (pkgCfg : Cfg) (i : Option IfaceCfg) :
    (initIface ft pkgCfg i).configs.length = max 1 ((i.getD ⟨none, []⟩).configs.length) := by
  unfold initIface
  rcases h : (i.getD ⟨none, []⟩).configs with _ | ⟨a, as⟩
  · simp [h]
  · simp [h]

theorem one_mock_per_entry (path n : String) (ic : IfaceOut) :
    (entriesOf path n ic).length = ic.configs.length ∧
    (entriesOf path n ic).map (·.entry) = List.range ic.configs.length := by
  unfold entriesOf
  constructor
  · simp
  · simp only [List.map_map]
    have : ((fun m : Mock => m.entry) ∘ fun x : Nat × Cfg => (⟨path, n, x.1, x.2⟩ : Mock)) = Prod.fst := by
      funext x; rfl
    rw [this, List.map_fst_zip]
    simp

theorem unlisted_has_one_entry (pc : PkgOut) (n : String) (h : pc.interfaces.find? (·.1 == n) = none) :
    (entriesOf "p" n (getInterfaceConfig pc n)).length = 1 := by
  simp [entriesOf, getInterfaceConfig, h]

/-- **What a package contributes** (valid expressions): exactly the entries of the
discovered interfaces that the rule selects, in source order. -/
theorem mocks_of_package (m : Matcher) (hm : MatcherTotal m) (pc : PkgOut) (src : SrcPkg) :
    mocksOfPkg m pc src = .ok
      ((src.files.flatMap discover).flatMap (fun n =>
        if wants m (boolOf pc.config "all") (pc.interfaces.any (·.1 == n))
            (strOf pc.config "include-interface-regex") (strOf pc.config "exclude-interface-regex") n
        then entriesOf src.path n (getInterfaceConfig pc n) else [])) := by
  unfold mocksOfPkg
  have h : ∀ n ∈ src.files.flatMap discover, mocksOfIface m pc src.path n = .ok
      (if wants m (boolOf pc.config "all") (pc.interfaces.any (·.1 == n))
            (strOf pc.config "include-interface-regex") (strOf pc.config "exclude-interface-regex") n
        then entriesOf src.path n (getInterfaceConfig pc n) else []) := by
    intro n _
    unfold mocksOfIface
    simp only [shouldGenerate_eq_wants m hm, bind, Except.bind, pure, Except.pure]
    split <;> rfl
  rw [mapM_ok_of_forall _ _ _ h]
  simp [bind, Except.bind, pure, Except.pure, List.flatMap]

/-- A mock is produced for (interface `n`, entry `e`) of a package **iff** `n` is a discovered
interface of the package that the rule selects and `e` is one of its entries. -/
theorem mock_iff (m : Matcher) (hm : MatcherTotal m) (pc : PkgOut) (src : SrcPkg) (mk : Mock) :
    (∃ l, mocksOfPkg m pc src = .ok l ∧ mk ∈ l) ↔
      mk.iface ∈ src.files.flatMap discover ∧
      wants m (boolOf pc.config "all") (pc.interfaces.any (·.1 == mk.iface))
        (strOf pc.config "include-interface-regex") (strOf pc.config "exclude-interface-regex") mk.iface = true ∧
      mk ∈ entriesOf src.path mk.iface (getInterfaceConfig pc mk.iface) := by
  rw [mocks_of_package m hm]
  constructor
  · rintro ⟨l, hl, hmem⟩
    cases hl
    simp only [List.mem_flatMap] at hmem
    obtain ⟨n, hn, hmk⟩ := hmem
    split at hmk
    · rename_i hw
      have : mk.iface = n := by
        simp only [entriesOf, List.mem_map] at hmk
        obtain ⟨x, _, rfl⟩ := hmk; rfl
      subst this
      exact ⟨List.mem_flatMap.2 hn, hw, hmk⟩
    · cases hmk
  · rintro ⟨hn, hw, hmk⟩
    refine ⟨_, rfl, ?_⟩
    simp only [List.mem_flatMap]
    exact ⟨mk.iface, List.mem_flatMap.1 hn, by simp [hw, hmk]⟩

/-- Interfaces of packages that are not configured (nor injected) are never mocked. -/
theorem never_unconfigured (m : Matcher) (pkgs : List (String × PkgOut)) (srcs : List SrcPkg) (l : List Mock)
    (h : selected m pkgs srcs = .ok l) (mk : Mock) (hmk : mk ∈ l) :
    ∃ p ∈ pkgs, ∃ src ∈ srcs, src.path = p.1 ∧ ∃ l', mocksOfPkg m p.2 src = .ok l' ∧ mk ∈ l' := by
  unfold selected at h
  simp only [bind, Except.bind, pure, Except.pure] at h
  split at h
  · cases h
  · rename_i ls hls
    cases h
    simp only [List.mem_flatten] at hmk
    obtain ⟨part, hpart, hin⟩ := hmk
    -- each element of `ls` is the result for one configured package
    have key : ∀ (ps : List (String × PkgOut)) (rs : List (List Mock)),
        ps.mapM (fun (x : String × PkgOut) =>
          match srcs.find? (·.path == x.1) with
          | none => (pure [] : Except SelErr (List Mock))
          | some src => mocksOfPkg m x.2 src) = .ok rs →
        ∀ r ∈ rs, ∀ mk ∈ r, ∃ p ∈ ps, ∃ src ∈ srcs, src.path = p.1 ∧ ∃ l', mocksOfPkg m p.2 src = .ok l' ∧ mk ∈ l' := by
      intro ps
      induction ps with
      | nil =>
        intro rs h r hr
        simp only [List.mapM_nil, pure, Except.pure, Except.ok.injEq] at h
        subst h; cases hr
      | cons a as ih =>
        intro rs h r hr mk hmk
        simp only [List.mapM_cons, bind, Except.bind] at h
        split at h
        · cases h
        · rename_i r0 hr0
          split at h
          · cases h
          · rename_i rest hrest
            simp only [pure, Except.pure, Except.ok.injEq] at h
            subst h
            rcases List.mem_cons.1 hr with rfl | hr
            · split at hr0
              · simp only [pure, Except.pure, Except.ok.injEq] at hr0
                subst hr0; cases hmk
              · rename_i src hsrc
                refine ⟨a, List.mem_cons_self .., src, List.mem_of_find?_eq_some hsrc, ?_, _, hr0, hmk⟩
                have := List.find?_some hsrc
                simpa using this
            · obtain ⟨p, hp, rest'⟩ := ih rest hrest r hr mk hmk
              exact ⟨p, List.mem_cons_of_mem _ hp, rest'⟩
    exact key pkgs ls hls part hpart mk hin

/-! ## recursive packages: exactly the non-excluded sub-packages are added -/

/-- After injecting the sub-packages of a recursive package: the configured
packages are the previous ones plus exactly the sub-packages (with Go files,
as `subPkgs` reports them) that no exclusion expression matches. -/
theorem recursive_adds_exactly (ft : FieldTable) (m : Matcher) (subPkgs : String → List String)
    (ps out : List (String × PkgOut)) (parent : String) (pc : PkgOut) (hp : getPkg ps parent = some pc)
    (h : injectOne ft m subPkgs ps parent = .ok out) (x : String) :
    (x ∈ out.map (·.1) → x ∈ ps.map (·.1) ∨
        (x ∈ subPkgs parent ∧ shouldExclude m (listOf pc.config "exclude-subpkg-regex") x = .ok false)) ∧
    (x ∈ subPkgs parent → shouldExclude m (listOf pc.config "exclude-subpkg-regex") x = .ok false →
        x ∈ out.map (·.1)) ∧
    (x ∉ ps.map (·.1) → shouldExclude m (listOf pc.config "exclude-subpkg-regex") x = .ok true →
        x ∉ out.map (·.1)) := by
  unfold injectOne at h
  rw [hp] at h
  obtain ⟨h1, h2, h3⟩ := foldlM_inject_spec ft m pc _ (subPkgs parent) ps out h
  exact ⟨h1 x, h2 x, h3 x⟩

/-- A newly discovered sub-package is treated as if configured with the settings of the
recursive package it was discovered under (every whole-valued parameter). -/
theorem discovered_inherits (pc : PkgOut) (acc : List (String × PkgOut)) (sub : String)
    (hnew : getPkg acc sub = none) (k : String) (kind : Kind)
    (hk : (k, kind) ∈ fieldTable) (hw : kind.whole = true) :
    ((getPkg (injectStep fieldTable pc acc sub) sub).map (·.config.get k)) = some (pc.config.get k) := by
  unfold injectStep
  rw [getPkg_setPkg_same]
  simp only [hnew, Option.getD_none, Option.map_some]
  rw [mergeConfigs_get fieldTable _ _ k kind (by decide) hk, mergeField_whole kind hw]
  simp only [Cfg.get, firstSome]
  cases pc.config.get k <;> rfl

/-- A sub-package that already has a value for a parameter keeps it (most specific wins);
in particular, with nested recursive packages handled deepest first, the nearest
recursive ancestor's settings are the ones that stay. -/
theorem nearest_ancestor_wins (pc : PkgOut) (acc : List (String × PkgOut)) (sub : String) (old : PkgOut)
    (hold : getPkg acc sub = some old) (k : String) (kind : Kind) (v : Val)
    (hk : (k, kind) ∈ fieldTable) (hw : kind.whole = true) (hset : old.config.get k = some v) :
    ((getPkg (injectStep fieldTable pc acc sub) sub).map (·.config.get k)) = some (some v) := by
  unfold injectStep
  rw [getPkg_setPkg_same]
  simp only [hold, Option.getD_some, Option.map_some]
  rw [mergeConfigs_get fieldTable _ _ k kind (by decide) hk, mergeField_whole kind hw, hset]
  rfl

/-- other packages are untouched by an injection step -/
theorem injection_is_local (ft : FieldTable) (pc : PkgOut) (acc : List (String × PkgOut)) (sub other : String)
    (h : other ≠ sub) : getPkg (injectStep ft pc acc sub) other = getPkg acc other := by
  unfold injectStep
  exact getPkg_setPkg_other _ _ _ _ h

/-- deepest recursive package first: a deterministic order, whatever order the map yields -/
theorem recursive_order_deterministic (a b : List String) (h : a.Perm b) (hnd : a.Nodup) :
    recursiveOrder a = recursiveOrder b := by
  unfold recursiveOrder
  apply List.Perm.eq_of_pairwise (le := fun x y => (x.length > y.length || (x.length == y.length && x ≤ y)) = true)
  · intro x y hx hy h1 h2
    simp only [gt_iff_lt, Bool.or_eq_true, decide_eq_true_eq, Bool.and_eq_true, beq_iff_eq] at h1 h2
    rcases h1 with h1 | ⟨h1, h1'⟩ <;> rcases h2 with h2 | ⟨h2, h2'⟩
    · omega
    · omega
    · omega
    · exact String.le_antisymm h1' h2'
  · exact List.pairwise_mergeSort
      (fun x y z h1 h2 => by
        simp only [gt_iff_lt, Bool.or_eq_true, decide_eq_true_eq, Bool.and_eq_true, beq_iff_eq] at h1 h2 ⊢
        rcases h1 with h1 | ⟨h1, h1'⟩ <;> rcases h2 with h2 | ⟨h2, h2'⟩
        · left; omega
        · left; omega
        · left; omega
        · right; exact ⟨by omega, String.le_trans h1' h2'⟩)
      (fun x y => by
        simp only [gt_iff_lt, Bool.or_eq_true, decide_eq_true_eq, Bool.and_eq_true, beq_iff_eq]
        rcases Nat.lt_trichotomy x.length y.length with h | h | h
        · right; left; exact h
        · rcases String.le_total x y with h' | h'
          · left; right; exact ⟨h, h'⟩
          · right; right; exact ⟨h.symm, h'⟩
        · left; left; exact h) _
  · exact List.pairwise_mergeSort
      (fun x y z h1 h2 => by
        simp only [gt_iff_lt, Bool.or_eq_true, decide_eq_true_eq, Bool.and_eq_true, beq_iff_eq] at h1 h2 ⊢
        rcases h1 with h1 | ⟨h1, h1'⟩ <;> rcases h2 with h2 | ⟨h2, h2'⟩
        · left; omega
        · left; omega
        · left; omega
        · right; exact ⟨by omega, String.le_trans h1' h2'⟩)
      (fun x y => by
        simp only [gt_iff_lt, Bool.or_eq_true, decide_eq_true_eq, Bool.and_eq_true, beq_iff_eq]
        rcases Nat.lt_trichotomy x.length y.length with h | h | h
        · right; left; exact h
        · rcases String.le_total x y with h' | h'
          · left; right; exact ⟨h, h'⟩
          · right; right; exact ⟨h.symm, h'⟩
        · left; left; exact h) _
  · exact (List.mergeSort_perm _ _).trans (h.trans (List.mergeSort_perm _ _).symm)

/-- non-vacuity: one recursive package, one excluded and one included sub-package -/
example :
    let m : Matcher := fun r s => some (r == "x" && s == "p/x")
    let pc : PkgOut := ⟨[("recursive", .b true), ("exclude-subpkg-regex", .l ["x"]), ("dir", .s "D")], []⟩
    ((injectOne fieldTable m (fun _ => ["p", "p/x", "p/y"]) [("p", pc)] "p").toOption.map
      (fun o => o.map (fun q => (q.1, strOf q.2.config "dir")))) = some [("p", "D"), ("p/y", "D")] := by decide

/-! ### the decision functions of the model are the source's

`Generated/Decide.lean` is written on every run by a translator (harness/verifx/godecide.go) from the Go text of
`PackageConfig.ShouldGenerateInterface` and `Config.ShouldExcludeSubpkg`, statement by statement; only logging is
dropped and `regexp.MatchString` is a parameter. The model functions all theorems above are about are *equal* to
these translations, for every input. -/

def selErrName : SelErr → String
  | .includeRegex => "include-interface-regex"
  | .excludeRegex => "exclude-interface-regex"
  | .subpkgRegex => "exclude-subpkg-regex"
  | .decode => "decode"

open Mockery.Generated.Decide in
/-- `shouldGenerate` is `ShouldGenerateInterface` as translated from the current source -/
theorem selection_model_is_the_translated_source (m : Matcher) (all listed : Bool) (inc exc name : String) :
    shouldGenerateInterface all listed inc exc name m = (shouldGenerate m all listed inc exc name).mapError selErrName := by
  unfold shouldGenerateInterface shouldGenerate
  cases all <;> cases listed <;> simp [Except.mapError, pure, Except.pure]
  by_cases hi : inc = ""
  · simp [hi]
  · simp [hi]
    cases m inc name with
    | none => simp [throw, throwThe, MonadExceptOf.throw, selErrName]
    | some b =>
      cases b <;> simp
      by_cases he : exc = ""
      · simp [he]
      · simp [he]
        cases m exc name with
        | none => simp [throw, throwThe, MonadExceptOf.throw, selErrName]
        | some b2 => cases b2 <;> simp

open Mockery.Generated.Decide in
/-- `shouldExclude` is `ShouldExcludeSubpkg` as translated from the current source (a search loop over the
expressions: the first one that matches, or fails to compile, decides) -/
theorem exclusion_model_is_the_translated_source (m : Matcher) (l : List String) (p : String) :
    shouldExcludeSubpkg l p m = (shouldExclude m l p).mapError selErrName := by
  unfold shouldExcludeSubpkg
  induction l with
  | nil => simp [shouldExcludeSubpkg.loop, shouldExclude, Except.mapError, pure, Except.pure]
  | cons r rs ih =>
    simp only [shouldExcludeSubpkg.loop, shouldExclude]
    cases m r p with
    | none => simp [throw, throwThe, MonadExceptOf.throw, selErrName, Except.mapError]
    | some b => cases b <;> simp [ih, Except.mapError, pure, Except.pure]


/-! ## recursive injection is the translated source -/

/-- **model = translation** (the loop over the sub-packages in `RootConfig.Initialize`): `injectOne` is the fold of one
step over the sub-packages the go tool lists, and that step is the interpretation of the translated loop body – an
excluded sub-package changes nothing, an invalid exclusion regex is an error that changes nothing, every other
sub-package gets the parent's config merged into its own (a fresh one if it is not configured) and is stored -/
theorem recursive_injection_is_the_translated_source (ft : FieldTable) (m : Matcher) (subPkgs : String → List String)
    (ps : List (String × PkgOut)) (parent : String) (pc : PkgOut) (h : getPkg ps parent = some pc)
    (acc : List (String × PkgOut)) (sub : String) :
    injectOne ft m subPkgs ps parent = (subPkgs parent).foldlM (injectStepE ft m pc.config) ps ∧
    (let st := runInject ft pc.config sub acc
        (Generated.Merge.rootInjectEntryEffects
          (exceptToOption (shouldExclude m (listOf pc.config "exclude-subpkg-regex") sub)) (getPkg acc sub).isSome)
     match injectStepE ft m pc.config acc sub with
     | .ok acc' => st.failed = false ∧ st.acc = acc'
     | .error _ => st.failed = true ∧ st.acc = acc) :=
  ⟨injectOne_is_fold ft m subPkgs ps parent pc h, injectStep_translated ft m pc.config acc sub⟩

/-- the translated loop body, spelled out -/
example : Generated.Merge.rootInjectEntryEffects none true = ["error: exclude-subpkg-regex"] ∧
    Generated.Merge.rootInjectEntryEffects (some true) false = [] ∧
    Generated.Merge.rootInjectEntryEffects (some false) false = ["sub := new", "merge parent config into sub.config", "store sub"] ∧
    Generated.Merge.rootInjectEntryEffects (some false) true = ["sub := existing", "merge parent config into sub.config", "store sub"] := by decide

end Mockery.C07
