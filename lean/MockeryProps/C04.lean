import MockeryModel.Sem.Matryer
import MockeryLemmas.Matryer
/-!
# C04 — matryer-style mocks forward calls and record them faithfully

Property theorems only.  `bodies_transcribed` ties the statement lists translated from
`mock_matryer.templ` on every run to the ones the theorems execute.
-/
namespace Mockery.C04
open Mockery.Sem.Matryer

/-- the emitted bodies are the modelled ones; both reset methods are guarded by `with-resets` -/
theorem bodies_transcribed :
    generatedBodies.call = expectedBodies.call ∧ generatedBodies.calls = expectedBodies.calls ∧
    generatedBodies.resetOne = expectedBodies.resetOne ∧ generatedBodies.resetAll = expectedBodies.resetAll ∧
    Generated.matryerResetGuards = ["{{- if index $mock.TemplateData \"with-resets\" }}", "{{- if index $mock.TemplateData \"with-resets\" }}"] := by
  refine ⟨?_, ?_, ?_, ?_, ?_⟩ <;> decide

/-- **forwarding**: with a non-nil `<M>Func` a call invokes it exactly once, with exactly the call's
arguments, returns exactly its results, and appends exactly one record holding the arguments in
parameter order to the records of that method – under every template-data combination, with or
without results. -/
theorem call_forwards_and_records (cfg : Cfg) (st : MSt) (m : String) (args zero : List Val)
    (f : List Val → List Val) (hasResults : Bool) :
    let r := step cfg st (.call ⟨m, args, some f, zero⟩ hasResults)
    r.2 = .returned (f args) ∧
    r.1.invoked = st.invoked ++ [(m, args)] ∧
    r.1.calls = setCalls st.calls m (st.calls m ++ [args]) ∧
    -- the record is in place (and the lock released) when the function runs: re-entering the mock from
    -- inside the function sees the call already recorded
    r.1.seen = st.seen ++ [(st.calls m).length + 1] := by
  cases cfg with
  | mk stub resets => cases stub <;> cases hasResults <;>
      simp [step, stepB, expectedBodies, emitted_call_ff, emitted_call_ft, emitted_call_tf, emitted_call_tt, execKinds, execKind, setCalls]

/-- **nil function, no stub**: the call panics with a message naming `<M>Func`, before anything is
recorded; the mock's state is unchanged. -/
theorem nil_func_panics (cfg : Cfg) (hs : cfg.stubImpl = false) (st : MSt) (m : String) (args zero : List Val)
    (hasResults : Bool) :
    let r := step cfg st (.call ⟨m, args, none, zero⟩ hasResults)
    r.2 = .panicked "STRUCT.METHODFunc: method is nil but IFACE.METHOD was just called" ∧
    r.1.invoked = st.invoked ∧ r.1.calls = st.calls := by
  cases cfg with
  | mk stub resets =>
    simp only at hs; subst hs
    cases hasResults <;> simp [step, stepB, expectedBodies, emitted_call_ff, emitted_call_ft, emitted_call_tf, emitted_call_tt, execKinds, execKind, panicMsg]

/-- **nil function with `stub-impl`**: the call is recorded all the same and the zero values are returned -/
theorem stub_records_and_returns_zero (cfg : Cfg) (hs : cfg.stubImpl = true) (st : MSt) (m : String)
    (args zero : List Val) (hasResults : Bool) :
    let r := step cfg st (.call ⟨m, args, none, zero⟩ hasResults)
    r.2 = .returned zero ∧ r.1.invoked = st.invoked ∧
    r.1.calls = setCalls st.calls m (st.calls m ++ [args]) := by
  cases cfg with
  | mk stub resets =>
    simp only at hs; subst hs
    cases hasResults <;> simp [step, stepB, expectedBodies, emitted_call_ff, emitted_call_ft, emitted_call_tf, emitted_call_tt, execKinds, execKind, panicMsg]

/-- `<M>Calls()` returns the records of `M` and changes nothing -/
theorem calls_returns_records (cfg : Cfg) (st : MSt) (m : String) :
    let r := step cfg st (.calls m)
    r.2 = .gotCalls (st.calls m) ∧ r.1.invoked = st.invoked ∧ r.1.calls = st.calls := by
  simp [step, stepB, expectedBodies, emitted_calls, execKinds, execKind, frameOf]

/-- `Reset<M>Calls()` empties the records of `M` and nothing else -/
theorem reset_one (cfg : Cfg) (st : MSt) (m : String) :
    let r := step cfg st (.reset m)
    r.1.calls = setCalls st.calls m [] ∧ r.1.invoked = st.invoked := by
  simp [step, stepB, expectedBodies, emitted_reset, execKinds, execKind, frameOf]

theorem resetAll_fold (cfg : Cfg) : ∀ (ms : List String) (st : MSt),
    let s' := ms.foldl (fun s m => (execKinds (frameOf m) s (emitted cfg false expectedResetBody)).1) st
    s'.invoked = st.invoked ∧ ∀ k, s'.calls k = if k ∈ ms then [] else st.calls k
  | [], st => by simp
  | m :: ms, st => by
    have h1 := reset_one cfg st m
    simp only [step, stepB, expectedBodies] at h1
    have ih := resetAll_fold cfg ms (execKinds (frameOf m) st (emitted cfg false expectedResetBody)).1
    simp only [List.foldl_cons]
    refine ⟨by rw [ih.1, h1.2], ?_⟩
    intro k
    rw [ih.2 k, h1.1]
    by_cases hk : k ∈ ms
    · simp [hk]
    · by_cases hkm : k = m
      · subst hkm; simp [hk, setCalls]
      · simp [hk, hkm, setCalls]

/-- `ResetCalls()` empties the records of every method and nothing else -/
theorem reset_all (cfg : Cfg) (st : MSt) (ms : List String) :
    let r := step cfg st (.resetAll ms)
    r.1.invoked = st.invoked ∧ ∀ k, r.1.calls k = if k ∈ ms then [] else st.calls k := by
  simpa [step, stepB, expectedBodies] using resetAll_fold cfg ms st

/-- one step refines the specification's step -/
theorem step_refines (cfg : Cfg) (st : MSt) (op : Op) :
    (step cfg st op).1.calls = specStep cfg st.calls op := by
  cases op with
  | call fr hr =>
    obtain ⟨m, args, func, zero⟩ := fr
    cases func with
    | some f => simpa [specStep, recordedCall] using (call_forwards_and_records cfg st m args zero f hr).2.2.1
    | none =>
      cases hs : cfg.stubImpl with
      | false => simpa [specStep, recordedCall, hs] using (nil_func_panics cfg hs st m args zero hr).2.2
      | true => simpa [specStep, recordedCall, hs] using (stub_records_and_returns_zero cfg hs st m args zero hr).2.2
  | calls m => simpa [specStep] using (calls_returns_records cfg st m).2.2
  | reset m => simpa [specStep] using (reset_one cfg st m).1
  | resetAll ms =>
    funext k
    simpa [specStep] using (reset_all cfg st ms).2 k

/-- **refinement**: after any sequence of calls, `Calls()` reads and resets the records of every method
are what the simple specification says: the arguments of the recorded calls to that method since its
last reset, one record per call, in call order. -/
theorem records_refine_spec (cfg : Cfg) : ∀ (ops : List Op) (st : MSt),
    (run cfg st ops).1.calls = ops.foldl (specStep cfg) st.calls := by
  intro ops
  suffices h : ∀ (st : MSt) (acc : List Outcome),
      (ops.foldl (fun (a : MSt × List Outcome) op => ((step cfg a.1 op).1, a.2 ++ [(step cfg a.1 op).2])) (st, acc)).1.calls
        = ops.foldl (specStep cfg) st.calls from fun st => h st []
  induction ops with
  | nil => intro st acc; rfl
  | cons op ops ih =>
    intro st acc
    simp only [List.foldl_cons]
    rw [ih, step_refines]

/-- what `<M>Calls()` returns at any point of a history is the specification's record list -/
theorem calls_observes_spec (cfg : Cfg) (ops : List Op) (st : MSt) (m : String) :
    (step cfg (run cfg st ops).1 (.calls m)).2 = .gotCalls ((ops.foldl (specStep cfg) st.calls) m) := by
  rw [(calls_returns_records cfg _ m).1, records_refine_spec]

/-- non-vacuity: two calls, a read, a reset of another method, a read -/
example :
    let f : Frame := ⟨"Put", ["1", "a"], some (fun _ => ["ok"]), ["zero"]⟩
    let g : Frame := ⟨"Put", ["2", "b"], none, ["zero"]⟩
    ((run ⟨true, true⟩ ⟨fun _ => [], [], []⟩ [.call f true, .call g true, .reset "Get", .calls "Put"]).2) =
      [.returned ["ok"], .returned ["zero"], .returned [], .gotCalls [["1", "a"], ["2", "b"]]] := by decide

end Mockery.C04
