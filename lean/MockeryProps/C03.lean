import MockeryModel.Sem.Testify
import MockeryModel.Generated.TestifyFacts
import MockeryModel.Sem.TestifyText
import MockeryLemmas.Testify
import MockeryLemmas.TestifyExec
/-!
# C03 — testify-style mocks route arguments, callbacks and return values faithfully

Property theorems only, about the generated layer (`Sem/Testify.lean`: `calledArgs`, `extract`,
`invoke`, `expect`) on top of the model of testify's `mock.Mock`.  `sections_transcribed` ties the
text of the template sections the model was written against to the template's current text.
-/
namespace Mockery.C03
open Mockery.Sem.Testify

/-- the template sections the model was written against are the template's current text -/
theorem sections_transcribed :
    Generated.testifyMethodBody = expectedTestifyMethodBody ∧
    Generated.testifyExpecterMethod = expectedTestifyExpecterMethod ∧
    Generated.testifyRunWrapper = expectedTestifyRunWrapper ∧
    Generated.testifyReturnWrapper = expectedTestifyReturnWrapper ∧
    Generated.testifyRunAndReturnWrapper = expectedTestifyRunAndReturnWrapper ∧
    Generated.testifyConstructor = expectedTestifyConstructor := by
  exact ⟨rfl, rfl, rfl, rfl, rfl, rfl⟩

/-! ### argument packing -/

/-- without a variadic parameter `Called` receives the call's arguments -/
theorem called_args_nonvariadic (unroll : Bool) (sig : Sig) (a : CallArgs) (h : sig.variadic = false) :
    calledArgs unroll sig a = a.ords := by simp [calledArgs, h]

/-- **unroll-variadic true**: the variadic arguments are handed over element by element -/
theorem called_args_unrolled (sig : Sig) (a : CallArgs) (h : sig.variadic = true) :
    calledArgs true sig a = a.ords ++ a.varElems := by simp [calledArgs, h]

/-- **unroll-variadic false or unset**: the variadic slice is one trailing argument, absent when empty -/
theorem called_args_rolled (sig : Sig) (a : CallArgs) (h : sig.variadic = true) :
    calledArgs false sig a = if a.varElems.isEmpty then a.ords else a.ords ++ [a.varSlice] := by
  simp [calledArgs, h]

/-! ### matching -/

theorem relaxed_matches : ∀ (mask : List Bool) (args : List Val), mask.length = args.length →
    diffZero (relaxed mask args) args = true
  | [], [], _ => rfl
  | [], _ :: _, h => by simp at h
  | _ :: _, [], h => by simp at h
  | b :: bs, v :: vs, h => by
    have ih := relaxed_matches bs vs (by simpa using h)
    cases b <;> simp [relaxed, diffZero, ih]

theorem exact_matches (args : List Val) : diffZero (args.map .exact) args = true := by
  induction args with
  | nil => rfl
  | cons a as ih => simp [diffZero, ih]

/-- an exact matcher rejects every other value at its position -/
theorem exact_rejects (v a : Val) (ms : List Matcher) (as : List Val) (h : v ≠ a) :
    diffZero (.exact v :: ms) (a :: as) = false := by simp [diffZero, h]

/-- more actual arguments than matchers never match -/
theorem extra_arguments_rejected : ∀ (ms : List Matcher) (args : List Val), diffZero ms args = true →
    args.length ≤ ms.length
  | [], [], _ => by simp
  | [], _ :: _, h => by simp [diffZero] at h
  | .anything :: ms, [], _ => by simp
  | .exact _ :: _, [], _ => by simp
  | .anything :: ms, _ :: as, h => by
    have := extra_arguments_rejected ms as (by simpa [diffZero] using h)
    simp; omega
  | .exact v :: ms, a :: as, h => by
    have := extra_arguments_rejected ms as (by simp [diffZero] at h; exact h.2)
    simp; omega

/-! ### calls -/

/-- the shape of every call that finds an expectation: the `Run` callback (if any) sees the call's typed
arguments exactly once, then the results are extracted; the call is logged -/
theorem invoke_found (unroll : Bool) (sig : Sig) (mk : Mock) (a : CallArgs) (e : Expectation)
    (h : findExpected mk.expected sig.name (calledArgs unroll sig a) = some e) :
    (invoke unroll sig mk a).2 =
      (match e.run with
       | some label => [Ev.saw label e.id none (typedArgs sig a)]
       | none => []) ++ extract sig e (typedArgs sig a) ∧
    (invoke unroll sig mk a).1.calls = mk.calls ++ [(sig.name, calledArgs unroll sig a)] := by
  cases hrun : e.run <;> simp [invoke, called, h, hrun]

/-- **no matching expectation**: the test fails, nothing is returned, nothing changes -/
theorem unexpected_call_fails (unroll : Bool) (sig : Sig) (mk : Mock) (a : CallArgs)
    (h : findExpected mk.expected sig.name (calledArgs unroll sig a) = none) :
    invoke unroll sig mk a = (mk, [.failed]) := by
  simp [invoke, called, h]

/-- **results but nothing configured**: the call panics naming the method -/
theorem no_return_value_panics (sig : Sig) (e : Expectation) (typed : List Val)
    (hr : sig.nresults ≠ 0) (he : e.rets = []) :
    extract sig e typed = [.panicked ("no-return-value " ++ sig.name)] := by
  simp [extract, hr, he]

/-- **Return**: a matching call returns exactly the values given to `Return` (nil values of nillable
results included: a token is returned as it was given) -/
theorem return_values_exact (sig : Sig) (e : Expectation) (typed vs : List Val)
    (hr : sig.nresults ≠ 0) (hl : vs.length = sig.nresults) (he : e.rets = vs.map .val) :
    extract sig e typed = [.returned vs] := by
  have hx := extractAll_values e typed vs he sig.nresults 0 (by omega)
  rw [extract_eq sig e typed hr (by rw [he]; cases vs <;> simp_all) (by rw [he]; intro ws; cases vs with
    | nil => simp
    | cons v rest => cases rest <;> simp), hx]
  simp [← hl]

/-- **RunAndReturn**: the function is invoked exactly once with the call's typed arguments and the call
returns exactly what it returns -/
theorem run_and_return_exact (sig : Sig) (e : Expectation) (typed vs : List Val)
    (hr : sig.nresults ≠ 0) (he : e.rets = [.wholeFunc vs]) :
    extract sig e typed = [.saw "fn" e.id none typed, .returned vs] := by
  simp [extract, hr, he]

/-- **function providers**: each per-result function is invoked exactly once, in result order, with the
call's typed arguments, and the call returns exactly what they return -/
theorem providers_exact (sig : Sig) (e : Expectation) (typed vs : List Val)
    (hr : sig.nresults ≠ 0) (hl : vs.length = sig.nresults) (he : e.rets = vs.map .provider) :
    extract sig e typed =
      (List.range' 0 sig.nresults).map (fun k => Ev.saw "provider" e.id (some k) typed) ++ [.returned vs] := by
  have hx := extractAll_providers e typed vs he sig.nresults 0 (by omega)
  rw [extract_eq sig e typed hr (by rw [he]; cases vs <;> simp_all) (by rw [he]; intro ws; cases vs with
    | nil => simp
    | cons v rest => cases rest <;> simp), hx]
  simp [← hl]

/-! ### registering through EXPECT() -/

/-- **the expecter registers the matchers element by element**, in the order written -/
theorem expecter_registers (sig : Sig) (mk : Mock) (id : Nat) (ords vars : List Matcher) (style : Style) (times : Nat) :
    ∃ e, (expect sig mk id ords vars style times).expected = mk.expected ++ [e] ∧
      e.matchers = ords ++ vars ∧ e.method = sig.name ∧ e.id = id ∧ e.repeatability = (times : Int) ∧
      e.totalCalls = 0 := by
  cases style <;> exact ⟨_, rfl, rfl, rfl, rfl, rfl, rfl⟩

/-- an expectation written from a call's own `Called` arguments (any of them relaxed to `mock.Anything`)
on a fresh mock is found by that call – in each of the three packing modes -/
theorem registered_expectation_matches (unroll : Bool) (sig : Sig) (a : CallArgs) (id : Nat) (mask : List Bool)
    (style : Style) (times : Nat)
    (hm : mask.length = (calledArgs unroll sig a).length) :
    (findExpected (expect sig ⟨[], []⟩ id (relaxed mask (calledArgs unroll sig a)) [] style times).expected
      sig.name (calledArgs unroll sig a)).map (·.id) = some id := by
  have hmatch := relaxed_matches mask (calledArgs unroll sig a) hm
  have ht : (-1 : Int) < (times : Int) := by omega
  cases style <;> simp [expect, findExpected, Expectation.matchesCall, hmatch, ht]

/-- **Once**: after its single call an expectation is used up and matches no further call -/
theorem once_is_used_up (e : Expectation) (h : e.repeatability = 1) :
    (consume e).repeatability = -1 ∧ (consume e).totalCalls = e.totalCalls + 1 := by
  simp [consume, h]

theorem used_up_never_found (e : Expectation) (m : String) (args : List Val) (h : e.repeatability = -1) :
    findExpected [e] m args = none := by
  simp [findExpected, h]

/-- **Times(n)**: an expectation registered for `n + 1` repetitions matches exactly `n + 1` calls -/
theorem times_exact (m : String) (args : List Val) : ∀ (n : Nat) (e : Expectation) (calls : List (String × List Val)),
    e.matchesCall m args = true → e.repeatability = (n : Int) + 1 →
    ∃ mk', callN m args (n + 1) ⟨[e], calls⟩ = some mk' ∧ called mk' m args = none
  | 0, e, calls, hm, hr => by
    have h1 := called_single e m args calls hm (by omega)
    refine ⟨⟨[consume e], calls ++ [(m, args)]⟩, by simp [callN, h1], ?_⟩
    exact called_used_up _ _ _ _ (by simp [consume, hr])
  | n + 1, e, calls, hm, hr => by
    have h1 := called_single e m args calls hm (by omega)
    have hr' : (consume e).repeatability = (n : Int) + 1 := by
      simp only [consume, hr]
      have : ¬ ((n : Int) + 1 + 1 = 1) := by omega
      have h2 : (n : Int) + 1 + 1 > 1 := by omega
      simp [this, h2]
    obtain ⟨mk', hk, hnone⟩ := times_exact m args n (consume e) (calls ++ [(m, args)])
      (by rw [consume_matches]; exact hm) hr'
    refine ⟨mk', ?_, hnone⟩
    simp only [callN, h1]
    exact hk

/-- an expectation without a repetition limit matches any number of calls -/
theorem unlimited_always_matches (m : String) (args : List Val) : ∀ (k : Nat) (e : Expectation) (calls : List (String × List Val)),
    e.matchesCall m args = true → e.repeatability = 0 → (callN m args k ⟨[e], calls⟩).isSome = true
  | 0, _, _, _, _ => rfl
  | k + 1, e, calls, hm, hr => by
    have h1 := called_single e m args calls hm (by omega)
    simp only [callN, h1]
    exact unlimited_always_matches m args k (consume e) _ (by rw [consume_matches]; exact hm) (by simp [consume, hr])

/-- **cleanup**: an expectation that no call matched makes `AssertExpectations` fail -/
theorem cleanup_reports_unmet (mk : Mock) (e : Expectation) (he : e ∈ mk.expected) (h0 : e.totalCalls = 0)
    (hc : ∀ c ∈ mk.calls, e.matchesCall c.1 c.2 = false) : assertExpectations mk = false := by
  unfold assertExpectations
  rw [List.all_eq_false]
  refine ⟨e, he, ?_⟩
  have : mk.calls.any (fun c => e.matchesCall c.1 c.2) = false := by
    rw [List.any_eq_false]; intro c hcm; simp [hc c hcm]
  simp [expectationMet, this, h0]

/-- and so do repetitions that were asked for (`Times(n)`) and not used -/
theorem cleanup_reports_unused_repetitions (mk : Mock) (e : Expectation) (he : e ∈ mk.expected)
    (hr : e.repeatability > 0) : assertExpectations mk = false := by
  unfold assertExpectations
  rw [List.all_eq_false]
  exact ⟨e, he, by simp [expectationMet, hr]⟩

/-! ### the emitted statements refine the model

`Gen/TestifyEmit.emitBody` is the statement list the template emits for a method of a given shape (its
Go text is compared token for token with the generator's output on every case of the harness);
`Sem/TestifyExec` gives the statements their meaning over the model of testify.  The theorems above are
about `invoke`; these say that running the emitted statements *is* `invoke`, for every method shape. -/

open Mockery.Sem.TestifyExec Mockery.Gen.TestifyEmit in
/-- **the emitted method body refines the model**: for every method shape (any parameters, variadic or not,
any number of results of any kind, unroll-variadic on or off), every state of the mock whose return
arguments were registered through the typed wrappers, and every call, interpreting the emitted statements
gives exactly the events, results and new state of `invoke` -/
theorem emitted_method_refines_model (w : World) (sh : Shape) (mk : Mock) (a : CallArgs)
    (hl : a.ords.length = sh.params.length)
    (hs : sh.isVariadic = true → a.varSlice = w.mkSlice a.varElems)
    (hok : ∀ e ∈ mk.expected, RetsOK w sh e.rets) :
    invokeEmitted w sh mk a = invoke sh.unroll (sigOf sh) mk a :=
  invokeEmitted_eq_invoke w sh mk a hl hs hok

open Mockery.Sem.TestifyExec Mockery.Gen.TestifyEmit in
/-- **the typed `Run` wrapper hands the callback the call's arguments**: applied to the `mock.Arguments` the
emitted method passes to `Called` (in each of the three packing modes) the closure registered by `Run`
rebuilds exactly the typed parameters, the variadic one included -/
theorem run_wrapper_receives_call_arguments (w : World) (sh : Shape) (a : CallArgs)
    (hl : a.ords.length = sh.params.length) (hs : sh.isVariadic = true → a.varSlice = w.mkSlice a.varElems) :
    unpackRun w sh (calledArgs sh.unroll (sigOf sh) a) = some (typedArgs (sigOf sh) a) :=
  unpackRun_calledArgs w sh a hl hs

open Mockery.Sem.TestifyExec Mockery.Gen.TestifyEmit in
/-- the hypothesis of `emitted_method_refines_model` is what the typed wrappers establish: whatever style an
expectation is registered in, its return arguments are well-formed for the method – given that the values
passed to the typed `Return` are values of the result types (a nil interface value only at a nillable result,
where it is the zero value) and `RunAndReturn`'s function returns one value per result -/
theorem typed_wrappers_register_wellformed_returns (w : World) (sh : Shape) (mk : Mock) (id : Nat)
    (ords vars : List Matcher) (style : Style) (times : Nat)
    (hold : ∀ e ∈ mk.expected, RetsOK w sh e.rets)
    (hstyle : match style with
      | .ret vs | .runRet vs => ∀ (i : Nat) (v : Val), vs[i]? = some v → w.isNilIface v = true → resultKind sh i ≠ .plain ∧ v = w.zero i
      | .runAndReturn vs => vs.length = sh.results.length
      | .providers rs => ∀ (i : Nat), match (rs[i]? : Option RetVal) with
          | some (.wholeFunc _) => False
          | some (.val v) => w.isNilIface v = true → resultKind sh i ≠ .plain ∧ v = w.zero i
          | _ => True
      | .none => True) :
    ∀ e ∈ (expect (sigOf sh) mk id ords vars style times).expected, RetsOK w sh e.rets := by
  intro e he
  simp only [expect, List.mem_append, List.mem_singleton] at he
  rcases he with he | he
  · exact hold e he
  · subst he
    cases style with
    | ret vs =>
      refine Or.inr (Or.inr (fun i => ?_))
      simp only [List.getElem?_map]
      cases hv : vs[i]? with
      | none => simp
      | some v => simpa using hstyle i v hv
    | runRet vs =>
      refine Or.inr (Or.inr (fun i => ?_))
      simp only [List.getElem?_map]
      cases hv : vs[i]? with
      | none => simp
      | some v => simpa using hstyle i v hv
    | runAndReturn vs =>
      by_cases h0 : (sigOf sh).nresults = 0
      · exact Or.inl (by simp [h0])
      · exact Or.inr (Or.inl ⟨vs, by simp [h0], hstyle⟩)
    | providers rs => exact Or.inr (Or.inr hstyle)
    | none => exact Or.inl rfl

open Mockery.Sem.TestifyExec Mockery.Gen.TestifyEmit in
/-- non-vacuity of `emitted_method_refines_model`: a variadic method with two results, unroll-variadic off, an
expectation registered with `Return(1, nil)` – the hypotheses hold and the emitted body returns the values -/
example :
    let w : World := ⟨fun _ => "12#2", fun v => v == "7#0", fun i => if i = 1 then "7#0" else "0#0"⟩
    let sh : Shape := {
      structName := "MockS", tconstraint := "", tinst := "", testify := "mock", name := "Send",
      params := [("a0", "int")], variadic := some ("rest", "string"), results := [("int", .plain), ("error", .error)],
      unroll := false, retName := "ret" }
    let a : CallArgs := ⟨["1#1"], "12#2", ["1#1"]⟩
    let mk := expect (sigOf sh) ⟨[], []⟩ 0 [.exact "1#1"] [.anything] (.ret ["0#1", "7#0"]) 1
    (a.ords.length = sh.params.length) ∧ (sh.isVariadic = true → a.varSlice = w.mkSlice a.varElems) ∧
    (∀ e ∈ mk.expected, RetsOK w sh e.rets) ∧
    (invoke sh.unroll (sigOf sh) mk a).2 = [.returned ["0#1", "7#0"]] := by
  refine ⟨rfl, fun _ => rfl, ?_, by decide⟩
  intro e he
  simp only [expect, List.nil_append, List.mem_singleton] at he
  subst he
  refine Or.inr (Or.inr (fun i => ?_))
  match i with
  | 0 => simp
  | 1 => simp [resultKind]
  | n + 2 => simp

/-- non-vacuity: a variadic method, unroll-variadic off, Run + Return, then a call nothing was registered for -/
example :
    let sig : Sig := ⟨"Send", 1, true, 2⟩
    let a : CallArgs := ⟨["1#1"], "12#2", ["1#1"]⟩
    let mk := expect sig ⟨[], []⟩ 0 [.exact "1#1"] [.anything] (.runRet ["0#1", "7#0"]) 1
    let r1 := invoke false sig mk a
    let r2 := invoke false sig r1.1 a
    r1.2 = [.saw "run" 0 none ["1#1", "12#2"], .returned ["0#1", "7#0"]] ∧ r2.2 = [.failed] ∧
      assertExpectations r2.1 = true := by decide

end Mockery.C03
