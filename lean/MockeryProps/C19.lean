import MockeryModel.Cmd.Migrate
/-!
# C19 — `mockery migrate` carries every supported v2 setting to its v3 place unchanged

Property theorems only.  The key table is regenerated from `migrateConfig` on
every run; the theorems quantify over all v2 trees (any keys set at any level,
any names, any values).
-/
namespace Mockery.C19
open Mockery.Cmd Mockery.Config Mockery

/-- **The regenerated mapping is exactly the documented one**: each v2 setting with a v3
counterpart goes to its v3 name or template-data key, unconditionally for plain fields and
"when set" for template-data entries (plus `with-expecter`, which the code also carries over). -/
theorem table_is_documented :
    Generated.migrateMap = [
      ("all", "field", "all", ""),
      ("_anchors", "field", "_anchors", ""),
      ("boilerplate-file", "template-data", "boilerplate-file", "v2Config.BoilerplateFile != nil"),
      ("config", "field", "config", ""),
      ("dir", "field", "dir", ""),
      ("exclude", "field", "exclude-subpkg-regex", ""),
      ("exclude-regex", "field", "exclude-interface-regex", ""),
      ("include-regex", "field", "include-interface-regex", ""),
      ("log-level", "field", "log-level", ""),
      ("mock-build-tags", "template-data", "mock-build-tags", "v2Config.MockBuildTags != nil"),
      ("mockname", "field", "structname", ""),
      ("outpkg", "field", "pkgname", ""),
      ("recursive", "field", "recursive", ""),
      ("unroll-variadic", "template-data", "unroll-variadic", "v2Config.UnrollVariadic != nil"),
      ("with-expecter", "template-data", "with-expecter", "v2Config.WithExpecter != nil")] := by decide

/-- the fourteen settings the property names are all in the table -/
theorem named_settings_mapped :
    ["all", "dir", "mockname", "outpkg", "include-regex", "exclude-regex", "exclude", "recursive", "log-level",
     "config", "_anchors", "boilerplate-file", "mock-build-tags", "unroll-variadic"].all
      (fun k => migTable.any (·.1 == k)) = true := by decide

theorem targets_unique : (migTable.map (fun r => (r.2.1, r.2.2))).Nodup := by decide
theorem sources_unique : (migTable.map (·.1)).Nodup := by decide

/-! ## one level -/

theorem get_filterMap_rows (rows : List MigRow) (v2 : Cfg) (k : String)
    (hnd : (rows.map (·.2.2)).Nodup) (r : MigRow) (hr : r ∈ rows) (hk : r.2.2 = k) :
    Cfg.get (rows.filterMap (fun r => (v2.get r.1).map (fun v => (r.2.2, v)))) k = v2.get r.1 := by
  induction rows with
  | nil => cases hr
  | cons a as ih =>
    simp only [List.map_cons, List.nodup_cons] at hnd
    rcases List.mem_cons.1 hr with e | hm
    · subst e
      simp only [List.filterMap_cons]
      cases hv : v2.get r.1 with
      | some v => simp [Cfg.get, hk]
      | none =>
        simp only [Option.map_none]
        have : ∀ (l : List MigRow), k ∉ l.map (·.2.2) →
            Cfg.get (l.filterMap (fun r => (v2.get r.1).map (fun v => (r.2.2, v)))) k = none := by
          intro l
          induction l with
          | nil => intro _; rfl
          | cons b bs ihb =>
            intro hn
            simp only [List.map_cons, List.mem_cons, not_or] at hn
            simp only [List.filterMap_cons]
            cases v2.get b.1 with
            | none => simpa using ihb hn.2
            | some v =>
              simp only [Option.map_some, Cfg.get]
              rw [if_neg (fun h => hn.1 h.symm)]
              exact ihb hn.2
        exact this as (hk ▸ hnd.1)
    · have hne : a.2.2 ≠ k := by
        intro h
        apply hnd.1
        rw [h, ← hk]
        exact List.mem_map.2 ⟨r, hm, rfl⟩
      simp only [List.filterMap_cons]
      cases v2.get a.1 with
      | none => simpa using ih hnd.2 hm
      | some v =>
        simp only [Option.map_some, Cfg.get, if_neg hne]
        exact ih hnd.2 hm

/-- **A mapped plain setting appears under its v3 name with the same value** (and is absent when
the v2 level does not set it). -/
theorem field_preserved (v2 : Cfg) (v2key v3key : String) (h : (v2key, false, v3key) ∈ migTable) :
    (migrateFields migTable v2).get v3key = v2.get v2key := by
  unfold migrateFields
  have hnd : ((migTable.filter (fun r => !r.2.1)).map (·.2.2)).Nodup := by decide
  have hm : (v2key, false, v3key) ∈ migTable.filter (fun r => !r.2.1) := by
    simp [List.mem_filter, h]
  exact get_filterMap_rows _ v2 v3key hnd _ hm rfl

/-- **A setting that moved to template-data appears under its key with the same value.** -/
theorem template_data_preserved (v2 : Cfg) (v2key tdkey : String) (h : (v2key, true, tdkey) ∈ migTable) :
    Cfg.get (migrateTD migTable v2) tdkey = v2.get v2key := by
  unfold migrateTD
  have hnd : ((migTable.filter (fun r => r.2.1)).map (·.2.2)).Nodup := by decide
  have hm : (v2key, true, tdkey) ∈ migTable.filter (fun r => r.2.1) := by
    simp [List.mem_filter, h]
  exact get_filterMap_rows _ v2 tdkey hnd _ hm rfl

/-- **Nothing is invented**: every key of a migrated level comes from a table row whose v2 key
is set, with that value. -/
theorem nothing_invented (v2 : Cfg) (k : String) (v : Val) :
    ((k, v) ∈ migrateFields migTable v2 → ∃ r ∈ migTable, r.2.1 = false ∧ r.2.2 = k ∧ v2.get r.1 = some v) ∧
    ((k, v) ∈ migrateTD migTable v2 → ∃ r ∈ migTable, r.2.1 = true ∧ r.2.2 = k ∧ v2.get r.1 = some v) := by
  constructor
  · intro h
    simp only [migrateFields, List.mem_filterMap, List.mem_filter] at h
    obtain ⟨r, ⟨hr, hf⟩, hv⟩ := h
    cases hg : v2.get r.1 with
    | none => simp [hg] at hv
    | some w =>
      simp only [hg, Option.map_some, Option.some.injEq, Prod.mk.injEq] at hv
      exact ⟨r, hr, by simpa using hf, hv.1, by rw [hg, hv.2]⟩
  · intro h
    simp only [migrateTD, List.mem_filterMap, List.mem_filter] at h
    obtain ⟨r, ⟨hr, hf⟩, hv⟩ := h
    cases hg : v2.get r.1 with
    | none => simp [hg] at hv
    | some w =>
      simp only [hg, Option.map_some, Option.some.injEq, Prod.mk.injEq] at hv
      exact ⟨r, hr, by simpa using hf, hv.1, by rw [hg, hv.2]⟩

/-! ## the tree: same levels, same names, same order -/

/-- package and interface names are preserved exactly, in order -/
theorem names_preserved (r : V2Root) :
    (migrate migTable r).packages.map (·.1) = r.packages.map (·.1) ∧
    ∀ n p, (n, p) ∈ r.packages → ∃ p', (n, p') ∈ (migrate migTable r).packages ∧
      p'.interfaces.map (·.1) = p.interfaces.map (·.1) := by
  constructor
  · simp [migrate, List.map_map, Function.comp]
  · intro n p h
    refine ⟨_, List.mem_map.2 ⟨(n, p), h, rfl⟩, ?_⟩
    simp [List.map_map, Function.comp]

/-- each level is migrated by itself: a package's `config`, an interface's `config` and the i-th
`configs` entry of the output are the migration of the corresponding v2 level (absent stays absent) -/
theorem levels_correspond (r : V2Root) (n : String) (p : V2Pkg) (h : (n, p) ∈ r.packages) :
    ∃ p', (n, p') ∈ (migrate migTable r).packages ∧
      p'.config = migrateOpt migTable p.config ∧
      ∀ i ic, (i, ic) ∈ p.interfaces → ∃ ic', (i, ic') ∈ p'.interfaces ∧
        ic'.config = migrateOpt migTable ic.config ∧
        ic'.configs = ic.configs.map (migrateLevel migTable) := by
  refine ⟨_, List.mem_map.2 ⟨(n, p), h, rfl⟩, rfl, ?_⟩
  intro i ic hi
  exact ⟨_, List.mem_map.2 ⟨(i, ic), hi, rfl⟩, rfl, rfl⟩

/-- the top level is the migration of the v2 top level plus the template choice, and nothing else -/
theorem top_level (r : V2Root) :
    (migrate migTable r).config.fields = migrateFields migTable r.config ++ [("template", .s "testify")] ∧
    (migrate migTable r).config.templateData = migrateTD migTable r.config := ⟨rfl, rfl⟩

/-- non-vacuity: `mockname` at a configs entry becomes `structname`, `unroll-variadic` goes to template-data -/
example :
    let l := migrateLevel migTable [("mockname", .s "M"), ("unroll-variadic", .b true), ("case", .s "snake")]
    (l.fields.map (·.1), l.templateData.map (·.1)) = (["structname"], ["unroll-variadic"]) := by decide

end Mockery.C19
