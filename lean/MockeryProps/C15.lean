import MockeryModel.Gen.AllocMachine
import MockeryLemmas.Alloc
import MockeryModel.Generated.AllocFacts
import MockeryModel.Gen.AllocText
/-!
# C15 — Name and import allocators never produce collisions

Property theorems only.  Quantification: every scope (any initial name set, in
particular the one produced for any method), every registry reachable from the
empty one, every finite history of operations, interleaved arbitrarily.
-/
namespace Mockery.C15
open Mockery.Gen

/-- The Go `SuggestName` loop has no bound; it always terminates. -/
theorem suggest_total (names : List String) (p : String) : ∃ n, suggest? names p = some n :=
  Option.isSome_iff_exists.1 (Gen.suggest_total names p)

/-- `SuggestName` returns the *first* free candidate of `p, p1, p2, …`. -/
theorem suggest_first_free (s : Scope) (p : String) :
    s.suggest p ∉ s.names ∧ ∃ k, s.suggest p = cand p k ∧ ∀ j, j < k → cand p j ∈ s.names :=
  suggestName_spec s.names p

/-- Every name returned by the allocation call is different from every name
visible before, and is visible afterwards. -/
theorem allocate_fresh (s : Scope) (p : String) :
    (s.allocate p).2 ∉ s.names ∧ (s.allocate p).2 ∈ (s.allocate p).1.names :=
  Scope.allocate_fresh' s p

/-- Over any history: the allocation after `pre` returns a name that is
different from every initially visible name, every name added before and every
name allocated before. -/
theorem alloc_differs_from_everything_before (s : Scope) (pre : List ScopeOp) (p : String) :
    let s' := (s.run pre).1
    let r := (s'.allocate p).2
    (∀ n ∈ s.names, r ≠ n) ∧ (∀ n, ScopeOp.add n ∈ pre → r ≠ n) ∧ (∀ a ∈ s.allocResults pre, r ≠ a) := by
  intro s' r
  have hf : r ∉ s'.names := (Scope.allocate_fresh' s' p).1
  refine ⟨?_, ?_, ?_⟩
  · intro n hn h; exact hf (h ▸ Scope.names_run_subset s pre n hn)
  · intro n hn h; exact hf (h ▸ Scope.added_subset s pre n hn)
  · intro a ha h; exact hf (h ▸ Scope.allocResults_subset s pre a ha)

/-- The results of all allocation calls of a history are pairwise distinct and
none was visible initially. -/
theorem alloc_results_pairwise_distinct (s : Scope) (ops : List ScopeOp) :
    (s.allocResults ops).Nodup ∧ ∀ r ∈ s.allocResults ops, r ∉ s.names :=
  ⟨(Scope.allocResults_fresh s ops).2, (Scope.allocResults_fresh s ops).1⟩

/-- Suggestion without allocation has no effect: removing a `suggest` from any
history changes neither the final state nor any other output. -/
theorem suggest_no_effect (s : Scope) (a b : List ScopeOp) (p : String) :
    (s.run (a ++ .suggest p :: b)).1 = (s.run (a ++ b)).1 ∧
    (s.run (a ++ .suggest p :: b)).2 =
      (s.run a).2 ++ ((s.run a).1.suggest p) :: ((s.run a).1.run b).2 ∧
    (s.run (a ++ b)).2 = (s.run a).2 ++ ((s.run a).1.run b).2 := by
  simp [Scope.run_append, Scope.run_cons, Scope.step]

/-- A name reported as existing stays existing. -/
theorem exists_monotone (s : Scope) (ops : List ScopeOp) (n : String)
    (h : s.nameExists n = true) : (s.run ops).1.nameExists n = true := by
  simp only [Scope.nameExists, decide_eq_true_eq] at h ⊢
  exact Scope.names_run_subset s ops n h

/-! ## registry -/

/-- A registry reachable from the empty one by any sequence of `AddImport`s. -/
def Reachable (r : Registry) : Prop :=
  ∃ dst inPkg dname reqs, r = (Registry.mk dst inPkg [] dname).addImports reqs

theorem reachable_inv {r : Registry} (h : Reachable r) : r.Inv := by
  obtain ⟨dst, inPkg, dname, reqs, rfl⟩ := h
  refine Registry.addImports_inv ⟨?_, ?_, ?_⟩ reqs <;> simp [Registry.paths, Registry.quals]

theorem reachable_step {r : Registry} (h : Reachable r) (n p : String) : Reachable (r.addImport n p).1 := by
  obtain ⟨dst, inPkg, dname, reqs, rfl⟩ := h
  refine ⟨dst, inPkg, dname, reqs ++ [(n, p)], ?_⟩
  have : ∀ (r : Registry) (a b : List (String × String)),
      r.addImports (a ++ b) = (r.addImports a).addImports b := by
    intro r a b
    induction a generalizing r with
    | nil => rfl
    | cons x xs ih => obtain ⟨n, p⟩ := x; simp [Registry.addImports, ih]
  rw [this]; rfl

/-- Adding an import returns the same qualifier (indeed the same entry) for the
same path every time, whatever else is added in between and whatever package
name accompanies the later request – as long as that name does not make the
request the destination package itself (the guard of `addImport` looks at the
name since the mock may be written into a third package). -/
theorem same_path_same_qualifier (r : Registry) (n path : String) (p : Pkg)
    (h : (r.addImport n path).2 = some p) (between : List (String × String)) (n' : String)
    (hn' : r.isSelf n' path = false) :
    (((r.addImport n path).1.addImports between).addImport n' path).2 = some p := by
  rcases Registry.addImport_result (r := r) n path with ⟨h0, _⟩ | ⟨q, hq, hfind⟩
  · rw [h0] at h; cases h
  · rw [hq] at h; cases h
    have hst := Registry.addImports_find?_stable hfind between
    have hcfg := Registry.addImports_cfg (r.addImport n path).1 between
    have hcfg0 := Registry.addImport_cfg r n path
    generalize ((r.addImport n path).1.addImports between) = r2 at hst hcfg
    have hself : r2.isSelf n' path = r.isSelf n' path := by
      unfold Registry.isSelf
      rw [hcfg.1, hcfg.2.1, hcfg.2.2, hcfg0.1, hcfg0.2.1, hcfg0.2.2]
    unfold Registry.addImport
    rw [hself, hn']
    simp [hst]

/-- The same request repeated (same name, same path) always returns the same entry. -/
theorem same_request_same_qualifier (r : Registry) (n path : String) (p : Pkg)
    (h : (r.addImport n path).2 = some p) (between : List (String × String)) :
    (((r.addImport n path).1.addImports between).addImport n path).2 = some p := by
  refine same_path_same_qualifier r n path p h between n ?_
  have := Registry.addImport_some_cond h
  simpa using this

/-- Distinct paths get distinct qualifiers, even when package names coincide;
no qualifier equals another import's. -/
theorem distinct_paths_distinct_qualifiers {r : Registry} (h : Reachable r) :
    ∀ p ∈ r.imports, ∀ q ∈ r.imports, p.qualifier = q.qualifier → p = q := by
  intro p hp q hq hpq
  have hnd := (reachable_inv h).quals_nodup
  unfold Registry.quals at hnd
  exact inj_of_nodup_map hnd hp hq hpq

/-- …and each path occurs once. -/
theorem one_entry_per_path {r : Registry} (h : Reachable r) :
    ∀ p ∈ r.imports, ∀ q ∈ r.imports, p.path = q.path → p = q := by
  intro p hp q hq hpq
  have hnd := (reachable_inv h).paths_nodup
  unfold Registry.paths at hnd
  exact inj_of_nodup_map hnd hp hq hpq

/-- Every non-nil result of `AddImport` is an entry of the table afterwards, so
the two theorems above speak about exactly the values templates receive. -/
theorem result_is_entry (r : Registry) (n path : String) (p : Pkg)
    (h : (r.addImport n path).2 = some p) : p ∈ (r.addImport n path).1.imports ∧ p.path = path := by
  rcases Registry.addImport_result (r := r) n path with ⟨h0, _⟩ | ⟨q, hq, hfind⟩
  · rw [h0] at h; cases h
  · rw [hq] at h; cases h; exact Registry.find?_some hfind

/-- The package the output file belongs to is never imported into it: no entry of the table satisfies the guard
of `addImport`. -/
theorem no_self_import_entry {r : Registry} (h : Reachable r) (p : Pkg) (hp : p ∈ r.imports) :
    r.isSelf p.name p.path = false := (reachable_inv h).no_self p hp

/-- The destination package is never imported into itself (registry created in-package). -/
theorem no_self_import {r : Registry} (h : Reachable r) (hin : r.inPackage = true) :
    r.dstPkgPath ∉ r.paths := by
  intro hmem
  simp only [Registry.paths, List.mem_map] at hmem
  obtain ⟨p, hp, hpath⟩ := hmem
  have := no_self_import_entry h p hp
  simp [Registry.isSelf, hpath, hin] at this

/-- A mock written into a third, existing package: that package (found at the destination path under the name
the file declares) is not imported either. -/
theorem no_self_import_named {r : Registry} (h : Reachable r) (hn : r.dstPkgName ≠ "") (p : Pkg)
    (hp : p ∈ r.imports) : ¬(p.path = r.dstPkgPath ∧ p.name = r.dstPkgName) := by
  intro ⟨h1, h2⟩
  have := no_self_import_entry h p hp
  simp [Registry.isSelf, h1, h2, hn] at this

/-- The import list is sorted by path (strictly, so each path once) and is a
permutation of the table. -/
theorem imports_sorted_nodup {r : Registry} (h : Reachable r) :
    r.sortedImports.Pairwise (fun a b => a.path < b.path) ∧ r.sortedImports.Perm r.imports :=
  ⟨Registry.foldr_sorted r.imports (reachable_inv h).paths_nodup, Registry.sortedImports_perm r.imports⟩

/-! ## the interleaved machine -/

/-- Registry operations and operations on other scopes never disturb scope `k`:
its state after any interleaved history is what its own operations produce. -/
theorem scope_isolated (s : St) (ops : List Op) (k : Nat) (sc : Scope) (h : s.scopes[k]? = some sc) :
    (s.run ops).1.scopes[k]? = some (sc.run (opsOf k ops)).1 := by
  induction ops generalizing s sc with
  | nil => simpa [St.run, opsOf, Scope.run] using h
  | cons op ops ih =>
    simp only [St.run]
    cases op with
    | imp n p => simpa [opsOf, St.step] using ih _ sc (by simpa [St.step] using h)
    | imports => simpa [opsOf, St.step] using ih _ sc (by simpa [St.step] using h)
    | pkgq p => simpa [opsOf, St.step] using ih _ sc (by simpa [St.step] using h)
    | newScope =>
      have hk : k < s.scopes.length := by
        rcases Nat.lt_or_ge k s.scopes.length with hlt | hge
        · exact hlt
        · simp [List.getElem?_eq_none hge] at h
      simpa [opsOf, St.step] using ih _ sc (by simp [List.getElem?_append_left hk, h])
    | scope j sop =>
      by_cases hjk : j = k
      · subst hjk
        simp only [opsOf, ↓reduceIte, St.step, h]
        rw [Scope.run_cons]
        have hk : j < s.scopes.length := by
          rcases Nat.lt_or_ge j s.scopes.length with hlt | hge
          · exact hlt
          · simp [List.getElem?_eq_none hge] at h
        exact ih _ _ (by simp [hk])
      · simp only [opsOf, hjk, ↓reduceIte]
        refine ih _ sc ?_
        simp only [St.step]
        split
        · exact h
        · simp [hjk, h]

/-- The registry of the interleaved machine stays reachable, hence all registry
theorems hold after any interleaved history. -/
theorem machine_registry_reachable (s : St) (ops : List Op) (h : Reachable s.reg) :
    Reachable (s.run ops).1.reg := by
  induction ops generalizing s with
  | nil => simpa [St.run] using h
  | cons op ops ih =>
    simp only [St.run]
    cases op with
    | imp n p => exact ih _ (by simpa [St.step] using reachable_step h n p)
    | imports => exact ih _ (by simpa [St.step] using h)
    | pkgq p => exact ih _ (by simpa [St.step] using h)
    | newScope => exact ih _ (by simpa [St.step] using h)
    | scope j sop =>
      refine ih _ ?_
      simp only [St.step]
      split <;> simpa using h

/-! ## non-vacuity: concrete states meeting the hypotheses -/

example : (Scope.mk ["r", "r1", "x"]).suggest "r" = "r2" := by decide
example : ((Scope.mk ["a"]).allocResults [.alloc "a", .suggest "a", .alloc "a", .add "a3", .alloc "a"])
    = ["a1", "a2", "a4"] := by decide
example : Reachable ((Registry.mk "d" true [] "").addImports [("http", "net/http"), ("http", "x/http")]) :=
  ⟨"d", true, "", _, rfl⟩
example : ((Registry.mk "d" true [] "").addImports [("http", "net/http"), ("http", "x/http"), ("http", "d")]).quals
    = ["http", "http0"] := by decide
-- a mock of `api.Node` written into package `core` (not the source package): `core` itself is not imported, a
-- same-directory `core_test` output (another declared name) does import it
example : ((Registry.mk "m/core" false [] "core").addImports [("api", "m/api"), ("core", "m/core")]).paths
    = ["m/api"] := by decide
example : ((Registry.mk "m/core" false [] "core_test").addImports [("api", "m/api"), ("core", "m/core")]).paths
    = ["m/api", "m/core"] := by decide

/-- the allocator functions the models of `Gen/Scope.lean` and `Gen/Registry.lean` were written against are the current
source's, statement by statement (`SuggestName`, `AllocateName`, `AddName`, `NameExists`,
`ResolveVariableNameCollisions`, `NewMethodScope`, `Registry.addImport` / `AddImport` / `Imports` / `MethodScope`,
`Packages.PkgQualifier`, `Package.Qualifier`) -/
theorem allocators_transcribed :
    Generated.newMethodScopeBody = Gen.AllocText.expectedNewMethodScopeBody ∧
    Generated.suggestNameBody = Gen.AllocText.expectedSuggestNameBody ∧
    Generated.allocateNameBody = Gen.AllocText.expectedAllocateNameBody ∧
    Generated.addNameBody = Gen.AllocText.expectedAddNameBody ∧
    Generated.nameExistsBody = Gen.AllocText.expectedNameExistsBody ∧
    Generated.resolveVariableNameCollisionsBody = Gen.AllocText.expectedResolveVariableNameCollisionsBody ∧
    Generated.registryAddImportBody = Gen.AllocText.expectedRegistryAddImportBody ∧
    Generated.registryAddImportExportedBody = Gen.AllocText.expectedRegistryAddImportExportedBody ∧
    Generated.registryImportsBody = Gen.AllocText.expectedRegistryImportsBody ∧
    Generated.registryMethodScopeBody = Gen.AllocText.expectedRegistryMethodScopeBody ∧
    Generated.pkgQualifierBody = Gen.AllocText.expectedPkgQualifierBody ∧
    Generated.packageQualifierBody = Gen.AllocText.expectedPackageQualifierBody := by
  exact ⟨rfl, rfl, rfl, rfl, rfl, rfl, rfl, rfl, rfl, rfl, rfl, rfl⟩

end Mockery.C15
