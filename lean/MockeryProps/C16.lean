import MockeryModel.Tmpl.Funcs
import MockeryLemmas.Strings
import MockeryLemmas.Helpers
/-!
# C16 — The template function library matches its documented semantics on all inputs

Property theorems only.  Two layers:

* theorems about the **regenerated table** `Generated.funcMap` (rewritten from
  `template_funcs/funcmap.go` on every run): every string entry hands its
  arguments to the standard-library namesake with the subject string moved from
  last to first, every other entry is the namesake itself.  They are re-checked
  against what the code says now.
* theorems about the **reference functions** the table points at, for all byte
  strings (valid UTF-8 or not) and all 64-bit integers: they are the functions
  the documentation names (`Contains` is "occurs as a substring", `Split`/`Join`
  are inverse, arithmetic is the fold over all arguments, …).

The reference functions are tied to Go's real `strings`/`filepath`/`xstrings`
and to the repository's `Exported`/`FirstIsLower`/`Add…` by the correspondence
run (harness/verifh/c16.go).
-/
namespace Mockery.C16
open Mockery.Tmpl Mockery

/-! ## the regenerated table -/

/-- The documented names, each with the function it is documented to equal. -/
def documented : List (String × String) := [
  ("contains", "strings.Contains"), ("hasPrefix", "strings.HasPrefix"), ("hasSuffix", "strings.HasSuffix"),
  ("join", "strings.Join"), ("replace", "strings.Replace"), ("replaceAll", "strings.ReplaceAll"),
  ("split", "strings.Split"), ("splitAfter", "strings.SplitAfter"), ("splitAfterN", "strings.SplitAfterN"),
  ("trim", "strings.Trim"), ("trimLeft", "strings.TrimLeft"), ("trimPrefix", "strings.TrimPrefix"),
  ("trimRight", "strings.TrimRight"), ("trimSpace", "strings.TrimSpace"), ("trimSuffix", "strings.TrimSuffix"),
  ("lower", "strings.ToLower"), ("upper", "strings.ToUpper"),
  ("camelcase", "xstrings.ToCamelCase"), ("snakecase", "xstrings.ToSnakeCase"), ("kebabcase", "xstrings.ToKebabCase"),
  ("firstIsLower", "FirstIsLower"), ("firstLower", "xstrings.FirstRuneToLower"), ("firstUpper", "xstrings.FirstRuneToUpper"),
  ("exported", "Exported"),
  ("matchString", "regexp.MatchString"), ("quoteMeta", "regexp.QuoteMeta"),
  ("base", "filepath.Base"), ("clean", "filepath.Clean"), ("dir", "filepath.Dir"), ("readFile", "ReadFile"),
  ("expandEnv", "os.ExpandEnv"), ("getenv", "os.Getenv"),
  ("add", "Add[int]"), ("decr", "Decr[int]"), ("div", "Div[int]"), ("incr", "Incr[int]"), ("min", "Min[int]"),
  ("mod", "Mod[int]"), ("mul", "Mul[int]"), ("sub", "Sub[int]"),
  ("ceil", "math.Ceil"), ("floor", "math.Floor"), ("round", "math.Round"), ("randInt", "rand.Int")]

/-- number of arguments of the standard-library string functions that take more than the subject -/
def stdArity : List (String × Nat) := [
  ("strings.Contains", 2), ("strings.HasPrefix", 2), ("strings.HasSuffix", 2), ("strings.Join", 2),
  ("strings.Replace", 4), ("strings.ReplaceAll", 3), ("strings.Split", 2), ("strings.SplitAfter", 2),
  ("strings.SplitAfterN", 3), ("strings.Trim", 2), ("strings.TrimLeft", 2), ("strings.TrimPrefix", 2),
  ("strings.TrimRight", 2), ("strings.TrimSuffix", 2)]

/-- Every name of the function map is bound to the function it is documented to
equal, and nothing else is in the map. -/
theorem table_binds_documented_callees :
    Generated.funcMap.map (fun e => (e.1, e.2.1)) = documented := by decide

def closureOK (e : String × String × Option (List Nat)) : Bool :=
  match e.2.2 with
  | some perm => stdArity.any (fun a => a.1 == e.2.1 && perm == subjectLast a.2)
  | none => !(stdArity.map (·.1)).contains e.2.1

theorem closures_checked : Generated.funcMap.all closureOK = true := by decide

/-- Every closure entry is a multi-argument string function and passes the
*last* template argument as the subject (first argument) of its namesake and
the others in order; every other entry is a direct reference. -/
theorem closures_are_subject_last (name callee : String) (perm : List Nat)
    (he : (name, callee, some perm) ∈ Generated.funcMap) :
    ∃ n, (callee, n) ∈ stdArity ∧ perm = subjectLast n := by
  have h := List.all_eq_true.1 closures_checked _ he
  simp only [closureOK, List.any_eq_true, Bool.and_eq_true, beq_iff_eq] at h
  obtain ⟨⟨c, n⟩, hm, hc, hp⟩ := h
  simp only at hc hp
  subst hc
  exact ⟨n, hm, hp⟩

theorem stdArity_functional : ∀ c n m, (c, n) ∈ stdArity → (c, m) ∈ stdArity → n = m := by
  have h : (stdArity.map (·.1)).Nodup := by decide
  intro c n m hn hm
  -- a list of pairs whose first components are pairwise distinct is functional
  have key : ∀ (l : List (String × Nat)), (l.map (·.1)).Nodup → (c, n) ∈ l → (c, m) ∈ l → n = m := by
    intro l
    induction l with
    | nil => intro _ h; cases h
    | cons x xs ih =>
      intro hnd h1 h2
      simp only [List.map_cons, List.nodup_cons, List.mem_map, not_exists, not_and] at hnd
      rcases List.mem_cons.1 h1 with e1 | e1 <;> rcases List.mem_cons.1 h2 with e2 | e2
      · rw [← e1] at e2; exact (Prod.mk.inj e2).2.symm ▸ rfl
      · exact absurd (by rw [← e1]) (hnd.1 (c, m) e2)
      · exact absurd (by rw [← e2]) (hnd.1 (c, n) e1)
      · exact ih hnd.2 e1 e2
  exact key _ h hn hm

/-- **Argument order** (for all argument values): a string function of the map,
applied as a template applies it — extra arguments first, subject string last —
computes its standard-library namesake on (subject, extra arguments…). -/
theorem string_fn_subject_last (U : UnicodeOps) (name callee : String) (perm : List Nat)
    (he : (name, callee, some perm) ∈ Generated.funcMap)
    (extra : List Val) (subject : Val) (n : Nat) (hn : (callee, n) ∈ stdArity) (hlen : extra.length + 1 = n) :
    applyEntry U Generated.golintInitialismsB (name, callee, some perm) (extra ++ [subject]) =
      std U Generated.golintInitialismsB callee (subject :: extra) := by
  obtain ⟨n', hn', hp⟩ := closures_are_subject_last _ _ _ he
  have hnn : n' = n := stdArity_functional _ _ _ hn' hn
  subst hnn hp
  unfold applyEntry
  simp only
  rw [← hlen, permute_subjectLast]

/-- A direct entry passes its arguments through unchanged. -/
theorem direct_fn_is_namesake (U : UnicodeOps) (name callee : String)
    (args : List Val) :
    applyEntry U Generated.golintInitialismsB (name, callee, none) args =
      std U Generated.golintInitialismsB callee args := rfl

/-- `funcApply` is the table lookup (no name is bound twice). -/
theorem names_unique : (Generated.funcMap.map (·.1)).Nodup := by decide

/-! ## the reference functions: string inspection -/

/-- `contains substr s` ⇔ `substr` occurs in `s`. -/
theorem contains_spec (s sub : Bytes) : contains s sub = true ↔ ∃ a b, s = a ++ sub ++ b :=
  contains_iff s sub

theorem hasPrefix_spec (s p : Bytes) : hasPrefix s p = true ↔ ∃ t, s = p ++ t := hasPrefix_iff s p
theorem hasSuffix_spec (s p : Bytes) : hasSuffix s p = true ↔ ∃ t, s = t ++ p := hasSuffix_iff s p

/-- `Index` finds the first occurrence (used by Split/Replace). -/
theorem index_first_occurrence (s sub : Bytes) (k : Nat) (h : index s sub = some k) :
    s = s.take k ++ sub ++ s.drop (k + sub.length) ∧ ∀ j, j < k → sub.isPrefixOf (s.drop j) = false :=
  ⟨(index_some h).2.1, (index_some h).2.2⟩

theorem trimPrefix_removes_exactly_prefix (s p : Bytes) :
    (hasPrefix s p = true → p ++ trimPrefix s p = s) ∧ (hasPrefix s p = false → trimPrefix s p = s) :=
  trimPrefix_spec s p

theorem trimSuffix_removes_exactly_suffix (s p : Bytes) :
    (hasSuffix s p = true → trimSuffix s p ++ p = s) ∧ (hasSuffix s p = false → trimSuffix s p = s) :=
  trimSuffix_spec s p

/-- `join sep (split sep s) = s` for every string and every non-empty separator. -/
theorem join_split (s sep : Bytes) (h : sep ≠ []) : join (split s sep) sep = s := by
  unfold split genSplit
  have : sep.isEmpty = false := by cases sep <;> simp_all
  simp [this, join_splitLoop]

/-- the pieces of `splitAfter`/`splitAfterN` concatenate to the input (any limit `n ≠ 0`) -/
theorem concat_splitAfterN (s sep : Bytes) (n : Int) (h : sep ≠ []) (hn : n ≠ 0) :
    (splitAfterN s sep n).flatten = s := by
  unfold splitAfterN genSplit
  have : sep.isEmpty = false := by cases sep <;> simp_all
  simp [this, hn, flatten_splitLoop_after]

/-- `splitAfterN … 0` is empty, as `strings.SplitAfterN` documents -/
theorem splitAfterN_zero (s sep : Bytes) : splitAfterN s sep 0 = [] := by
  simp [splitAfterN, genSplit]

/-! ## integer arithmetic: the fold over *all* arguments, in 64-bit two's complement -/

theorem add_all_arguments (i : Int) (xs : List Int) : wrap64 (addI i xs) = wrap64 (i + xs.sum) := addI_spec i xs
theorem sub_all_arguments (i : Int) (xs : List Int) : wrap64 (subI i xs) = wrap64 (i - xs.sum) := subI_spec i xs
theorem mul_all_arguments (i : Int) (xs : List Int) :
    wrap64 (mulI i xs) = wrap64 (i * xs.foldr (· * ·) 1) := mulI_spec i xs

/-- `div`/`mod` fail (as a template error) exactly when some divisor is zero … -/
theorem div_error_iff_zero_divisor (i : Int) (ds : List Int) : divI i ds = none ↔ (0 : Int) ∈ ds := divI_none_iff i ds
theorem mod_error_iff_zero_divisor (i : Int) (ds : List Int) : modI i ds = none ↔ (0 : Int) ∈ ds := modI_none_iff i ds

/-- … and otherwise divide cumulatively, truncating toward zero. -/
theorem div_two (a b : Int) (hb : b ≠ 0) : divI a [b] = some (wrap64 (Int.tdiv a b)) := by
  simp [divI, hb]

/-- `min` is a lower bound that is attained; it fails only on no arguments. -/
theorem min_spec (xs : List Int) :
    (minI xs = none ↔ xs = []) ∧ ∀ m, minI xs = some m → m ∈ xs ∧ ∀ y ∈ xs, m ≤ y := by
  cases xs with
  | nil => simp [minI]
  | cons x xs =>
    refine ⟨by simp [minI], ?_⟩
    intro m hm
    simp only [minI, Option.some.injEq] at hm
    subst hm
    obtain ⟨h1, h2⟩ := foldl_min_le xs x
    refine ⟨?_, ?_⟩
    · rcases foldl_min_mem xs x with h | h
      · rw [h]; simp
      · exact List.mem_cons_of_mem _ h
    · intro y hy
      rcases List.mem_cons.1 hy with rfl | hy
      · exact h1
      · exact h2 y hy

/-- Every integer helper is total on every argument list: a value or a
*template* error (zero divisor, empty `min`, missing argument) — never a crash of the run. -/
theorem arithmetic_total (op : ArithOp) (xs : List Int) :
    (∃ v, evalArith op xs = .ok v) ∨ (∃ w, evalArith op xs = .error (.templateError w)) := by
  cases op with
  | div => cases xs with
    | nil => simp [evalArith, wrongArgs]
    | cons x xs => simp only [evalArith]; cases divI x xs <;> simp
  | mod => cases xs with
    | nil => simp [evalArith, wrongArgs]
    | cons x xs => simp only [evalArith]; cases modI x xs <;> simp
  | min => simp only [evalArith]; cases minI xs <;> simp
  | add => cases xs <;> simp [evalArith, wrongArgs]
  | sub => cases xs <;> simp [evalArith, wrongArgs]
  | mul => cases xs <;> simp [evalArith, wrongArgs]
  | incr => rcases xs with _ | ⟨x, _ | ⟨y, ys⟩⟩ <;> simp [evalArith, wrongArgs]
  | decr => rcases xs with _ | ⟨x, _ | ⟨y, ys⟩⟩ <;> simp [evalArith, wrongArgs]

/-! ## case functions -/

/-- `exported ""  = ""` -/
theorem exported_empty (U : UnicodeOps) (ini : List Bytes) : exported U ini [] = some [] := rfl

/-- `exported` returns the matching initialism when the whole upper-cased string is one. -/
theorem exported_initialism (U : UnicodeOps) (ini : List Bytes) (s up i : Bytes)
    (hs : s ≠ []) (hup : toUpperS U s = some up)
    (hi : ini.find? (fun i => i == up) = some i) :
    exported U ini s = some i := by
  have : s.isEmpty = false := by cases s <;> simp_all
  simp [exported, this, hup, hi]

/-- Otherwise `exported` is the input with its first *character* (not byte)
upper-cased and every other byte unchanged. -/
theorem exported_first_letter_uppercased (U : UnicodeOps) (ini : List Bytes) (s up : Bytes)
    (hs : s ≠ []) (hup : toUpperS U s = some up)
    (hi : ini.find? (fun i => i == up) = none)
    (hk : U.known (decodeRune s).1 = true) (hv : (decodeRune s).1 ≠ runeError) :
    exported U ini s = some (encodeRune (U.toUpper (decodeRune s).1) ++ s.drop (decodeRune s).2) := by
  have : s.isEmpty = false := by cases s <;> simp_all
  simp [exported, this, hup, hi, hk, hv]

/-- `firstIsLower` is false on the empty string and otherwise says whether the
first character is a lower-case letter. -/
theorem firstIsLower_spec (U : UnicodeOps) (s : Bytes) :
    (s = [] → firstIsLower U s = some false) ∧
    (s ≠ [] → U.known (decodeRune s).1 = true →
      firstIsLower U s = some (U.isLetter (decodeRune s).1 && U.isLower (decodeRune s).1)) := by
  constructor
  · rintro rfl; rfl
  · intro hs hk
    have : s.isEmpty = false := by cases s <;> simp_all
    simp [firstIsLower, this, hk]

/-- concrete instances with the generated Unicode table: "id" → "ID", "éa" → "Éa" -/
example : exported tableOps Generated.golintInitialismsB [0x69, 0x64] = some [0x49, 0x44] := by decide
example : exported tableOps Generated.golintInitialismsB [0xC3, 0xA9, 0x61] = some [0xC3, 0x89, 0x61] := by decide
example : firstIsLower tableOps [0xC3, 0xA9, 0x61] = some true := by decide
example : firstIsLower tableOps [0xC3, 0x89, 0x61] = some false := by decide
example : firstIsLower tableOps [] = some false := by decide


/-! ## the repository's own helpers are the translated source

`Generated/Helpers.lean` is written by `harness/verifx` (gohelpers.go) from the text of
`template_funcs/functions.go` on every run: each helper statement by statement, with the string, rune
and number types abstract and the standard-library calls as parameters.  The model functions the
theorems above speak about are these definitions, instantiated with the byte-level reference
functions – so every theorem about `exported`, `firstIsLower` and the integer helpers is a theorem
about what the source says now. -/

/-- **model = translation** (`Exported`, `FirstIsLower`): for every Unicode table that classifies every
code point, the model's value is the value of the translated function, instantiated with
`strings.ToUpper`, `utf8.DecodeRuneInString`, `unicode.ToUpper`, `string(rune)`, slicing and `+` -/
theorem case_helpers_are_the_translated_source (U : UnicodeOps) (hU : U.Total) (ini : List Bytes) (s : Bytes) :
    exported U ini s =
      some (Generated.Helpers.exported [] ini (toUpperT U) decodeRune runeError U.toUpper encodeRune
        (fun s n => s.drop n) (· ++ ·) s) ∧
    firstIsLower U s = some (Generated.Helpers.firstIsLower List.length decodeRune U.isLetter U.isLower s) :=
  ⟨exported_translated U hU ini s, firstIsLower_translated U hU s⟩

/-- the hypothesis is satisfiable: a table that treats everything outside ASCII as caseless knows every code point -/
example : ({ tableOps with known := fun _ => true } : UnicodeOps).Total := fun _ => rfl

/-- **model = translation** (`Add`, `Sub`, `Mul`, `Div`, `Mod`, `Incr`, `Decr`, `Min`): the integer helpers are
the translated accumulating loops over 64-bit wrapping arithmetic; for `Div` and `Mod` the number type
is "an integer or a run-time panic" (`quoP`, `remP`: a zero divisor panics, a panic is final) -/
theorem arithmetic_helpers_are_the_translated_source (i : Int) (r : List Int) :
    addI i r = Generated.Helpers.add (fun a b => wrap64 (a + b)) i r ∧
    subI i r = Generated.Helpers.sub (fun a b => wrap64 (a - b)) i r ∧
    mulI i r = Generated.Helpers.mul (fun a b => wrap64 (a * b)) i r ∧
    divI i r = Generated.Helpers.div quoP (some i) (r.map some) ∧
    modI i r = Generated.Helpers.mod remP (some i) (r.map some) ∧
    evalArith .incr [i] = .ok (.int (Generated.Helpers.incr (fun a b => wrap64 (a + b)) 1 i)) ∧
    evalArith .decr [i] = .ok (.int (Generated.Helpers.decr (fun a b => wrap64 (a - b)) 1 i)) ∧
    minI (i :: r) = Generated.Helpers.min minI (i :: r) :=
  ⟨rfl, rfl, rfl, divI_translated i r, modI_translated i r, rfl, rfl, rfl⟩

/-- a concrete run through the translated loops: `div 100 7 2 = 7`, `mod 100 7 = 2`, `div 1 0` panics -/
example : Generated.Helpers.div quoP (some 100) [some 7, some 2] = some 7 ∧
    Generated.Helpers.mod remP (some 100) [some 7] = some 2 ∧
    Generated.Helpers.div quoP (some 1) [some 0, some 5] = none := by decide

end Mockery.C16
