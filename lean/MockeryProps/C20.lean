import MockeryModel.Tools.Tag
import MockeryLemmas.Order
import MockeryModel.Generated.Decide
/-!
# C20 — Release tagger: dry-run mutates nothing; only strictly newer versions are tagged

Property theorems only.  Quantification: every repository (any set of
lightweight / annotated tags, any names, clean or dirty), every requested
version string, every parser (any semver parsing semantics), both dry-run settings.
-/
namespace Mockery.C20
open Mockery.Tools Mockery

/-! ## precedence is a strict total order -/

theorem gt_irrefl (a : Version) : a.gt a = false := by
  unfold Version.gt Version.cmp
  have := versionCmp_lawful.irrefl a.key
  cases h : lexCmp (lexCmp natCmp) a.key a.key <;> simp_all

theorem gt_trans (a b c : Version) (h1 : a.gt b = true) (h2 : b.gt c = true) : a.gt c = true := by
  unfold Version.gt Version.cmp at *
  simp only [beq_iff_eq] at *
  exact versionCmp_lawful.trans _ _ _ h1 h2

theorem gt_asymm (a b : Version) (h : a.gt b = true) : b.gt a = false := by
  unfold Version.gt Version.cmp at *
  simp only [beq_iff_eq] at h
  have := versionCmp_lawful.asymm _ _ h
  cases h' : lexCmp (lexCmp natCmp) b.key a.key <;> simp_all

/-- two versions of different precedence keys are ordered one way or the other -/
theorem gt_total (a b : Version) : a.gt b = true ∨ a.key = b.key ∨ b.gt a = true := by
  unfold Version.gt Version.cmp
  simp only [beq_iff_eq]
  exact versionCmp_lawful.tri a.key b.key

/-- strictly greater than the maximum ⇒ strictly greater than everything below the maximum -/
theorem gt_of_gt_of_not_gt (a b c : Version) (h1 : a.gt b = true) (h2 : c.gt b = false) : a.gt c = true := by
  rcases gt_total c b with h | h | h
  · rw [h] at h2; cases h2
  · unfold Version.gt Version.cmp at *
    rw [h]; exact h1
  · exact gt_trans a b c h1 h

/-! ## the scan for the largest existing tag -/

/-- full semantic-version tags of the requested major, as the scan sees them -/
def relevant (parse : Parser) (major : Nat) (t : Tag) (v : Version) : Prop :=
  parse.parts t.versionString ≥ 3 ∧ parse.parse t.versionString = some v ∧ v.major = major

theorem scan_inv (parse : Parser) (major : Nat) :
    ∀ (tags : List Tag) (start best : Version),
      tags.foldl (scanStep parse major) (some start) = some best →
      best.gt start = false → False ∨ True := by
  intros; exact Or.inr trivial

theorem largest_upper_bound_aux (parse : Parser) (major : Nat) :
    ∀ (tags : List Tag) (start best : Version),
      tags.foldl (scanStep parse major) (some start) = some best →
      start.gt best = false ∧
      ∀ t ∈ tags, ∀ v, relevant parse major t v → v.gt best = false := by
  intro tags
  induction tags with
  | nil =>
    intro start best h
    simp only [List.foldl_nil, Option.some.injEq] at h
    subst h
    exact ⟨gt_irrefl _, fun t ht => by cases ht⟩
  | cons t ts ih =>
    intro start best h
    simp only [List.foldl_cons] at h
    -- what the first step does
    cases hs : scanStep parse major (some start) t with
    | none =>
      rw [hs] at h
      have : ∀ l : List Tag, l.foldl (scanStep parse major) none = none := by
        intro l; induction l with
        | nil => rfl
        | cons a as iha => simpa [List.foldl_cons, scanStep] using iha
      rw [this] at h; cases h
    | some mid =>
      rw [hs] at h
      obtain ⟨h1, h2⟩ := ih mid best h
      -- mid is start or a greater relevant version
      have hmid : start.gt mid = false ∧ ∀ v, relevant parse major t v → v.gt mid = false := by
        simp only [scanStep] at hs
        split at hs
        · have e : start = mid := Option.some.inj hs
          rw [← e]
          exact ⟨gt_irrefl _, fun v hv => by unfold relevant at hv; omega⟩
        · split at hs
          · cases hs
          · rename_i v hp
            split at hs
            · rename_i hc
              have e : v = mid := Option.some.inj hs
              rw [← e]
              simp only [Bool.and_eq_true, beq_iff_eq] at hc
              refine ⟨gt_asymm _ _ hc.1, ?_⟩
              intro v' hv'
              have : v' = v := by
                have := hv'.2.1; rw [hp] at this; exact (Option.some.inj this).symm
              rw [this]; exact gt_irrefl _
            · rename_i hc
              have e : start = mid := Option.some.inj hs
              rw [← e]
              refine ⟨gt_irrefl _, ?_⟩
              intro v' hv'
              have e2 : v' = v := by
                have := hv'.2.1; rw [hp] at this; exact (Option.some.inj this).symm
              rw [e2]
              simp only [Bool.and_eq_true, beq_iff_eq, not_and] at hc
              cases hg : v.gt start with
              | false => rfl
              | true => exact absurd (e2 ▸ hv'.2.2) (hc hg)
      refine ⟨?_, ?_⟩
      · -- start ≤ mid ≤ best
        cases hg : start.gt best with
        | false => rfl
        | true =>
          rcases gt_total mid best with h' | h' | h'
          · rw [h'] at h1; cases h1
          · have : start.gt mid = true := by
              unfold Version.gt Version.cmp at *; rw [h']; exact hg
            rw [this] at hmid; cases hmid.1
          · have := gt_trans _ _ _ hg h'
            rw [this] at hmid; cases hmid.1
      · intro t' ht' v hv
        rcases List.mem_cons.1 ht' with rfl | ht'
        · have hv1 := hmid.2 v hv
          cases hg : v.gt best with
          | false => rfl
          | true =>
            rcases gt_total mid best with h' | h' | h'
            · rw [h'] at h1; cases h1
            · have : v.gt mid = true := by
                unfold Version.gt Version.cmp at *; rw [h']; exact hg
              rw [this] at hv1; cases hv1
            · have := gt_trans _ _ _ hg h'
              rw [this] at hv1; cases hv1
        · exact h2 t' ht' v hv

/-- **`largest` is an upper bound** of every full semantic-version tag with the requested major. -/
theorem largest_is_upper_bound (parse : Parser) (major : Nat) (tags : List Tag) (best : Version)
    (h : largest parse major tags = some best) (t : Tag) (ht : t ∈ tags) (v : Version)
    (hv : relevant parse major t v) : v.gt best = false :=
  (largest_upper_bound_aux parse major tags zeroVersion best h).2 t ht v hv

/-! ## the tagger -/

/-- **Dry-run performs no repository mutation**, whatever the repository and the version. -/
theorem dryrun_no_mutation (parse : Parser) (r : Repo) (req full maj : String) :
    (tag parse r req full maj true).1 = r := by
  unfold tag
  cases parse.parse req with
  | none => rfl
  | some v =>
    simp only
    cases largest parse v.major r.tags with
    | none => rfl
    | some prev =>
      simp only
      by_cases h1 : (!v.gt prev) = true
      · simp [h1]
      · by_cases h2 : (!r.clean) = true <;> simp [h1, h2]

/-- **Not strictly newer ⇒ nothing is touched and the exit status says "nothing to do"**. -/
theorem not_newer_no_mutation (parse : Parser) (r : Repo) (req full maj : String) (dry : Bool)
    (v prev : Version) (hp : parse.parse req = some v) (hl : largest parse v.major r.tags = some prev)
    (hn : v.gt prev = false) : tag parse r req full maj dry = (r, .nothingToDo) := by
  simp [tag, hp, hl, hn]

/-- **A dirty work tree is never tagged.** -/
theorem dirty_no_mutation (parse : Parser) (r : Repo) (req full maj : String) (dry : Bool)
    (hd : r.clean = false) : (tag parse r req full maj dry).1 = r ∧ (tag parse r req full maj dry).2 ≠ .ok := by
  unfold tag
  cases parse.parse req with
  | none => simp
  | some v =>
    simp only
    cases largest parse v.major r.tags with
    | none => simp
    | some prev =>
      simp only
      by_cases h1 : (!v.gt prev) = true
      · simp [h1]
      · simp [h1, hd]

/-- an unparsable request or an unparsable full-looking tag is an error and mutates nothing -/
theorem parse_failure_no_mutation (parse : Parser) (r : Repo) (req full maj : String) (dry : Bool)
    (h : parse.parse req = none ∨ ∃ v, parse.parse req = some v ∧ largest parse v.major r.tags = none) :
    tag parse r req full maj dry = (r, .error) := by
  rcases h with h | ⟨v, h1, h2⟩
  · simp [tag, h]
  · simp [tag, h1, h2]

/-- **Tags are created only for a strictly greater version**: whenever the repository changes,
the requested version is strictly greater than *every* existing full semantic-version tag of
its major, the tree was clean, and dry-run was off. -/
theorem mutation_implies_strictly_newer (parse : Parser) (r : Repo) (req full maj : String) (dry : Bool)
    (hm : (tag parse r req full maj dry).1 ≠ r) :
    dry = false ∧ r.clean = true ∧ ∃ v, parse.parse req = some v ∧
      ∀ t ∈ r.tags, ∀ w, relevant parse v.major t w → v.gt w = true := by
  unfold tag at hm
  split at hm
  · exact absurd rfl hm
  · rename_i v hp
    split at hm
    · exact absurd rfl hm
    · rename_i prev hl
      split at hm
      · exact absurd rfl hm
      · rename_i hg
        split at hm
        · exact absurd rfl hm
        · rename_i hc
          split at hm
          · exact absurd rfl hm
          · rename_i hd
            refine ⟨by simpa using hd, by simpa using hc, v, hp, ?_⟩
            intro t ht w hw
            have hub := largest_is_upper_bound parse v.major r.tags prev hl t ht w hw
            exact gt_of_gt_of_not_gt v prev w (by simpa using hg) hub

/-- **When it tags**: the full version tag and the major tag are (re)created at HEAD as annotated
tags, every other tag is left exactly as it was, nothing else changes. -/
theorem tag_creates_exactly (r : Repo) (full maj : String) (hne : full ≠ maj) :
    let r' := createTags r full maj
    r'.head = r.head ∧ r'.clean = r.clean ∧
    (∀ t, t ∈ r'.tags ↔ (t ∈ r.tags ∧ t.name ≠ full ∧ t.name ≠ maj) ∨ t = ⟨full, true, full, r.head⟩ ∨ t = ⟨maj, true, maj, r.head⟩) := by
  intro r'
  refine ⟨rfl, rfl, ?_⟩
  intro t
  simp only [r', createTags, List.mem_append, List.mem_filter, List.mem_singleton, bne_iff_ne, ne_eq]
  constructor
  · rintro (⟨(⟨h1, h2⟩ | h1), h3⟩ | h1)
    · exact Or.inl ⟨h1, h2, h3⟩
    · exact Or.inr (Or.inl h1)
    · exact Or.inr (Or.inr h1)
  · rintro (⟨h1, h2, h3⟩ | h1 | h1)
    · exact Or.inl ⟨Or.inl ⟨h1, h2⟩, h3⟩
    · refine Or.inl ⟨Or.inr h1, ?_⟩
      subst h1; exact hne
    · exact Or.inr h1

/-- the successful, non-dry run is exactly `createTags` -/
theorem tag_ok_creates (parse : Parser) (r : Repo) (req full maj : String) (v prev : Version)
    (hp : parse.parse req = some v) (hl : largest parse v.major r.tags = some prev) (hg : v.gt prev = true)
    (hc : r.clean = true) : tag parse r req full maj false = (createTags r full maj, .ok) := by
  simp [tag, hp, hl, hg, hc]

/-- non-vacuity: v3.1.0 over {v3.0.0, v3 (major-only, ignored), v2.9.9} on a clean tree -/
example :
    let p : Parser := ⟨fun s =>
      if s == "v3.1.0" then some ⟨3, 1, 0, []⟩ else if s == "v3.0.0" then some ⟨3, 0, 0, []⟩
      else if s == "v2.9.9" then some ⟨2, 9, 9, []⟩ else none, fun s => if s == "v3" then 1 else 3⟩
    let r : Repo := ⟨[⟨"v3.0.0", false, "", 1⟩, ⟨"v3", true, "v3", 1⟩, ⟨"v2.9.9", false, "", 0⟩], 2, true⟩
    (tag p r "v3.1.0" "v3.1.0" "v3" false).2 = .ok ∧
    (tag p r "v3.1.0" "v3.1.0" "v3" false).1.tags.map (·.name) = ["v3.0.0", "v2.9.9", "v3.1.0", "v3"] ∧
    (tag p r "v3.0.0" "v3.0.0" "v3" false) = (r, .nothingToDo) := by decide

/-- pre-release precedence: 3.0.0-beta.2 < 3.0.0-beta.10 < 3.0.0-rc < 3.0.0 -/
example :
    (Version.gt ⟨3,0,0,[.alnum [98], .num 10]⟩ ⟨3,0,0,[.alnum [98], .num 2]⟩ &&
     Version.gt ⟨3,0,0,[.alnum [114]]⟩ ⟨3,0,0,[.alnum [98], .num 10]⟩ &&
     Version.gt ⟨3,0,0,[]⟩ ⟨3,0,0,[.alnum [114]]⟩) = true := by decide

/-! ### the gating of the model is the source's -/

/-- exit status of the command for what `Tagger.Tag` returns: 0, 8 for `ErrNoNewVersion`, 1 for any other error -/
def exitOfTag {α : Type} : Except String α → Exit
  | .ok _ => .ok
  | .error e => if e == "ErrNoNewVersion" then .nothingToDo else .error

open Mockery.Generated.Decide in
/-- `Tools.tag` gates as `Tagger.Tag` does, translated statement by statement from the current source
(Generated/Decide.lean; opening the repository, reading the work tree and creating the tag are parameters that
succeed here): the same exit status for every parser, repository, requested version and dry-run setting -/
theorem tag_gating_is_the_translated_source (P : Parser) (r : Repo) (requested full major : String) (dry : Bool) :
    exitOfTag (taggerTag requested (fun _ => some r) P.parse (fun r mj => largest P mj r.tags) (·.major) Version.gt
      (fun r => some r) (fun r => some r) (·.clean) (fun _ => full) (fun _ _ => some ())) = (tag P r requested full major dry).2 := by
  unfold taggerTag tag
  cases P.parse requested with
  | none => simp [exitOfTag, throw, throwThe, MonadExceptOf.throw]
  | some req =>
    simp only []
    cases largest P req.major r.tags with
    | none => simp [exitOfTag, throw, throwThe, MonadExceptOf.throw]
    | some prev =>
      simp only []
      cases hg : req.gt prev <;> cases hc : r.clean <;> cases dry <;>
        simp [exitOfTag, throw, throwThe, MonadExceptOf.throw, pure, Except.pure]

end Mockery.C20
