import MockeryModel.Cmd.Init
import MockeryLemmas.Select
import MockeryLemmas.Merge
/-!
# C18 — `mockery init` bootstraps safely and its output round-trips

Property theorems only.  Quantification: every state of the target path, every
content an existing file may have, every package-path string, every rendering
of the file (the YAML encoder is a parameter).
-/
namespace Mockery.C18
open Mockery.Cmd Mockery.Config Mockery.Run Mockery

/-! ## regenerated facts about init.go -/

/-- the target is opened for exclusive creation, and never with truncation -/
theorem init_opens_exclusively :
    Generated.initOpenFlags.contains "O_CREATE" = true ∧ Generated.initOpenFlags.contains "O_EXCL" = true ∧
    Generated.initOpenFlags.contains "O_TRUNC" = false ∧ Generated.initOpenFlags.contains "O_APPEND" = false := by decide

/-- the defaults come from the same source the loader uses, the package is written with `all: true`,
and the default target is `.mockery.yml` -/
theorem init_uses_loader_defaults :
    Generated.initUsesLoaderDefaults = true ∧ Generated.initPackageAll = "addr(true)" ∧
    Generated.initDefaultFile = ".mockery.yml" := by decide

/-! ## safety: an existing target is never modified and the command reports failure -/

theorem existing_file_untouched_and_fails (old rendered : String) :
    initRun Generated.initOpenFlags (.file old) rendered = ⟨.file old, false⟩ := by
  have h1 : "O_CREATE" ∈ Generated.initOpenFlags := by decide
  have h2 : "O_EXCL" ∈ Generated.initOpenFlags := by decide
  simp [initRun, openWrite, h1, h2]

theorem existing_directory_untouched_and_fails (rendered : String) :
    initRun Generated.initOpenFlags .dir rendered = ⟨.dir, false⟩ := by
  simp [initRun, openWrite]

/-- the general statement: whatever is at the target, it is left as it was unless it was absent -/
theorem only_absent_is_written (st : PathState) (rendered : String) :
    (st ≠ .absent → initRun Generated.initOpenFlags st rendered = ⟨st, false⟩) ∧
    (st = .absent → initRun Generated.initOpenFlags st rendered = ⟨.file rendered, true⟩) := by
  constructor
  · intro h
    cases st with
    | absent => exact absurd rfl h
    | file old => exact existing_file_untouched_and_fails old rendered
    | dir => exact existing_directory_untouched_and_fails rendered
  · rintro rfl
    have h1 : "O_CREATE" ∈ Generated.initOpenFlags := by decide
    simp [initRun, openWrite, h1]

/-- for *any* set of open flags: exclusive creation is what gives the guarantee (a set of flags
without it overwrites or corrupts an existing file) -/
theorem exclusive_creation_is_necessary (rendered old : String) (h : rendered ≠ old) :
    (initRun ["O_RDWR", "O_CREATE", "O_TRUNC"] (.file old) rendered).state ≠ .file old := by
  simp [initRun, openWrite, h]

/-! ## the written configuration -/

/-- it states the loader's defaults: every parameter of the top level is the regenerated default -/
theorem written_equals_loader_defaults (pkg : String) (k : String) :
    (initConfig fieldTable pkg true).root.get k = (defaultsCfg fieldTable).get k := rfl

/-- it names exactly the given package (any string), with `all: true` and nothing else -/
theorem written_names_the_package (pkg : String) :
    (initConfig fieldTable pkg true).packages.map (·.1) = [pkg] ∧
    ((initConfig fieldTable pkg true).packages.map (fun p => p.2.map (fun c => c.config))) = [some (some [("all", .b true)])] := by
  simp [initConfig]

/-- **A subsequent plain run mocks every interface of the package**: after resolution the package's
`all` is true, so the selection rule selects every interface name, for every matcher. -/
theorem written_config_selects_all (pkg : String) (m : Matcher) (name : String) :
    let out := Config.initTree fieldTable (initConfig fieldTable pkg true)
    ∀ p ∈ out, p.1 = pkg ∧
      shouldGenerate m (boolOf p.2.config "all") (p.2.interfaces.any (·.1 == name))
        (strOf p.2.config "include-interface-regex") (strOf p.2.config "exclude-interface-regex") name = .ok true := by
  intro out p hp
  simp only [out, Config.initTree, initConfig, List.map_cons, List.map_nil, List.mem_singleton] at hp
  subst hp
  refine ⟨rfl, ?_⟩
  have hall : boolOf (initPkg fieldTable (defaultsCfg fieldTable) (some ⟨some [("all", .b true)], []⟩)).config "all" = true := by
    simp only [initPkg, Option.getD_some, boolOf]
    rw [mergeConfigs_get fieldTable _ _ "all" .ptrBool (by decide) (by decide)]
    simp [Cfg.get, mergeField]
  simp only [hall]
  rfl

/-- non-vacuity of the defaults: the written top level carries the documented template and file name -/
example :
    (match (initConfig fieldTable "example.com/x" true).root.get "template" with | some (.s v) => v | _ => "") = "testify" ∧
    (match (initConfig fieldTable "example.com/x" true).root.get "filename" with | some (.s v) => v | _ => "") = "mocks_test.go" := by decide

end Mockery.C18
