import MockeryModel.Gen.Data
import MockeryModel.Config.Merge
import MockeryLemmas.Types
import MockeryLemmas.Merge
/-!
# C13 — replace-type substitutes exactly the configured types

Property theorems only.  `replacement` of a variable is what the lookup
`GetReplacement(pkgPath, typeName)` returns for a parameter / result whose type
*is* a named or alias type (the lookup itself – `packages.Load` of the target –
is a parameter).
-/
namespace Mockery.C13
open Mockery.Go Mockery.Gen Mockery.Config Mockery

/-- **A replaced variable is rendered with the replacement type**: its type string is the
replacement's, under the qualifier just registered for the replacement's package. -/
theorem replaced_carries_replacement (st : VarState) (name : String) (orig rt : GoType) (variadic : Bool) :
    let st' := addVar st ⟨name, orig, some rt⟩ variadic
    ∃ v, st'.vars = st.vars ++ [v] ∧
      v.typeString = typeString (qualifierOf (addImports st.reg ((pkgsOf rt).take 1)).2) rt ∧
      v.nillable = nillable rt ∧ v.isSlice = isSlice rt := by
  intro st'
  exact ⟨_, rfl, rfl, rfl, rfl⟩

/-- **The replacement's package is imported** and the original's is *not* touched by this variable:
the registry grows by the replacement's own package only. -/
theorem replaced_imports_only_replacement (st : VarState) (name : String) (orig rt : GoType) (variadic : Bool) :
    (addVar st ⟨name, orig, some rt⟩ variadic).reg = (addImports st.reg ((pkgsOf rt).take 1)).1 := rfl

/-- the import table of a replaced variable has an entry for the replacement's package -/
theorem replacement_package_registered (r : Registry) (rt : GoType) (p : String × String)
    (hp : (pkgsOf rt).head? = some p) : p.1 ∈ (addImports r ((pkgsOf rt).take 1)).2.map (·.1) := by
  rw [addImports_paths]
  cases h : pkgsOf rt with
  | nil => simp [h] at hp
  | cons a as => simp [h] at hp ⊢; exact hp ▸ rfl

/-- **Non-interference**: a variable without a replacement is built by exactly the same function
with exactly the same arguments as when nothing is configured – the setting cannot influence it. -/
theorem unreplaced_unchanged (st : VarState) (name : String) (t : GoType) (variadic : Bool) :
    addVar st ⟨name, t, none⟩ variadic =
      (let (reg', imps) := addImports st.reg (pkgsOf t)
       let scope1 := imps.foldl (fun s i => s.addName i.2) st.scope
       let ts := typeString (qualifierOf imps) t
       let scope2 := scope1.addName ts
       { reg := reg', scope := scope2,
         vars := st.vars ++ [⟨scope2.suggest (varName name t), ts, nillable t, isSlice t, variadic, typeRefs (qualifierOf imps) t⟩] }) := rfl

/-- **The original package is imported only if it is still referenced**: a package is in the
file's import registry after a variable was added only if it was there before or the type that was
actually rendered (the replacement, for a replaced variable) mentions it. -/
theorem import_origin (r : Registry) (pkgs : List (String × String)) (path : String)
    (h : path ∈ (addImports r pkgs).1.paths) : path ∈ r.paths ∨ path ∈ pkgs.map (·.1) := by
  rw [addImports_reg] at h
  exact addImports_origin pkgs r path h

theorem original_not_imported_by_replaced (st : VarState) (name : String) (orig rt : GoType) (variadic : Bool)
    (path : String) (hnew : path ∉ st.reg.paths)
    (hin : path ∈ (addVar st ⟨name, orig, some rt⟩ variadic).reg.paths) :
    path ∈ ((pkgsOf rt).take 1).map (·.1) := by
  rw [replaced_imports_only_replacement] at hin
  rcases import_origin _ _ _ hin with h | h
  · exact absurd h hnew
  · exact h

/-- **The setting has this effect at whichever level it is written**: replace-type is a field the
configuration merge inherits as a whole (regenerated field table), so the value an interface's
entry sees is the most specific one set along entry → interface → package → top level. -/
theorem inherited_from_every_level (src dst : Cfg) :
    (mergeConfigs fieldTable src dst).get "replace-type" = firstSome [dst.get "replace-type", src.get "replace-type"] := by
  rw [mergeConfigs_get fieldTable src dst "replace-type" .typedMap (by decide) (by decide)]
  exact mergeField_whole .typedMap rfl _ _

/-- non-vacuity: `Do(r io.Reader) io.Reader` with io.Reader ↦ alpha.T: both variables carry alpha.T and
`io` is never registered -/
example :
    let reg : Registry := { dstPkgPath := "d", inPackage := false, imports := [] }
    let ioReader := GoType.named "io" "io" "Reader" .defined [] true false
    let alphaT := GoType.named "x/alpha" "alpha" "T" .defined [] false false
    let m : MethodIn := ⟨"Do", [⟨"r", ioReader, some alphaT⟩], [⟨"", ioReader, some alphaT⟩], false⟩
    ((methodData reg [] m).1.paths, (methodData reg [] m).2.2.1.map (·.typeString)) = (["x/alpha"], ["alpha.T", "alpha.T"]) := by decide

end Mockery.C13
