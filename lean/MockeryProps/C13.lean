import MockeryModel.Gen.Data
import MockeryModel.Config.Merge
import MockeryLemmas.Types
import MockeryLemmas.Merge
import MockeryModel.Generated.MergeFacts
/-!
# C13 — replace-type substitutes exactly the configured types

Property theorems only.  `replacement` of a variable is what the lookup
`GetReplacement(pkgPath, typeName)` returns for a parameter / result whose type
*is* a named or alias type (the lookup itself – `packages.Load` of the target –
is a parameter).
-/
namespace Mockery.C13
open Mockery.Go Mockery.Gen Mockery.Config Mockery

/-- **A replaced variable is rendered with the replacement type**: its type string is the
replacement's, under the qualifier just registered for the replacement's package. -/
theorem replaced_carries_replacement (st : VarState) (name : String) (orig rt : GoType) (variadic : Bool) :
    let st' := addVar st ⟨name, orig, some rt⟩ variadic
    ∃ v, st'.vars = st.vars ++ [v] ∧
      v.typeString = typeString (qualifierOf (addImports st.reg ((pkgsOf rt).take 1)).2) rt ∧
      v.nillable = nillable rt ∧ v.isSlice = isSlice rt := by
  intro st'
  exact ⟨_, rfl, rfl, rfl, rfl⟩

/-- **The replacement's package is imported** and the original's is *not* touched by this variable:
the registry grows by the replacement's own package only. -/
theorem replaced_imports_only_replacement (st : VarState) (name : String) (orig rt : GoType) (variadic : Bool) :
    (addVar st ⟨name, orig, some rt⟩ variadic).reg = (addImports st.reg ((pkgsOf rt).take 1)).1 := rfl

/-- the import table of a replaced variable has an entry for the replacement's package -/
theorem replacement_package_registered (r : Registry) (rt : GoType) (p : String × String)
    (hp : (pkgsOf rt).head? = some p) : p.1 ∈ (addImports r ((pkgsOf rt).take 1)).2.map (·.1) := by
  rw [addImports_paths]
  cases h : pkgsOf rt with
  | nil => simp [h] at hp
  | cons a as => simp [h] at hp ⊢; exact hp ▸ rfl

/-- **Non-interference**: a variable without a replacement is built by exactly the same function
with exactly the same arguments as when nothing is configured – the setting cannot influence it. -/
theorem unreplaced_unchanged (st : VarState) (name : String) (t : GoType) (variadic : Bool) :
    addVar st ⟨name, t, none⟩ variadic =
      (let (reg', imps) := addImports st.reg (pkgsOf t)
       let scope1 := imps.foldl (fun s i => s.addName i.2) st.scope
       let ts := typeString (qualifierOf imps) t
       let scope2 := scope1.addName ts
       { reg := reg', scope := scope2,
         vars := st.vars ++ [⟨scope2.suggest (varName name t), ts, nillable t, isSlice t, variadic, typeRefs (qualifierOf imps) t⟩] }) := rfl

/-- **The original package is imported only if it is still referenced**: a package is in the
file's import registry after a variable was added only if it was there before or the type that was
actually rendered (the replacement, for a replaced variable) mentions it. -/
theorem import_origin (r : Registry) (pkgs : List (String × String)) (path : String)
    (h : path ∈ (addImports r pkgs).1.paths) : path ∈ r.paths ∨ path ∈ pkgs.map (·.1) := by
  rw [addImports_reg] at h
  exact addImports_origin pkgs r path h

theorem original_not_imported_by_replaced (st : VarState) (name : String) (orig rt : GoType) (variadic : Bool)
    (path : String) (hnew : path ∉ st.reg.paths)
    (hin : path ∈ (addVar st ⟨name, orig, some rt⟩ variadic).reg.paths) :
    path ∈ ((pkgsOf rt).take 1).map (·.1) := by
  rw [replaced_imports_only_replacement] at hin
  rcases import_origin _ _ _ hin with h | h
  · exact absurd h hnew
  · exact h

/-- **The setting has this effect at whichever level it is written**: replace-type is a field the
configuration merge inherits as a whole (regenerated field table), so the value an interface's
entry sees is the most specific one set along entry → interface → package → top level. -/
theorem inherited_from_every_level (src dst : Cfg) :
    (mergeConfigs fieldTable src dst).get "replace-type" = firstSome [dst.get "replace-type", src.get "replace-type"] := by
  rw [mergeConfigs_get fieldTable src dst "replace-type" .typedMap (by decide) (by decide)]
  exact mergeField_whole .typedMap rfl _ _

/-- non-vacuity: `Do(r io.Reader) io.Reader` with io.Reader ↦ alpha.T: both variables carry alpha.T and
`io` is never registered -/
example :
    let reg : Registry := { dstPkgPath := "d", inPackage := false, imports := [] }
    let ioReader := GoType.named "io" "io" "Reader" .defined [] true false
    let alphaT := GoType.named "x/alpha" "alpha" "T" .defined [] false false
    let m : MethodIn := ⟨"Do", [⟨"r", ioReader, some alphaT⟩], [⟨"", ioReader, some alphaT⟩], false⟩
    ((methodData reg [] m).1.paths, (methodData reg [] m).2.2.1.map (·.typeString)) = (["x/alpha"], ["alpha.T", "alpha.T"]) := by decide


/-! ## the lookup: exactly the configured (package path, type name) pairs

`Generated.Merge.getReplacement` is `Config.GetReplacement`, translated from config/config.go on every run; a
`replace-type` value is a two-level map (package path → type name → replacement), modelled as association lists. -/

/-- first entry with the key (Go map lookup on an association list with unique keys) -/
def assoc {α : Type} (k : String) : List (String × α) → Option α
  | [] => none
  | (k', v) :: r => if k' = k then some v else assoc k r

/-- `GetReplacement` on a `replace-type` value -/
def getReplacement (rt : ReplaceMap) (pkgPath typeName : String) : Option (String × String) :=
  match assoc pkgPath rt with
  | none => none
  | some m => assoc typeName m

/-- **model = translation** of the lookup -/
theorem replacement_lookup_is_the_translated_source (rt : ReplaceMap) (pkgPath typeName : String) :
    getReplacement rt pkgPath typeName =
      Generated.Merge.getReplacement (fun p => assoc p rt) (fun m n => assoc n m) pkgPath typeName := by
  unfold getReplacement Generated.Merge.getReplacement
  cases h : assoc pkgPath rt <;> simp [h]

theorem assoc_some_mem {α : Type} {k : String} {v : α} : ∀ {l : List (String × α)}, assoc k l = some v → (k, v) ∈ l
  | [], h => by simp [assoc] at h
  | (k', v') :: r, h => by
    unfold assoc at h
    by_cases hk : k' = k
    · simp only [hk, if_true, Option.some.injEq] at h; subst h; subst hk; exact List.mem_cons_self
    · simp only [hk, if_false] at h; exact List.mem_cons_of_mem _ (assoc_some_mem h)

theorem assoc_none_of_not_key {α : Type} {k : String} : ∀ {l : List (String × α)}, k ∉ l.map (·.1) → assoc k l = none
  | [], _ => rfl
  | (k', v') :: r, h => by
    unfold assoc
    have h1 : k' ≠ k := fun e => h (by simp [e])
    have h2 : k ∉ r.map (·.1) := fun m => h (by simp [m])
    simp [h1, assoc_none_of_not_key h2]

/-- **only configured types are replaced**: a hit comes from an entry written for exactly this package path and this
type name; a type whose package has no entry, or whose name is not listed under its package, is never replaced -/
theorem only_configured_types_are_replaced (rt : ReplaceMap) (pkgPath typeName : String) :
    (∀ r, getReplacement rt pkgPath typeName = some r →
      ∃ m, (pkgPath, m) ∈ rt ∧ (typeName, r) ∈ m) ∧
    (pkgPath ∉ rt.map (·.1) → getReplacement rt pkgPath typeName = none) ∧
    (∀ m, assoc pkgPath rt = some m → typeName ∉ m.map (·.1) → getReplacement rt pkgPath typeName = none) := by
  refine ⟨?_, ?_, ?_⟩
  · intro r h
    unfold getReplacement at h
    cases hm : assoc pkgPath rt with
    | none => simp [hm] at h
    | some m => simp only [hm] at h; exact ⟨m, assoc_some_mem hm, assoc_some_mem h⟩
  · intro h; simp [getReplacement, assoc_none_of_not_key h]
  · intro m hm h; simp [getReplacement, hm, assoc_none_of_not_key h]

/-- **every configured type is replaced**: the entry written for (package path, type name) is what the lookup returns
(keys of a YAML mapping are unique: the first entry is the entry) -/
theorem configured_type_is_replaced (pre post : ReplaceMap) (m : List (String × String × String)) (pkgPath typeName : String)
    (r : String × String) (hpre : pkgPath ∉ pre.map (·.1)) (hm : assoc typeName m = some r) :
    getReplacement (pre ++ (pkgPath, m) :: post) pkgPath typeName = some r := by
  have : ∀ (pre : ReplaceMap), pkgPath ∉ pre.map (·.1) → assoc pkgPath (pre ++ (pkgPath, m) :: post) = some m := by
    intro pre
    induction pre with
    | nil => intro _; simp [assoc]
    | cons e es ih =>
      intro h
      have h1 : e.1 ≠ pkgPath := fun eq => h (by simp [eq])
      have h2 : pkgPath ∉ es.map (·.1) := fun mm => h (by simp [mm])
      obtain ⟨k, v⟩ := e
      simp only [List.cons_append, assoc]
      simp only [show k ≠ pkgPath from h1, if_false]
      exact ih h2
  simp [getReplacement, this pre hpre, hm]

/-- a concrete table: `ext.Conn` is replaced, `ext.Options` and `other.Conn` are not -/
example :
    let rt : ReplaceMap := [("example.com/ext", [("Conn", ("example.com/svc", "FakeConn"))])]
    getReplacement rt "example.com/ext" "Conn" = some ("example.com/svc", "FakeConn") ∧
    getReplacement rt "example.com/ext" "Options" = none ∧
    getReplacement rt "example.com/other" "Conn" = none := by decide

end Mockery.C13
