import Driver.Main
