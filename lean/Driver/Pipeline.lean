import Driver.Util
import MockeryModel.Run.Pipeline
open Lean Mockery.Run

namespace Driver.Pipeline

structure JobIn where
  job : FileJob
  state : String

def jobOfJson (j : Json) : Except String JobIn := do
  let path ← Driver.fldStr j "path"
  pure ⟨{ path := path, force := ← Driver.fldBool j "force",
          templateOk := ← Driver.fldBool j "templateOk", validateOk := ← Driver.fldBool j "validateOk",
          executeOk := ← Driver.fldBool j "executeOk", formatOk := ← Driver.fldBool j "formatOk",
          parentOk := ← Driver.fldBool j "parentOk", content := "<new:" ++ path ++ ">" },
        ← Driver.fldStr j "state"⟩

def handle (input : Json) : Except String Json := do
  let jobs ← (← Driver.fldArr input "jobs").toList.mapM jobOfJson
  let order ← Driver.strs (← Driver.fldArr input "order")
  let early := (← Driver.fldStr input "early") != ""
  let missing ← Driver.fldBool input "missing"
  -- observed order first, then the files the run never reached
  let ordered := order.filterMap (fun p => jobs.find? (·.job.path == p))
  let rest := jobs.filter (fun j => !order.contains j.job.path)
  let all := ordered ++ rest
  let fs : FS := fun p =>
    match jobs.find? (·.job.path == p) with
    | some j => (match j.state with
      | "absent" => .absent
      | "dir" => .dir
      | s => .file ("<old:" ++ s ++ ">"))
    | none => .absent
  let (fs', ok) := run ⟨early, all.map (·.job), missing⟩ fs
  let files := jobs.map (fun j => (j.job.path, Json.str (if fs' j.job.path == fs j.job.path then "old" else "new")))
  pure (Json.mkObj [("exit", if ok then (0 : Nat) else (1 : Nat)), ("files", Json.mkObj files)])

end Driver.Pipeline
