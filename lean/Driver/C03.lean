import Driver.Util
import MockeryModel.Sem.Testify
import MockeryModel.Gen.TestifyEmit
import MockeryModel.Sem.TestifyExec
open Lean Mockery.Sem.Testify

/-! C03: the operation list of the generated Go driver, run through `Sem.Testify`. -/
namespace Driver.C03

def strList (j : Json) (k : String) : List String :=
  ((Driver.fldOpt j k).bind (fun a => a.getArr?.toOption)).getD #[] |>.toList.filterMap (fun x => x.getStr?.toOption)

def boolList (j : Json) (k : String) : List Bool :=
  ((Driver.fldOpt j k).bind (fun a => a.getArr?.toOption)).getD #[] |>.toList.filterMap (fun x => x.getBool?.toOption)

def matcherOf (s : String) : Matcher := if s == "*" then .anything else .exact s

def joinSp (l : List String) : String := " ".intercalate l

def evStr : Ev → String
  | .saw label id idx args => joinSp ([label, toString id] ++ (match idx with | some i => [toString i] | none => []) ++ args)
  | .returned vs => joinSp ("returned" :: vs)
  | .panicked cls => "panic " ++ cls
  | .failed => "failed unexpected-call"

def pairs (j : Json) (k : String) : List (String × String) :=
  ((Driver.fldOpt j k).bind (fun a => a.getArr?.toOption)).getD #[] |>.toList.filterMap (fun x =>
    match x.getArr?.toOption.map (·.toList.filterMap (fun y => y.getStr?.toOption)) with
    | some [a, b] => some (a, b)
    | _ => none)

open Mockery.Gen.TestifyEmit in
def shapeOf (j : Json) : Shape :=
  let s := fun k => (Driver.fldStr j k).toOption.getD ""
  { structName := s "structName", tconstraint := s "tconstraint", tinst := s "tinst", testify := s "testify", name := s "name",
    params := pairs j "params",
    variadic := (match strList j "variadic" with | [a, b] => some (a, b) | _ => none),
    results := (pairs j "results").map (fun (t, k) => (t, if k == "error" then RKind.error else if k == "nillable" then RKind.nillable else RKind.plain)),
    unroll := (Driver.fldBool j "unroll").toOption.getD false,
    retName := s "retName" }

/-- the declarations the template emits per method, printed by the model -/
def emitted (input : Json) : Option Json :=
  match (Driver.fldOpt input "shapes").bind (fun a => a.getArr?.toOption) with
  | none => none
  | some shapes =>
    if shapes.isEmpty then none else
    some (Json.mkObj (shapes.toList.map (fun sj =>
      let sh := shapeOf sj
      (sh.name, Json.mkObj ((Mockery.Gen.TestifyEmit.declarations sh).map (fun (k, v) => (k, Json.str v)))))))

def handle (input : Json) : Except String Json := do
  let unroll := (Driver.fldStr input "unroll").toOption.getD "unset" == "true"
  let methods ← Driver.fldArr input "methods"
  let sigs : List Sig := methods.toList.map (fun m =>
    let name := (Driver.fldStr m "name").toOption.getD "?"
    let np := ((Driver.fldOpt m "params").bind (fun a => a.getArr?.toOption)).getD #[] |>.size
    let variadic := match (Driver.fldOpt m "variadic").bind (fun x => x.getInt?.toOption) with
      | some i => i ≥ 0
      | none => false
    let nr := ((Driver.fldOpt m "results").bind (fun a => a.getArr?.toOption)).getD #[] |>.size
    ⟨name, np, variadic, nr⟩)
  let shapes : List Mockery.Gen.TestifyEmit.Shape :=
    (((Driver.fldOpt input "shapes").bind (fun a => a.getArr?.toOption)).getD #[]).toList.map shapeOf
  let ops ← Driver.fldArr input "ops"
  let mut mk : Mock := ⟨[], []⟩
  let mut trace : Array Json := #[]
  let mut k := 0
  for o in ops do
    let op ← Driver.fldStr o "op"
    let mi := (Driver.fldNat o "m").toOption.getD 0
    let sig := sigs.getD mi ⟨"?", 0, false, 0⟩
    let mut evs : List String := []
    if op == "expect" then
      let e ← Driver.fld o "exp"
      let ords := (strList e "matcherToks").map matcherOf
      let vars := (strList e "varMatcherToks").map matcherOf
      let rets := strList e "returnToks"
      let style : Style := match (Driver.fldStr e "style").toOption.getD "none" with
        | "return" => .ret rets
        | "run-return" => .runRet rets
        | "run-and-return" => .runAndReturn rets
        | "providers" => .providers ((rets.zip (boolList e "providers")).map (fun (v, p) => if p then RetVal.provider v else RetVal.val v))
        | _ => .none
      mk := expect sig mk k ords vars style ((Driver.fldNat e "times").toOption.getD 0)
    else
      let a : CallArgs := ⟨strList o "argToks", (Driver.fldStr o "varTok").toOption.getD "", strList o "varElemToks"⟩
      -- the emitted statements of this method, interpreted (`Sem/TestifyExec`); `invoke` is what the theorems are about
      let resTypes : List Int := (((methods.toList[mi]?).bind (fun m => Driver.fldOpt m "results")).bind (fun x => x.getArr?.toOption)).getD #[]
        |>.toList.filterMap (fun x => x.getInt?.toOption)
      let w : Mockery.Sem.TestifyExec.World :=
        { mkSlice := fun elems => if elems == a.varElems then a.varSlice else "?slice",
          isNilIface := fun v => v == "7#0" || v == "8#0" || v == "16#0",
          zero := fun i => toString (resTypes.getD i (-1)) ++ "#0" }
      let (mkS, esS) := invoke unroll sig mk a
      let (mk', es) := match shapes[mi]? with
        | some sh => Mockery.Sem.TestifyExec.invokeEmitted w { sh with unroll := unroll } mk a
        | none => (mkS, esS)
      mk := mk'
      evs := es.map evStr
      if es != esS || mk' != mkS then evs := evs ++ ["MODEL-SPLIT: emitted statements and invoke differ: " ++ joinSp (esS.map evStr)]
    trace := trace.push (Json.arr (evs.map Json.str).toArray)
    k := k + 1
  trace := trace.push (Json.arr #[Json.str (if assertExpectations mk then "cleanup met" else "cleanup unmet")])
  pure (Json.mkObj ([("trace", Json.arr trace)] ++ (match emitted input with | some e => [("emitted", e)] | none => [])))

end Driver.C03
