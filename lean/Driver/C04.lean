import Driver.Util
import MockeryModel.Sem.Matryer
open Lean Mockery.Sem.Matryer

/-! C04: the operation list of the generated Go driver, run through `stepB generatedBodies`. -/
namespace Driver.C04

structure Meth where
  name : String
  params : List Nat
  variadic : Option Nat
  results : List Nat

def natList (j : Json) (k : String) : List Nat :=
  ((Driver.fldOpt j k).bind (fun a => a.getArr?.toOption)).getD #[] |>.toList.filterMap (fun x => x.getNat?.toOption)

def tok (t v : Nat) : String := s!"{t}#{v}"

def methOfJson (j : Json) : Except String Meth := do
  let name ← Driver.fldStr j "name"
  let v := match (Driver.fldOpt j "variadic").bind (fun x => x.getInt?.toOption) with
    | some i => if i < 0 then none else some i.toNat
    | none => none
  pure ⟨name, natList j "params", v, natList j "results"⟩

def argTokens (m : Meth) (args : List Nat) (vararg : Int) : List String :=
  (m.params.zip args).map (fun (t, v) => tok t v) ++
    (match m.variadic with
     | some t => [tok t (if vararg < 0 then 0 else vararg.toNat)]
     | none => [])

def joinSp (l : List String) : String := " ".intercalate l

def fmtRecs (rs : List (List Val)) : List String := rs.map (fun r => "[" ++ joinSp r ++ "]")

def substMsg (msg struct iface method : String) : String :=
  ((msg.replace "STRUCT" struct).replace "IFACE" iface).replace "METHOD" method

def handle (input : Json) : Except String Json := do
  let stub ← Driver.fldBool input "stubImpl"
  let resets ← Driver.fldBool input "withResets"
  let cfg : Cfg := ⟨stub, resets⟩
  let methods ← (← Driver.fldArr input "methods").toList.mapM methOfJson
  let funcOn0 := ((Driver.fldOpt input "funcOn").bind (fun a => a.getArr?.toOption)).getD #[] |>.toList.map (fun x => x.getBool?.toOption.getD true)
  let ops ← Driver.fldArr input "ops"
  let mut st : MSt := ⟨fun _ => [], [], []⟩
  let mut on := funcOn0
  let mut kept : List (Nat × List (List Val)) := []
  let mut trace : Array Json := #[]
  for o in ops do
    let op ← Driver.fldStr o "op"
    let mi := (Driver.fldNat o "m").toOption.getD 0
    let m := methods.getD mi ⟨"?", [], none, []⟩
    let mut evs : List String := []
    match op with
    | "call" =>
      let args := argTokens m (natList o "args") (((Driver.fldOpt o "vararg").bind (fun x => x.getInt?.toOption)).getD (-1))
      let res := (m.results.zip (natList o "results")).map (fun (t, v) => tok t v)
      let zero := m.results.map (fun t => tok t 0)
      let fr : Frame := ⟨m.name, args, if on.getD mi true then some (fun _ => res) else none, zero⟩
      let before := st.invoked.length
      let (st', out) := stepB generatedBodies cfg st (.call fr (!m.results.isEmpty))
      for (mn, a) in st'.invoked.drop before do
        evs := evs ++ [joinSp (["saw", mn] ++ a)]
      if (Driver.fldBool o "reenter").toOption.getD false then
        for n in st'.seen.drop st.seen.length do
          evs := evs ++ [s!"reentered {n}"]
      st := st'
      match out with
      | .returned vs => evs := evs ++ [joinSp ("returned" :: vs)]
      | .panicked msg => evs := evs ++ ["panic " ++ substMsg msg "MockStore" "Store" m.name]
      | _ => evs := evs ++ ["?"]
    | "calls" =>
      let (_, out) := stepB generatedBodies cfg st (.calls m.name)
      match out with
      | .gotCalls rs => evs := [joinSp (["records", m.name] ++ fmtRecs rs)]
      | .panicked msg => evs := ["panic " ++ msg]
      | _ => evs := ["?"]
    | "reset" => st := (stepB generatedBodies cfg st (.reset m.name)).1
    | "resetAll" => st := (stepB generatedBodies cfg st (.resetAll (methods.map (·.name)))).1
    | "keep" =>
      let slot := (Driver.fldNat o "slot").toOption.getD 0
      match (stepB generatedBodies cfg st (.calls m.name)).2 with
      | .gotCalls rs => kept := (slot, rs) :: kept
      | _ => pure ()
    | "inspect" =>
      let slot := (Driver.fldNat o "slot").toOption.getD 0
      let rs := ((kept.find? (·.1 == slot)).map (·.2)).getD []
      evs := [joinSp (["kept", m.name] ++ fmtRecs rs)]
    | "setfunc" => on := on.set mi ((Driver.fldBool o "on").toOption.getD true)
    | _ => throw s!"bad op {op}"
    trace := trace.push (Json.arr (evs.map Json.str).toArray)
  pure (Json.mkObj [("trace", Json.arr trace)])

end Driver.C04
