import Driver.Util
import MockeryModel.Gen.Data
open Lean Mockery.Go Mockery.Gen

/-! JSON ⇄ Go type trees and the data model (C01, C02, C13, C14). -/
namespace Driver.Data

partial def tyOfJson (j : Json) : Except String GoType := do
  let k ← Driver.fldStr j "k"
  let optStr (f : String) := (Driver.fldStr j f).toOption.getD ""
  let optBool (f : String) := (Driver.fldBool j f).toOption.getD false
  let optNat (f : String) := (Driver.fldNat j f).toOption.getD 0
  let sub (f : String) : Except String GoType := do tyOfJson (← Driver.fld j f)
  let fields (f : String) : Except String (List (String × GoType) × List (Bool × String)) :=
    match Driver.fldOpt j f with
    | none => pure ([], [])
    | some a => do
      let xs ← (← a.getArr?).toList.mapM (fun x => do
        let t ← tyOfJson (← Driver.fld x "type")
        pure (((Driver.fldStr x "name").toOption.getD "", t),
              ((Driver.fldBool x "embedded").toOption.getD false, (Driver.fldStr x "tag").toOption.getD "")))
      pure (xs.map (·.1), xs.map (·.2))
  let tys (f : String) : Except String (List GoType) :=
    match Driver.fldOpt j f with
    | none => pure []
    | some a => do (← a.getArr?).toList.mapM tyOfJson
  match k with
  | "basic" => pure (.basic (optStr "name"))
  | "universe" => pure (.universe (optStr "name") (if optBool "alias" then .alias else .defined))
  | "unsafe" => pure .unsafePtr
  | "typeparam" => pure (.typeParam (optStr "name") (optBool "underNillable"))
  | "named" => do
    pure (.named (optStr "pkg") (optStr "pkgName") (optStr "name") (if optBool "alias" then .alias else .defined)
      (← tys "targs") (optBool "underNillable") (optBool "underSlice"))
  | "pointer" => do pure (.pointer (← sub "elem"))
  | "slice" => do pure (.slice (← sub "elem"))
  | "array" => do pure (.array (optNat "len") (← sub "elem"))
  | "map" => do pure (.map (← sub "key") (← sub "elem"))
  | "chan" => do pure (.chan (optNat "dir") (← sub "elem"))
  | "func" => do pure (.func (← fields "params").1 (← fields "results").1 (optBool "variadic"))
  | "struct" => do let (fs, m) ← fields "fields"; pure (.struct fs m)
  | "iface" => do pure (.iface (← fields "methods").1 (← tys "embeds"))
  | "union" =>
    match Driver.fldOpt j "terms" with
    | none => pure (.union [])
    | some a => do
      let ts ← (← a.getArr?).toList.mapM (fun x => do
        pure ((Driver.fldBool x "tilde").toOption.getD false, ← tyOfJson (← Driver.fld x "type")))
      pure (.union ts)
  | k => throw s!"unknown type kind {k}"

def varOfJson (j : Json) : Except String VarIn := do
  let t ← tyOfJson (← Driver.fld j "type")
  let r ← match Driver.fldOpt j "replacement" with
    | none => pure none
    | some x => do pure (some (← tyOfJson x))
  pure ⟨(Driver.fldStr j "name").toOption.getD "", t, r⟩

def varsOf (j : Json) (f : String) : Except String (List VarIn) :=
  match Driver.fldOpt j f with
  | none => pure []
  | some a => do (← a.getArr?).toList.mapM varOfJson

def ifaceOfJson (j : Json) : Except String IfaceIn := do
  let methods ← match Driver.fldOpt j "methods" with
    | none => pure []
    | some a => (← a.getArr?).toList.mapM (fun m => do
        pure (⟨← Driver.fldStr m "name", ← varsOf m "params", ← varsOf m "results",
               (Driver.fldBool m "variadic").toOption.getD false⟩ : MethodIn))
  let tps ← match Driver.fldOpt j "typeParams" with
    | none => pure []
    | some a => (← a.getArr?).toList.mapM (fun t => do
        pure ((← Driver.fldStr t "name"), ← tyOfJson (← Driver.fld t "constraint")))
  pure ⟨← Driver.fldStr j "name", ← Driver.fldStr j "structName", tps, methods⟩

def fileOfJson (j : Json) : Except String FileIn := do
  let ifs ← (← Driver.fldArr j "ifaces").toList.mapM ifaceOfJson
  pure ⟨← Driver.fldStr j "dstPkgPath", ← Driver.fldBool j "inPackage", ← Driver.fldStr j "srcPkgName",
        ← Driver.fldStr j "pkgName", ifs⟩

def varToJson (v : VarOut) : Json :=
  Json.mkObj [("name", v.name), ("typeString", v.typeString), ("typeStringEllipsis", v.typeStringEllipsis),
    ("typeStringVariadicUnderlying", v.typeStringVariadicUnderlying), ("methodArg", v.methodArg),
    ("callName", v.callName true), ("nillable", v.nillable), ("isSlice", v.isSlice), ("variadic", v.variadic)]

def exportedStr (s : String) : String :=
  match Mockery.Tmpl.exported Mockery.Tmpl.tableOps Mockery.Generated.golintInitialismsB s.toUTF8.toList with
  | some b => (String.fromUTF8? ⟨b.toArray⟩).getD s
  | none => s

def typeConstraint (tps : List VarOut) : String :=
  if tps.isEmpty then "" else "[" ++ ", ".intercalate (tps.map (fun p => exportedStr p.name ++ " " ++ p.typeString)) ++ "]"
def typeInstantiation (tps : List VarOut) : String :=
  if tps.isEmpty then "" else "[" ++ ", ".intercalate (tps.map (fun p => exportedStr p.name)) ++ "]"

def methodToJson (m : MethodOut) : Json :=
  Json.mkObj [("name", m.name), ("declaration", m.declaration), ("signature", m.signature), ("argList", m.argList),
    ("argTypeList", m.argTypeList), ("argTypeListEllipsis", m.argTypeListEllipsis), ("argCallList", m.argCallList true),
    ("argCallListNoEllipsis", m.argCallList false), ("returnArgTypeList", m.returnArgTypeList),
    ("returnArgNameList", m.returnArgNameList), ("returnArgList", m.returnArgList), ("call", m.call),
    ("isVariadic", m.isVariadic), ("acceptsContext", m.acceptsContext), ("returnsError", m.returnsError),
    ("params", Json.arr (m.params.map varToJson).toArray), ("results", Json.arr (m.results.map varToJson).toArray)]

def handle (input : Json) : Except String Json := do
  let f ← fileOfJson input
  let (reg, ifs) := fileData f
  let imports := reg.sortedImports.map (fun p =>
    Json.arr #[Json.str p.path, Json.str p.qualifier,
      Json.str (if p.alias == "" then "\"" ++ p.path ++ "\"" else p.alias ++ " \"" ++ p.path ++ "\"")])
  pure (Json.mkObj [
    ("pkgName", f.pkgName),
    ("srcPkgQualifier", if f.inPackage then "" else f.srcPkgName ++ "."),
    ("imports", Json.arr imports.toArray),
    ("ifaces", Json.arr (ifs.map (fun i => Json.mkObj [("name", i.name), ("structName", i.structName),
        ("typeConstraint", typeConstraint i.typeParams), ("typeInstantiation", typeInstantiation i.typeParams),
        ("typeParams", Json.arr (i.typeParams.map varToJson).toArray),
        ("methods", Json.arr (i.methods.map methodToJson).toArray)])).toArray)])

end Driver.Data
