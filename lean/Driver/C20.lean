import Driver.Util
import MockeryModel.Tools.Tag
open Lean Mockery.Tools

namespace Driver.C20

def preOfJson (j : Json) : Except String PreId :=
  match Driver.fldOpt j "n", Driver.fldOpt j "a" with
  | some n, _ => do pure (.num (← n.getNat?))
  | _, some a => do pure (.alnum ((← a.getStr?).toList.map Char.toNat))
  | _, _ => throw "bad prerelease id"

def handle (input : Json) : Except String Json := do
  let rows ← (← Driver.fldArr input "parsed").toList.mapM (fun p => do
    let s ← Driver.fldStr p "s"
    if ← Driver.fldBool p "ok" then
      let pre ← (← Driver.fldArr p "pre").toList.mapM preOfJson
      pure (s, some (⟨← Driver.fldNat p "major", ← Driver.fldNat p "minor", ← Driver.fldNat p "patch", pre⟩ : Version),
            ← Driver.fldStr p "string")
    else pure (s, none, ""))
  let P : Parser := ⟨fun s => (rows.find? (·.1 == s)).bind (·.2.1), dotParts⟩
  let tags ← (← Driver.fldArr input "tags").toList.mapM (fun t => do
    pure (⟨← Driver.fldStr t "name", ← Driver.fldBool t "annotated", ← Driver.fldStr t "inner", ← Driver.fldNat t "target"⟩ : Tag))
  let commits ← Driver.fldNat input "commits"
  let dirty ← Driver.fldStr input "dirty"
  let requested ← Driver.fldStr input "requested"
  let dry := (← Driver.fldStr input "dryRun") != "false"
  let full := "v" ++ ((rows.find? (·.1 == requested)).map (·.2.2)).getD ""
  let major := (full.splitOn ".").headD ""
  let r : Repo := ⟨tags, commits - 1, dirty == "none"⟩
  let (r', e) := tag P r requested full major dry
  let exit : Nat := match e with | .ok => 0 | .nothingToDo => 8 | .error => 1
  let sorted := r'.tags.toArray.qsort (fun a b => a.name < b.name)
  pure (Json.mkObj [("exit", exit),
    ("tags", Json.arr (sorted.map (fun t => Json.arr #[Json.str t.name, Json.bool t.annotated, (t.target : Nat)])))])

end Driver.C20
