import Driver.Util
import MockeryModel.Gen.Header
import MockeryModel.Generated.HeaderFacts
open Lean Mockery.Gen

/-! C17: render the regenerated header of the chosen template, read it back with the model of
`go/build`'s header scanner, evaluate the constraint expression for each tag set. -/
namespace Driver.C17

partial def exprOfJson (j : Json) : Except String BExpr := do
  let op ← Driver.fldStr j "op"
  match op with
  | "tag" => pure (.tag (← Driver.fldStr j "name"))
  | "not" => pure (.not (← exprOfJson (← Driver.fld j "a")))
  | "and" => pure (.and (← exprOfJson (← Driver.fld j "a")) (← exprOfJson (← Driver.fld j "b")))
  | "or" => pure (.or (← exprOfJson (← Driver.fld j "a")) (← exprOfJson (← Driver.fld j "b")))
  | _ => throw s!"bad op {op}"

/-- runs of blank lines become one blank line -/
def collapseBlank : List Char → List Char
  | '\n' :: '\n' :: '\n' :: rest => collapseBlank ('\n' :: '\n' :: rest)
  | c :: rest => c :: collapseBlank rest
  | [] => []

def handle (input : Json) : Except String Json := do
  let tmpl ← Driver.fldStr input "template"
  let pkgName ← Driver.fldStr input "pkgName"
  let boiler : Option String := match Driver.fldOpt input "boilerplate" with
    | some (Json.str s) => some s
    | _ => none
  let expr : Option BExpr ← match Driver.fldOpt input "expr" with
    | some Json.null => pure none
    | some j => (exprOfJson j).map some
    | none => pure none
  let formatter ← Driver.fldStr input "formatter"
  -- go/format rewrites the constraint into go/build/constraint's own spelling (an input: the formatters
  -- are not modelled) and collapses runs of blank lines
  let tagsText := if formatter == "noop" then (Driver.fldStr input "tagsText").toOption.getD ""
    else (Driver.fldStr input "tagsCanon").toOption.getD ""
  if formatter != "noop" && ((boiler.getD "").splitOn "/*").length > 1 then
    return Json.mkObj [("unmodelled", Json.bool true)]
  let env : HeaderEnv :=
    { data := fun k =>
        if k == "boilerplate-file" then boiler.map (fun _ => "boilerplate.txt".toList)
        else if k == "mock-build-tags" then (if expr.isSome then some tagsText.toList else none)
        else none,
      file := fun _ => (boiler.getD "").toList,
      pkgName := pkgName.toList }
  let items := if tmpl == "matryer" then Mockery.Generated.matryerHeader else Mockery.Generated.testifyHeader
  let hdr0 := renderHeader env items
  let hdr := if formatter == "noop" then hdr0 else collapseBlank hdr0
  -- outside the theorems' hypotheses the model makes no prediction
  let commentOnly := match boiler with
    | some b => decide (CommentOnly b.toList)
    | none => true
  if !commentOnly then return Json.mkObj [("unmodelled", Json.bool true)]
  let st := scan hdr clean
  let generated := isGeneratedMarker (firstLine hdr)
  let tagSets ← Driver.fldArr input "tagSets"
  let constraintFound : Bool := match st.goBuild with
    | some l => l == constraintLine tagsText.toList
    | none => false
  let included := tagSets.toList.map (fun ts =>
    let on : List String := (ts.getArr?.toOption.getD #[]).toList.filterMap (fun j => j.getStr?.toOption)
    let tags : String → Bool := fun n => if n == "linux" then true else if n == "windows" then false else on.contains n
    -- the file is built iff the expression of the line the scanner found holds; without a line, always
    match expr with
    | some e => if constraintFound && !st.multiple then included (some e) tags else true
    | none => included none tags)
  pure (Json.mkObj [("header", Json.str (String.ofList hdr)), ("generated", Json.bool generated),
    ("included", Json.arr (included.map Json.bool).toArray)])

end Driver.C17
