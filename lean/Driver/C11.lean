import Driver.Util
import Driver.C16
import MockeryModel.Config.Resolve
open Lean Mockery.Config Mockery.Tmpl

namespace Driver.C11

def paramOrder : List String := ["dir", "filename", "pkgname", "structname", "template-schema"]

def handle (input : Json) : Except String Json := do
  let vals ← Driver.fld input "values"
  let vs ← paramOrder.mapM (fun k => Driver.fldStr vals k)
  let iface ← match Driver.fldOpt input "iface" with
    | none => pure none
    | some i => do pure (some (⟨← Driver.fldStr i "name", ← Driver.fldStr i "file"⟩ : IfaceInfo))
  let b : BindInput := {
    configFile := ← Driver.fldStr input "configFile", iface := iface, cwd := ← Driver.fldStr input "cwd",
    srcPkgName := ← Driver.fldStr input "srcPkgName", srcPkgPath := ← Driver.fldStr input "srcPkgPath",
    structName := ← Driver.fldStr vals "structname", template := ← Driver.fldStr input "template",
    exported := ← Driver.fldBool input "exported" }
  let env := Mockery.Config.bind b
  match resolve (renderWith tableOps env) vs with
  | .ok out =>
    pure (Json.mkObj [("ok", Json.mkObj ((paramOrder.zip out).map (fun (k, v) => (k, Json.str (Driver.C16.hex v.toUTF8.toList)))))])
  | .error .infiniteLoop => pure (Json.mkObj [("error", Json.str "infinite-loop")])
  | .error .unmodelled => pure (Json.mkObj [("unmodelled", Json.bool true)])
  | .error _ => pure (Json.mkObj [("error", Json.str "template")])

end Driver.C11
