import Driver.Util
import MockeryModel.Gen.AllocMachine
open Lean Mockery.Gen

namespace Driver.C15

def parseOp (j : Json) : Except String Op := do
  let a ← arr! j
  let tag ← str! a[0]!
  match tag with
  | "imp" => pure (.imp (← str! a[1]!) (← str! a[2]!))
  | "imports" => pure .imports
  | "pkgq" => pure (.pkgq (← str! a[1]!))
  | "newscope" => pure .newScope
  | "alloc" => pure (.scope (← nat! a[1]!) (.alloc (← str! a[2]!)))
  | "suggest" => pure (.scope (← nat! a[1]!) (.suggest (← str! a[2]!)))
  | "add" => pure (.scope (← nat! a[1]!) (.add (← str! a[2]!)))
  | "exists" => pure (.scope (← nat! a[1]!) (.exists_ (← str! a[2]!)))
  | t => throw s!"bad op {t}"

/-- `MethodScope.AddVar` on a named variable of a named type `q.T` (or of a replacement type) is a composition
of the machine's own operations (`Gen/Data.addVar`): register the import, make its qualifier visible in the
scope, make the type string visible (not for a replacement), suggest the variable's name -/
def stepJson (s : St) (j : Json) : Except String (St × String) := do
  let a ← arr! j
  let tag ← str! a[0]!
  if tag == "addvar" then
    let k ← nat! a[1]!
    let vn ← str! a[2]!
    let pn ← str! a[3]!
    let pp ← str! a[4]!
    let tn ← str! a[5]!
    let repl := (a[6]!.getBool?).toOption.getD false
    if (s.scopes[k]?).isNone then pure (s, "<noscope>") else
    if pp == "" then
      -- a predeclared type (`error`, `any`): nothing to import, the type name becomes visible, the name is suggested
      let s3 := (s.step (.scope k (.add tn))).1
      let (s4, nm) := s3.step (.scope k (.suggest vn))
      pure (s4, nm ++ "|" ++ tn)
    else
    let (s1, q) := s.step (.imp pn pp)
    let qual := if q == "<nil>" then "" else q
    let (s2, _) := s1.step (.scope k (.add qual))
    let ts := if qual == "" then tn else qual ++ "." ++ tn
    let s3 := if repl then s2 else (s2.step (.scope k (.add ts))).1
    let (s4, nm) := s3.step (.scope k (.suggest vn))
    pure (s4, nm ++ "|" ++ ts)
  else
    let op ← parseOp j
    pure (s.step op)

def handle (input : Json) : Except String Json := do
  let dst ← fldStr input "dst"
  let inpkg ← fldBool input "inpkg"
  let dstName := (← fldStrOpt input "dstName").getD ""
  let mut s := St.init dst inpkg dstName
  let mut outs : Array String := #[]
  for j in (← fldArr input "ops") do
    let (s', o) ← stepJson s j
    s := s'
    outs := outs.push o
  pure (jstrs outs.toList)

end Driver.C15
