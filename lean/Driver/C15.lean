import Driver.Util
import MockeryModel.Gen.AllocMachine
open Lean Mockery.Gen

namespace Driver.C15

def parseOp (j : Json) : Except String Op := do
  let a ← arr! j
  let tag ← str! a[0]!
  match tag with
  | "imp" => pure (.imp (← str! a[1]!) (← str! a[2]!))
  | "imports" => pure .imports
  | "pkgq" => pure (.pkgq (← str! a[1]!))
  | "newscope" => pure .newScope
  | "alloc" => pure (.scope (← nat! a[1]!) (.alloc (← str! a[2]!)))
  | "suggest" => pure (.scope (← nat! a[1]!) (.suggest (← str! a[2]!)))
  | "add" => pure (.scope (← nat! a[1]!) (.add (← str! a[2]!)))
  | "exists" => pure (.scope (← nat! a[1]!) (.exists_ (← str! a[2]!)))
  | t => throw s!"bad op {t}"

def handle (input : Json) : Except String Json := do
  let dst ← fldStr input "dst"
  let inpkg ← fldBool input "inpkg"
  let ops ← (← fldArr input "ops").toList.mapM parseOp
  let (_, outs) := (St.init dst inpkg).run ops
  pure (jstrs outs)

end Driver.C15
