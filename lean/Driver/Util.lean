import Lean.Data.Json
open Lean

namespace Driver

def str! (j : Json) : Except String String := j.getStr?
def nat! (j : Json) : Except String Nat := j.getNat?
def int! (j : Json) : Except String Int := j.getInt?
def bool! (j : Json) : Except String Bool := j.getBool?
def arr! (j : Json) : Except String (Array Json) := j.getArr?
def fld (j : Json) (k : String) : Except String Json := j.getObjVal? k
def fldStr (j : Json) (k : String) : Except String String := do (← fld j k).getStr?
def fldNat (j : Json) (k : String) : Except String Nat := do (← fld j k).getNat?
def fldBool (j : Json) (k : String) : Except String Bool := do (← fld j k).getBool?
def fldArr (j : Json) (k : String) : Except String (Array Json) := do (← fld j k).getArr?
/-- optional field: `none` when absent or JSON null -/
def fldOpt (j : Json) (k : String) : Option Json :=
  match j.getObjVal? k with
  | .ok .null => none
  | .ok v => some v
  | .error _ => none
def fldStrOpt (j : Json) (k : String) : Except String (Option String) :=
  match fldOpt j k with
  | none => pure none
  | some v => do pure (some (← v.getStr?))
def fldBoolOpt (j : Json) (k : String) : Except String (Option Bool) :=
  match fldOpt j k with
  | none => pure none
  | some v => do pure (some (← v.getBool?))
def strs (a : Array Json) : Except String (List String) := a.toList.mapM (·.getStr?)
def jstrs (l : List String) : Json := Json.arr (l.map Json.str).toArray

end Driver
