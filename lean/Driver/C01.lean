import Driver.Data
import MockeryModel.Gen.Emit
import MockeryModel.Gen.Discover
import MockeryModel.Go.MethodSet
open Lean Mockery.Go Mockery.Gen

/-! C01 / C02: does the model predict that the generated file is well-formed? -/
namespace Driver.C01

def optBool (j : Json) (k : String) : Bool := (Driver.fldBool j k).toOption.getD false

/-- the declaration tree of an interface (own method names, embedded interfaces) -/
partial def declOfJson (j : Json) : IfaceDecl :=
  let own := ((Driver.fldOpt j "own").bind (fun a => a.getArr?.toOption)).getD #[] |>.toList.filterMap (fun x => x.getStr?.toOption)
  let embeds := ((Driver.fldOpt j "embeds").bind (fun a => a.getArr?.toOption)).getD #[] |>.toList.map declOfJson
  .mk (own.map (fun n => ⟨n, .basic ""⟩)) embeds

def handle (input : Json) : Except String Json := do
  let data ← Driver.fld input "data"
  let f ← Driver.Data.fileOfJson data
  let tmpl ← Driver.fldStr input "template"
  let _formatter ← Driver.fldStr input "formatter"
  let _opts := (Driver.fldOpt input "options").getD (Json.mkObj [])
  let (reg, ifs) := fileData f
  let quals := reg.quals
  let mut reasons : List String := []
  for i in ifs do
    -- type-parameter names must survive `exported`
    for tp in i.typeParams do
      if Driver.Data.exportedStr tp.name != tp.name then reasons := reasons ++ ["lowercase-typeparam"]
    for m in i.methods do
      if tmpl == "testify" then
        let scope : Scope := { names := m.scopeNames }
        let ret := scope.suggest "ret"
        if !((testifyFns m ret).all EmitFn.wfb) then reasons := reasons ++ [s!"scope:{i.name}.{m.name}"]
      else
        if !((matryerFns m).all EmitFn.wfb) then reasons := reasons ++ [s!"scope:{i.name}.{m.name}"]
        -- the receiver of every matryer method is called `mock`: it shadows a package of that name
        if quals.contains "mock" then reasons := reasons ++ ["package-named-mock"]
  -- inside the guard the theorems predict a well-formed file; outside it the model makes no prediction
  -- discovery: the interfaces are package-level type specs; `localTypes` are declared inside a function body,
  -- `litTypes` inside a function literal of a package-level initialiser
  let strs := fun (k : String) => ((Driver.fldOpt input k).bind (fun j => j.getArr?.toOption)).getD #[] |>.toList.filterMap (fun j => j.getStr?.toOption)
  let decls : List Decl :=
    [Decl.types (f.ifaces.map (fun i => (i.name, SpecKind.interfaceType))),
     -- aliases of instantiations: candidate type specs that are not named interface types of their own
     Decl.types ((strs "aliasOf").map (fun n => (n ++ "Alias", SpecKind.indexExpr))),
     Decl.func [Node.other ((strs "localTypes").map (fun n => Node.typeSpec n .interfaceType))],
     Decl.values [Node.other [Node.funcLit ((strs "litTypes").map (fun n => Node.typeSpec n .interfaceType))]]]
  let found := discover (f.ifaces.map (fun i => (i.name, true))) (fileNodes decls)
  let declared := f.ifaces.map (fun i => Json.arr #[Json.str i.structName, Json.num (found.count i.name)])
  -- the method set of every interface, computed from its declaration tree as go/types does
  let ifacesJ := ((Driver.fldOpt data "ifaces").bind (fun a => a.getArr?.toOption)).getD #[]
  let methods := ifacesJ.toList.map (fun ij =>
    let sn := (Driver.fldStr ij "structName").toOption.getD "?"
    let names := match Driver.fldOpt ij "tree" with
      | some t => (methodSet (declOfJson t)).map (fun (ms : MethodSig) => ms.name)
      | none => []
    Json.arr #[Json.str sn, Json.arr (names.map Json.str).toArray])
  if reasons.isEmpty then pure (Json.mkObj [("compiles", Json.bool true), ("declared", Json.arr declared.toArray),
    ("methods", Json.arr methods.toArray)])
  else pure (Json.mkObj [("unmodelled", Json.bool true), ("reasons", Json.arr (reasons.map Json.str).toArray)])

end Driver.C01
