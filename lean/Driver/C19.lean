import Driver.Config
import MockeryModel.Cmd.Migrate
open Lean Mockery.Config Mockery.Cmd Driver.Cfg

namespace Driver.C19

/-- v2 values: bools, strings, lists of strings, maps (`_anchors`) -/
def v2ValOfJson (j : Json) : Except String Val :=
  match j with
  | .bool b => pure (.b b)
  | .str s => pure (.s s)
  | .arr a => do pure (.l (← a.toList.mapM (·.getStr?)))
  | .obj _ => (match tdOfJson j with | .node kvs => pure (.m kvs) | _ => throw "map expected")
  | _ => throw "unsupported v2 value"

def v2CfgOfJson (j : Json) : Except String Cfg := do
  (← j.getObj?).toList.mapM (fun (k, v) => do pure (k, ← v2ValOfJson v))

def optV2 (j : Json) (k : String) : Except String (Option Cfg) :=
  match Driver.fldOpt j k with
  | none => pure none
  | some c => do pure (some (← v2CfgOfJson c))

def levelToJson (l : V3Level) : Json :=
  let base := l.fields.map (fun (k, v) => (k, valToJson v))
  let td := l.templateData.map (fun (k, v) => (k, valToJson v))
  Json.mkObj (if td.isEmpty then base else base ++ [("template-data", Json.mkObj td)])

def handle (input : Json) : Except String Json := do
  let root ← v2CfgOfJson (← Driver.fld input "root")
  let pkgs ← (← Driver.fldArr input "packages").toList.mapM (fun p => do
    let path ← Driver.fldStr p "path"
    let cfg ← optV2 p "config"
    let ifs ← match Driver.fldOpt p "interfaces" with
      | none => pure []
      | some a => (← a.getArr?).toList.mapM (fun i => do
          let name ← Driver.fldStr i "name"
          let c ← optV2 i "config"
          let es ← match Driver.fldOpt i "configs" with
            | none => pure []
            | some e => (← e.getArr?).toList.mapM v2CfgOfJson
          pure (name, (⟨c, es⟩ : V2Iface)))
    pure (path, (⟨cfg, ifs⟩ : V2Pkg)))
  let out := migrate migTable ⟨root, pkgs⟩
  let pkgJ := out.packages.map (fun (n, p) =>
    let ifs := p.interfaces.map (fun (i, ic) =>
      (i, Json.mkObj ((match ic.config with | some c => [("config", levelToJson c)] | none => []) ++
        (if ic.configs.isEmpty then [] else [("configs", Json.arr (ic.configs.map levelToJson).toArray)]))))
    (n, Json.mkObj ((match p.config with | some c => [("config", levelToJson c)] | none => []) ++
      (if ifs.isEmpty then [] else [("interfaces", Json.mkObj ifs)]))))
  pure (Json.mkObj [("exit", (0 : Nat)), ("root", levelToJson out.config), ("packages", Json.mkObj pkgJ)])

end Driver.C19
