import Driver.Config
open Lean Mockery.Config Driver.Cfg

namespace Driver.C08

def handle (input : Json) : Except String Json := do
  match ← rootOf input with
  | .error _ => pure (Json.mkObj [("error", Json.str "decode")])
  | .ok root =>
    let pkgs ← (← Driver.fldArr input "packages").toList.mapM pkgOfJson
    let out := initTree fieldTable ⟨root, pkgs⟩
    let queries ← match Driver.fldOpt input "query" with
      | none => pure []
      | some a => do (← a.getArr?).toList.mapM (fun q => do
          pure ((← Driver.fldStr q "pkg"), (← Driver.fldStr q "iface")))
    let qs := queries.map (fun (p, i) =>
      match out.find? (·.1 == p) with
      | some (_, po) => ifaceOutToJson fieldTable (getInterfaceConfig po i)
      | none => Json.null)
    pure (Json.mkObj [
      ("root", cfgToJson fieldTable root),
      ("packages", Json.mkObj (out.map (fun (n, p) => (n, pkgOutToJson fieldTable p)))),
      ("queries", Json.arr qs.toArray)])

end Driver.C08
