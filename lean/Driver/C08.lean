import Driver.Config
import Driver.C07
open Lean Mockery.Config Driver.Cfg

namespace Driver.C08

def handle (input : Json) : Except String Json := do
  match ← rootOf input with
  | .error _ => pure (Json.mkObj [("error", Json.str "decode")])
  | .ok root =>
    let pkgs ← (← Driver.fldArr input "packages").toList.mapM pkgOfJson
    -- with a package tree (`subpkgs`): one `Initialize` including recursive injection
    let out ← match Driver.fldOpt input "subpkgs" with
      | none => pure (initTree fieldTable ⟨root, pkgs⟩)
      | some subJ => do
        let m ← Driver.C07.matcherOfJson ((Driver.fldOpt input "matches").getD (Json.arr #[]))
        let subs : String → List String := fun p =>
          match subJ.getObjVal? p with
          | .ok (.arr a) => a.toList.filterMap (fun x => x.getStr?.toOption)
          | _ => []
        match initRound fieldTable m subs (initTree fieldTable ⟨root, pkgs⟩) with
        | .ok o => pure o
        | .error _ => throw "injection failed"
    let queries ← match Driver.fldOpt input "query" with
      | none => pure []
      | some a => do (← a.getArr?).toList.mapM (fun q => do
          pure ((← Driver.fldStr q "pkg"), (← Driver.fldStr q "iface")))
    let qs := queries.map (fun (p, i) =>
      match out.find? (·.1 == p) with
      | some (_, po) => ifaceOutToJson fieldTable (getInterfaceConfig po i)
      | none => Json.null)
    pure (Json.mkObj [
      ("root", cfgToJson fieldTable root),
      ("packages", Json.mkObj (out.map (fun (n, p) => (n, pkgOutToJson fieldTable p)))),
      ("queries", Json.arr qs.toArray)])

end Driver.C08
