import Driver.Util
import MockeryModel.Sem.ConcExec
import MockeryModel.Generated.TemplateFacts
open Lean Mockery.Sem.Conc

/-! C05: the operation lists of the stress test, run through the executable interleaving semantics
with the programs built from the *regenerated* lock/access sequences. -/
namespace Driver.C05

def opProg (nMethods : Nat) (op : String) (m x : Nat) : Option (List Act) :=
  match op with
  | "call" => (progOfSchema m x Mockery.Generated.matryerSchema_call).map (fun p => [.loc] ++ p ++ [.loc])
  | "calls" => progOfSchema m x Mockery.Generated.matryerSchema_calls
  | "reset" => progOfSchema m x Mockery.Generated.matryerSchema_resetOne
  | "resetAll" => (List.range nMethods).foldl (fun acc mi =>
      match acc, progOfSchema mi x Mockery.Generated.matryerSchema_resetAll with
      | some a, some p => some (a ++ p)
      | _, _ => none) (some [])
  | _ => none

def handle (input : Json) : Except String Json := do
  let tmpl ← Driver.fldStr input "template"
  if tmpl == "testify" then
    -- the emitted code declares no state of its own next to testify's
    let ok := Mockery.Generated.testifyStructFields == ["*TESTIFY.Call", "TESTIFY.Mock", "mock *TESTIFY.Mock"] &&
      Mockery.Generated.testifyPackageVars.isEmpty
    let threads ← Driver.fldArr input "threads"
    let nm := (← Driver.fldArr input "methods").size
    let mut counts : Array Nat := Array.replicate nm 0
    for th in threads do
      for o in (th.getArr?.toOption.getD #[]) do
        let m := (Driver.fldNat o "m").toOption.getD 0
        counts := counts.modify m (· + 1)
    return Json.mkObj [("race", Json.bool (!ok)), ("counts", Json.arr (counts.map (fun (n : Nat) => (n : Json)))), ("bad", (0 : Nat))]
  let nm := (← Driver.fldArr input "methods").size
  let seed ← Driver.fldNat input "seed"
  let threads ← Driver.fldArr input "threads"
  let mut ths : List Thread := []
  let mut hasReset := false
  let mut steps := 0
  for th in threads do
    let mut prog : List Act := []
    for o in (th.getArr?.toOption.getD #[]) do
      let op ← Driver.fldStr o "op"
      let m := (Driver.fldNat o "m").toOption.getD 0
      let x := (Driver.fldNat o "x").toOption.getD 0
      if op == "reset" || op == "resetAll" then hasReset := true
      match opProg nm op m x with
      | some p => prog := prog ++ p
      | none => throw s!"schema token not understood for {op}"
    steps := steps + prog.length
    ths := ths ++ [⟨prog, [], .none, false⟩]
  let s0 : XSt := ⟨fun _ => [], fun _ => [], ths⟩
  let r := run (steps + 1) seed s0 false 0
  let logs := (List.range nm).map r.final.logOf
  -- a record is bad if it is duplicated (ids are unique per call)
  let bad := logs.foldl (fun acc l => acc + (l.length - l.eraseDups.length)) 0
  let base : List (String × Json) := [("race", Json.bool (r.raced || r.deadlocked)), ("bad", (bad : Nat))]
  if hasReset then pure (Json.mkObj base)
  else pure (Json.mkObj (base ++ [("counts", Json.arr (logs.map (fun l => ((l.length : Nat) : Json))).toArray),
    ("sums", Json.arr (logs.map (fun l => ((l.foldl (· + ·) 0 : Nat) : Json))).toArray)]))

end Driver.C05
