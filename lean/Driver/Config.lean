import Driver.Util
import MockeryModel.Config.Sources
open Lean Mockery.Config

/-! JSON ⇄ configuration trees (shared by C07, C08, C11, …) -/
namespace Driver.Cfg

partial def tdOfJson : Json → TD
  | .obj kvs => .node (kvs.toList.map (fun (k, v) => (k, tdOfJson v)))
  | j => .leaf j.compress

partial def tdToJson : TD → Json
  | .leaf s => (Json.parse s).toOption.getD (Json.str s)
  | .node kvs => Json.mkObj (kvs.map (fun (k, v) => (k, tdToJson v)))

def replaceOfJson (j : Json) : Except String ReplaceMap := do
  let o ← j.getObj?
  o.toList.mapM (fun (pkg, tj) => do
    let t ← tj.getObj?
    let ts ← t.toList.mapM (fun (ty, rj) => do
      let pp := (rj.getObjValAs? String "pkg-path").toOption.getD ""
      let tn := (rj.getObjValAs? String "type-name").toOption.getD ""
      pure (ty, pp, tn))
    pure (pkg, ts))

def replaceToJson (r : ReplaceMap) : Json :=
  Json.mkObj (r.map (fun (pkg, ts) =>
    (pkg, Json.mkObj (ts.map (fun (ty, pp, tn) => (ty, Json.mkObj [("pkg-path", Json.str pp), ("type-name", Json.str tn)]))))))

/-- a value as written in the file; the kind is decided by the JSON shape and the key -/
def valOfJson (key : String) (j : Json) : Except String Val :=
  match j with
  | .bool b => pure (.b b)
  | .str s => pure (.s s)
  | .arr a => do pure (.l (← a.toList.mapM (·.getStr?)))
  | .obj _ => if key == "replace-type" then do pure (.r (← replaceOfJson j)) else
      (match tdOfJson j with | .node kvs => pure (.m kvs) | _ => throw "map expected")
  | _ => throw s!"unsupported value for {key}"

def cfgOfJson (j : Json) : Except String Cfg := do
  let o ← j.getObj?
  o.toList.mapM (fun (k, v) => do pure (k, ← valOfJson k v))

def optCfg (j : Json) (k : String) : Except String (Option Cfg) :=
  match Driver.fldOpt j k with
  | none => pure none
  | some c => do pure (some (← cfgOfJson c))

def valToJson : Val → Json
  | .b b => Json.bool b
  | .s s => Json.str s
  | .l l => Json.arr (l.map Json.str).toArray
  | .m kvs => tdToJson (.node kvs)
  | .r r => replaceToJson r

/-- all fields of the table; unset maps / slices print as empty -/
def cfgToJson (ft : FieldTable) (c : Cfg) : Json :=
  Json.mkObj (ft.map (fun (k, kind) =>
    (k, match c.get k with
      | some v => valToJson v
      | none => match kind with
        | .strSlice => Json.arr #[]
        | .anyMap | .typedMap => Json.mkObj []
        | _ => Json.null)))

def ifaceOfJson (j : Json) : Except String (String × Option IfaceCfg) := do
  let name ← Driver.fldStr j "name"
  if (Driver.fldBoolOpt j "null").toOption.join == some true then return (name, none)
  let cfg ← optCfg j "config"
  let entries ← match Driver.fldOpt j "configs" with
    | none => pure []
    | some a => do (← a.getArr?).toList.mapM (fun x => if x.isNull then cfgOfJson (Json.mkObj []) else cfgOfJson x)
  pure (name, some ⟨cfg, entries⟩)

def pkgOfJson (j : Json) : Except String (String × Option PkgCfg) := do
  let path ← Driver.fldStr j "path"
  if (Driver.fldBoolOpt j "null").toOption.join == some true then return (path, none)
  let cfg ← optCfg j "config"
  let ifs ← match Driver.fldOpt j "interfaces" with
    | none => pure []
    | some a => do (← a.getArr?).toList.mapM ifaceOfJson
  pure (path, some ⟨cfg, ifs⟩)

def ifaceOutToJson (ft : FieldTable) (i : IfaceOut) : Json :=
  Json.mkObj [("config", cfgToJson ft i.config), ("configs", Json.arr (i.configs.map (cfgToJson ft)).toArray)]

def pkgOutToJson (ft : FieldTable) (p : PkgOut) : Json :=
  Json.mkObj [("config", cfgToJson ft p.config),
    ("interfaces", Json.mkObj (p.interfaces.map (fun (n, i) => (n, ifaceOutToJson ft i))))]

/-- root config from the sources described in the input -/
def rootOf (input : Json) : Except String (Except SrcErr Cfg) := do
  let file ← cfgOfJson (← Driver.fld input "root")
  let env ← match Driver.fldOpt input "env" with
    | none => pure []
    | some a => do (← a.getArr?).toList.mapM (fun p => do
        let x ← p.getArr?
        pure ((← x[0]!.getStr?), (← x[1]!.getStr?)))
  let flags ← match Driver.fldOpt input "flags" with
    | none => pure []
    | some f => cfgOfJson f
  pure (rootFromSources fieldTable env file flags)

end Driver.Cfg
