import Driver.Config
import MockeryModel.Config.Select
import MockeryModel.Run.Plan
open Lean Mockery.Config Driver.Cfg

namespace Driver.C07

def declOfJson (j : Json) : Except String Decl := do
  pure { name := ← Driver.fldStr j "name", isLocal := ← Driver.fldBool j "isLocal",
         rhsCandidate := ← Driver.fldBool j "rhsCandidate", isNamed := ← Driver.fldBool j "isNamed",
         isInterface := ← Driver.fldBool j "isInterface" }

def srcOfJson (j : Json) : Except String (Option SrcPkg) := do
  let nogo := (Driver.fldBoolOpt j "nogo").toOption.join == some true
  let testonly := (Driver.fldBoolOpt j "testonly").toOption.join == some true
  if nogo || testonly then return none
  let path ← Driver.fldStr j "path"
  let files ← match Driver.fldOpt j "files" with
    | none => pure []
    | some a => do (← a.getArr?).toList.mapM (fun f => do
        match Driver.fldOpt f "decls" with
        | none => pure []
        | some ds => (← ds.getArr?).toList.mapM declOfJson)
  pure (some ⟨path, files⟩)

def matcherOfJson (j : Json) : Except String Matcher := do
  let rows ← (← j.getArr?).toList.mapM (fun r => do
    let a ← r.getArr?
    let v : Option Bool := match a[2]! with | .bool b => some b | _ => none
    pure ((← a[0]!.getStr?), (← a[1]!.getStr?), v))
  pure (fun e s => match rows.find? (fun r => r.1 == e && r.2.1 == s) with
    | some r => r.2.2
    | none => some false)

def tagOf (c : Cfg) : String :=
  match c.get "template-data" with
  | some (.m kvs) => match lookup "tag" kvs with
    | some (.leaf j) => (match Json.parse j with | .ok (.str s) => s | _ => j)
    | _ => ""
  | _ => ""

def strLt (a b : String × String × String) : Bool :=
  a.1 < b.1 || (a.1 == b.1 && (a.2.1 < b.2.1 || (a.2.1 == b.2.1 && a.2.2 < b.2.2)))

/-- where an interface is declared: (package path, interface) ↦ file, package name, exportedness -/
def srcInfoTable (srcs : Array Json) : List ((String × String) × Mockery.Run.SrcInfo) :=
  srcs.toList.flatMap (fun sj =>
    let path := (Driver.fldStr sj "path").toOption.getD ""
    let dir := (Driver.fldStr sj "dir").toOption.getD ""
    let pkgName := (dir.splitOn "/").getLast?.getD dir
    let files := ((Driver.fldOpt sj "files").bind (fun a => a.getArr?.toOption)).getD #[]
    files.toList.flatMap (fun fj =>
      let fname := (Driver.fldStr fj "name").toOption.getD ""
      let decls := ((Driver.fldOpt fj "decls").bind (fun a => a.getArr?.toOption)).getD #[]
      decls.toList.filterMap (fun dj =>
        match Driver.fldStr dj "name" with
        | .ok n =>
          let exported := match n.toList.head? with | some c => c.isUpper | none => false
          some ((path, n), (⟨"/MOD/" ++ dir ++ "/" ++ fname, pkgName, exported⟩ : Mockery.Run.SrcInfo))
        | .error _ => none)))

def relPath (p : String) : String := if p.startsWith "/MOD/" then (p.drop 5).toString else p

def handle (input : Json) : Except String Json := do
  let tree ← Driver.fld input "tree"
  let fail := Json.mkObj [("exit", (1 : Nat)), ("mocks", Json.arr #[])]
  match ← rootOf tree with
  | .error _ => pure fail
  | .ok root =>
    let pkgs ← (← Driver.fldArr tree "packages").toList.mapM pkgOfJson
    let srcs := (← (← Driver.fldArr input "srcs").toList.mapM srcOfJson).filterMap id
    let m ← matcherOfJson (← Driver.fld input "matches")
    let subJ ← Driver.fld input "subpkgs"
    let subs : String → List String := fun p =>
      match subJ.getObjVal? p with
      | .ok (.arr a) => a.toList.filterMap (fun x => x.getStr?.toOption)
      | _ => []
    match initializeFull fieldTable m subs ⟨root, pkgs⟩ with
    | .error _ => pure fail
    | .ok out =>
      match selected m out srcs with
      | .error _ => pure fail
      | .ok mocks =>
        let rows := (mocks.map (fun mk => (mk.pkg, mk.iface, tagOf mk.cfg))).toArray.qsort strLt
        let miss := missing out srcs
        let base : List (String × Json) := [
          ("exit", if miss.isEmpty then (0 : Nat) else (1 : Nat)),
          ("mocks", Json.arr (rows.map (fun (a, b, c) => Json.arr #[Json.str a, Json.str b, Json.str c])))]
        -- from the selected mocks to output files (a conflict stops the run before missing interfaces are reported)
        let table := srcInfoTable (← Driver.fldArr input "srcs")
        let srcOf : String → String → Mockery.Run.SrcInfo := fun p i =>
          ((table.find? (fun e => e.1 == (p, i))).map (·.2)).getD ⟨"/MOD/unknown.go", "unknown", true⟩
        match Mockery.Run.planAll "/MOD/.mockery.yml" "/MOD" srcOf mocks with
        | .error (.resolve .unmodelled) => pure (Json.mkObj [("unmodelled", Json.bool true)])
        | .error _ => pure fail
        | .ok planned =>
          match Mockery.Run.group planned with
          | .error _ => pure fail
          | .ok cs =>
            let files := (cs.map (fun c => (relPath c.path, c.pkgName, c.mocks.map (fun pm => (pm.iface, pm.structName))))).toArray.qsort (fun a b => a.1 < b.1)
            if !miss.isEmpty then return Json.mkObj base
            pure (Json.mkObj (base ++ [("files", Json.arr (files.map (fun (p, pn, ms) =>
              Json.arr #[Json.str p, Json.str pn, Json.arr (ms.map (fun (i, sn) => Json.arr #[Json.str i, Json.str sn])).toArray])))]))

end Driver.C07
