import Driver.Util
import MockeryModel.Tmpl.Funcs
open Lean Mockery.Tmpl

namespace Driver.C16

def hexDigit (c : Char) : Option Nat :=
  if '0' ≤ c && c ≤ '9' then some (c.toNat - '0'.toNat)
  else if 'a' ≤ c && c ≤ 'f' then some (c.toNat - 'a'.toNat + 10)
  else none

def unhex (s : String) : Except String Bytes :=
  let rec go : List Char → Except String Bytes
    | [] => pure []
    | [_] => throw "odd hex"
    | a :: b :: t => do
      match hexDigit a, hexDigit b with
      | some x, some y => pure ((x * 16 + y).toUInt8 :: (← go t))
      | _, _ => throw "bad hex"
  go s.toList

def hexChar (n : Nat) : Char := if n < 10 then Char.ofNat (n + 48) else Char.ofNat (n - 10 + 97)
def hex (b : Bytes) : String := String.ofList (b.flatMap (fun x => [hexChar (x.toNat / 16), hexChar (x.toNat % 16)]))

def parseVal (j : Json) : Except String Val := do
  match fldOpt j "s", fldOpt j "i", fldOpt j "l" with
  | some s, _, _ => pure (.str (← unhex (← s.getStr?)))
  | _, some i, _ => pure (.int (← i.getInt?))
  | _, _, some l => do
    let xs ← (← l.getArr?).toList.mapM (fun x => do unhex (← x.getStr?))
    pure (.strs xs)
  | _, _, _ => throw "bad value"

def encVal : Val → Json
  | .str s => Json.mkObj [("s", Json.str (hex s))]
  | .int i => Json.mkObj [("i", Json.num (JsonNumber.fromInt i))]
  | .bool b => Json.mkObj [("b", Json.bool b)]
  | .strs l => Json.mkObj [("l", Json.arr (l.map (fun x => Json.str (hex x))).toArray)]

def encR : R → Json
  | .ok v => Json.mkObj [("ok", encVal v)]
  | .error .unmodelled => Json.mkObj [("unmodelled", Json.bool true)]
  | .error _ => Json.mkObj [("err", Json.str "template")]

def handle (input : Json) : Except String Json := do
  let fn ← fldStr input "fn"
  let args ← (← fldArr input "args").toList.mapM parseVal
  pure (encR (funcApply tableOps fn args))

end Driver.C16
