import Driver.Config
import MockeryModel.Cmd.Init
open Lean Mockery.Config Mockery.Cmd Mockery.Run Driver.Cfg

namespace Driver.C18

def shownKeys : List String := ["all", "dir", "filename", "force-file-write", "formatter", "log-level", "structname", "pkgname",
  "recursive", "require-template-schema-exists", "template", "template-schema"]

def handle (input : Json) : Except String Json := do
  let state ← Driver.fldStr input "state"
  let pkg ← Driver.fldStr input "pkg"
  let st : PathState := match state with
    | "absent" => .absent
    | "dir" => .dir
    | "empty" => .file ""
    | "same" => .file "<rendered>"
    | "symlink-dangling" => .file "<symlink>"   -- the path is occupied, whatever the link points to
    | "symlink-file" => .file "<symlink>"
    | _ => .file ((Driver.fldStr input "content").toOption.getD "x")
  -- the rendering is abstract: only "was it written" is observed
  let out := initRun Mockery.Generated.initOpenFlags st "<rendered>"
  let written := out.state == .file "<rendered>" && st == .absent
  let base : List (String × Json) := [("exit", if out.exitOk then (0 : Nat) else (1 : Nat)),
    ("after", Json.str (if written then "written" else "unchanged"))]
  if !written then return Json.mkObj base
  let tree := initConfig fieldTable pkg (Mockery.Generated.initPackageAll == "addr(true)")
  let res := Mockery.Config.initTree fieldTable tree
  let pkgs := res.map (fun (n, p) => Json.mkObj [("path", Json.str n), ("all", Json.bool (boolOf p.config "all")),
    ("interfaces", (p.interfaces.length : Nat))])
  let root := Json.mkObj (shownKeys.map (fun k => (k, match tree.root.get k with | some v => valToJson v | none => Json.null)))
  pure (Json.mkObj (base ++ [("packages", Json.arr pkgs.toArray), ("root", root)]))

end Driver.C18
