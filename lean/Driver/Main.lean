import Driver.Util
import Driver.C15
import Driver.C16
import Driver.C08
import Driver.C07
import Driver.C11
import Driver.C20
import Driver.C19
import Driver.C18
import Driver.C17
import Driver.C05
import Driver.C04
import Driver.C03
import Driver.Pipeline
import Driver.Data
import Driver.C01
open Lean

def dispatch (prop : String) (input : Json) : Except String Json :=
  match prop with
  | "C15" => Driver.C15.handle input
  | "C16" => Driver.C16.handle input
  | "C08" => Driver.C08.handle input
  | "C07" => Driver.C07.handle input
  | "C11" => Driver.C11.handle input
  | "C20" => Driver.C20.handle input
  | "C19" => Driver.C19.handle input
  | "C18" => Driver.C18.handle input
  | "C17" => Driver.C17.handle input
  | "C05" => Driver.C05.handle input
  | "C04" => Driver.C04.handle input
  | "C03" => Driver.C03.handle input
  | "C14" => Driver.Data.handle input
  | "C01" => Driver.C01.handle input
  | "C02" => Driver.C01.handle input
  | "C13" => Driver.Data.handle input
  | "C06" => Driver.Pipeline.handle input
  | "C09" => Driver.Pipeline.handle input
  | "C10" => Driver.Pipeline.handle input
  | "C12" => Driver.Pipeline.handle input
  | p => .error s!"no model for {p}"

def handleLine (line : String) : String :=
  match Json.parse line with
  | .error e => Json.compress (Json.mkObj [("error", Json.str s!"parse: {e}")])
  | .ok j =>
    let id := (j.getObjVal? "id").toOption.getD Json.null
    match j.getObjValAs? String "prop", j.getObjVal? "input" with
    | .ok prop, .ok input =>
      match dispatch prop input with
      | .ok m => Json.compress (Json.mkObj [("id", id), ("model", m)])
      | .error e => Json.compress (Json.mkObj [("id", id), ("error", Json.str e)])
    | _, _ => Json.compress (Json.mkObj [("id", id), ("error", Json.str "missing prop/input")])

partial def loop (h : IO.FS.Stream) (out : IO.FS.Stream) : IO Unit := do
  let line ← h.getLine
  if line.isEmpty then return ()
  out.putStrLn (handleLine line)
  loop h out

def main : IO Unit := do
  loop (← IO.getStdin) (← IO.getStdout)
