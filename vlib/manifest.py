"""Regenerates MANIFEST.json from vlib/props.py (claimed properties) and properties.jsonl."""
import json, os, sys
sys.path.insert(0, os.path.dirname(os.path.dirname(os.path.abspath(__file__))))
from vlib.props import PROPS
V = os.path.dirname(os.path.dirname(os.path.abspath(__file__)))
base = json.load(open(os.path.join(V, "MANIFEST.base.json")))
ids = [json.loads(l)["id"] for l in open(os.path.join(V, "properties.jsonl"))]
checks, na = [], []
for i in ids:
    p = PROPS.get(i)
    if p and p.get("claimed", True):
        checks.append({
            "property_id": i,
            "quick_cmd": f"./check {i} quick",
            "thorough_cmd": f"./check {i} thorough",
            "evidence_file": f"/verif/evidence/{i}.json",
            "replay_cmd_template": f"./check {i} --replay {{path}}",
            "engine": "lean-model",
            "level_claimed": {"category": "proof", "text": p["level_text"], "design_ref": p.get("design_ref", "DESIGN.md §4 " + i)},
            "level_note": p["level_note"],
            "technique": p.get("technique", "Lean 4 theorems over an executable model + model/implementation correspondence"),
        })
    else:
        na.append({"property_id": i, "reason": (p or {}).get("na_reason", "not built yet in this round; no check is registered, nothing is claimed")})
base["checks"] = checks
base["not_applicable"] = na
for e in base["engines"]:
    e["serves_properties"] = [c["property_id"] for c in checks]
json.dump(base, open(os.path.join(V, "MANIFEST.json"), "w"), indent=1)
print("claimed:", [c["property_id"] for c in checks])
