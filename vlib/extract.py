"""Regenerated facts: runs verifx (built from /verif/harness/verifx inside the
snapshot) over the snapshot of the working tree and rewrites
lean/MockeryModel/Generated/*.lean (DESIGN.md §3.2)."""
import os
from . import common as C


def regenerate(snap, notes):
    exe = snap.build("verifx")
    if exe is None:
        notes.append("verifx build failed: " + snap.build_errors.get("verifx", "")[:400])
        return "verifx build failed"
    out = os.path.join(C.LEAN, "MockeryModel", "Generated")
    with C.Lock("lake"):
        p = C.sh([exe, "-src", snap.src, "-out", out], env=C.goenv(), timeout=600)
    msg = (p.stdout + p.stderr).strip().replace("\n", "; ")
    if p.returncode != 0:
        notes.append("verifx: " + msg[:600])
    return f"verifx exit {p.returncode}" + (": " + msg[:300] if msg else " (tables unchanged)")
