"""Static per-property metadata used by ./check (what to build, what is trusted)."""

COMMON_TRUST = [
    "translator-free tie: hand-written Lean model + correspondence harness (harness/verifh, unverified Go) + Lean JSON driver (unverified)",
]

PROPS = {
    "C15": {
        "needs": [],
        "extract": False,
        "harness": "H-alloc: template.Registry/MethodScope in-process vs Mockery.Gen.St.run",
        "rule": "random interleaved histories of AddImport/Imports/PkgQualifier/MethodScope/AllocateName/SuggestName/AddName/NameExists over small colliding name pools; a case is non-trivial iff distinct (canonical JSON) and it forced at least one suffix search (result != prefix) or one import alias",
        "trusted": COMMON_TRUST + ["modelled, not verified: Go map membership as list membership; fmt.Sprintf(\"%s%d\") as Nat.repr; Go string < as Lean String <"],
        "assumptions": ["sort.Slice by path is any correct sort (paths are unique)"],
        "level_text": "Unbounded theorems (induction over arbitrary operation histories; pigeonhole termination of the unbounded suffix/alias searches) about a Lean model of MethodScope/Registry, tied to the real exported API by an in-process differential run on random colliding histories; an independent set-based oracle in the harness supplies replays.",
        "level_note": "Trusted: Lean kernel (+propext, Quot.sound, Classical.choice where printed in the evidence), the hand-written model's fidelity as validated by the correspondence run, the Go harness and Lean JSON driver. Go maps are modelled as list-sets; the model covers the operations templates can call, not AddVar (covered under C01/C14).",
        "technique": "Lean 4 proof (induction over histories, invariants, pigeonhole) + differential correspondence model vs. real Registry/MethodScope",
    },
    "C16": {
        "needs": [],
        "extract": True,
        "harness": "H-funcs: template_funcs.FuncMap through the real text/template engine vs Mockery.Tmpl.funcApply (table regenerated from funcmap.go)",
        "rule": "every function of the map in turn, arguments drawn from pools of empty / ASCII / multi-byte / invalid-UTF-8 strings (extra arguments are often prefixes, suffixes or substrings of the subject), 64-bit boundary integers, zero divisors, empty argument lists; a case is non-trivial iff distinct (canonical JSON), some argument is non-empty and the result is not the subject returned unchanged",
        "trusted": COMMON_TRUST + [
            "regenerated: Generated/FuncMap.lean (name -> callee, argument permutation; golint initialisms) by harness/verifx (go/ast) on every run",
            "modelled, not verified (validated by the correspondence run only): Go's strings/utf8/filepath/regexp.QuoteMeta/xstrings.FirstRuneTo* as transcribed in Tmpl/Bytes.lean, Tmpl/Path.lean, Tmpl/Funcs.lean; Unicode classification/case mapping as the static table Tmpl/UnicodeTable.lean (generated from Go's unicode package for the listed code-point ranges)",
            "outside the model (totality checked on the implementation only): camelcase/snakecase/kebabcase word splitting, matchString (regexp engine), readFile/getenv/expandEnv (environment), ceil/floor/round (floats), randInt",
            "text/template's argument passing and its conversion of panics inside functions into template errors",
        ],
        "assumptions": ["Go int is 64-bit", "code points outside the generated Unicode table are reported as unmodelled, never guessed"],
        "level_text": "Theorems for all byte strings and all 64-bit integers about the reference functions (substring/prefix/suffix specs, split/join inverses, arithmetic folds, totality, exported/firstIsLower first-character specs) and decide-checked theorems over the function table regenerated from funcmap.go on every run (every string closure passes the subject last; every name bound to its documented namesake); the reference functions are tied to the real library by a differential run through text/template.",
        "level_note": "Partial: camelcase/snakecase/kebabcase, matchString, readFile/getenv/expandEnv, ceil/floor/round, randInt are not modelled (implementation-side totality check only). Unicode case tables are a parameter of the theorems and a generated table in the driver. Trusted: Lean kernel, the extractor (verifx), the Go harness and the Lean JSON driver.",
        "technique": "Lean 4 proof (induction over byte strings / argument lists; decide over a table regenerated from funcmap.go) + differential correspondence through text/template",
    },
    "C08": {
        "needs": [],
        "extract": True,
        "harness": "H-config: config.NewRootConfig/Initialize/GetInterfaceConfig in-process on generated trees vs Mockery.Config.initTree over the regenerated field table",
        "rule": "random configuration trees (1-3 packages incl. null ones, 0-3 listed interfaces incl. null ones, 0-3 configs entries) in which every parameter is set at each level with probability 0.15/0.35/0.6 using pairwise distinct marker values (explicit \"\" and false included), nested template-data with leaf/map conflicts, replace-type, exclude-subpkg-regex; a quarter of the cases add MOCKERY_* variables (incl. ill-typed ones), a fifth a --log-level flag; each package is also queried for an unlisted interface; a case is non-trivial iff distinct and some parameter is set at two or more levels of one chain",
        "trusted": COMMON_TRUST + [
            "regenerated: Generated/ConfigFields.lean (fields, koanf keys, kinds of config.Config; the defaults literal of NewDefaultKoanf) by harness/verifx (go/ast) on every run",
            "modelled, not verified: koanf layering and strict mapstructure decoding (Config/Sources.lean), yaml.v3 decoding of the file, Go map iteration (model: association lists, value semantics - aliasing in the real code surfaces as a correspondence difference)",
            "recursive-package injection is modelled under C07, the level each consumer in RootApp.Run reads under the consumer table (see level_note)",
        ],
        "assumptions": ["configuration keys are unique per map (YAML/Go maps)"],
        "level_text": "Theorems for all configuration trees: the effective value of every whole-valued parameter at a configs entry / interface / unlisted interface is the first set value along entry -> interface config -> package config -> top level (over the field table regenerated from config.go: no field kind is skipped); template-data is merged key-wise with the same precedence at every key path (specific leaf wins, missing key inherited, nothing invented); packages and interfaces do not influence their siblings; flags > file > environment > defaults. Tied to the real loader by an in-process differential run.",
        "level_note": "Partial: which level each consumer in RootApp.Run reads (template, schema settings, formatter, force-file-write) is not covered by these theorems; the unchanged tree reads formatter from the top level and template/template-schema/require-template-schema-exists/force-file-write from the package level (known findings C08-K1..K4, replayed through the CLI). koanf/mapstructure/yaml.v3 are modelled, not verified.",
        "technique": "Lean 4 proof (refinement to first-set-value over a field table regenerated from config.go; induction over nested maps) + differential correspondence against config.NewRootConfig",
    },
    "C07": {
        "needs": ["mockery"],
        "extract": True,
        "harness": "H-run: the mockery CLI with a probe template on generated modules vs Mockery.Config.selected ∘ initializeFull",
        "rule": "generated modules over four package-tree shapes (flat, nested, with empty and test-only directories) whose files mix interface literals, empty interfaces, generic interfaces, named instantiations of generic interfaces and structs, structs, func types, aliases, `type X Y`, function-local interface types (also shadowing package-level names) and blank-named types; configurations drawing all / listed interfaces (null, config, 1-3 configs entries, occasionally a missing name) / include / exclude expressions (valid, empty, invalid) / recursive / exclude-subpkg-regex at top and package level, nested recursive roots, distinct template-data tags per level; a case is non-trivial iff distinct and at least one mock was generated or the run failed",
        "trusted": COMMON_TRUST + [
            "regexp.MatchString is a parameter of the model (the harness passes its answers for every expression x name / package path of the case)",
            "`go list p/...` is a parameter (sub-packages with non-test Go files, as laid out by the harness)",
            "go/types facts per declaration kind (Named / Alias / interface-ness) are inputs computed by the harness for the source it emits",
            "text/template rendering of the probe template",
        ],
        "assumptions": ["package order of the run is not observed (results compared as sorted multisets)"],
        "level_text": "The selection predicate stated outright and proved equal to ShouldGenerateInterface's model for every matcher (incl. the error cases and the complete 2x2x3x3 decision table), discovery restricted to package-level named interface types, one mock per configs entry, mock_iff (a mock exists iff discovered, selected, and an entry), never_unconfigured, and for recursion: exactly the non-excluded sub-packages are added, discovered ones inherit the recursive package's settings, the nearest (deepest) recursive ancestor wins deterministically. Tied to the real CLI by probe-template runs.",
        "level_note": "Partial: go/packages discovery, go/types classification and the regexp engine are parameters of the model. The declaration kinds covered are the ones the generator emits.",
        "technique": "Lean 4 proof (decision logic stated outright; induction over package/declaration lists and over the injection fold) + differential correspondence against the mockery CLI with a probe template",
        "timeout": 3600,
    },
    "C11": {
        "needs": [],
        "extract": True,
        "harness": "H-config: Config.ParseTemplates in-process vs Mockery.Config.resolve ∘ bind with the Lean template evaluator; oracle: the real text/template iterated over the documented bindings",
        "rule": "the five templated parameters drawn (alone and concatenated) from ~45 expressions over all documented variables and library functions incl. pipelines, nested quoted templates that need 2-4 rounds, self-growing values, parse and execution errors, trim markers; interface present/absent, exported/unexported/non-ASCII names, interface files below, beside and outside the working directory, config file path given / empty / relative / elsewhere; a case is non-trivial iff distinct and resolution needed at least two rounds or failed",
        "trusted": COMMON_TRUST + [
            "regenerated: Generated/ResolveFacts.lean (iteration cap, loop shape, templated-parameter map, variable bindings of ParseTemplates) by harness/verifx (go/ast) on every run",
            "text/template is outside the loop theorems (they hold for every rendering function); the Lean evaluator (Tmpl/Lang.lean) covers text, fields, literals, calls, pipelines and trim markers and answers `unmodelled` for everything else",
            "pathlib/filepath path algebra as transcribed in Tmpl/Path.lean and Config/Resolve.lean",
            "ast.IsExported of the interface name is an input computed by the harness",
        ],
        "assumptions": ["the working directory of the run does not change while ParseTemplates executes"],
        "level_text": "For every rendering function: the loop runs at most 20 rounds, a successful result is a fixpoint, values stabilising in k<20 rounds are returned fully rendered, values that keep changing end in the infinite-loop error (never a truncated value), a round is independent of the order in which parameters are visited; decide-checked facts regenerated from ParseTemplates (cap, loop shape, the five parameters, the ten bindings); binding theorems for the data model. Tied to the real ParseTemplates by an in-process differential run; independent oracle over real text/template.",
        "level_note": "Partial: InterfaceDirRelative is bound relative to the working directory, not ConfigDir (known finding C11-K1; theorem interfaceDirRelative_partial + witness). Config-file discovery and the CLI layouts are exercised under C09/C10 runs, not modelled here. text/template beyond the evaluator's fragment is unmodelled.",
        "technique": "Lean 4 proof (induction on the fuel of the capped loop, for an arbitrary rendering function; decide over facts regenerated from ParseTemplates) + differential correspondence against Config.ParseTemplates",
    },
}
