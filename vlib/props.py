"""Static per-property metadata used by ./check (what to build, what is trusted)."""

COMMON_TRUST = [
    "translator-free tie: hand-written Lean model + correspondence harness (harness/verifh, unverified Go) + Lean JSON driver (unverified)",
]

PROPS = {
    "C15": {
        "needs": [],
        "extract": False,
        "harness": "H-alloc: template.Registry/MethodScope in-process vs Mockery.Gen.St.run",
        "rule": "random interleaved histories of AddImport/Imports/PkgQualifier/MethodScope/AllocateName/SuggestName/AddName/NameExists over small colliding name pools; a case is non-trivial iff distinct (canonical JSON) and it forced at least one suffix search (result != prefix) or one import alias",
        "trusted": COMMON_TRUST + ["modelled, not verified: Go map membership as list membership; fmt.Sprintf(\"%s%d\") as Nat.repr; Go string < as Lean String <"],
        "assumptions": ["sort.Slice by path is any correct sort (paths are unique)"],
        "level_text": "Unbounded theorems (induction over arbitrary operation histories; pigeonhole termination of the unbounded suffix/alias searches) about a Lean model of MethodScope/Registry, tied to the real exported API by an in-process differential run on random colliding histories; an independent set-based oracle in the harness supplies replays.",
        "level_note": "Trusted: Lean kernel (+propext, Quot.sound, Classical.choice where printed in the evidence), the hand-written model's fidelity as validated by the correspondence run, the Go harness and Lean JSON driver. Go maps are modelled as list-sets; the model covers the operations templates can call, not AddVar (covered under C01/C14).",
        "technique": "Lean 4 proof (induction over histories, invariants, pigeonhole) + differential correspondence model vs. real Registry/MethodScope",
    },
    "C16": {
        "needs": [],
        "extract": True,
        "harness": "H-funcs: template_funcs.FuncMap through the real text/template engine vs Mockery.Tmpl.funcApply (table regenerated from funcmap.go)",
        "rule": "every function of the map in turn, arguments drawn from pools of empty / ASCII / multi-byte / invalid-UTF-8 strings (extra arguments are often prefixes, suffixes or substrings of the subject), 64-bit boundary integers, zero divisors, empty argument lists; a case is non-trivial iff distinct (canonical JSON), some argument is non-empty and the result is not the subject returned unchanged",
        "trusted": COMMON_TRUST + [
            "regenerated: Generated/FuncMap.lean (name -> callee, argument permutation; golint initialisms) by harness/verifx (go/ast) on every run",
            "modelled, not verified (validated by the correspondence run only): Go's strings/utf8/filepath/regexp.QuoteMeta/xstrings.FirstRuneTo* as transcribed in Tmpl/Bytes.lean, Tmpl/Path.lean, Tmpl/Funcs.lean; Unicode classification/case mapping as the static table Tmpl/UnicodeTable.lean (generated from Go's unicode package for the listed code-point ranges)",
            "outside the model (totality checked on the implementation only): camelcase/snakecase/kebabcase word splitting, matchString (regexp engine), readFile/getenv/expandEnv (environment), ceil/floor/round (floats), randInt",
            "text/template's argument passing and its conversion of panics inside functions into template errors",
        ],
        "assumptions": ["Go int is 64-bit", "code points outside the generated Unicode table are reported as unmodelled, never guessed"],
        "level_text": "Theorems for all byte strings and all 64-bit integers about the reference functions (substring/prefix/suffix specs, split/join inverses, arithmetic folds, totality, exported/firstIsLower first-character specs) and decide-checked theorems over the function table regenerated from funcmap.go on every run (every string closure passes the subject last; every name bound to its documented namesake); the reference functions are tied to the real library by a differential run through text/template.",
        "level_note": "Partial: camelcase/snakecase/kebabcase, matchString, readFile/getenv/expandEnv, ceil/floor/round, randInt are not modelled (implementation-side totality check only). Unicode case tables are a parameter of the theorems and a generated table in the driver. Trusted: Lean kernel, the extractor (verifx), the Go harness and the Lean JSON driver.",
        "technique": "Lean 4 proof (induction over byte strings / argument lists; decide over a table regenerated from funcmap.go) + differential correspondence through text/template",
    },
}
