"""Static per-property metadata used by ./check (what to build, what is trusted)."""

COMMON_TRUST = [
    "translator-free tie: hand-written Lean model + correspondence harness (harness/verifh, unverified Go) + Lean JSON driver (unverified)",
]

PROPS = {
    "C15": {
        "needs": [],
        "extract": False,
        "harness": "H-alloc: template.Registry/MethodScope in-process vs Mockery.Gen.St.run",
        "rule": "random interleaved histories of AddImport/Imports/PkgQualifier/MethodScope/AllocateName/SuggestName/AddName/NameExists over small colliding name pools; a case is non-trivial iff distinct (canonical JSON) and it forced at least one suffix search (result != prefix) or one import alias",
        "trusted": COMMON_TRUST + ["modelled, not verified: Go map membership as list membership; fmt.Sprintf(\"%s%d\") as Nat.repr; Go string < as Lean String <"],
        "assumptions": ["sort.Slice by path is any correct sort (paths are unique)"],
        "level_text": "Unbounded theorems (induction over arbitrary operation histories; pigeonhole termination of the unbounded suffix/alias searches) about a Lean model of MethodScope/Registry, tied to the real exported API by an in-process differential run on random colliding histories; an independent set-based oracle in the harness supplies replays.",
        "level_note": "Trusted: Lean kernel (+propext, Quot.sound, Classical.choice where printed in the evidence), the hand-written model's fidelity as validated by the correspondence run, the Go harness and Lean JSON driver. Go maps are modelled as list-sets; the model covers the operations templates can call, not AddVar (covered under C01/C14).",
        "technique": "Lean 4 proof (induction over histories, invariants, pigeonhole) + differential correspondence model vs. real Registry/MethodScope",
    },
}
