"""Shared machinery of the /verif checks: snapshot + build of the working tree,
regenerated facts, Lean build + axiom audit, harness/driver runs, diff,
known findings, evidence.  See DESIGN.md §2–3."""
import fcntl
import hashlib
import json
import os
import re
import shutil
import subprocess
import sys
import tempfile
import time

VERIF = os.path.dirname(os.path.dirname(os.path.abspath(__file__)))
LEAN = os.path.join(VERIF, "lean")
REPO = os.environ.get("VERIF_REPO", "/repo")
CACHE = os.environ.get("VERIF_CACHE", "/tmp/verif-cache")
ALLOWED_AXIOMS = {"propext", "Classical.choice", "Quot.sound"}
FORBIDDEN = re.compile(r"\bsorry\b|\badmit\b|^axiom\s|native_decide|bv_decide|implemented_by|\bunsafe\s|maxHeartbeats\s+0")


def log(*a):
    print("[check]", *a, file=sys.stderr, flush=True)


def goenv():
    e = dict(os.environ)
    e["GOPROXY"] = "off"
    e.pop("GOFLAGS", None)
    e.pop("GOSUMDB", None)
    e.pop("GOTOOLCHAIN", None)
    e.setdefault("GOCACHE", os.path.expanduser("~/.cache/go-build"))
    return e


def sh(cmd, cwd=None, env=None, timeout=None, input=None, check=False):
    p = subprocess.run(cmd, cwd=cwd, env=env, timeout=timeout, input=input,
                       stdout=subprocess.PIPE, stderr=subprocess.PIPE, text=True, shell=isinstance(cmd, str))
    if check and p.returncode != 0:
        raise RuntimeError(f"command failed ({p.returncode}): {cmd}\n{p.stdout[-4000:]}\n{p.stderr[-4000:]}")
    return p


class Lock:
    def __init__(self, name):
        os.makedirs(CACHE, exist_ok=True)
        self.path = os.path.join(CACHE, name + ".lock")

    def __enter__(self):
        self.f = open(self.path, "w")
        fcntl.flock(self.f, fcntl.LOCK_EX)
        return self

    def __exit__(self, *a):
        fcntl.flock(self.f, fcntl.LOCK_UN)
        self.f.close()


# --------------------------------------------------------------------------
# snapshot of the working tree and implementation builds

def tree_hash(root):
    h = hashlib.sha256()
    for d, dirs, files in os.walk(root):
        dirs[:] = sorted(x for x in dirs if x != ".git")
        for f in sorted(files):
            p = os.path.join(d, f)
            rel = os.path.relpath(p, root)
            h.update(rel.encode())
            h.update(b"\0")
            try:
                if os.path.islink(p):
                    h.update(os.readlink(p).encode())
                else:
                    with open(p, "rb") as fh:
                        h.update(fh.read())
            except OSError:
                pass
            h.update(b"\0")
    # the harness sources are part of what is built
    for sub in ("harness",):
        for d, dirs, files in os.walk(os.path.join(VERIF, sub)):
            dirs.sort()
            for f in sorted(files):
                with open(os.path.join(d, f), "rb") as fh:
                    h.update(f.encode() + b"\0" + fh.read())
    return h.hexdigest()[:16]


class Snapshot:
    """A copy of the repository's *current working tree* with the harness
    sources copied in, plus the binaries built from it."""

    def __init__(self):
        self.hash = tree_hash(REPO)
        self.dir = os.path.join(CACHE, self.hash)
        self.src = os.path.join(self.dir, "src")
        self.bin = os.path.join(self.dir, "bin")
        self.build_errors = {}

    def ensure(self):
        with Lock("snapshot"):
            if not os.path.exists(os.path.join(self.dir, "ok")):
                shutil.rmtree(self.dir, ignore_errors=True)
                os.makedirs(self.bin)
                sh(["rsync", "-a", "--exclude", ".git", REPO + "/", self.src + "/"], check=True)
                # harness + extractor sources live in /verif and are copied in (guard: //go:build verif)
                for sub, dst in (("harness/verifh", "internal/verifh"), ("harness/verifx", "internal/verifx"), ("harness/verifsem", "tools/verifsem")):
                    s = os.path.join(VERIF, sub)
                    if os.path.isdir(s):
                        shutil.copytree(s, os.path.join(self.src, dst))
                # export shims: harness/exports/<pkg path>/verif_export.go
                ex = os.path.join(VERIF, "harness", "exports")
                if os.path.isdir(ex):
                    for d, _, files in os.walk(ex):
                        for f in files:
                            rel = os.path.relpath(os.path.join(d, f), ex)
                            dst = os.path.join(self.src, rel)
                            os.makedirs(os.path.dirname(dst), exist_ok=True)
                            shutil.copy(os.path.join(d, f), dst)
                open(os.path.join(self.dir, "ok"), "w").close()
                self._gc()
            else:
                os.utime(self.dir)
        return self

    def _gc(self):
        ds = [os.path.join(CACHE, d) for d in os.listdir(CACHE) if os.path.isdir(os.path.join(CACHE, d))]
        ds.sort(key=os.path.getmtime, reverse=True)
        # keep the three newest and everything used within the last 40 minutes (other check processes – sweeps,
        # seed evaluations – may be running from those)
        now = time.time()
        for d in ds[3:]:
            if now - os.path.getmtime(d) > 2400:
                shutil.rmtree(d, ignore_errors=True)

    def build(self, what):
        """what: 'mockery' | 'tools' | 'verifh' | 'verifx'. Returns path or None (error kept)."""
        out = os.path.join(self.bin, what)
        with Lock("build-" + self.hash):
            if os.path.exists(out):
                return out
            if os.path.exists(out + ".err"):
                self.build_errors[what] = open(out + ".err").read()
                return None
            if what == "mockery":
                p = sh(["go", "build", "-o", out, "."], cwd=self.src, env=goenv())
            elif what == "tools":
                p = sh(["go", "build", "-o", out, "."], cwd=os.path.join(self.src, "tools"), env=goenv())
            elif what == "verifsem":
                p = sh(["go", "build", "-tags", "verif", "-o", out, "./verifsem"], cwd=os.path.join(self.src, "tools"), env=goenv())
            else:
                p = sh(["go", "build", "-tags", "verif", "-o", out, "./internal/" + what], cwd=self.src, env=goenv())
            if p.returncode != 0:
                self.build_errors[what] = p.stderr[-6000:]
                with open(out + ".err", "w") as f:
                    f.write(p.stderr[-6000:])
                return None
            return out


    # in-process parts of the harness that call the repository's API directly, one file per property
    LEAF = {"C11": "c11inproc", "C15": "c15", "C16": "c16", "C18": "c18"}
    TAG = {"c11inproc": "noc11", "c15": "noc15", "c16": "noc16", "c18": "noc18"}
    HAS_CLI_PART = {"C11"}
    degraded = ""

    def build_harness(self, prop):
        """The harness binary for one property. When the full harness no longer compiles because an API that
        *another* property's in-process part calls has changed, that part is left out (build tag no<file>), so
        that one refactoring does not take the correspondence of every property down with it."""
        exe = self.build("verifh")
        if exe is not None:
            return exe
        err = self.build_errors.get("verifh", "")
        broken = sorted({m.group(1) for m in re.finditer(r"internal/verifh/(c\d\d[a-z]*)\.go:", err)})
        if not broken or not all(b in self.LEAF.values() for b in broken):
            return None
        if self.LEAF.get(prop) in broken:
            if prop not in self.HAS_CLI_PART:
                return None
            # the property's own in-process part is gone; its CLI cases still run. The tie is broken all the same.
            self.degraded = "the in-process part of the harness of " + prop + " no longer compiles against the repository:\n" + err[-1500:]
        what = "verifh-" + "-".join(self.TAG[b] for b in broken)
        out = os.path.join(self.bin, what)
        with Lock("build-" + self.hash):
            if os.path.exists(out):
                return out
            tags = "verif," + ",".join(self.TAG[b] for b in broken)
            p = sh(["go", "build", "-tags", tags, "-o", out, "./internal/verifh"], cwd=self.src, env=goenv())
            if p.returncode != 0:
                self.build_errors["verifh"] = err + "\n(also without " + ", ".join(broken) + ")\n" + p.stderr[-3000:]
                return None
        log("harness built without the in-process parts of", ", ".join(broken), "(they no longer compile against the repository)")
        return out


# --------------------------------------------------------------------------
# Lean: regenerated facts, build, audit

def write_if_changed(path, content):
    try:
        if open(path).read() == content:
            return False
    except OSError:
        pass
    os.makedirs(os.path.dirname(path), exist_ok=True)
    with open(path, "w") as f:
        f.write(content)
    return True


def theorems_of(prop):
    """(name, line) of every theorem in MockeryProps/<prop>.lean, in order."""
    path = os.path.join(LEAN, "MockeryProps", prop + ".lean")
    out = []
    for i, line in enumerate(open(path), 1):
        m = re.match(r"^(?:private\s+)?theorem\s+([A-Za-z0-9_'.]+)", line)
        if m:
            out.append((m.group(1), i))
    return out


def lint_sources():
    """no sorry / admit / axiom / native_decide … outside comments, anywhere in the project."""
    bad = []
    for sub in ("MockeryModel", "MockeryLemmas", "MockeryProps", "Driver"):
        for d, _, files in os.walk(os.path.join(LEAN, sub)):
            for f in files:
                if not f.endswith(".lean"):
                    continue
                txt = open(os.path.join(d, f)).read()
                txt = re.sub(r"/-.*?-/", lambda m: "\n" * m.group(0).count("\n"), txt, flags=re.S)
                for i, line in enumerate(txt.split("\n"), 1):
                    line = re.sub(r"--.*$", "", line)
                    line = re.sub(r'"(?:[^"\\]|\\.)*"', '""', line)
                    if FORBIDDEN.search(line):
                        bad.append(f"{os.path.relpath(os.path.join(d, f), LEAN)}:{i}: {line.strip()}")
    return bad


def prove(prop, thorough=False):
    """Build the property's theorems. Returns dict(obligations, discharged, failed[], axioms{}, errors)."""
    thms = theorems_of(prop)
    res = {"obligations": len(thms), "discharged": 0, "failed": [], "axioms": {}, "errors": "", "theorems": [t for t, _ in thms]}
    with Lock("lake"):
        pd = sh(["lake", "build", "vdriver"], cwd=LEAN, timeout=3600)
        res["driver_ok"] = pd.returncode == 0
        p = sh(["lake", "build", "MockeryProps." + prop], cwd=LEAN, timeout=3600)
        res["build_ok"] = p.returncode == 0
        if not res["driver_ok"]:
            res["errors"] = "model/driver does not build: " + "\n".join(l for l in (pd.stdout + pd.stderr).split("\n") if not l.startswith("trace:"))[-3000:]
        if p.returncode != 0:
            errs = (p.stdout + p.stderr)
            res["errors"] = "\n".join(l for l in errs.split("\n") if not l.startswith("trace:"))[-6000:]
            # which theorems of the property file are affected?
            failed = set()
            hit_other = False
            for m in re.finditer(r"error: ([^\s:]+\.lean):(\d+):\d+", errs):
                f, ln = m.group(1), int(m.group(2))
                if f.endswith(f"MockeryProps/{prop}.lean"):
                    cur = None
                    for name, l0 in thms:
                        if l0 <= ln:
                            cur = name
                    failed.add(cur or f"line{ln}")
                else:
                    hit_other = True
            if hit_other or not failed:
                # a model / lemma / generated module no longer compiles: nothing of this property is established
                failed = {t for t, _ in thms}
                res["broken_dependency"] = True
            res["failed"] = sorted(x for x in failed if x)
            res["discharged"] = len(thms) - len([t for t, _ in thms if t in failed])
            return res
        # axiom audit
        ns = f"Mockery.{prop}"
        src = f"import MockeryProps.{prop}\n" + "".join(f"#print axioms {ns}.{t}\n" for t, _ in thms)
        audit = os.path.join(LEAN, ".lake", f"audit_{prop}.lean")
        with open(audit, "w") as f:
            f.write(src)
        p = sh(["lake", "env", "lean", audit], cwd=LEAN, timeout=1800)
        out = p.stdout + p.stderr
        for t, _ in thms:
            m = re.search(r"'" + re.escape(f"{ns}.{t}") + r"' depends on axioms: \[([^\]]*)\]", out, flags=re.S)
            if m:
                ax = [a.strip() for a in m.group(1).replace("\n", " ").split(",") if a.strip()]
            elif re.search(r"'" + re.escape(f"{ns}.{t}") + r"' does not depend on any axioms", out):
                ax = []
            else:
                ax = ["<audit-failed>"]
            res["axioms"][t] = ax
            if set(ax) - ALLOWED_AXIOMS:
                res["failed"].append(t)
        bad = lint_sources()
        if bad:
            res["errors"] = "forbidden constructs:\n" + "\n".join(bad[:20])
            res["failed"] = [t for t, _ in thms]
        if thorough and not res["failed"]:
            p = sh(["lake", "env", "leanchecker", "MockeryProps." + prop], cwd=LEAN, timeout=3600)
            res["leanchecker"] = "ok" if p.returncode == 0 else (p.stdout + p.stderr)[-2000:]
            if p.returncode != 0:
                res["failed"] = [t for t, _ in thms]
                res["errors"] = "leanchecker rejected the compiled module: " + res["leanchecker"]
        res["discharged"] = len(thms) - len(set(res["failed"]))
    return res


def run_driver(cases_path, out_path):
    exe = os.path.join(LEAN, ".lake", "build", "bin", "vdriver")
    with open(cases_path) as fin, open(out_path, "w") as fout:
        p = subprocess.run([exe], stdin=fin, stdout=fout, stderr=subprocess.PIPE, text=True, timeout=7200)
    return p.returncode, p.stderr


def canon(x):
    return json.dumps(x, sort_keys=True, ensure_ascii=False)


# --------------------------------------------------------------------------
# known findings

def known_findings(prop):
    """entries of KNOWN_FINDINGS.txt for the property: list of dict(id, cls, witness, text)"""
    out = []
    path = os.path.join(VERIF, "KNOWN_FINDINGS.txt")
    if not os.path.exists(path):
        return out
    for line in open(path):
        line = line.strip()
        if not line.startswith("finding:"):
            continue
        head, _, text = line[len("finding:"):].partition("::")
        kv = dict(x.split("=", 1) for x in head.split() if "=" in x)
        if kv.get("property") != prop:
            continue
        out.append({"id": kv.get("id"), "cls": kv.get("class"), "witness": kv.get("witness"), "text": text.strip()})
    return out
