#!/bin/sh
# Build the verification framework from files on disk (offline).
set -e
cd "$(dirname "$0")"
(cd lean && lake build 2>&1 | tail -3)
# warm the snapshot + implementation/harness builds for the current tree
python3 - <<'PY'
import sys, os
sys.path.insert(0, os.getcwd())
from vlib import common as C
s = C.Snapshot().ensure()
for w in ("mockery", "verifh", "verifx", "tools", "verifsem"):
    p = s.build(w)
    print(w, "->", p if p else "BUILD FAILED: " + s.build_errors.get(w, "")[:500])
PY
