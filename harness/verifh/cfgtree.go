//go:build verif

package main

import (
	"context"
	"fmt"
	"math/rand"
	"os"
	"path/filepath"
	"reflect"
	"sort"
	"strings"
	"sync"

	"github.com/rs/zerolog"
	"github.com/spf13/pflag"
	"github.com/vektra/mockery/v3/config"
	"gopkg.in/yaml.v3"
)

// Shared "configuration tree" input language (DESIGN.md App. B) and helpers
// that run the real loader on it.

type CfgMap = map[string]any

type IfaceIn struct {
	Name    string   `json:"name"`
	Null    bool     `json:"null,omitempty"`
	Config  CfgMap   `json:"config,omitempty"`
	Configs []CfgMap `json:"configs,omitempty"`
}

type PkgIn struct {
	Path       string    `json:"path"`
	Null       bool      `json:"null,omitempty"`
	Config     CfgMap    `json:"config,omitempty"`
	Interfaces []IfaceIn `json:"interfaces,omitempty"`
}

type QueryIn struct {
	Pkg   string `json:"pkg"`
	Iface string `json:"iface"`
}

type TreeIn struct {
	// Dirs: package directories (relative to the module root example.com/m) that hold one Go file each;
	// when present the loader runs inside that module so that recursive packages can be expanded.
	Dirs     []string            `json:"dirs,omitempty"`
	SubPkgs  map[string][]string `json:"subpkgs,omitempty"`
	Matches  [][3]any            `json:"matches,omitempty"`
	Env      [][2]string `json:"env,omitempty"`
	Flags    CfgMap      `json:"flags,omitempty"`
	Root     CfgMap      `json:"root"`
	Packages []PkgIn     `json:"packages"`
	Query    []QueryIn   `json:"query,omitempty"`
}

// yamlTree renders the tree as the YAML document a user would write.
func (t *TreeIn) yamlTree() ([]byte, error) {
	doc := yaml.Node{Kind: yaml.MappingNode}
	add := func(m *yaml.Node, k string, v *yaml.Node) {
		m.Content = append(m.Content, &yaml.Node{Kind: yaml.ScalarNode, Value: k, Tag: "!!str"}, v)
	}
	toNode := func(v any) *yaml.Node {
		n := &yaml.Node{}
		if err := n.Encode(v); err != nil {
			panic(err)
		}
		return n
	}
	null := func() *yaml.Node { return &yaml.Node{Kind: yaml.ScalarNode, Tag: "!!null", Value: "null"} }
	keys := func(m CfgMap) []string {
		ks := []string{}
		for k := range m {
			ks = append(ks, k)
		}
		sort.Strings(ks)
		return ks
	}
	for _, k := range keys(t.Root) {
		add(&doc, k, toNode(t.Root[k]))
	}
	pk := &yaml.Node{Kind: yaml.MappingNode}
	for _, p := range t.Packages {
		if p.Null {
			add(pk, p.Path, null())
			continue
		}
		pn := &yaml.Node{Kind: yaml.MappingNode}
		if p.Config != nil {
			add(pn, "config", toNode(p.Config))
		}
		if len(p.Interfaces) > 0 {
			in := &yaml.Node{Kind: yaml.MappingNode}
			for _, i := range p.Interfaces {
				if i.Null {
					add(in, i.Name, null())
					continue
				}
				inn := &yaml.Node{Kind: yaml.MappingNode}
				if i.Config != nil {
					add(inn, "config", toNode(i.Config))
				}
				if len(i.Configs) > 0 {
					seq := &yaml.Node{Kind: yaml.SequenceNode}
					for _, c := range i.Configs {
						if c == nil {
							seq.Content = append(seq.Content, null()) // an entry written as a bare `-`: it sets nothing
							continue
						}
						seq.Content = append(seq.Content, toNode(c))
					}
					add(inn, "configs", seq)
				}
				add(in, i.Name, inn)
			}
			add(pn, "interfaces", in)
		}
		add(pk, p.Path, pn)
	}
	add(&doc, "packages", pk)
	return yaml.Marshal(&doc)
}

// the loader reads process-global state (environment); serialise its use
var cfgEnvMu sync.Mutex

func clearMockeryEnv() {
	for _, e := range os.Environ() {
		if strings.HasPrefix(e, "MOCKERY_") {
			os.Unsetenv(strings.SplitN(e, "=", 2)[0])
		}
	}
}

// loadTree runs config.NewRootConfig on the tree (file written into dir).
func loadTree(t *TreeIn, dir string) (rc *config.RootConfig, cfgPath string, err error, panicked string) {
	b, yerr := t.yamlTree()
	if yerr != nil {
		return nil, "", yerr, ""
	}
	cfgPath = filepath.Join(dir, ".mockery.yml")
	if werr := os.WriteFile(cfgPath, b, 0o644); werr != nil {
		return nil, "", werr, ""
	}
	cfgEnvMu.Lock()
	defer cfgEnvMu.Unlock()
	if len(t.Dirs) > 0 {
		files := map[string]string{"go.mod": goModText}
		for _, d := range t.Dirs {
			files[d+"/x.go"] = "package " + filepath.Base(d) + "\n\ntype X interface{ M() }\n"
		}
		if werr := writeFiles(dir, files); werr != nil {
			return nil, cfgPath, werr, ""
		}
		old, _ := os.Getwd()
		if cerr := os.Chdir(dir); cerr != nil {
			return nil, cfgPath, cerr, ""
		}
		defer os.Chdir(old)
		os.Setenv("GOFLAGS", "-mod=mod")
		os.Setenv("GOPROXY", "off")
	}
	clearMockeryEnv()
	for _, kv := range t.Env {
		os.Setenv(kv[0], kv[1])
	}
	defer clearMockeryEnv()
	flags := pflag.NewFlagSet("mockery", pflag.ContinueOnError)
	flags.String("config", "", "")
	flags.String("log-level", "", "")
	args := []string{"--config", cfgPath}
	if t.Flags != nil {
		if v, ok := t.Flags["log-level"].(string); ok {
			args = append(args, "--log-level", v)
		}
	}
	if perr := flags.Parse(args); perr != nil {
		return nil, cfgPath, perr, ""
	}
	ctx := zerolog.Nop().WithContext(context.Background())
	func() {
		defer func() {
			if r := recover(); r != nil {
				panicked = fmt.Sprint(r)
			}
		}()
		rc, _, err = config.NewRootConfig(ctx, flags)
	}()
	return rc, cfgPath, err, panicked
}

// cfgJSON lists every field of a Config by koanf key; nil maps / slices print as empty.
func cfgJSON(c *config.Config, cfgPath string) map[string]any {
	out := map[string]any{}
	if c == nil {
		return out
	}
	v := reflect.ValueOf(*c)
	for i := 0; i < v.NumField(); i++ {
		key := v.Type().Field(i).Tag.Get("koanf")
		f := v.Field(i)
		switch f.Kind() {
		case reflect.Pointer:
			if f.IsNil() {
				out[key] = nil
			} else {
				x := f.Elem().Interface()
				if s, ok := x.(string); ok && cfgPath != "" && s == cfgPath {
					x = "<CFG>"
				}
				out[key] = x
			}
		case reflect.Slice:
			l := []string{}
			for j := 0; j < f.Len(); j++ {
				l = append(l, f.Index(j).String())
			}
			out[key] = l
		case reflect.Map:
			if m, ok := f.Interface().(map[string]any); ok {
				out[key] = normMap(m)
			} else if rt, ok := f.Interface().(map[string]map[string]*config.ReplaceType); ok {
				o := map[string]any{}
				for p, ts := range rt {
					tm := map[string]any{}
					for tn, r := range ts {
						if r == nil {
							tm[tn] = map[string]any{"pkg-path": "", "type-name": ""}
						} else {
							tm[tn] = map[string]any{"pkg-path": r.PkgPath, "type-name": r.TypeName}
						}
					}
					o[p] = tm
				}
				out[key] = o
			} else {
				out[key] = fmt.Sprintf("<unknown map type %s>", f.Type())
			}
		default:
			out[key] = fmt.Sprintf("<unknown kind %s>", f.Kind())
		}
	}
	return out
}

func normMap(m map[string]any) map[string]any {
	o := map[string]any{}
	for k, v := range m {
		if mm, ok := v.(map[string]any); ok {
			o[k] = normMap(mm)
		} else {
			o[k] = v
		}
	}
	return o
}

func ifaceJSON(i *config.InterfaceConfig, cfgPath string) map[string]any {
	cs := []any{}
	for _, c := range i.Configs {
		cs = append(cs, cfgJSON(c, cfgPath))
	}
	return map[string]any{"config": cfgJSON(i.Config, cfgPath), "configs": cs}
}

// ---- generator of trees -------------------------------------------------------

var cfgScalarKeys = []string{"dir", "filename", "pkgname", "structname", "template", "template-schema", "formatter",
	"include-interface-regex", "exclude-interface-regex", "build-tags", "log-level"}
var cfgBoolKeys = []string{"all", "force-file-write", "require-template-schema-exists"}

type treeGen struct {
	r      *rand.Rand
	pSet   float64
	serial int
}

func (g *treeGen) marker(key, level string) string {
	g.serial++
	return fmt.Sprintf("%s@%s#%d", key, level, g.serial)
}

func (g *treeGen) td(depth int, level string) map[string]any {
	m := map[string]any{}
	n := g.r.Intn(4)
	for i := 0; i < n; i++ {
		k := pick(g.r, []string{"a", "b", "n", "deep", "x"})
		switch {
		case depth < 3 && g.r.Intn(3) == 0:
			m[k] = g.td(depth+1, level)
		case g.r.Intn(6) == 0:
			m[k] = g.r.Intn(2) == 0
		case g.r.Intn(8) == 0:
			m[k] = []any{g.marker(k, level)}
		default:
			m[k] = g.marker(k, level)
		}
	}
	return m
}

func (g *treeGen) cfg(level string, allowNil bool) CfgMap {
	if allowNil && g.r.Intn(5) == 0 {
		return nil
	}
	c := CfgMap{}
	for _, k := range cfgScalarKeys {
		if g.r.Float64() < g.pSet {
			if g.r.Intn(12) == 0 {
				c[k] = "" // explicit empty string at a specific level
			} else {
				c[k] = g.marker(k, level)
			}
		}
	}
	for _, k := range cfgBoolKeys {
		if g.r.Float64() < g.pSet {
			c[k] = g.r.Intn(2) == 0
		}
	}
	if g.r.Float64() < g.pSet/2 {
		c["recursive"] = false
	}
	if g.r.Float64() < g.pSet {
		c["template-data"] = g.td(0, level)
	}
	if g.r.Float64() < g.pSet/2 {
		l := []any{}
		for i := g.r.Intn(3); i > 0; i-- {
			l = append(l, g.marker("ex", level))
		}
		// an explicit empty list is a setting of its own: it overrides an inherited list
		c["exclude-subpkg-regex"] = l
	}
	if g.r.Float64() < g.pSet/2 {
		c["replace-type"] = map[string]any{
			pick(g.r, []string{"example.com/a", "example.com/b"}): map[string]any{
				pick(g.r, []string{"T", "U"}): map[string]any{"pkg-path": g.marker("rp", level), "type-name": "R"},
			},
		}
	}
	return c
}

func (g *treeGen) tree() *TreeIn {
	t := &TreeIn{Root: g.cfg("root", false)}
	np := 1 + g.r.Intn(3)
	for p := 0; p < np; p++ {
		pi := PkgIn{Path: fmt.Sprintf("example.com/m/p%d", p)}
		if g.r.Intn(8) == 0 {
			pi.Null = true
			t.Packages = append(t.Packages, pi)
			t.Query = append(t.Query, QueryIn{pi.Path, "Unlisted"})
			continue
		}
		pi.Config = g.cfg(fmt.Sprintf("p%d", p), true)
		ni := g.r.Intn(4)
		for i := 0; i < ni; i++ {
			ii := IfaceIn{Name: fmt.Sprintf("I%d", i)}
			if g.r.Intn(6) == 0 {
				ii.Null = true
			} else {
				ii.Config = g.cfg(fmt.Sprintf("p%d.I%d", p, i), true)
				for e := g.r.Intn(4); e > 0; e-- {
					ec := g.cfg(fmt.Sprintf("p%d.I%d.e%d", p, i, e), false)
					if g.r.Intn(8) == 0 {
						ec = nil
					}
					ii.Configs = append(ii.Configs, ec)
				}
			}
			pi.Interfaces = append(pi.Interfaces, ii)
		}
		t.Packages = append(t.Packages, pi)
		t.Query = append(t.Query, QueryIn{pi.Path, "Unlisted"})
	}
	return t
}

// recTree: a recursive package, an explicitly listed sub-package of it, and unrelated siblings.
func (g *treeGen) recTree() *TreeIn {
	// p0/subx: a sibling of p0/sub whose path has p0/sub as a plain string prefix; never listed itself
	t := &TreeIn{Root: g.cfg("root", false), Dirs: []string{"p0", "p0/sub", "p0/sub/deep", "p0/subx", "p0/other", "q", "q/inner"}}
	delete(t.Root, "exclude-subpkg-regex")
	mk := func(path, level string, recursive bool, null bool) PkgIn {
		p := PkgIn{Path: "example.com/m/" + path}
		if null {
			p.Null = true
			return p
		}
		p.Config = g.cfg(level, false)
		delete(p.Config, "exclude-subpkg-regex")
		if recursive {
			p.Config["recursive"] = true
		} else {
			delete(p.Config, "recursive")
		}
		return p
	}
	t.Packages = append(t.Packages, mk("p0", "p0", true, false))
	if g.r.Intn(3) != 0 {
		t.Packages = append(t.Packages, mk("p0/sub", "p0/sub", g.r.Intn(2) == 0, g.r.Intn(3) == 0))
	}
	if g.r.Intn(3) == 0 {
		t.Packages = append(t.Packages, mk("p0/other", "p0/other", false, g.r.Intn(2) == 0))
	}
	t.Packages = append(t.Packages, mk("q", "q", false, g.r.Intn(2) == 0))
	if g.r.Intn(3) == 0 {
		t.Packages = append(t.Packages, mk("q/inner", "q/inner", false, g.r.Intn(2) == 0))
	}
	g.r.Shuffle(len(t.Packages), func(i, j int) { t.Packages[i], t.Packages[j] = t.Packages[j], t.Packages[i] })
	t.SubPkgs = map[string][]string{}
	for _, d := range t.Dirs {
		var subs []string
		for _, e := range t.Dirs {
			if e == d || strings.HasPrefix(e, d+"/") {
				subs = append(subs, "example.com/m/"+e)
			}
		}
		sort.Strings(subs)
		t.SubPkgs["example.com/m/"+d] = subs
	}
	t.Matches = [][3]any{}
	for _, p := range t.Packages {
		t.Query = append(t.Query, QueryIn{p.Path, "Unlisted"})
	}
	return t
}
