//go:build verif

package main

import (
	"bytes"
	"encoding/hex"
	"encoding/json"
	"errors"
	"fmt"
	"go/ast"
	"math/rand"
	"os"
	"path/filepath"
	"strings"
	"sync"
	"text/template"

	"github.com/vektra/mockery/v3/template_funcs"
)

// C11: Config.ParseTemplates in-process on generated expressions and layouts
// vs. the Lean model (bind + capped fixpoint loop + template evaluator); the
// oracle renders with the real text/template against the *documented* bindings.

type c11Iface struct {
	Name string `json:"name"`
	File string `json:"file"`
}

type c11Input struct {
	Values     map[string]string `json:"values"`
	Template   string            `json:"template"`
	ConfigFile string            `json:"configFile"`
	Iface      *c11Iface         `json:"iface"`
	Cwd        string            `json:"cwd"`
	SrcPkgName string            `json:"srcPkgName"`
	SrcPkgPath string            `json:"srcPkgPath"`
	Exported   bool              `json:"exported"`
	// a scratch module (relative path -> content, "<MOD>" = its root): the case then goes through the CLI – the
	// real loader finds the interface and binds the variables; `iface.file` is the file that declares it
	Module map[string]string `json:"module,omitempty"`
	PkgArg string            `json:"pkgArg,omitempty"`
	// (CLI cases) the interface has a `configs` list: this structname in the first entry (the case's own), another in
	// a second entry; every entry is rendered with the variables of its own configuration
	EntryStruct string `json:"entryStruct,omitempty"`
	// CLI cases: how the program is told where the config file (ConfigFile) is: search | flag | env | env+flag (the
	// flag names another file: the environment wins) | key (the file itself carries a `config:` key naming another
	// file: ConfigDir is the directory of the file in use)
	Locate string `json:"locate,omitempty"`
}

type c11 struct{}

var c11Once sync.Once

func init() { register("C11", c11{}) }

var c11Params = []string{"dir", "filename", "pkgname", "structname", "template-schema"}

var c11Exprs = []string{
	"plain", "", "{{.InterfaceName}}", "{{.Mock}}{{.InterfaceName}}", "{{.InterfaceDir}}/mocks", "{{.SrcPackageName}}_test",
	"{{.SrcPackagePath}}", "{{ .InterfaceName | lower }}", "{{ .InterfaceName | upper }}_X", "mock_{{ .InterfaceName | firstLower }}.go",
	"{{ .InterfaceName | trimPrefix \"I\" | firstLower }}", "{{ replaceAll \"/\" \"_\" .SrcPackagePath }}", "{{.StructName}}_x",
	"X{{.StructName}}", "{{.Template}}.schema.json", "{{.ConfigDir}}/out", "{{.InterfaceDirRelative}}", "{{ base .InterfaceFile }}",
	"{{ dir .InterfaceFile }}", "{{ add 1 2 }}", "{{ .Nope }}", "{{ nope .InterfaceName }}", "{{", "{{ .InterfaceName | exported }}",
	"{{ exported .Mock }}", "{{ `{{.Mock}}` }}", "{{ `{{ \"{{.InterfaceName}}\" }}` }}", "{{- .InterfaceName -}}  ", " a {{- \" b \" -}} c ",
	"{{ .InterfaceName | snakecase }}", "{{ if .Mock }}x{{ end }}", "{{ div 1 0 }}", "{{ trimSuffix \".go\" (base .InterfaceFile) }}",
	"{{ join \"-\" (split \"/\" .SrcPackagePath) }}", "{{ contains \"I\" .InterfaceName }}", "{{ .InterfaceName | replace \"a\" \"b\" -1 }}",
	"{{ \"a\\\"b\\n\" }}", "{{ .InterfaceName }}{{ .InterfaceName }}", "{{ .ConfigDir | base }}", "{{ len .InterfaceName }}",
	"{{ firstIsLower .InterfaceName }}", "{{ .StructName | lower }}", "{{ .InterfaceName | hasPrefix \"I\" }}", "{{.InterfaceFile}}",
	"{{ clean \"a/../b\" }}", "{{ mul 3 (add 1 2) }}", "{{ .Mock | trimPrefix .Mock }}",
}

func (c11) Generate(c *Ctx) []any {
	n := c.Budget(1500, 30000)
	cwd := "/CWD" // placeholder for the working directory of the harness process (substituted in Run)
	var out []any
	names := []string{"Reader", "reader", "IService", "Éclair", "écho", "X", "_hidden", "HTTPClient", "a1"}
	for i := 0; i < n; i++ {
		r := c.Rng
		in := c11Input{Values: map[string]string{}, Cwd: cwd, SrcPkgName: pick(r, []string{"foo", "bar_test", "main"}), SrcPkgPath: pick(r, []string{"example.com/m/foo", "example.com/m/a/b", "x"})}
		// defaults, then overrides
		in.Values["dir"] = "{{.InterfaceDir}}"
		in.Values["filename"] = "mocks_test.go"
		in.Values["pkgname"] = "{{.SrcPackageName}}"
		in.Values["structname"] = "{{.Mock}}{{.InterfaceName}}"
		in.Values["template-schema"] = "{{.Template}}.schema.json"
		for _, p := range c11Params {
			if r.Intn(2) == 0 {
				in.Values[p] = pick(r, c11Exprs)
				if r.Intn(4) == 0 {
					in.Values[p] = pick(r, c11Exprs) + pick(r, []string{"/", "_", ""}) + pick(r, c11Exprs)
				}
				// more than one reference to .StructName per value grows exponentially with the rounds
				// (2^20 copies before the cap is reached): kept out of this stream, see DESIGN.md C11
				if strings.Count(in.Values[p], "StructName") > 1 {
					in.Values[p] = pick(r, c11Exprs)
				}
			}
		}
		in.Template = pick(r, []string{"testify", "matryer", "file://x/y.templ", "{{.Mock}}"})
		in.ConfigFile = pick(r, []string{filepath.Join(cwd, ".mockery.yml"), "", "rel/.mockery.yaml", "/etc/mockery/.mockery.yml", filepath.Join(cwd, "sub/conf.yml")})
		if r.Intn(8) != 0 {
			name := pick(r, names)
			file := pick(r, []string{filepath.Join(cwd, "foo/foo.go"), filepath.Join(cwd, "x.go"), filepath.Join(cwd, "a/b/c/d.go"), "/other/place/z.go", cwd + "-api/s.go"})
			in.Iface = &c11Iface{Name: name, File: file}
			in.Exported = ast.IsExported(name)
		}
		out = append(out, in)
	}
	_ = rand.Int
	nb := c.Budget(24, 240)
	for i := 0; i < nb; i++ {
		out = append(out, genC11Bind(c.Rng, i))
	}
	return out
}

const c11Probe = "// Code generated by probe. DO NOT EDIT.\nPKG {{.PkgName}}\n{{range .Interfaces}}STRUCT {{.StructName}}\n{{end}}"

// genC11Bind: the variables as the real loader binds them. A package of several files (one interface each);
// some carry //line directives (generated parsers), a generated-code header, build constraints that exclude
// them, or are test files; the probed interface lives in one of the ordinary ones.
func genC11Bind(r *rand.Rand, idx int) c11Input {
	mod := fmt.Sprintf("/CWD/b%d", idx)
	pkgDir := pick(r, []string{"svc", "a/b", "x"})
	pkgName := pick(r, []string{"svc", "store", "parser"})
	names := []string{"Alpha", "beta", "Gamma", "Lexer"}
	files := map[string]string{"go.mod": "module example.com/m\n\ngo 1.23\n", "probe.templ": c11Probe}
	type fl struct{ name, iface string }
	var fs []fl
	for k, n := range names {
		fn := []string{"a.go", "b.go", "zz_gen.go", "lexer.go"}[k]
		head := ""
		switch {
		case fn == "zz_gen.go":
			head = "// Code generated by protoc-gen-go. DO NOT EDIT.\n\n"
		case fn == "lexer.go" && idx%2 == 0:
			// a position directive in front of the package clause, as goyacc / ragel output has
			head = "//line ../grammar/expr.y:2\n"
		}
		body := fmt.Sprintf("type %s interface{ M%d(x int) error }\n", n, k)
		if fn == "b.go" && idx%3 == 0 {
			body = "//line other/place.y:40\n" + body
		}
		files[pkgDir+"/"+fn] = head + "package " + pkgName + "\n\n" + body
		fs = append(fs, fl{fn, n})
	}
	files[pkgDir+"/skip_test.go"] = "package " + pkgName + "\n\ntype InTest interface{ T() }\n"
	files[pkgDir+"/ignored.go"] = "//go:build ignore\n\npackage " + pkgName + "\n\ntype Alpha interface{ Other() }\n"
	files["grammar/expr.y"] = "%%\n"
	pr := fs[r.Intn(len(fs))]
	in := c11Input{Values: map[string]string{}, Cwd: mod, SrcPkgName: pkgName, SrcPkgPath: "example.com/m/" + pkgDir,
		ConfigFile: mod + "/.mockery.yml", Template: "file://" + mod + "/probe.templ", Module: files, PkgArg: "example.com/m/" + pkgDir,
		Iface: &c11Iface{Name: pr.iface, File: mod + "/" + pkgDir + "/" + pr.name}, Exported: ast.IsExported(pr.iface)}
	in.Values["dir"] = pick(r, []string{"{{.InterfaceDir}}/mocks", "{{.ConfigDir}}/out/{{.SrcPackageName}}", "{{ dir .InterfaceFile }}/m"})
	in.Values["filename"] = pick(r, []string{"{{.InterfaceName}}.probe", "{{ .InterfaceFile | base | trimSuffix \".go\" }}_{{.InterfaceName}}.probe", "{{.StructName}}.probe"})
	in.Values["pkgname"] = pick(r, []string{"{{.SrcPackageName}}_x", "p_{{ .InterfaceName | lower }}", "{{ base .InterfaceDir }}"})
	in.Values["structname"] = pick(r, []string{"{{.Mock}}{{.InterfaceName}}", "S_{{ base .InterfaceFile }}_{{ .InterfaceDirRelative | replaceAll \"/\" \"_\" }}", "S_{{ replaceAll \"/\" \"_\" .SrcPackagePath }}"})
	in.Values["template-schema"] = "none.schema.json"
	in.Locate = []string{"search", "flag", "env", "env+flag", "key", "search"}[idx%6]
	if in.Locate != "search" {
		in.Values["dir"] = "{{.ConfigDir}}/out/{{.SrcPackageName}}"
		if in.Locate != "key" {
			in.ConfigFile = mod + "/conf/my.yml"
		}
	}
	if idx%3 == 1 {
		in.EntryStruct = "Spy" + pr.iface
		in.Values["structname"] = "Stub{{.InterfaceName}}"
		in.Values["filename"] = pick(r, []string{"{{.StructName}}.probe", "x_{{ .StructName | lower }}.probe"})
	}
	return in
}

// c11RunCLI: the same question asked of the whole program
func c11RunCLI(c *Ctx, in *c11Input, realCwd string) (res c11Result, panicked string, hung bool) {
	mod := in.Cwd
	os.RemoveAll(mod)
	files := map[string]string{}
	for k, v := range in.Module {
		files[k] = strings.ReplaceAll(v, "<MOD>", mod)
	}
	var cfg strings.Builder
	fmt.Fprintf(&cfg, "template: %q\nrequire-template-schema-exists: false\nformatter: noop\nforce-file-write: true\n", strings.ReplaceAll(in.Template, "/CWD", realCwd))
	for _, k := range c11Params {
		if k == "structname" && in.EntryStruct != "" {
			continue
		}
		fmt.Fprintf(&cfg, "%s: %q\n", k, in.Values[k])
	}
	fmt.Fprintf(&cfg, "packages:\n  %s:\n    interfaces:\n      %s:\n", in.PkgArg, in.Iface.Name)
	if in.EntryStruct != "" {
		fmt.Fprintf(&cfg, "        configs:\n          - structname: %q\n          - structname: %q\n", in.Values["structname"], in.EntryStruct)
	}
	cfgRel, _ := filepath.Rel(mod, in.ConfigFile)
	files[cfgRel] = cfg.String()
	var args, env []string
	switch in.Locate {
	case "flag":
		args = []string{"--config", in.ConfigFile}
	case "env":
		env = []string{"MOCKERY_CONFIG=" + in.ConfigFile}
	case "env+flag":
		files["decoy/other.yml"] = cfg.String()
		env = []string{"MOCKERY_CONFIG=" + in.ConfigFile}
		args = []string{"--config", filepath.Join(mod, "decoy/other.yml")}
	case "key":
		files["decoy/other.yml"] = cfg.String()
		files[cfgRel] = fmt.Sprintf("config: %q\n", filepath.Join(mod, "decoy/other.yml")) + cfg.String()
	}
	if err := writeFiles(mod, files); err != nil {
		res.err = err
		return
	}
	defer os.RemoveAll(mod)
	before := treeHashes(mod)
	r := c.runMockery(mod, args, env)
	if r.Panicked {
		return res, lastLines(r.Stderr, 4), false
	}
	if r.TimedOut {
		return res, "", true
	}
	if r.Exit != 0 {
		if strings.Contains(r.Stderr, "infinite loop") {
			res.err = errC11InfiniteLoop
		} else {
			res.err = fmt.Errorf("mockery failed: %s", lastLines(r.Stderr, 2))
		}
		return
	}
	after := treeHashes(mod)
	var created []string
	for _, k := range sortedKeys(after) {
		if _, ok := before[k]; !ok && strings.HasSuffix(k, ".probe") {
			created = append(created, k)
		}
	}
	if in.EntryStruct != "" {
		// two entries, two files: the case observes the one of its own entry
		if len(created) != 2 {
			res.err = fmt.Errorf("two configs entries with different struct names and a file name that depends on the struct name: expected two new files, found %v", created)
			return
		}
		var own []string
		for _, f := range created {
			b, _ := os.ReadFile(filepath.Join(mod, f))
			if !strings.Contains(string(b), "STRUCT "+in.EntryStruct+"\n") {
				own = append(own, f)
			}
		}
		if len(own) != 1 {
			res.err = fmt.Errorf("expected exactly one file without the second entry's mock, found %v of %v", own, created)
			return
		}
		created = own
	}
	if len(created) != 1 {
		res.err = fmt.Errorf("expected one new file, found %v", created)
		return
	}
	b, _ := os.ReadFile(filepath.Join(mod, created[0]))
	res.vals = map[string]string{"dir": filepath.Dir(filepath.Join(mod, created[0])), "filename": filepath.Base(created[0]), "template-schema": in.Values["template-schema"]}
	for _, l := range strings.Split(string(b), "\n") {
		if v, ok := strings.CutPrefix(l, "PKG "); ok {
			res.vals["pkgname"] = v
		}
		if v, ok := strings.CutPrefix(l, "STRUCT "); ok {
			res.vals["structname"] = v
		}
	}
	return
}

// the CLI reports the resolution cap in its log only
var errC11InfiniteLoop = errors.New("infinite loop in template variables detected")

type c11Result struct {
	vals map[string]string
	err  error
}

// documented bindings
func c11DocData(in *c11Input) (map[string]string, bool) {
	d := map[string]string{
		"ConfigDir": filepath.Dir(in.ConfigFile), "InterfaceDir": "", "InterfaceDirRelative": "", "InterfaceFile": "", "InterfaceName": "",
		"Mock": "", "StructName": in.Values["structname"], "SrcPackageName": in.SrcPkgName, "SrcPackagePath": in.SrcPkgPath, "Template": in.Template,
	}
	relDiffers := false
	if in.Iface != nil {
		d["InterfaceFile"] = in.Iface.File
		d["InterfaceName"] = in.Iface.Name
		d["InterfaceDir"] = filepath.Dir(in.Iface.File)
		d["Mock"] = "mock"
		if ast.IsExported(in.Iface.Name) {
			d["Mock"] = "Mock"
		}
		// documented: relative to ConfigDir. (The harness keeps cwd == ConfigDir unless it probes the known deviation.)
		rel := func(base string) string {
			r, err := filepath.Rel(base, d["InterfaceDir"])
			if err != nil || strings.HasPrefix(r, "..") {
				return "."
			}
			return r
		}
		d["InterfaceDirRelative"] = rel(d["ConfigDir"])
		if rel(in.Cwd) != d["InterfaceDirRelative"] {
			relDiffers = true
		}
	}
	return d, relDiffers
}

type c11Data struct {
	ConfigDir, InterfaceDir, InterfaceDirRelative, InterfaceFile, InterfaceName, Mock, StructName, SrcPackageName, SrcPackagePath, Template string
}

func c11RefRound(vals map[string]string, d map[string]string) (map[string]string, error) {
	data := c11Data{d["ConfigDir"], d["InterfaceDir"], d["InterfaceDirRelative"], d["InterfaceFile"], d["InterfaceName"], d["Mock"], d["StructName"], d["SrcPackageName"], d["SrcPackagePath"], d["Template"]}
	out := map[string]string{}
	for k, v := range vals {
		t, err := template.New("x").Funcs(template_funcs.FuncMap).Parse(v)
		if err != nil {
			return nil, err
		}
		var b bytes.Buffer
		if err := t.Execute(&b, data); err != nil {
			return nil, err
		}
		out[k] = b.String()
	}
	return out, nil
}

func (c11) Run(c *Ctx, raw json.RawMessage) Case {
	var in c11Input
	if err := json.Unmarshal(raw, &in); err != nil {
		return Case{Oracle: fail("bad-input", "%v", err)}
	}
	// "/CWD" stands for the real working directory: substitute for the run, map back in the results
	c11Once.Do(func() {
		// run inside a directory literally named CWD so that `base` of the placeholder agrees
		d := filepath.Join(c.Work, "CWD")
		os.MkdirAll(d, 0o755)
		os.Chdir(d)
	})
	realCwd, _ := os.Getwd()
	model := in
	sub := func(x string) string { return strings.ReplaceAll(x, "/CWD", realCwd) }
	unsub := func(x string) string { return strings.ReplaceAll(x, realCwd, "/CWD") }
	in.Cwd, in.ConfigFile = sub(in.Cwd), sub(in.ConfigFile)
	if in.Iface != nil {
		in.Iface = &c11Iface{Name: in.Iface.Name, File: sub(in.Iface.File)}
	}
	_ = model
	var res c11Result
	var panicked string
	var hung bool
	if in.Module != nil {
		res, panicked, hung = c11RunCLI(c, &in, realCwd)
	} else {
		if !c11InProcAvailable {
			return Case{Oracle: Oracle{OK: true}, NoModel: true, Tags: []string{"inprocess-unavailable"}}
		}
		res, panicked, hung = c11Run(&in)
	}
	for k, v := range res.vals {
		res.vals[k] = unsub(v)
	}
	in = model
	if hung {
		return Case{Impl: map[string]any{"hang": true}, Oracle: fail("hang", "ParseTemplates did not return within 10s"), Tags: []string{"hang"}}
	}
	if panicked != "" {
		return Case{Impl: map[string]any{"panic": panicked}, Oracle: fail("panic", "ParseTemplates panicked: %s", panicked), Tags: []string{"panic"}}
	}
	var impl map[string]any
	tags := []string{}
	if in.Module != nil {
		tags = append(tags, "cli-bind")
	}
	if res.err != nil {
		if c11IsInfiniteLoop(res.err) {
			impl = map[string]any{"error": "infinite-loop"}
			tags = append(tags, "infinite-loop")
		} else {
			impl = map[string]any{"error": "template"}
			tags = append(tags, "template-error")
		}
	} else {
		o := map[string]any{}
		for k, v := range res.vals {
			o[k] = hex.EncodeToString([]byte(v))
		}
		impl = map[string]any{"ok": o}
	}
	// reference: iterate the real template engine over the documented bindings
	d, relDiffers := c11DocData(&in)
	usesRel := false
	for _, v := range in.Values {
		if strings.Contains(v, "InterfaceDirRelative") {
			usesRel = true
		}
	}
	vals := in.Values
	var refErr error
	rounds := 0
	stable := false
	for rounds = 0; rounds < 40; rounds++ {
		size := 0
		for _, v := range vals {
			size += len(v)
		}
		if size > 1<<20 {
			break // grows without bound
		}
		nv, err := c11RefRound(vals, d)
		if err != nil {
			refErr = err
			break
		}
		same := true
		for k := range nv {
			if nv[k] != vals[k] {
				same = false
			}
		}
		vals = nv
		if same {
			stable = true
			break
		}
	}
	or := Oracle{OK: true}
	finding := ""
	switch {
	case refErr != nil:
		if res.err == nil {
			or = fail("accepted-bad-template", "a value that fails to render (%v) was accepted", refErr)
		}
	case stable && rounds <= 19:
		if res.err != nil {
			or = fail("rejected", "values stabilise after %d round(s) but resolution failed: %v", rounds, res.err)
		} else {
			for k, v := range vals {
				if res.vals[k] != v {
					or = fail("wrong-value", "%s resolves to %q, the documented bindings give %q", k, res.vals[k], v)
					if relDiffers && usesRel {
						// known deviation: the variable is bound relative to the working directory. It is the
						// known finding only if the result is exactly what that binding gives.
						d2 := map[string]string{}
						for kk, vv := range d {
							d2[kk] = vv
						}
						r, err := filepath.Rel(in.Cwd, d["InterfaceDir"])
						if err != nil || strings.HasPrefix(r, "..") {
							r = "."
						}
						d2["InterfaceDirRelative"] = r
						v2 := in.Values
						ok2 := true
						for i := 0; i < 25 && ok2; i++ {
							nv, err := c11RefRound(v2, d2)
							if err != nil {
								ok2 = false
								break
							}
							v2 = nv
						}
						if ok2 {
							for kk := range v2 {
								if res.vals[kk] != v2[kk] {
									ok2 = false
								}
							}
						}
						if ok2 {
							or.Class = "interfaceDirRelative-cwd"
							finding = "C11-K1"
						}
					}
					break
				}
			}
		}
	default:
		// does not stabilise within the cap: must be an error, never a value
		if res.err == nil {
			or = fail("truncated", "values never stabilise (or need more than the cap) but a result was returned: %v", res.vals)
		}
	}
	if rounds >= 2 {
		tags = append(tags, "multi-round")
	}
	return Case{Impl: impl, Oracle: or, Nontrivial: rounds >= 2 || res.err != nil, Tags: tags, Finding: finding}
}
