//go:build verif

package main

import (
	"encoding/json"
	"fmt"
	"go/ast"
	"go/parser"
	"go/scanner"
	"go/token"
	"math/rand"
	"os"
	"path/filepath"
	"strings"
)

// C03 (H-behav, testify): a generated Go driver registers expectations through EXPECT() in every
// setup style and calls the mocked methods; Run / RunAndReturn / provider callbacks report what they
// receive, calls report what they return, panic with, or that they failed the test; the cleanup
// reports whether the expectations were met. Compared with the Lean model (Sem/Testify.lean) and
// with an oracle that executes testify's documented matching on the same operation list.

type C03Exp struct {
	M         int    `json:"m"`
	Args      []int  `json:"args"`      // per ordinary parameter: value index, -1 = mock.Anything
	VarMode   string `json:"varMode"`   // "" | "elems" | "slice" | "absent"
	VarElems  []int  `json:"varElems"`  // elems: per element an element-table index or -1
	VarSlice  int    `json:"varSlice"`  // slice: value index in the slice table or -1
	Style     string `json:"style"`     // return | run-return | run-and-return | providers | none
	Returns   []int  `json:"returns"`   // value indexes per result
	Providers []bool `json:"providers"` // providers: which results come from a per-result function
	Times     int    `json:"times"`     // 0: any number of times
	// the same, as tokens ("*" = mock.Anything): what the Lean driver reads
	MatcherToks    []string `json:"matcherToks"`
	VarMatcherToks []string `json:"varMatcherToks"`
	ReturnToks     []string `json:"returnToks"`
}

type C03Op struct {
	Op     string  `json:"op"` // expect | call
	Exp    *C03Exp `json:"exp,omitempty"`
	M      int     `json:"m"`
	Args   []int   `json:"args,omitempty"`
	VarArg int     `json:"vararg"` // value index in the slice table; -1: no variadic argument written
	// the same, as tokens
	ArgToks     []string `json:"argToks"`
	VarTok      string   `json:"varTok"`
	VarElemToks []string `json:"varElemToks"`
}

type c03Input struct {
	Unroll  string    `json:"unroll"` // unset | false | true
	// where unroll-variadic is written: top | package | interface | interface-over-package (the package level says the opposite)
	UnrollLevel string `json:"unrollLevel"`
	Methods []BMethod `json:"methods"`
	Ops     []C03Op   `json:"ops"`
	Decoy   bool      `json:"decoy,omitempty"`
	// the interface is generic (`Store[T any]`, T stands where Named is used) and the driver instantiates it
	Generic bool `json:"generic"`
	// per method: what the template's emitted text depends on (read by Gen/TestifyEmit.lean)
	Shapes []TShape `json:"shapes"`
}

type c03 struct{}

func init() { register("C03", c03{}) }

func (in *c03Input) unrolled() bool { return in.Unroll == "true" }

func varElems(m BMethod, vararg int) []int {
	if m.Variadic < 0 || vararg < 0 {
		return nil
	}
	return bTypes[m.Variadic].Elems[vararg]
}

func (c03) Generate(c *Ctx) []any {
	var out []any
	n := c.Budget(48, 480)
	for i := 0; i < n; i++ {
		r := c.Rng
		in := c03Input{Unroll: []string{"unset", "false", "true"}[i%3], UnrollLevel: []string{"top", "package", "interface", "interface-over-package", "parent"}[(i/3)%5]}
		nm := 1 + r.Intn(3)
		in.Generic = r.Intn(4) == 0
		in.Decoy = i%4 != 3
		bNames := bNamesFor(r, i)
		for k := 0; k < nm; k++ {
			m := genBMethod(r, bNames[k])
			if i%2 == 0 && k == 0 && m.Variadic < 0 {
				m.Variadic = pick(r, bVariadicSlices) // every other scenario has a variadic method
			}
			if r.Intn(6) == 0 {
				m.Params = []int{} // a method whose only parameter is the variadic one
			}
			in.Methods = append(in.Methods, m)
		}
		nops := 6 + r.Intn(c.Budget(12, 30))
		for len(in.Ops) < nops {
			mi := r.Intn(nm)
			m := in.Methods[mi]
			call := C03Op{Op: "call", M: mi, Args: genVals(r, m.Params), VarArg: -1}
			if m.Variadic >= 0 && r.Intn(4) != 0 {
				call.VarArg = r.Intn(len(bTypes[m.Variadic].Vals))
			}
			if r.Intn(6) == 0 {
				in.Ops = append(in.Ops, call) // a call nothing was registered for
				continue
			}
			// an expectation made for this call, with some matchers relaxed
			e := &C03Exp{M: mi, Args: append([]int{}, call.Args...), VarSlice: -1, Returns: genVals(r, m.Results), Times: pick(r, []int{0, 0, 1, 1, 2})}
			for k := range e.Args {
				if r.Intn(4) == 0 || m.Params[k] == 10 { // testify refuses func values in expectations
					e.Args[k] = -1
				}
			}
			if m.Variadic >= 0 {
				elems := varElems(m, call.VarArg)
				if in.unrolled() {
					e.VarMode = "elems"
					e.VarElems = append([]int{}, elems...)
					for k := range e.VarElems {
						if r.Intn(4) == 0 {
							e.VarElems[k] = -1
						}
					}
				} else if len(elems) == 0 {
					e.VarMode = "absent"
				} else {
					e.VarMode = "slice"
					e.VarSlice = call.VarArg
					if r.Intn(4) == 0 {
						e.VarSlice = -1
					}
				}
			}
			styles := []string{"return", "run-return", "run-and-return", "providers", "return", "run-and-return"}
			if len(m.Results) == 0 {
				styles = []string{"return", "run-return", "run-and-return", "none"}
			} else if r.Intn(10) == 0 {
				styles = []string{"none"}
			}
			e.Style = pick(r, styles)
			for range m.Results {
				e.Providers = append(e.Providers, r.Intn(2) == 0)
			}
			if r.Intn(8) == 0 && len(e.Args) > 0 {
				// an expectation that does not match the call
				k := r.Intn(len(e.Args))
				if m.Params[k] != 10 {
					e.Args[k] = (call.Args[k] + 1) % len(bTypes[m.Params[k]].Vals)
				}
			}
			in.Ops = append(in.Ops, C03Op{Op: "expect", Exp: e, M: mi, VarArg: -1})
			ncalls := 1 + r.Intn(3)
			for k := 0; k < ncalls; k++ {
				in.Ops = append(in.Ops, call)
			}
		}
		fillTokens(&in)
		out = append(out, in)
	}
	return out
}

func fillTokens(in *c03Input) {
	in.Shapes = c03Shapes(in)
	for k := range in.Ops {
		op := &in.Ops[k]
		m := in.Methods[op.M]
		if op.Op == "call" {
			op.ArgToks, op.VarElemToks = []string{}, []string{}
			for i, t := range m.Params {
				op.ArgToks = append(op.ArgToks, tokenOf(t, op.Args[i]))
			}
			if m.Variadic >= 0 {
				op.VarTok = tokenOf(m.Variadic, canonVar(m, op.VarArg))
				for _, x := range varElems(m, op.VarArg) {
					op.VarElemToks = append(op.VarElemToks, tokenOf(bTypes[m.Variadic].SliceOf, x))
				}
				if !in.unrolled() && len(op.VarElemToks) > 0 {
					op.VarTok = tokenOf(m.Variadic, op.VarArg)
				}
			}
			continue
		}
		e := op.Exp
		all := c03Matchers(m, e)
		e.MatcherToks = append([]string{}, all[:len(m.Params)]...)
		e.VarMatcherToks = append([]string{}, all[len(m.Params):]...)
		e.ReturnToks = []string{}
		for i, t := range m.Results {
			e.ReturnToks = append(e.ReturnToks, tokenOf(t, e.Returns[i]))
		}
	}
}

func c03Config(in *c03Input) string {
	var b strings.Builder
	b.WriteString("template: testify\nformatter: gofmt\nforce-file-write: true\nfilename: mocks_test.go\n")
	set := in.Unroll != "unset"
	opposite := map[string]string{"true": "false", "false": "true"}[in.Unroll]
	if set && in.UnrollLevel == "top" {
		fmt.Fprintf(&b, "template-data:\n  unroll-variadic: %s\n", in.Unroll)
	}
	b.WriteString("packages:\n")
	if set && in.UnrollLevel == "parent" {
		// the module's root package is recursive and sets the option; the package under test is listed below it
		fmt.Fprintf(&b, "  example.com/m:\n    config:\n      recursive: true\n      template-data:\n        unroll-variadic: %s\n", in.Unroll)
	}
	b.WriteString("  example.com/m/store:\n")
	if set && in.UnrollLevel == "package" {
		fmt.Fprintf(&b, "    config:\n      template-data:\n        unroll-variadic: %s\n", in.Unroll)
	}
	if set && in.UnrollLevel == "interface-over-package" {
		fmt.Fprintf(&b, "    config:\n      template-data:\n        unroll-variadic: %s\n", opposite)
	}
	b.WriteString("    interfaces:\n      Store:\n")
	if set && (in.UnrollLevel == "interface" || in.UnrollLevel == "interface-over-package") {
		fmt.Fprintf(&b, "        config:\n          template-data:\n            unroll-variadic: %s\n", in.Unroll)
	}
	if in.Decoy {
		// an unrelated recursive package with a listed sub-package says the opposite
		y, _ := decoyPackages([]string{fmt.Sprintf("unroll-variadic: %v", !in.unrolled())})
		b.WriteString(y)
	}
	return b.String()
}

func typedParams(m BMethod) (decl string, toks []string) {
	var ps []string
	for i, t := range m.Params {
		ps = append(ps, fmt.Sprintf("%s %s", m.paramName(i), bTypes[t].Go))
		toks = append(toks, fmt.Sprintf("tok(%d, %s)", t, m.paramName(i)))
	}
	if m.Variadic >= 0 {
		ps = append(ps, fmt.Sprintf("rest ...%s", bTypes[bTypes[m.Variadic].SliceOf].Go))
		toks = append(toks, fmt.Sprintf("tokv(%d, rest)", m.Variadic))
	}
	return strings.Join(ps, ", "), toks
}

func resultSig(m BMethod) string {
	var rts []string
	for _, t := range m.Results {
		rts = append(rts, bTypes[t].Go)
	}
	switch len(rts) {
	case 0:
		return ""
	case 1:
		return " " + rts[0]
	}
	return " (" + strings.Join(rts, ", ") + ")"
}

func c03Driver(in *c03Input) string {
	var b strings.Builder
	b.WriteString(behavPrelude([]string{"github.com/stretchr/testify/mock"}))
	b.WriteString(`
var _ = mock.Anything

type failNow struct{}

type fakeT struct {
	errors   []string
	cleanups []func()
}

func (f *fakeT) Logf(format string, args ...interface{})   {}
func (f *fakeT) Errorf(format string, args ...interface{}) { f.errors = append(f.errors, fmt.Sprintf(format, args...)) }
func (f *fakeT) FailNow()                                  { panic(failNow{}) }
func (f *fakeT) Cleanup(fn func())                         { f.cleanups = append(f.cleanups, fn) }
func (f *fakeT) Helper()                                   {}

// the rest of what *testing.T offers a generated mock: a constructor that asks its argument about the state of the
// test (interface{ Failed() bool }, Name, Fail, ...) gets the answers a real test would give
func (f *fakeT) Failed() bool                              { return len(f.errors) > 0 }
func (f *fakeT) Fail()                                     { f.errors = append(f.errors, "Fail()") }
func (f *fakeT) Name() string                              { return "TestDriver" }
func (f *fakeT) Skipped() bool                             { return false }
func (f *fakeT) Log(args ...interface{})                   {}
func (f *fakeT) Error(args ...interface{})                 { f.errors = append(f.errors, fmt.Sprint(args...)) }
func (f *fakeT) Fatalf(format string, args ...interface{}) { f.Errorf(format, args...); f.FailNow() }
func (f *fakeT) Fatal(args ...interface{})                 { f.Error(args...); f.FailNow() }

// tokv: a variadic parameter as seen by a callback; an empty one is the nil one
func tokv(ti int, v any) string {
	if reflect.ValueOf(v).Len() == 0 {
		return fmt.Sprintf("%d#0", ti)
	}
	return tok(ti, v)
}

func elems[T any](s []T) []interface{} {
	out := make([]interface{}, len(s))
	for i := range s {
		out[i] = s[i]
	}
	return out
}

func observed(ft *fakeT, f func()) {
	defer func() {
		r := recover()
		if r == nil {
			return
		}
		if _, ok := r.(failNow); ok {
			msg := ""
			if len(ft.errors) > 0 {
				msg = ft.errors[len(ft.errors)-1]
			}
			switch {
			case strings.Contains(msg, "Unexpected Method Call"), strings.Contains(msg, "I don't know what to return"), strings.Contains(msg, "has been called over"):
				ev("failed", "unexpected-call")
			default:
				ev("failed", "other", msg)
			}
			return
		}
		msg := fmt.Sprint(r)
		switch {
		case strings.Contains(msg, "no return value specified for"):
			ev("panic", "no-return-value", msg[strings.LastIndex(msg, " ")+1:])
		case strings.Contains(msg, "interface conversion"):
			ev("panic", "conversion")
		case strings.Contains(msg, "Cannot call Get"):
			ev("panic", "missing-return-value")
		case strings.Contains(msg, "wasn't correct type"):
			ev("panic", "not-an-error")
		default:
			ev("panic", "other", msg)
		}
	}()
	f()
}

func TestDriver(t *testing.T) {
	ft := &fakeT{}
	m := NewMockStoreINST(ft)
`)
	for k, op := range in.Ops {
		meth := in.Methods[op.M]
		decl, toks := typedParams(meth)
		fmt.Fprintf(&b, "\t// op %d: %s\n", k, op.Op)
		switch op.Op {
		case "expect":
			e := op.Exp
			var args []string
			for i, t := range meth.Params {
				if e.Args[i] < 0 {
					args = append(args, "mock.Anything")
				} else {
					args = append(args, valExpr(t, e.Args[i]))
				}
			}
			switch e.VarMode {
			case "elems":
				et := bTypes[meth.Variadic].SliceOf
				for _, x := range e.VarElems {
					if x < 0 {
						args = append(args, "mock.Anything")
					} else {
						args = append(args, valExpr(et, x))
					}
				}
			case "slice":
				if e.VarSlice < 0 {
					args = append(args, "mock.Anything")
				} else {
					args = append(args, valExpr(meth.Variadic, e.VarSlice))
				}
			}
			var vals []string
			for i, t := range meth.Results {
				vals = append(vals, valExpr(t, e.Returns[i]))
			}
			id := fmt.Sprint(k)
			seen := func(kind string, extra ...string) string {
				parts := append([]string{fmt.Sprintf("%q", kind), fmt.Sprintf("%q", id)}, extra...)
				return "ev(" + strings.Join(append(parts, toks...), ", ") + ")"
			}
			fmt.Fprintf(&b, "\tobserved(ft, func() {\n\t\tc := m.EXPECT().%s(%s)\n", meth.Name, strings.Join(args, ", "))
			times := ""
			switch e.Times {
			case 1:
				times = ".Once()"
			case 2:
				times = ".Twice()"
			}
			switch e.Style {
			case "return":
				fmt.Fprintf(&b, "\t\tc.Return(%s)%s\n", strings.Join(vals, ", "), times)
			case "run-return":
				fmt.Fprintf(&b, "\t\tc.Run(func(%s) { %s }).Return(%s)%s\n", decl, seen("run"), strings.Join(vals, ", "), times)
			case "run-and-return":
				ret := ""
				if len(vals) > 0 {
					ret = "; return " + strings.Join(vals, ", ")
				}
				fmt.Fprintf(&b, "\t\tc.RunAndReturn(func(%s)%s { %s%s })%s\n", decl, resultSig(meth), seen("fn"), ret, times)
			case "providers":
				var rs []string
				for i, t := range meth.Results {
					if e.Providers[i] {
						rs = append(rs, fmt.Sprintf("func(%s) %s { %s; return %s }", decl, bTypes[t].Go, seen("provider", fmt.Sprintf("%q", fmt.Sprint(i))), vals[i]))
					} else {
						rs = append(rs, vals[i])
					}
				}
				fmt.Fprintf(&b, "\t\tc.Call.Return(%s)%s\n", strings.Join(rs, ", "), times)
			default:
				if times != "" {
					fmt.Fprintf(&b, "\t\tc%s\n", times)
				} else {
					b.WriteString("\t\t_ = c\n")
				}
			}
			b.WriteString("\t})\n")
		case "call":
			var args []string
			for i, t := range meth.Params {
				args = append(args, valExpr(t, op.Args[i]))
			}
			if meth.Variadic >= 0 && op.VarArg >= 0 {
				args = append(args, valExpr(meth.Variadic, op.VarArg)+"...")
			}
			call := fmt.Sprintf("m.%s(%s)", meth.Name, strings.Join(args, ", "))
			if len(meth.Results) == 0 {
				fmt.Fprintf(&b, "\tobserved(ft, func() {\n\t\t%s\n\t\tev(\"returned\")\n\t})\n", call)
			} else {
				var rs, rt []string
				for i, t := range meth.Results {
					rs = append(rs, fmt.Sprintf("r%d", i))
					rt = append(rt, fmt.Sprintf("tok(%d, r%d)", t, i))
				}
				fmt.Fprintf(&b, "\tobserved(ft, func() {\n\t\t%s := %s\n\t\tev(%s)\n\t})\n", strings.Join(rs, ", "), call, strings.Join(append([]string{`"returned"`}, rt...), ", "))
			}
		}
		fmt.Fprintf(&b, "\tflush(t, %d)\n", k)
	}
	// cleanup: testify's AssertExpectations, registered by the constructor
	fmt.Fprintf(&b, "\tbefore := len(ft.errors)\n\tfor _, fn := range ft.cleanups {\n\t\tfn()\n\t}\n\tif len(ft.errors) > before {\n\t\tev(\"cleanup\", \"unmet\")\n\t} else {\n\t\tev(\"cleanup\", \"met\")\n\t}\n\tflush(t, %d)\n}\n", len(in.Ops))
	return b.String()
}

// ---- the oracle: testify's matching and the property's sentences on tokens ------------------

type c03ExpState struct {
	e      *C03Exp
	id     int
	repeat int // testify's Repeatability: 0 unlimited, >0 remaining, -1 used up
	total  int
}

func canonVar(m BMethod, vararg int) int {
	if len(varElems(m, vararg)) == 0 {
		return 0
	}
	return vararg
}

// the arguments the generated method hands to Called
func c03CalledArgs(in *c03Input, m BMethod, op C03Op) []string {
	var out []string
	for i, t := range m.Params {
		out = append(out, tokenOf(t, op.Args[i]))
	}
	if m.Variadic >= 0 {
		es := varElems(m, op.VarArg)
		if in.unrolled() {
			for _, x := range es {
				out = append(out, tokenOf(bTypes[m.Variadic].SliceOf, x))
			}
		} else if len(es) > 0 {
			out = append(out, tokenOf(m.Variadic, op.VarArg))
		}
	}
	return out
}

func c03Matchers(m BMethod, e *C03Exp) []string {
	var out []string
	mt := func(t, v int) string {
		if v < 0 {
			return "*"
		}
		return tokenOf(t, v)
	}
	for i, t := range m.Params {
		out = append(out, mt(t, e.Args[i]))
	}
	switch e.VarMode {
	case "elems":
		for _, x := range e.VarElems {
			out = append(out, mt(bTypes[m.Variadic].SliceOf, x))
		}
	case "slice":
		out = append(out, mt(m.Variadic, e.VarSlice))
	}
	return out
}

// testify's Arguments.Diff == 0: position by position up to the longer list; a missing actual argument
// is matched by mock.Anything only, a missing expected one by nothing
func tokensMatch(matchers, args []string) bool {
	n := len(matchers)
	if len(args) > n {
		n = len(args)
	}
	for i := 0; i < n; i++ {
		if i >= len(matchers) {
			return false
		}
		if matchers[i] == "*" {
			continue
		}
		if i >= len(args) || matchers[i] != args[i] {
			return false
		}
	}
	return true
}

func c03Expected(in *c03Input) [][]string {
	var exps []*c03ExpState
	var calls [][2]any // method name, args
	var out [][]string
	for k, op := range in.Ops {
		m := in.Methods[op.M]
		evs := []string{}
		switch op.Op {
		case "expect":
			exps = append(exps, &c03ExpState{e: op.Exp, id: k, repeat: op.Exp.Times})
		case "call":
			args := c03CalledArgs(in, m, op)
			var found, consumed *c03ExpState
			for _, x := range exps {
				if x.e.M == op.M && tokensMatch(c03Matchers(m, x.e), args) {
					consumed = x
					if x.repeat > -1 {
						found = x
						break
					}
				}
			}
			_ = consumed
			if found == nil {
				evs = append(evs, "failed unexpected-call")
				break
			}
			calls = append(calls, [2]any{op.M, args}) // testify logs a call only once an expectation was found
			if found.repeat == 1 {
				found.repeat = -1
			} else if found.repeat > 1 {
				found.repeat--
			}
			found.total++
			// what callbacks see: the typed arguments of the call
			var seen []string
			for i, t := range m.Params {
				seen = append(seen, tokenOf(t, op.Args[i]))
			}
			if m.Variadic >= 0 {
				seen = append(seen, tokenOf(m.Variadic, canonVar(m, op.VarArg)))
			}
			sawLine := func(kind string, extra ...string) string {
				return strings.Join(append(append([]string{kind, fmt.Sprint(found.id)}, extra...), seen...), " ")
			}
			e := found.e
			ret := "returned"
			for i, t := range m.Results {
				ret += " " + tokenOf(t, e.Returns[i])
			}
			switch e.Style {
			case "return":
				evs = append(evs, ret)
			case "run-return":
				evs = append(evs, sawLine("run"), ret)
			case "run-and-return":
				evs = append(evs, sawLine("fn"), ret)
			case "providers":
				for i := range m.Results {
					if e.Providers[i] {
						evs = append(evs, sawLine("provider", fmt.Sprint(i)))
					}
				}
				evs = append(evs, ret)
			default:
				if len(m.Results) > 0 {
					evs = append(evs, "panic no-return-value "+m.Name)
				} else {
					evs = append(evs, "returned")
				}
			}
		}
		out = append(out, evs)
	}
	// cleanup: every expectation was called (or a call matching it was made) and no repetition is left over
	met := true
	for _, x := range exps {
		was := false
		for _, c := range calls {
			if c[0].(int) == x.e.M && tokensMatch(c03Matchers(in.Methods[x.e.M], x.e), c[1].([]string)) {
				was = true
			}
		}
		if (!was && x.total == 0) || x.repeat > 0 {
			met = false
		}
	}
	if met {
		out = append(out, []string{"cleanup met"})
	} else {
		out = append(out, []string{"cleanup unmet"})
	}
	return out
}

func (c03) Run(c *Ctx, raw json.RawMessage) Case {
	var in c03Input
	if err := json.Unmarshal(raw, &in); err != nil {
		return Case{Oracle: fail("bad-input", "%v", err)}
	}
	dir, err := os.MkdirTemp(c.Work, "c03-")
	if err != nil {
		return Case{Oracle: fail("harness", "%v", err)}
	}
	defer os.RemoveAll(dir)
	tags := []string{"unroll-" + in.Unroll, "unroll-at-" + in.UnrollLevel}
	for _, m := range in.Methods {
		if m.Variadic >= 0 {
			tags = append(tags, "variadic")
			break
		}
	}
	inst := ""
	if in.Generic {
		inst = "[Named]"
	}
	out, err := c.behavModuleG(dir, in.Methods, in.Generic, c03Config(&in), strings.ReplaceAll(c03Driver(&in), "NewMockStoreINST", "NewMockStore"+inst))
	if err != nil {
		return Case{Impl: map[string]any{"error": true}, Oracle: fail("does-not-run", "%v", err), Tags: tags}
	}
	trace := parseTrace(out, len(in.Ops)+1)
	for i := range trace {
		for j := range trace[i] {
			trace[i][j] = strings.TrimSpace(trace[i][j])
		}
	}
	impl := map[string]any{"trace": trace}
	if len(in.Shapes) == 0 {
		// an input recorded before the text-level comparison existed
	} else if decls, derr := testifyDecls(filepath.Join(dir, "store", "mocks_test.go"), "MockStore", in.Methods); derr == nil {
		impl["emitted"] = decls
	} else {
		impl["emitted"] = map[string]any{"error": derr.Error()}
	}
	want := c03Expected(&in)
	or := Oracle{OK: true}
	for i := range want {
		if strings.Join(want[i], " | ") != strings.Join(trace[i], " | ") {
			what := "cleanup"
			if i < len(in.Ops) {
				what = in.Ops[i].Op
				if in.Ops[i].Op == "call" {
					what = "call of " + in.Methods[in.Ops[i].M].signature()
				}
			}
			or = fail("behaviour", "operation %d (%s, unroll-variadic %s): observed %q, the property requires %q", i, what, in.Unroll, trace[i], want[i])
			break
		}
	}
	ncalls := 0
	for _, op := range in.Ops {
		if op.Op == "call" {
			ncalls++
		}
	}
	return Case{Impl: impl, Oracle: or, Nontrivial: ncalls >= 2, Tags: tags}
}

var _ = rand.Intn

// ---- the emitted declarations, text level ---------------------------------------------------
//
// For every method the Lean model prints the declarations the testify template emits for it
// (Gen/TestifyEmit.lean) from the method's shape; the harness reads the same declarations out of
// the file the real generator wrote. Both are compared as token sequences without layout and
// comments (a trailing comma before a closing bracket is not a token of its own here).

type TShape struct {
	StructName  string      `json:"structName"`
	TConstraint string      `json:"tconstraint"`
	TInst       string      `json:"tinst"`
	Testify     string      `json:"testify"`
	Name        string      `json:"name"`
	Params      [][2]string `json:"params"`
	Variadic    []string    `json:"variadic"` // name, element type; empty when not variadic
	Results     [][2]string `json:"results"`  // type, kind (error | nillable | plain)
	Unroll      bool        `json:"unroll"`
	RetName     string      `json:"retName"`
}

func c03Shapes(in *c03Input) []TShape {
	tname := func(t int) string {
		s := bTypes[t].Go
		if in.Generic {
			s = reNamedWord.ReplaceAllString(s, "T")
		}
		return s
	}
	var out []TShape
	for _, m := range in.Methods {
		sh := TShape{StructName: "MockStore", Testify: "mock", Name: m.Name, Params: [][2]string{}, Variadic: []string{}, Results: [][2]string{},
			Unroll: in.unrolled(), RetName: "ret"}
		if in.Generic {
			sh.TConstraint, sh.TInst = "[T any]", "[T]"
		}
		for i, t := range m.Params {
			sh.Params = append(sh.Params, [2]string{m.paramName(i), tname(t)})
		}
		if m.Variadic >= 0 {
			sh.Variadic = []string{"rest", tname(bTypes[m.Variadic].SliceOf)}
		}
		for _, t := range m.Results {
			kind := "plain"
			switch {
			case bTypes[t].Go == "error":
				kind = "error"
			case bTypes[t].Nillable, in.Generic && bTypes[t].Go == "Named": // a type parameter's underlying type is its constraint interface
				kind = "nillable"
			}
			sh.Results = append(sh.Results, [2]string{tname(t), kind})
		}
		out = append(out, sh)
	}
	return out
}

// squeezed token text of src[from:to]; rename maps identifiers
func squeezeGo(src []byte, rename map[string]string) string {
	var s scanner.Scanner
	fset := token.NewFileSet()
	f := fset.AddFile("", fset.Base(), len(src))
	s.Init(f, src, nil, 0)
	var toks []string
	var kinds []token.Token
	for {
		_, tok, lit := s.Scan()
		if tok == token.EOF {
			break
		}
		if tok == token.SEMICOLON { // written or inserted: layout
			continue
		}
		text := lit
		if text == "" || tok.IsOperator() {
			text = tok.String()
		}
		if tok == token.IDENT {
			if r, ok := rename[lit]; ok {
				text = r
			}
		}
		if (tok == token.RPAREN || tok == token.RBRACE) && len(kinds) > 0 && kinds[len(kinds)-1] == token.COMMA {
			toks, kinds = toks[:len(toks)-1], kinds[:len(kinds)-1]
		}
		toks, kinds = append(toks, text), append(kinds, tok)
	}
	return strings.Map(func(r rune) rune {
		if r == ' ' || r == '\t' || r == '\n' {
			return -1
		}
		return r
	}, strings.Join(toks, ""))
}

func recvTypeName(fd *ast.FuncDecl) string {
	if fd.Recv == nil || len(fd.Recv.List) != 1 {
		return ""
	}
	t := fd.Recv.List[0].Type
	if st, ok := t.(*ast.StarExpr); ok {
		t = st.X
	}
	switch x := t.(type) {
	case *ast.IndexExpr:
		t = x.X
	case *ast.IndexListExpr:
		t = x.X
	}
	if id, ok := t.(*ast.Ident); ok {
		return id.Name
	}
	return ""
}

// the per-method declarations of a generated testify mock file: method name -> key -> squeezed text
func testifyDecls(path, structName string, methods []BMethod) (map[string]map[string]string, error) {
	src, err := os.ReadFile(path)
	if err != nil {
		return nil, err
	}
	fset := token.NewFileSet()
	file, err := parser.ParseFile(fset, path, src, parser.SkipObjectResolution)
	if err != nil {
		return nil, err
	}
	out := map[string]map[string]string{}
	for _, m := range methods {
		out[m.Name] = map[string]string{}
	}
	text := func(n ast.Node, rename map[string]string) string {
		return squeezeGo(src[fset.Position(n.Pos()).Offset:fset.Position(n.End()).Offset], rename)
	}
	for _, d := range file.Decls {
		switch x := d.(type) {
		case *ast.GenDecl:
			if x.Tok != token.TYPE {
				continue
			}
			for _, sp := range x.Specs {
				ts := sp.(*ast.TypeSpec)
				for _, m := range methods {
					if ts.Name.Name == structName+"_"+m.Name+"_Call" {
						out[m.Name]["calltype"] = "type" + text(ts, nil)
					}
				}
			}
		case *ast.FuncDecl:
			rt := recvTypeName(x)
			for _, m := range methods {
				switch {
				case rt == structName && x.Name.Name == m.Name:
					out[m.Name]["method"] = text(x, nil)
				case rt == structName+"_Expecter" && x.Name.Name == m.Name:
					out[m.Name]["expecter"] = text(x, nil)
				case rt == structName+"_"+m.Name+"_Call":
					key := strings.ToLower(x.Name.Name)
					var rename map[string]string
					if key == "return" {
						rename = map[string]string{}
						i := 0
						for _, f := range x.Type.Params.List {
							for _, n := range f.Names {
								rename[n.Name] = fmt.Sprintf("_r%d", i)
								i++
							}
						}
					}
					out[m.Name][key] = text(x, rename)
				}
			}
		}
	}
	return out, nil
}
