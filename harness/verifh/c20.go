//go:build verif

package main

import (
	"bytes"
	"encoding/json"
	"fmt"
	"os"
	"os/exec"
	"path/filepath"
	"sort"
	"strconv"
	"strings"
	"time"
)

// C20: the release tagger (`tools tag`) in scratch git repositories: refs before /
// after and exit status vs. the Lean model; the oracle re-implements the documented
// gating (own semver precedence, own bookkeeping of refs).

type c20Tag struct {
	Name      string `json:"name"`
	Annotated bool   `json:"annotated"`
	Inner     string `json:"inner"`  // name inside the tag object (annotated only)
	Target    int    `json:"target"` // commit index
}

type c20Parsed struct {
	S      string           `json:"s"`
	OK     bool             `json:"ok"`
	Major  uint64           `json:"major"`
	Minor  uint64           `json:"minor"`
	Patch  uint64           `json:"patch"`
	Pre    []map[string]any `json:"pre"`
	String string           `json:"string"`
}

type c20Input struct {
	Commits   int         `json:"commits"` // number of commits; HEAD = commits-1
	Tags      []c20Tag    `json:"tags"`
	Dirty     string      `json:"dirty"`   // none | unstaged | staged | untracked
	Requested string      `json:"requested"`
	DryRun    string      `json:"dryRun"` // absent | true | false
	Parsed    []c20Parsed `json:"parsed"`
	// the repository is a clone whose remote `origin` (reachable: a directory) has gained a tag since the last fetch;
	// whatever the run decides, it does not talk to remotes
	Origin bool `json:"origin,omitempty"` // semver.NewVersion of every string of the case (filled by the harness)
}

type c20 struct{}

func init() { register("C20", c20{}) }

var c20Names = []string{"v3.0.0", "v3.0.1", "v3.1.0", "v3.1.0-beta.1", "v3.1.0-beta.2", "v3.1.0-beta.10", "v3.1.0-rc", "v3", "v2", "v2.9.9", "v4.0.0",
	"3.0.5", "v3.2", "nightly", "rel.1.x", "v3.0.0+build.1", "v3.10.0", "v3.9.0", "v03.1.1", "v3.1.0-0.3.7", "v3.1.0-alpha", "v3.1.0-alpha.1", "latest.stable.build"}
var c20Requested = []string{"v3.1.0", "v3.0.0", "v3.1.0-beta.2", "v3.0.1", "3.2.0", "v4.0.0", "v2.9.10", "garbage", "v3.1", "v3.10.0", "v3.1.0-beta.11", "v3.1.0-rc.1", "v3.1.1-alpha", "v3.0.2",
	// short forms: the version is what counts, the tags are always written in full
	"v3.2", "3.3", "v4", "v3.10", "v3.1", "5"}

func (c20) Generate(c *Ctx) []any {
	n := c.Budget(200, 1500)
	var out []any
	for i := 0; i < n; i++ {
		r := c.Rng
		in := c20Input{Commits: 1 + r.Intn(3), Tags: []c20Tag{}}
		nt := r.Intn(6)
		used := map[string]bool{}
		for k := 0; k < nt; k++ {
			name := pick(r, c20Names)
			if i%7 == 0 {
				// mostly well-formed histories in this stratum
				name = pick(r, c20Names[:11])
			}
			if used[name] {
				continue
			}
			used[name] = true
			t := c20Tag{Name: name, Target: r.Intn(in.Commits)}
			if r.Intn(2) == 0 {
				t.Annotated = true
				t.Inner = name
				if r.Intn(6) == 0 {
					// the ref was renamed: the tag object still carries another name
					t.Inner = pick(r, c20Names)
				}
			}
			in.Tags = append(in.Tags, t)
		}
		in.Dirty = pick(r, []string{"none", "none", "none", "unstaged", "staged", "untracked"})
		in.Requested = pick(r, c20Requested)
		in.DryRun = pick(r, []string{"absent", "true", "false", "false", "false"})
		in.Origin = i%4 == 3
		out = append(out, in)
	}
	return out
}

func git(dir string, args ...string) (string, error) {
	cmd := exec.Command("git", args...)
	cmd.Dir = dir
	cmd.Env = append(os.Environ(), "GIT_CONFIG_GLOBAL=/dev/null", "GIT_CONFIG_SYSTEM=/dev/null", "GIT_AUTHOR_NAME=t", "GIT_AUTHOR_EMAIL=t@t", "GIT_COMMITTER_NAME=t", "GIT_COMMITTER_EMAIL=t@t",
		"GIT_AUTHOR_DATE=2024-01-01T00:00:00Z", "GIT_COMMITTER_DATE=2024-01-01T00:00:00Z")
	var so, se bytes.Buffer
	cmd.Stdout, cmd.Stderr = &so, &se
	err := cmd.Run()
	if err != nil {
		return so.String(), fmt.Errorf("git %v: %v: %s", args, err, se.String())
	}
	return strings.TrimSpace(so.String()), nil
}

type c20Ref struct {
	Name      string
	Annotated bool
	Commit    string
	Object    string
}

func c20Refs(dir string) (map[string]c20Ref, error) {
	out := map[string]c20Ref{}
	s, err := git(dir, "for-each-ref", "--format=%(refname:short) %(objecttype) %(objectname) %(*objectname)", "refs/tags")
	if err != nil {
		return nil, err
	}
	for _, line := range strings.Split(s, "\n") {
		f := strings.Fields(line)
		if len(f) < 3 {
			continue
		}
		r := c20Ref{Name: f[0], Annotated: f[1] == "tag", Object: f[2], Commit: f[2]}
		if r.Annotated && len(f) >= 4 {
			r.Commit = f[3]
		}
		out[r.Name] = r
	}
	return out, nil
}

// ---- oracle-side semver precedence (independent of the library and of the model) ----

func c20Less(a, b c20Parsed) bool { // a < b
	if a.Major != b.Major {
		return a.Major < b.Major
	}
	if a.Minor != b.Minor {
		return a.Minor < b.Minor
	}
	if a.Patch != b.Patch {
		return a.Patch < b.Patch
	}
	if len(a.Pre) == 0 || len(b.Pre) == 0 {
		return len(a.Pre) > 0 && len(b.Pre) == 0
	}
	for i := 0; i < len(a.Pre) && i < len(b.Pre); i++ {
		an, aNum := a.Pre[i]["n"]
		bn, bNum := b.Pre[i]["n"]
		switch {
		case aNum && bNum:
			x, y := an.(float64), bn.(float64)
			if x != y {
				return x < y
			}
		case aNum != bNum:
			return aNum
		default:
			x, y := a.Pre[i]["a"].(string), b.Pre[i]["a"].(string)
			if x != y {
				return x < y
			}
		}
	}
	return len(a.Pre) < len(b.Pre)
}

func (c20) Run(c *Ctx, raw json.RawMessage) Case {
	var in c20Input
	if err := json.Unmarshal(raw, &in); err != nil {
		return Case{Oracle: fail("bad-input", "%v", err)}
	}
	// parse table through the library the tagger uses
	strs := map[string]bool{in.Requested: true}
	for _, t := range in.Tags {
		strs[t.Name] = true
		if t.Annotated {
			strs[t.Inner] = true
		}
	}
	var sb strings.Builder
	for _, s := range sortedKeys(strs) {
		sb.WriteString(s + "\n")
	}
	cmd := exec.Command(c.Sem)
	cmd.Stdin = strings.NewReader(sb.String())
	pout, err := cmd.Output()
	if err != nil {
		return Case{Oracle: fail("harness", "verifsem: %v", err)}
	}
	in.Parsed = nil
	parsed := map[string]c20Parsed{}
	for _, line := range strings.Split(strings.TrimSpace(string(pout)), "\n") {
		var p c20Parsed
		if json.Unmarshal([]byte(line), &p) == nil {
			in.Parsed = append(in.Parsed, p)
			parsed[p.S] = p
		}
	}
	inJSON, _ := json.Marshal(in)

	dir, err := os.MkdirTemp(c.Work, "c20-")
	if err != nil {
		return Case{Oracle: fail("harness", "%v", err)}
	}
	defer os.RemoveAll(dir)
	must := func(_ string, err error) bool { return err == nil }
	if !must(git(dir, "init", "-q", "-b", "main")) {
		return Case{Oracle: fail("harness", "git init failed")}
	}
	os.WriteFile(filepath.Join(dir, "mockery-tools.env"), []byte("VERSION="+in.Requested+"\n"), 0o644)
	commits := []string{}
	for i := 0; i < in.Commits; i++ {
		os.WriteFile(filepath.Join(dir, fmt.Sprintf("f%d.txt", i)), []byte(strconv.Itoa(i)), 0o644)
		git(dir, "add", "-A")
		if _, err := git(dir, "commit", "-q", "-m", fmt.Sprintf("c%d", i)); err != nil {
			return Case{Oracle: fail("harness", "%v", err)}
		}
		h, _ := git(dir, "rev-parse", "HEAD")
		commits = append(commits, h)
	}
	for _, t := range in.Tags {
		if !t.Annotated {
			if _, err := git(dir, "tag", t.Name, commits[t.Target]); err != nil {
				return Case{Oracle: fail("harness", "%v", err)}
			}
			continue
		}
		if t.Inner == t.Name {
			if _, err := git(dir, "tag", "-a", t.Name, "-m", t.Name, commits[t.Target]); err != nil {
				return Case{Oracle: fail("harness", "%v", err)}
			}
			continue
		}
		// tag object named Inner, reachable through ref Name only
		tmp := "tmp-inner-tag"
		spec := fmt.Sprintf("object %s\ntype commit\ntag %s\ntagger t <t@t> 1704067200 +0000\n\n%s\n", commits[t.Target], t.Inner, t.Inner)
		mk := exec.Command("git", "mktag")
		mk.Dir = dir
		mk.Stdin = strings.NewReader(spec)
		o, err := mk.Output()
		if err != nil {
			return Case{Oracle: fail("harness", "mktag: %v", err)}
		}
		_ = tmp
		if _, err := git(dir, "update-ref", "refs/tags/"+t.Name, strings.TrimSpace(string(o))); err != nil {
			return Case{Oracle: fail("harness", "%v", err)}
		}
	}
	switch in.Dirty {
	case "unstaged":
		os.WriteFile(filepath.Join(dir, "f0.txt"), []byte("changed"), 0o644)
	case "staged":
		os.WriteFile(filepath.Join(dir, "f0.txt"), []byte("changed"), 0o644)
		git(dir, "add", "f0.txt")
	case "untracked":
		os.WriteFile(filepath.Join(dir, "new.txt"), []byte("new"), 0o644)
	}
	if in.Origin {
		origin, err := os.MkdirTemp(c.Work, "c20origin-")
		if err != nil {
			return Case{Oracle: fail("harness", "%v", err)}
		}
		defer os.RemoveAll(origin)
		if _, err := git(c.Work, "clone", "-q", "--bare", dir, origin); err != nil {
			return Case{Oracle: fail("harness", "%v", err)}
		}
		git(dir, "remote", "add", "origin", origin)
		git(dir, "fetch", "-q", "origin")
		// the remote moves on: a release tag the clone has not seen
		git(origin, "tag", "-a", "v9.9.9", "-m", "v9.9.9", commits[len(commits)-1])
		git(origin, "tag", "v9", commits[len(commits)-1])
	}
	remotesBefore, _ := git(dir, "for-each-ref", "refs/remotes")
	before, err := c20Refs(dir)
	if err != nil {
		return Case{Oracle: fail("harness", "%v", err)}
	}
	headBefore, _ := git(dir, "rev-parse", "HEAD")
	args := []string{"tag"}
	switch in.DryRun {
	case "true":
		args = append(args, "--dry-run=true")
	case "false":
		args = append(args, "--dry-run=false")
	}
	res := runBin(c.Tools, dir, args, nil, 60*time.Second)
	after, err := c20Refs(dir)
	if err != nil {
		return Case{Oracle: fail("harness", "%v", err)}
	}
	headAfter, _ := git(dir, "rev-parse", "HEAD")
	idx := map[string]int{}
	for i, h := range commits {
		idx[h] = i
	}
	var tagsOut [][]any
	for _, n := range sortedKeys(after) {
		tagsOut = append(tagsOut, []any{n, after[n].Annotated, idx[after[n].Commit]})
	}
	if tagsOut == nil {
		tagsOut = [][]any{}
	}
	exit := res.Exit
	if exit != 0 && exit != 8 {
		exit = 1
	}
	impl := map[string]any{"exit": exit, "tags": tagsOut}
	tags := []string{fmt.Sprintf("exit-%d", exit), "dry-" + in.DryRun, "dirty-" + in.Dirty}
	if in.Origin {
		tags = append(tags, "origin-ahead")
	}
	if res.Panicked {
		return Case{Input: json.RawMessage(inJSON), Impl: map[string]any{"panic": true}, Oracle: fail("panic", "tools tag panicked: %s", lastLines(res.Stderr, 5)), Tags: tags}
	}

	// ---- oracle --------------------------------------------------------------------
	or := Oracle{OK: true}
	remotesAfter, _ := git(dir, "for-each-ref", "refs/remotes")
	mutated := headBefore != headAfter || len(before) != len(after) || remotesBefore != remotesAfter
	for n, r := range before {
		if after[n] != r {
			mutated = true
		}
	}
	dry := in.DryRun != "false"
	req, reqOK := parsed[in.Requested]
	reqOK = reqOK && req.OK
	// strictly greater than every existing full semantic-version tag with the same major
	newer := reqOK
	abort := false
	for _, t := range in.Tags {
		vs := t.Name
		if t.Annotated {
			vs = t.Inner
		}
		if len(strings.Split(vs, ".")) < 3 {
			continue
		}
		p := parsed[vs]
		if !p.OK {
			abort = true // a three-part tag that is not a version: the tool gives up with an error
			continue
		}
		if reqOK && p.Major == req.Major && !c20Less(p, req) {
			newer = false
		}
	}
	shouldTag := reqOK && !abort && newer && in.Dirty == "none" && !dry
	switch {
	case mutated && !shouldTag:
		why := []string{}
		if dry {
			why = append(why, "dry-run in effect")
		}
		if in.Dirty != "none" {
			why = append(why, "work tree dirty ("+in.Dirty+")")
		}
		if !newer {
			why = append(why, "requested version not strictly greater than every existing tag of its major")
		}
		if abort || !reqOK {
			why = append(why, "unparsable version")
		}
		or = fail("mutated", "refs changed although %s; before %v after %v", strings.Join(why, ", "), before, after)
	case shouldTag:
		full := "v" + req.String
		major := strings.Split(full, ".")[0]
		head := commits[len(commits)-1]
		for _, n := range []string{full, major} {
			r, ok := after[n]
			if !ok || !r.Annotated || r.Commit != head {
				or = fail("not-tagged", "tag %s should be an annotated tag at HEAD, got %+v", n, r)
			}
		}
		for n, r := range before {
			if n != full && n != major && after[n] != r && or.OK {
				or = fail("other-ref-changed", "tag %s changed although only %s and %s may", n, full, major)
			}
		}
		for n := range after {
			if _, ok := before[n]; !ok && n != full && n != major && or.OK {
				or = fail("other-ref-created", "unexpected new tag %s", n)
			}
		}
		if exit != 0 && or.OK {
			or = fail("exit-status", "tagged but exit status %d", res.Exit)
		}
	}
	if or.OK && !mutated {
		switch {
		case reqOK && !abort && !newer && exit != 8:
			or = fail("exit-status", "not newer: exit status should be 8 (nothing to do), got %d", res.Exit)
		case (!reqOK || abort) && exit != 1:
			or = fail("exit-status", "unparsable version: exit status should signal an error, got %d", res.Exit)
		case reqOK && !abort && newer && in.Dirty != "none" && exit != 1:
			or = fail("exit-status", "dirty tree: exit status should signal an error, got %d", res.Exit)
		case reqOK && !abort && newer && in.Dirty == "none" && dry && exit != 0:
			or = fail("exit-status", "dry run: exit status should be 0, got %d", res.Exit)
		}
	}
	nontrivial := false
	for _, t := range in.Tags {
		vs := t.Name
		if t.Annotated {
			vs = t.Inner
		}
		if p := parsed[vs]; p.OK && reqOK && p.Major == req.Major && len(strings.Split(vs, ".")) >= 3 {
			nontrivial = true
		}
	}
	_ = sort.Strings
	return Case{Input: json.RawMessage(inJSON), Impl: impl, Oracle: or, Nontrivial: nontrivial, Tags: tags}
}
