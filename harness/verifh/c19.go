//go:build verif

package main

import (
	"encoding/json"
	"fmt"
	"math/rand"
	"os"
	"path/filepath"
	"sort"
	"strings"

	"gopkg.in/yaml.v3"
)

// C19: `mockery migrate` on generated v2 trees: the written v3 file (parsed as YAML)
// vs. the Lean model; oracle: the documented key table applied level by level, the
// input left untouched, the output accepted by mockery's own loader.

type c19Iface struct {
	Name    string   `json:"name"`
	Config  CfgMap   `json:"config,omitempty"`
	Configs []CfgMap `json:"configs,omitempty"`
}

type c19Pkg struct {
	Path       string     `json:"path"`
	Config     CfgMap     `json:"config,omitempty"`
	Interfaces []c19Iface `json:"interfaces,omitempty"`
	// a package (or interface) without settings may be written `name:` (YAML null) instead of `name: {}`
	Null bool `json:"null,omitempty"`
}

type c19Input struct {
	Root     CfgMap   `json:"root"`
	Packages []c19Pkg `json:"packages"`
	// state of the output path before the run: "" absent, "previous" a longer, earlier migration result
	Outfile string `json:"outfile,omitempty"`
}

type c19 struct{}

func init() { register("C19", c19{}) }

// documented mapping: v2 key → v3 key ("td:" prefix = template-data key)
var c19Map = map[string]string{
	"all": "all", "dir": "dir", "mockname": "structname", "outpkg": "pkgname", "include-regex": "include-interface-regex",
	"exclude-regex": "exclude-interface-regex", "exclude": "exclude-subpkg-regex", "recursive": "recursive", "log-level": "log-level",
	"config": "config", "_anchors": "_anchors", "boilerplate-file": "td:boilerplate-file", "mock-build-tags": "td:mock-build-tags",
	"unroll-variadic": "td:unroll-variadic",
}

var c19StrKeys = []string{"dir", "mockname", "outpkg", "include-regex", "exclude-regex", "log-level", "config", "boilerplate-file", "mock-build-tags"}
var c19BoolKeys = []string{"all", "recursive", "unroll-variadic"}

// v2 keys without a v3 counterpart (must not show up in the output)
var c19Unmapped = map[string]func(r *rand.Rand) any{
	"case":                   func(r *rand.Rand) any { return pick(r, []string{"snake", "camel", "underscore"}) },
	"inpackage":              func(r *rand.Rand) any { return r.Intn(2) == 0 },
	"keeptree":               func(r *rand.Rand) any { return r.Intn(2) == 0 },
	"filename":               func(r *rand.Rand) any { return "mock_{{.InterfaceName}}.go" },
	"tags":                   func(r *rand.Rand) any { return "integration" },
	"disable-version-string": func(r *rand.Rand) any { return true },
	"quiet":                  func(r *rand.Rand) any { return r.Intn(2) == 0 },
	"testonly":               func(r *rand.Rand) any { return true },
	"name":                   func(r *rand.Rand) any { return "Foo" },
	"replace-type":           func(r *rand.Rand) any { return []any{"a.T=b.U"} },
	"issue-845-fix":          func(r *rand.Rand) any { return true },
	// the rest of the v2 vocabulary (every key the v2 struct declares): none of them has a v3 counterpart; in particular
	// a leftover `structname` (deprecated in v2 already) never becomes the v3 `structname`, which comes from `mockname`
	"structname":                    func(r *rand.Rand) any { return pick(r, []string{"LegacyMock", "Old{{.InterfaceName}}"}) },
	"srcpkg":                        func(r *rand.Rand) any { return "example.com/m/legacy" },
	"output":                        func(r *rand.Rand) any { return "./legacy_mocks" },
	"packageprefix":                 func(r *rand.Rand) any { return "legacy_" },
	"note":                          func(r *rand.Rand) any { return "a note" },
	"profile":                       func(r *rand.Rand) any { return "cpu.prof" },
	"cpuprofile":                    func(r *rand.Rand) any { return "cpu.prof" },
	"print":                         func(r *rand.Rand) any { return r.Intn(2) == 0 },
	"dry-run":                       func(r *rand.Rand) any { return r.Intn(2) == 0 },
	"exported":                      func(r *rand.Rand) any { return r.Intn(2) == 0 },
	"fail-on-missing":               func(r *rand.Rand) any { return r.Intn(2) == 0 },
	"inpackage-suffix":              func(r *rand.Rand) any { return r.Intn(2) == 0 },
	"include-auto-generated":        func(r *rand.Rand) any { return r.Intn(2) == 0 },
	"resolve-type-alias":            func(r *rand.Rand) any { return r.Intn(2) == 0 },
	"disable-config-search":         func(r *rand.Rand) any { return r.Intn(2) == 0 },
	"disable-func-mocks":            func(r *rand.Rand) any { return r.Intn(2) == 0 },
	"disable-deprecation-warnings":  func(r *rand.Rand) any { return r.Intn(2) == 0 },
	"disabled-deprecation-warnings": func(r *rand.Rand) any { return []any{"issue-845"} },
	"version":                       func(r *rand.Rand) any { return false },
}

var c19Strings = []string{"plain", "", "with space", "a: b", "#hash", "{{.InterfaceName}}Mock", "yes", "~", "1e3", "*star", "- dash", "é→ü", "\"quoted\"", "'single'", "tab\there",
	"trailing ", " leading", "multi\nline", "{brace}", "[x]", "!tag", "%percent", "@at", "`tick`", "null", "true", "0x1F", "a|b", "> fold", "back\\slash", "Legacy.*$", "^I[A-Z]"}

func c19Cfg(r *rand.Rand, p float64, level string, serial *int) CfgMap {
	m := CfgMap{}
	for _, k := range c19StrKeys {
		if r.Float64() < p {
			*serial++
			if r.Intn(3) == 0 {
				m[k] = pick(r, c19Strings)
			} else {
				m[k] = fmt.Sprintf("%s@%s#%d", k, level, *serial)
			}
		}
	}
	for _, k := range c19BoolKeys {
		if r.Float64() < p {
			m[k] = r.Intn(2) == 0
		}
	}
	if r.Float64() < p {
		l := []any{}
		for i := r.Intn(3); i >= 0; i-- {
			*serial++
			if r.Intn(3) == 0 {
				// package paths and patterns with characters that mean something to a regular expression or to YAML
				l = append(l, pick(r, []string{"example.com/shop/internal/gen.v1", "internal/c++", "a|b", "x(1)", "^mocks$", "v1.2/api", "[gen]", "pkg\\d+", "some path", "q?", "é.ü*"}))
			} else {
				l = append(l, fmt.Sprintf("ex@%s#%d", level, *serial))
			}
		}
		m["exclude"] = l
	}
	if r.Float64() < p/2 {
		m["_anchors"] = map[string]any{"base": map[string]any{"all": true, "n": pick(r, c19Strings)}}
	}
	for k, f := range c19Unmapped {
		if r.Float64() < p/3 {
			m[k] = f(r)
		}
	}
	if r.Float64() < p/3 {
		m["with-expecter"] = r.Intn(2) == 0
	}
	return m
}

func (c19) Generate(c *Ctx) []any {
	var out []any
	// exhaustive stratum: every mapped key alone at each of the four levels
	keys := sortedKeys(c19Map)
	for _, k := range keys {
		var v any = "value-of-" + k
		switch k {
		case "all", "recursive", "unroll-variadic":
			v = true
		case "exclude":
			v = []any{"x/y", "z", "internal/gen.v1", "c++"}
		case "_anchors":
			v = map[string]any{"a": map[string]any{"all": true}}
		}
		for lvl := 0; lvl < 4; lvl++ {
			in := c19Input{Root: CfgMap{}, Packages: []c19Pkg{{Path: "example.com/m/p0", Interfaces: []c19Iface{{Name: "I0"}}}}}
			switch lvl {
			case 0:
				in.Root[k] = v
			case 1:
				in.Packages[0].Config = CfgMap{k: v}
			case 2:
				in.Packages[0].Interfaces[0].Config = CfgMap{k: v}
			case 3:
				in.Packages[0].Interfaces[0].Configs = []CfgMap{{}, {k: v}}
			}
			out = append(out, in)
		}
	}
	n := c.Budget(150, 2500)
	names := []string{"I0", "Reader", "x", "Ünï", "with space", "a.b", "I-1"}
	paths := []string{"example.com/m/p0", "example.com/m/p1", "github.com/foo/bar/v2", "a", "example.com/m/ü", "example.com/m/with space"}
	for i := 0; i < n; i++ {
		r := c.Rng
		serial := 0
		p := []float64{0.1, 0.3, 0.6}[i%3]
		in := c19Input{Root: c19Cfg(r, p, "root", &serial), Packages: []c19Pkg{}}
		used := map[string]bool{}
		for k := 1 + r.Intn(3); k > 0; k-- {
			path := pick(r, paths)
			if used[path] {
				continue
			}
			used[path] = true
			pk := c19Pkg{Path: path}
			if r.Intn(4) != 0 {
				pk.Config = c19Cfg(r, p, "pkg", &serial)
			}
			usedI := map[string]bool{}
			for j := r.Intn(4); j > 0; j-- {
				name := pick(r, names)
				if usedI[name] {
					continue
				}
				usedI[name] = true
				ic := c19Iface{Name: name}
				if r.Intn(3) != 0 {
					ic.Config = c19Cfg(r, p, "iface", &serial)
				}
				for e := r.Intn(4); e > 0; e-- {
					ic.Configs = append(ic.Configs, c19Cfg(r, p, "entry", &serial))
				}
				pk.Interfaces = append(pk.Interfaces, ic)
			}
			pk.Null = r.Intn(2) == 0
			in.Packages = append(in.Packages, pk)
		}
		if i%5 == 4 {
			in.Outfile = "previous"
		}
		out = append(out, in)
	}
	return out
}

func c19YAML(in *c19Input) ([]byte, error) {
	doc := map[string]any{}
	for k, v := range in.Root {
		doc[k] = v
	}
	pk := map[string]any{}
	for _, p := range in.Packages {
		pm := map[string]any{}
		if p.Config != nil {
			pm["config"] = map[string]any(p.Config)
		}
		if len(p.Interfaces) > 0 {
			im := map[string]any{}
			for _, i := range p.Interfaces {
				m := map[string]any{}
				if i.Config != nil {
					m["config"] = map[string]any(i.Config)
				}
				if len(i.Configs) > 0 {
					l := []any{}
					for _, e := range i.Configs {
						l = append(l, map[string]any(e))
					}
					m["configs"] = l
				}
				im[i.Name] = m
			}
			pm["interfaces"] = im
		}
		if len(pm) == 0 && p.Null {
			pk[p.Path] = nil
			continue
		}
		pk[p.Path] = pm
	}
	doc["packages"] = pk
	return yaml.Marshal(doc)
}

// c19Expect: the documented mapping of one v2 level
func c19Expect(v2 CfgMap, top bool) map[string]any {
	out := map[string]any{}
	td := map[string]any{}
	for k, v := range v2 {
		t, ok := c19Map[k]
		if !ok {
			if k == "with-expecter" {
				td[k] = v // carried over by the tool (not among the documented keys); tolerated
			}
			continue
		}
		if strings.HasPrefix(t, "td:") {
			td[strings.TrimPrefix(t, "td:")] = v
		} else {
			out[t] = v
		}
	}
	if len(td) > 0 {
		out["template-data"] = td
	}
	if top {
		out["template"] = "testify"
	}
	return out
}

func normEmpty(m map[string]any) map[string]any {
	// YAML omits empty lists / maps (omitempty): drop them from expectations too
	out := map[string]any{}
	for k, v := range m {
		switch t := v.(type) {
		case []any:
			if len(t) == 0 {
				continue
			}
		case map[string]any:
			if len(t) == 0 {
				continue
			}
			v = normEmpty(t)
		}
		out[k] = v
	}
	return out
}

func (c19) Run(c *Ctx, raw json.RawMessage) Case {
	var in c19Input
	if err := json.Unmarshal(raw, &in); err != nil {
		return Case{Oracle: fail("bad-input", "%v", err)}
	}
	dir, err := os.MkdirTemp(c.Work, "c19-")
	if err != nil {
		return Case{Oracle: fail("harness", "%v", err)}
	}
	defer os.RemoveAll(dir)
	y, err := c19YAML(&in)
	if err != nil {
		return Case{Oracle: fail("harness", "%v", err)}
	}
	v2path := filepath.Join(dir, ".mockery_v2.yml")
	v3path := filepath.Join(dir, "out", ".mockery_v3.yml")
	os.MkdirAll(filepath.Dir(v3path), 0o755)
	if in.Outfile == "previous" {
		prev := "all: true\ntemplate: testify\npackages:\n"
		for i := 0; i < 40; i++ {
			prev += fmt.Sprintf("  example.com/old/pkg%d:\n    config:\n      dir: old%d\n      template-data:\n        mock-build-tags: legacy && !windows\n", i, i)
		}
		os.WriteFile(v3path, []byte(prev), 0o644)
	}
	os.WriteFile(v2path, y, 0o644)
	os.WriteFile(filepath.Join(dir, "go.mod"), []byte(goModText), 0o644)
	before := treeHashes(dir)
	res := c.runMockery(dir, []string{"migrate", "--config", v2path, "--outfile", v3path}, nil)
	tags := []string{errClass(res)}
	if res.Panicked {
		return Case{Impl: map[string]any{"panic": true}, Oracle: fail("panic", "migrate panicked: %s", lastLines(res.Stderr, 5)), Tags: tags}
	}
	or := Oracle{OK: true}
	note := func(class, f string, a ...any) {
		if or.OK {
			or = fail(class, f, a...)
		}
	}
	after := treeHashes(dir)
	for p, h := range before {
		if p == "out/.mockery_v3.yml" {
			continue // the designated output path may be replaced
		}
		if after[p] != h {
			note("input-modified", "%s was modified by migrate", p)
		}
	}
	for p := range after {
		if _, ok := before[p]; !ok && p != "out/.mockery_v3.yml" {
			note("stray-file", "unexpected file %s", p)
		}
	}
	if res.Exit != 0 {
		note("exit-status", "migrate failed on a decodable v2 file: %s", lastLines(res.Stderr+res.Stdout, 4))
		return Case{Impl: map[string]any{"exit": 1}, Oracle: or, Tags: tags}
	}
	ob, err := os.ReadFile(v3path)
	if err != nil {
		note("no-output", "no v3 file written: %v", err)
		return Case{Impl: map[string]any{"exit": 0, "nofile": true}, Oracle: or, Tags: tags}
	}
	var v3 map[string]any
	if err := yaml.Unmarshal(ob, &v3); err != nil {
		note("bad-yaml", "output is not YAML: %v", err)
		return Case{Impl: map[string]any{"exit": 0, "badyaml": true}, Oracle: or, Tags: tags}
	}
	// shape: root keys + packages
	root := map[string]any{}
	pkgs := map[string]any{}
	for k, v := range v3 {
		if k == "packages" {
			if m, ok := v.(map[string]any); ok {
				pkgs = m
			}
			continue
		}
		root[k] = v
	}
	impl := map[string]any{"exit": 0, "root": root, "packages": pkgs}
	// ---- oracle: documented table, level by level -----------------------------------
	cmp := func(where string, got any, v2 CfgMap, present bool, top bool) {
		if !present {
			if got != nil {
				note("invented", "%s: a config section appears that the v2 file does not have: %v", where, got)
			}
			return
		}
		want := normEmpty(c19Expect(v2, top))
		gm, _ := got.(map[string]any)
		if gm == nil {
			gm = map[string]any{}
		}
		gm = normEmpty(gm)
		if !jsonEq(want, gm) {
			wb, _ := json.Marshal(want)
			gb, _ := json.Marshal(gm)
			note("mapping", "%s: migrated to %s, the documented mapping gives %s", where, gb, wb)
		}
	}
	cmp("top level", root, in.Root, true, true)
	if len(pkgs) != len(in.Packages) {
		note("names", "%d packages in the output, %d in the v2 file", len(pkgs), len(in.Packages))
	}
	nontrivial := false
	for _, p := range in.Packages {
		gp, ok := pkgs[p.Path].(map[string]any)
		if !ok {
			if _, present := pkgs[p.Path]; !present {
				note("names", "package %q is missing from the output", p.Path)
				continue
			}
			gp = map[string]any{}
		}
		cmp("package "+p.Path, gp["config"], p.Config, p.Config != nil, false)
		gi, _ := gp["interfaces"].(map[string]any)
		if len(gi) != len(p.Interfaces) {
			note("names", "package %s: %d interfaces in the output, %d in the v2 file", p.Path, len(gi), len(p.Interfaces))
		}
		for _, i := range p.Interfaces {
			g, _ := gi[i.Name].(map[string]any)
			if _, present := gi[i.Name]; !present {
				note("names", "interface %q of %s is missing from the output", i.Name, p.Path)
				continue
			}
			if g == nil {
				g = map[string]any{}
			}
			cmp(p.Path+"."+i.Name+" config", g["config"], i.Config, i.Config != nil, false)
			gc, _ := g["configs"].([]any)
			if len(gc) != len(i.Configs) {
				note("mapping", "%s.%s: %d configs entries in the output, %d in the v2 file", p.Path, i.Name, len(gc), len(i.Configs))
				continue
			}
			for e := range i.Configs {
				cmp(fmt.Sprintf("%s.%s configs[%d]", p.Path, i.Name, e), gc[e], i.Configs[e], true, false)
				if len(i.Configs[e]) > 0 {
					nontrivial = true
				}
			}
			if len(i.Config) > 0 {
				nontrivial = true
			}
		}
		if len(p.Config) > 0 {
			nontrivial = true
		}
	}
	// ---- the strict loader must accept the output --------------------------------------
	rl := c.runMockery(dir, []string{"showconfig", "--config", v3path}, nil)
	if rl.Panicked {
		note("reload-panic", "mockery panics when loading the migrated file: %s", lastLines(rl.Stderr, 4))
	} else if rl.Exit != 0 {
		s := rl.Stderr + rl.Stdout
		// recursive packages need real packages on disk; only configuration errors count
		if strings.Contains(s, "unmarshalling config") || strings.Contains(s, "loading config file") || strings.Contains(s, "has invalid keys") {
			note("reload", "mockery rejects the migrated file: %s", lastLines(s, 3))
		}
	}
	_ = sort.Strings
	return Case{Impl: impl, Oracle: or, Nontrivial: nontrivial, Tags: tags}
}
