//go:build verif

package main

import (
	"bytes"
	"context"
	"crypto/sha256"
	"encoding/hex"
	"fmt"
	"io/fs"
	"os"
	"os/exec"
	"path/filepath"
	"regexp"
	"sort"
	"strings"
	"time"
)

// Scratch modules and CLI runs (H-run, H-data, H-gen).

type RunResult struct {
	Exit     int
	Stdout   string
	Stderr   string
	Panicked bool
	TimedOut bool
}

// writeFiles writes rel-path → content under dir.
func writeFiles(dir string, files map[string]string) error {
	for rel, content := range files {
		p := filepath.Join(dir, rel)
		if err := os.MkdirAll(filepath.Dir(p), 0o755); err != nil {
			return err
		}
		if err := os.WriteFile(p, []byte(content), 0o644); err != nil {
			return err
		}
	}
	return nil
}

func cleanEnv(extra []string) []string {
	env := []string{}
	for _, e := range os.Environ() {
		if strings.HasPrefix(e, "MOCKERY_") || strings.HasPrefix(e, "GOFLAGS=") || strings.HasPrefix(e, "TMPDIR=") {
			continue
		}
		env = append(env, e)
	}
	env = append(env, "GOPROXY=off", "GOFLAGS=-mod=mod")
	return append(env, extra...)
}

// runBin runs a binary in dir with a wall-clock bound.
func runBin(bin, dir string, args []string, env []string, timeout time.Duration) RunResult {
	ctx, cancel := context.WithTimeout(context.Background(), timeout)
	defer cancel()
	cmd := exec.CommandContext(ctx, bin, args...)
	cmd.Dir = dir
	cmd.Env = cleanEnv(env)
	var so, se bytes.Buffer
	cmd.Stdout, cmd.Stderr = &so, &se
	err := cmd.Run()
	r := RunResult{Stdout: so.String(), Stderr: se.String()}
	if ctx.Err() == context.DeadlineExceeded {
		r.TimedOut = true
		r.Exit = -1
		return r
	}
	if err != nil {
		if ee, ok := err.(*exec.ExitError); ok {
			r.Exit = ee.ExitCode()
		} else {
			r.Exit = -2
			r.Stderr += "\n" + err.Error()
		}
	}
	if strings.Contains(r.Stderr, "panic: ") || strings.Contains(r.Stderr, "goroutine 1 [running]") || strings.Contains(r.Stdout, "goroutine 1 [running]") ||
		strings.Contains(r.Stderr, "fatal error: ") || strings.Contains(r.Stderr, "goroutine stack exceeds") || strings.Contains(r.Stderr, "\ngoroutine ") && r.Exit == 2 {
		// an unrecovered panic, or a fatal error of the runtime (stack overflow, concurrent map writes, out of memory)
		r.Panicked = true
	}
	return r
}

func (c *Ctx) runMockery(dir string, args []string, env []string) RunResult {
	r := runBin(c.Mockery, dir, args, env, 60*time.Second)
	if r.TimedOut {
		// a loaded machine (several checks at once; replace-type loads further packages) is not a hang: one more
		// try with a generous bound decides. Every run is a pure function of the tree, which a killed run may have
		// left half written only at its own output paths; the callers that look at those compare with the model of a
		// complete run either way.
		r = runBin(c.Mockery, dir, args, env, 300*time.Second)
	}
	return r
}

// treeHashes: rel path → sha256 (files), "dir" for directories.
func treeHashes(root string) map[string]string {
	out := map[string]string{}
	filepath.WalkDir(root, func(p string, d fs.DirEntry, err error) error {
		if err != nil {
			return nil
		}
		rel, _ := filepath.Rel(root, p)
		if rel == "." {
			return nil
		}
		if d.IsDir() {
			out[rel] = "dir"
			return nil
		}
		if d.Type()&fs.ModeSymlink != 0 {
			t, _ := os.Readlink(p)
			out[rel] = "symlink->" + t
			return nil
		}
		b, err := os.ReadFile(p)
		if err != nil {
			out[rel] = "unreadable"
			return nil
		}
		h := sha256.Sum256(b)
		out[rel] = hex.EncodeToString(h[:8])
		return nil
	})
	return out
}

func sortedKeys[V any](m map[string]V) []string {
	ks := make([]string, 0, len(m))
	for k := range m {
		ks = append(ks, k)
	}
	sort.Strings(ks)
	return ks
}

const goModText = "module example.com/m\n\ngo 1.23\n"

// probe template: one line per rendered mock
const probeTemplate = `PKG|{{ .PkgName }}|{{ .SrcPkgQualifier }}
{{- range .Interfaces }}
MOCK|{{ .Name }}|{{ .StructName }}|{{ index .TemplateData "tag" }}
{{- end }}
`

// errClass maps stderr of a failed run to a small enum.
func errClass(r RunResult) string {
	s := r.Stderr + r.Stdout
	switch {
	case r.Panicked:
		return "panic"
	case r.TimedOut:
		return "timeout"
	case r.Exit == 0:
		return "ok"
	case strings.Contains(s, "interface not found in source"):
		return "missing-interface"
	case strings.Contains(s, "error parsing regexp"):
		return "regexp"
	case strings.Contains(s, "infinite loop in template variables"):
		return "infinite-loop"
	case strings.Contains(s, "outfile exists"):
		return "outfile-exists"
	}
	return fmt.Sprintf("exit-%d", r.Exit)
}

// runGo runs the go tool inside a scratch module (offline).
func runGo(dir string, args ...string) (string, error) {
	r := runBin("go", dir, args, nil, 180*time.Second)
	out := r.Stdout + r.Stderr
	if r.Exit != 0 {
		return out, fmt.Errorf("go %v: exit %d", args, r.Exit)
	}
	return out, nil
}

var reFormatErr = regexp.MustCompile(`go/format: (\d+):(\d+): ([^"\\]*)`)

// formatErrLine: when formatting the rendered file fails, mockery prints the numbered source
// to stdout; return the offending line with the diagnostic.
func formatErrLine(r RunResult) string {
	m := reFormatErr.FindStringSubmatch(r.Stderr)
	if m == nil {
		return ""
	}
	for _, l := range strings.Split(r.Stdout, "\n") {
		if strings.HasPrefix(l, m[1]+":\t") {
			return fmt.Sprintf("%s at %s:%s: %s", strings.TrimSpace(m[3]), m[1], m[2], strings.TrimPrefix(l, m[1]+":\t"))
		}
	}
	return m[0]
}

// decoyPackages: two further entries for a `packages:` section and the sources they need. An unrelated
// recursive package carries template-data that contradicts the scenario's; one of its sub-packages is also
// listed explicitly (without settings), so that the recursive inheritance pass runs over a package that shares
// whatever it inherited from the top level. Nothing set there may reach the package under test.
func decoyPackages(tdLines []string) (string, map[string]string) {
	var b strings.Builder
	b.WriteString("  example.com/m/decoy:\n    config:\n      all: true\n      dir: \"{{.InterfaceDir}}\"\n      pkgname: \"{{.SrcPackageName}}\"\n      recursive: true\n")
	if len(tdLines) > 0 {
		b.WriteString("      template-data:\n")
		for _, l := range tdLines {
			b.WriteString("        " + l + "\n")
		}
	}
	b.WriteString("  example.com/m/decoy/inner:\n    config:\n      all: true\n      dir: \"{{.InterfaceDir}}\"\n      pkgname: \"{{.SrcPackageName}}\"\n")
	files := map[string]string{
		"decoy/d.go":       "package decoy\n\ntype D interface{ Ping(x int) error }\n",
		"decoy/inner/i.go": "package inner\n\ntype In interface{ Pong(xs ...string) (int, error) }\n",
	}
	return b.String(), files
}
