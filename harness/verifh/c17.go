//go:build verif

package main

import (
	"encoding/json"
	"fmt"
	"go/ast"
	"go/build/constraint"
	"go/parser"
	"go/token"
	"math/rand"
	"os"
	"path/filepath"
	"sort"
	"strings"
)

// C17 (H-header): both built-in templates and every formatter on a one-interface module,
// with generated comment-only boilerplate texts and build-constraint expressions. Observed:
// the text of the written file up to the package clause, go/ast.IsGenerated, and whether
// `go list -tags ...` includes the file, for several tag sets.

type BExprJ struct {
	Op   string   `json:"op"` // tag | not | and | or
	Name string   `json:"name,omitempty"`
	A    *BExprJ  `json:"a,omitempty"`
	B    *BExprJ  `json:"b,omitempty"`
}

type c17Input struct {
	Template    string     `json:"template"`
	Formatter   string     `json:"formatter"`
	Placement   string     `json:"placement"` // inpkg | separate
	Boilerplate *string    `json:"boilerplate"` // nil: not configured
	RelPath     bool       `json:"relPath"`     // boilerplate-file given relative to the working directory
	Link        bool       `json:"link,omitempty"` // the configured path is a symbolic link to the file that holds the text
	Expr        *BExprJ    `json:"expr"`        // nil: mock-build-tags not configured
	TagsText    string     `json:"tagsText"`    // the expression as written into the configuration
	TagsCanon   string     `json:"tagsCanon"`   // the same expression in go/build/constraint's own spelling (what gofmt rewrites the line to)
	TagSets     [][]string `json:"tagSets"`
	PkgName     string     `json:"pkgName"`
	// where the two options are written: top (both at the top level) | levels (the boilerplate at the top level,
	// the tags at package level) | levels-rev | nested (the package sits below a recursive package that
	// sets the tags; it is listed itself, recursive too, and sets the boilerplate) | nested-rev
	Layout string `json:"layout,omitempty"`
	// another configured package *of the same package name* (in another directory) with a header of its own
	Sibling bool `json:"sibling,omitempty"`
}

type c17 struct{}

func init() { register("C17", c17{}) }

var c17Tags = []string{"foo", "bar", "integration", "baz_1", "linux", "windows"}

func c17Eval(e *BExprJ, on map[string]bool) bool {
	switch e.Op {
	case "tag":
		if e.Name == "linux" {
			return true // GOOS of this sandbox
		}
		if e.Name == "windows" {
			return false
		}
		return on[e.Name]
	case "not":
		return !c17Eval(e.A, on)
	case "and":
		return c17Eval(e.A, on) && c17Eval(e.B, on)
	default:
		return c17Eval(e.A, on) || c17Eval(e.B, on)
	}
}

// full parenthesisation below the top level (= BExpr.print of the Lean model)
func c17Full(e *BExprJ) string {
	switch e.Op {
	case "tag":
		return e.Name
	case "not":
		return "!" + c17Full(e.A)
	case "and":
		return "(" + c17Full(e.A) + " && " + c17Full(e.B) + ")"
	default:
		return "(" + c17Full(e.A) + " || " + c17Full(e.B) + ")"
	}
}

// minimal parentheses under Go's precedence (! > && > ||)
func c17Min(e *BExprJ, prec int) string {
	switch e.Op {
	case "tag":
		return e.Name
	case "not":
		return "!" + c17Min(e.A, 3)
	case "and":
		s := c17Min(e.A, 2) + " && " + c17Min(e.B, 3)
		if prec > 2 {
			return "(" + s + ")"
		}
		return s
	default:
		s := c17Min(e.A, 1) + " || " + c17Min(e.B, 2)
		if prec > 1 {
			return "(" + s + ")"
		}
		return s
	}
}

func c17GenExpr(r *rand.Rand, depth int) *BExprJ {
	if depth <= 0 || r.Intn(3) == 0 {
		return &BExprJ{Op: "tag", Name: pick(r, c17Tags)}
	}
	switch r.Intn(3) {
	case 0:
		a := c17GenExpr(r, depth-1)
		if a.Op == "not" { // `!!x` is not a build constraint
			return a
		}
		return &BExprJ{Op: "not", A: a}
	case 1:
		return &BExprJ{Op: "and", A: c17GenExpr(r, depth-1), B: c17GenExpr(r, depth-1)}
	default:
		return &BExprJ{Op: "or", A: c17GenExpr(r, depth-1), B: c17GenExpr(r, depth-1)}
	}
}

var c17Words = []string{"Copyright", "©", "2024", "Müller", "GmbH", "Licensed", "under", "the", "Apache", "License,", "Version", "2.0", "SPDX-License-Identifier:", "MIT", "日本語", "—", "all", "rights", "reserved.", "DO", "NOT", "package", "import", "\"quoted\"", "{{.NotATemplate}}", "*", "/", "//", "`tick`", "go:generate"}

func c17Line(r *rand.Rand) string {
	n := 1 + r.Intn(7)
	ws := []string{}
	for i := 0; i < n; i++ {
		ws = append(ws, pick(r, c17Words))
	}
	return strings.Join(ws, " ")
}

func c17GenBoiler(r *rand.Rand) string {
	var b strings.Builder
	nblocks := 1 + r.Intn(2)
	for k := 0; k < nblocks; k++ {
		if k > 0 && r.Intn(2) == 0 {
			b.WriteString("\n\n")
		} else if k > 0 {
			b.WriteString("\n")
		}
		if r.Intn(3) == 0 {
			// block comment
			b.WriteString("/*")
			nl := r.Intn(4)
			if nl == 0 {
				b.WriteString(" " + strings.ReplaceAll(c17Line(r), "*/", "* /") + " ")
			}
			for i := 0; i < nl; i++ {
				b.WriteString("\n" + pick(r, []string{" * ", "", "\t", "   "}) + strings.ReplaceAll(c17Line(r), "*/", "* /"))
			}
			if nl > 0 {
				b.WriteString("\n")
			}
			b.WriteString("*/")
		} else {
			nl := 1 + r.Intn(4)
			for i := 0; i < nl; i++ {
				if i > 0 {
					b.WriteString("\n")
				}
				l := c17Line(r)
				if r.Intn(6) == 0 {
					b.WriteString("//")
				} else {
					b.WriteString("// " + l)
				}
			}
		}
	}
	if r.Intn(2) == 0 {
		b.WriteString("\n")
	}
	return b.String()
}

func (c17) Generate(c *Ctx) []any {
	var out []any
	n := c.Budget(72, 720)
	for i := 0; i < n; i++ {
		in := c17Input{Template: []string{"testify", "matryer"}[i%2], Formatter: []string{"goimports", "gofmt", "noop"}[(i/2)%3],
			Placement: []string{"inpkg", "separate"}[(i/6)%2], PkgName: "foo"}
		if in.Placement == "separate" {
			in.PkgName = pick(c.Rng, []string{"mocks", "foomocks", "m_1"})
		}
		// boilerplate x tags: all four combinations, both trailing-newline cases
		if (i/12)%4 != 0 && (i/12)%4 != 2 || c.Rng.Intn(4) == 0 {
			s := c17GenBoiler(c.Rng)
			in.Boilerplate = &s
			in.RelPath = c.Rng.Intn(3) == 0
			in.Link = i%5 == 3
		}
		if (i/12)%4 >= 1 || c.Rng.Intn(4) == 0 {
			in.Expr = c17GenExpr(c.Rng, 1+c.Rng.Intn(3))
			switch c.Rng.Intn(3) {
			case 0:
				in.TagsText = c17Full(in.Expr)
			default:
				in.TagsText = c17Min(in.Expr, 0)
			}
			if x, err := constraint.Parse("//go:build " + in.TagsText); err == nil {
				in.TagsCanon = x.String()
			}
		}
		in.Layout = []string{"top", "levels", "nested", "top", "levels-rev", "nested-rev"}[(i/4)%6]
		in.Sibling = i%3 != 0
		// tag sets: none, all, and random subsets
		custom := []string{"foo", "bar", "integration", "baz_1"}
		in.TagSets = [][]string{{}, custom}
		for k := 0; k < 3; k++ {
			var ts []string
			for _, t := range custom {
				if c.Rng.Intn(2) == 0 {
					ts = append(ts, t)
				}
			}
			if ts == nil {
				ts = []string{}
			}
			in.TagSets = append(in.TagSets, ts)
		}
		out = append(out, in)
	}
	return out
}

// headerOf: the text up to and including the line of the package clause
func headerOf(src string) (string, bool) {
	lines := strings.SplitAfter(src, "\n")
	var b strings.Builder
	inBlock := false
	for _, l := range lines {
		b.WriteString(l)
		t := strings.TrimSpace(l)
		if !inBlock && strings.HasPrefix(t, "package ") {
			return b.String(), true
		}
		// track block comments so that a `package` word inside one is not taken for the clause
		rest := t
		for rest != "" {
			if inBlock {
				i := strings.Index(rest, "*/")
				if i < 0 {
					break
				}
				inBlock = false
				rest = rest[i+2:]
				continue
			}
			if strings.HasPrefix(strings.TrimSpace(rest), "//") {
				break
			}
			i := strings.Index(rest, "/*")
			if i < 0 {
				break
			}
			inBlock = true
			rest = rest[i+2:]
		}
	}
	return b.String(), false
}

func (c17) Run(c *Ctx, raw json.RawMessage) Case {
	var in c17Input
	if err := json.Unmarshal(raw, &in); err != nil {
		return Case{Oracle: fail("bad-input", "%v", err)}
	}
	dir, err := os.MkdirTemp(c.Work, "c17-")
	if err != nil {
		return Case{Oracle: fail("harness", "%v", err)}
	}
	defer os.RemoveAll(dir)
	nested := in.Layout == "nested" || in.Layout == "nested-rev"
	srcDir := "foo"
	if nested {
		srcDir = "grp/foo"
	}
	files := map[string]string{
		"go.mod":             goModText + "\nrequire github.com/stretchr/testify v1.10.0\n\nrequire (\n\tgithub.com/davecgh/go-spew v1.1.1 // indirect\n\tgithub.com/pmezard/go-difflib v1.0.0 // indirect\n\tgithub.com/stretchr/objx v0.5.2 // indirect\n\tgopkg.in/yaml.v3 v3.0.1 // indirect\n)\n",
		srcDir + "/foo.go": "package foo\n\ntype Doer interface {\n\tDo(x int, ys ...string) (string, error)\n}\n",
	}
	if nested {
		files["grp/grp.go"] = "package grp\n\ntype Unmocked struct{ N int }\n"
	}
	if b, err := os.ReadFile(filepath.Join(c.Src, "go.sum")); err == nil {
		files["go.sum"] = string(b)
	}
	var cfg strings.Builder
	fmt.Fprintf(&cfg, "template: %s\nformatter: %s\nforce-file-write: true\n", in.Template, in.Formatter)
	outFile := srcDir + "/mocks_gen.go"
	if in.Placement == "separate" {
		fmt.Fprintf(&cfg, "dir: %s\npkgname: %s\nfilename: mocks_gen.go\n", filepath.Join(dir, "out"), in.PkgName)
		outFile = "out/mocks_gen.go"
		files["out/doc.go"] = "package " + in.PkgName + "\n"
	} else {
		cfg.WriteString("filename: mocks_gen.go\n")
	}
	boilerLine, tagsLine := "", ""
	if in.Boilerplate != nil {
		files["lic/boilerplate.txt"] = *in.Boilerplate
		p := filepath.Join(dir, "lic", "boilerplate.txt")
		if in.RelPath {
			p = "./lic/boilerplate.txt"
		}
		boilerLine = fmt.Sprintf("boilerplate-file: %q", p)
	}
	if in.Expr != nil {
		tagsLine = fmt.Sprintf("mock-build-tags: %q", in.TagsText)
	}
	td := func(indent string, lines ...string) string {
		out := ""
		for _, l := range lines {
			if l != "" {
				out += indent + "  " + l + "\n"
			}
		}
		if out == "" {
			return ""
		}
		return indent + "template-data:\n" + out
	}
	first, second := boilerLine, tagsLine // the less specific / outer level gets `first`
	if strings.HasSuffix(in.Layout, "-rev") {
		first, second = tagsLine, boilerLine
	}
	switch in.Layout {
	case "levels", "levels-rev":
		// the header is per output file: its options are meaningful at the top and at package level
		cfg.WriteString(td("", first))
		cfg.WriteString("packages:\n  example.com/m/foo:\n")
		if x := td("      ", second); x != "" {
			cfg.WriteString("    config:\n" + x)
		}
		cfg.WriteString("    interfaces:\n      Doer:\n")
	case "nested", "nested-rev":
		cfg.WriteString("packages:\n  example.com/m/grp:\n    config:\n      recursive: true\n" + td("      ", second))
		cfg.WriteString("  example.com/m/grp/foo:\n    config:\n      recursive: true\n" + td("      ", first))
		cfg.WriteString("    interfaces:\n      Doer:\n")
	default:
		cfg.WriteString(td("", boilerLine, tagsLine))
		cfg.WriteString("packages:\n  example.com/m/foo:\n    interfaces:\n      Doer:\n")
	}
	if in.Sibling {
		files["alt/foo/foo.go"] = "package foo\n\ntype Other interface{ Ping() error }\n"
		files["lic/alt.txt"] = "// ALT LICENSE of the sibling package\n"
		fmt.Fprintf(&cfg, "  example.com/m/alt/foo:\n    config:\n      dir: \"{{.InterfaceDir}}\"\n      pkgname: foo\n      template-data:\n        mock-build-tags: \"sibling_only\"\n        boilerplate-file: %q\n    interfaces:\n      Other:\n", filepath.Join(dir, "lic", "alt.txt"))
	}
	files[".mockery.yml"] = cfg.String()
	if in.Link && in.Boilerplate != nil {
		// the text lives elsewhere; what the configuration names is a link to it
		files["hack/h.txt"] = *in.Boilerplate
		delete(files, "lic/boilerplate.txt")
	}
	if err := writeFiles(dir, files); err != nil {
		return Case{Oracle: fail("harness", "%v", err)}
	}
	if in.Link && in.Boilerplate != nil {
		os.MkdirAll(filepath.Join(dir, "lic"), 0o755)
		if err := os.Symlink("../hack/h.txt", filepath.Join(dir, "lic", "boilerplate.txt")); err != nil {
			return Case{Oracle: fail("harness", "%v", err)}
		}
	}
	tags := []string{"tmpl-" + in.Template, "fmt-" + in.Formatter, "place-" + in.Placement, "layout-" + in.Layout}
	if in.Sibling {
		tags = append(tags, "same-named-sibling")
	}
	if in.Boilerplate != nil {
		tags = append(tags, "boilerplate")
		if !strings.HasSuffix(*in.Boilerplate, "\n") {
			tags = append(tags, "no-final-newline")
		}
	}
	if in.Expr != nil {
		tags = append(tags, "tags")
	}
	res := c.runMockery(dir, nil, nil)
	if res.Exit != 0 {
		return Case{Impl: map[string]any{"error": errClass(res)}, Oracle: fail("mockery-failed", "mockery failed: %s %s", formatErrLine(res), lastLines(res.Stderr, 2)), Tags: tags}
	}
	b, err := os.ReadFile(filepath.Join(dir, outFile))
	if err != nil {
		return Case{Oracle: fail("no-output", "%v", err), Tags: tags}
	}
	src := string(b)
	header, okHdr := headerOf(src)
	if in.Formatter != "noop" {
		// go/format collapses runs of blank lines; compared modulo that
		for strings.Contains(header, "\n\n\n") {
			header = strings.ReplaceAll(header, "\n\n\n", "\n\n")
		}
	}
	impl := map[string]any{"header": header}
	or := Oracle{OK: true}
	if !okHdr {
		or = fail("no-package-clause", "no package clause found in the written file")
	}
	// (1) generated-code marker, as Go's own tooling decides it
	fset := token.NewFileSet()
	f, perr := parser.ParseFile(fset, outFile, src, parser.ParseComments|parser.PackageClauseOnly)
	gen := perr == nil && ast.IsGenerated(f)
	impl["generated"] = gen
	if or.OK && !gen {
		or = fail("not-marked-generated", "go/ast.IsGenerated is false for the written file (parse error: %v)", perr)
	}
	// (2) boilerplate verbatim, whole lines, before the package clause
	if or.OK && in.Boilerplate != nil {
		// the text must occupy whole lines: it starts at the beginning of a line and its last line ends there
		needle := "\n" + *in.Boilerplate
		if !strings.HasSuffix(needle, "\n") {
			needle += "\n"
		}
		if !strings.Contains("\n"+header, needle) {
			or = fail("boilerplate-not-verbatim", "the boilerplate text does not appear verbatim, on lines of its own, before the package clause; header: %q", header)
		}
	}
	// (3) the toolchain's view: is the file part of the package under each tag set?
	pkgDir := "./" + filepath.Dir(outFile)
	var included []bool
	for _, ts := range in.TagSets {
		out, err := runGo(dir, "list", "-tags", strings.Join(ts, ","), "-f", "{{range .GoFiles}}{{.}} {{end}}", pkgDir)
		if err != nil {
			or = fail("go-list", "go list failed: %s", lastLines(out, 3))
			break
		}
		inc := false
		for _, g := range strings.Fields(out) {
			if g == "mocks_gen.go" {
				inc = true
			}
		}
		included = append(included, inc)
		on := map[string]bool{}
		for _, t := range ts {
			on[t] = true
		}
		want := true
		if in.Expr != nil {
			want = c17Eval(in.Expr, on)
		}
		if or.OK && inc != want {
			sort.Strings(ts)
			or = fail("constraint-not-effective", "with tags %v the toolchain %s the file, the expression %q evaluates to %v; header: %q", ts, map[bool]string{true: "includes", false: "excludes"}[inc], in.TagsText, want, header)
		}
	}
	impl["included"] = included
	// and the file compiles when included
	if or.OK {
		all := "foo,bar,integration,baz_1"
		if out, err := runGo(dir, "build", "-tags", all, "./..."); err != nil {
			or = fail("does-not-compile", "%s", lastLines(out, 4))
		}
	}
	nontrivial := in.Boilerplate != nil || in.Expr != nil
	finding := ""
	if !or.OK && or.Class == "boilerplate-not-verbatim" && in.Formatter != "noop" && in.Boilerplate != nil && strings.Contains(*in.Boilerplate, "/*") {
		or.Class = "block-comment-formatted"
		finding = "C17-K1"
	}
	return Case{Impl: impl, Oracle: or, Nontrivial: nontrivial, Tags: tags, Finding: finding}
}
