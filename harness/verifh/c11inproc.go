//go:build verif && !noc11

package main

import (
	"context"
	"errors"
	"fmt"
	"go/types"
	"time"

	"github.com/rs/zerolog"
	"github.com/vektra/mockery/v3/config"
	"golang.org/x/tools/go/packages"
)

// the in-process part of the C11 harness: Config.ParseTemplates called directly

const c11InProcAvailable = true

func c11IsInfiniteLoop(err error) bool {
	return errors.Is(err, config.ErrInfiniteLoop) || errors.Is(err, errC11InfiniteLoop)
}

func c11Run(in *c11Input) (res c11Result, panicked string, hung bool) {
	cfg := &config.Config{}
	get := func(k string) *string { v := in.Values[k]; return &v }
	cfg.Dir, cfg.FileName, cfg.PkgName, cfg.StructName, cfg.TemplateSchema = get("dir"), get("filename"), get("pkgname"), get("structname"), get("template-schema")
	t := in.Template
	cfg.Template = &t
	cf := in.ConfigFile
	cfg.ConfigFile = &cf
	var iface *config.Interface
	if in.Iface != nil {
		iface = &config.Interface{Name: in.Iface.Name, FileName: in.Iface.File}
	}
	pkg := &packages.Package{PkgPath: in.SrcPkgPath, Name: in.SrcPkgName, Types: types.NewPackage(in.SrcPkgPath, in.SrcPkgName)}
	done := make(chan struct{})
	go func() {
		defer close(done)
		defer func() {
			if r := recover(); r != nil {
				panicked = fmt.Sprint(r)
			}
		}()
		ctx := zerolog.Nop().WithContext(context.Background())
		res.err = cfg.ParseTemplates(ctx, iface, pkg)
	}()
	select {
	case <-done:
	case <-time.After(10 * time.Second):
		return res, "", true
	}
	res.vals = map[string]string{"dir": *cfg.Dir, "filename": *cfg.FileName, "pkgname": *cfg.PkgName, "structname": *cfg.StructName, "template-schema": *cfg.TemplateSchema}
	return res, panicked, false
}

