//go:build verif

// Command verifh is the correspondence harness of /verif. It is copied into a
// snapshot of the repository (internal/verifh) and built there with -tags verif,
// so that it links against the working tree's code.
package main

import (
	"bufio"
	"encoding/json"
	"flag"
	"fmt"
	"math/rand"
	"os"
	"sort"
	"sync"
)

// Case is one line of the harness output.
type Case struct {
	Prop       string      `json:"prop"`
	ID         int         `json:"id"`
	Input      any         `json:"input"`
	Impl       any         `json:"impl"`
	Oracle     Oracle      `json:"oracle"`
	Nontrivial bool        `json:"nontrivial"`
	Tags       []string    `json:"tags,omitempty"`
	NoModel    bool        `json:"nomodel,omitempty"` // oracle-only case (no model output expected)
	Finding    string      `json:"finding,omitempty"` // id of the known-finding class this case belongs to
	Extra      any         `json:"extra,omitempty"`
}

type Oracle struct {
	OK    bool   `json:"ok"`
	Msg   string `json:"msg,omitempty"`
	Class string `json:"class,omitempty"` // failure signature
}

type Ctx struct {
	Seed    int64
	Tier    string
	Rng     *rand.Rand
	Mockery string // path of the mockery binary built from the snapshot
	Tools   string // path of the tools binary
	Sem     string // path of the verifsem helper
	Work    string // scratch directory (removed by the caller)
	Src     string // snapshot of the repository
	Verif   string // /verif
	N       int    // case budget override (0 = default)
}

func (c *Ctx) Thorough() bool { return c.Tier == "thorough" }

// Pick returns q in quick tier, t in thorough tier, unless -n overrides.
func (c *Ctx) Budget(q, t int) int {
	if c.N > 0 {
		return c.N
	}
	if c.Thorough() {
		return t
	}
	return q
}

type Prop interface {
	// Generate returns the inputs of this run (JSON-marshalable values).
	Generate(c *Ctx) []any
	// Run executes the real code on one input (given as JSON) and evaluates the oracle.
	Run(c *Ctx, input json.RawMessage) Case
}

var props = map[string]Prop{}

func register(name string, p Prop) { props[name] = p }

func main() {
	var (
		seed    = flag.Int64("seed", 1, "PRNG seed")
		tier    = flag.String("tier", "quick", "quick|thorough")
		out     = flag.String("out", "-", "output file (JSON lines)")
		replay  = flag.String("replay", "", "file holding one input (field \"input\") to run instead of generating")
		inputs  = flag.String("inputs", "", "file of JSON lines each holding {\"input\":…} to run before generated ones (corpus)")
		mockery = flag.String("mockery", "", "mockery binary")
		tools   = flag.String("tools", "", "tools binary")
		sem     = flag.String("verifsem", "", "verifsem binary (semver parser of the tools module)")
		work    = flag.String("work", "", "scratch dir")
		src     = flag.String("src", "", "repository snapshot")
		verif   = flag.String("verif", "/verif", "verif dir")
		n       = flag.Int("n", 0, "case budget override")
		par     = flag.Int("par", 12, "parallelism")
		genonly = flag.Bool("genonly", false, "only generate")
	)
	flag.Parse()
	if flag.NArg() != 1 {
		fmt.Fprintln(os.Stderr, "usage: verifh [flags] <property>")
		os.Exit(2)
	}
	name := flag.Arg(0)
	p, ok := props[name]
	if !ok {
		names := []string{}
		for k := range props {
			names = append(names, k)
		}
		sort.Strings(names)
		fmt.Fprintf(os.Stderr, "unknown property %s (have %v)\n", name, names)
		os.Exit(2)
	}
	ctx := &Ctx{Seed: *seed, Tier: *tier, Rng: rand.New(rand.NewSource(*seed)), Mockery: *mockery, Tools: *tools, Sem: *sem, Work: *work, Src: *src, Verif: *verif, N: *n}

	var raws []json.RawMessage
	readInputs := func(path string, multi bool) {
		f, err := os.Open(path)
		if err != nil {
			fmt.Fprintln(os.Stderr, err)
			os.Exit(2)
		}
		defer f.Close()
		sc := bufio.NewScanner(f)
		sc.Buffer(make([]byte, 1<<20), 1<<28)
		if !multi {
			var all []byte
			for sc.Scan() {
				all = append(all, sc.Bytes()...)
				all = append(all, '\n')
			}
			var obj struct {
				Input json.RawMessage `json:"input"`
			}
			if err := json.Unmarshal(all, &obj); err != nil || obj.Input == nil {
				fmt.Fprintln(os.Stderr, "replay file has no input:", err)
				os.Exit(2)
			}
			raws = append(raws, obj.Input)
			return
		}
		for sc.Scan() {
			var obj struct {
				Input json.RawMessage `json:"input"`
			}
			if len(sc.Bytes()) == 0 {
				continue
			}
			if err := json.Unmarshal(sc.Bytes(), &obj); err == nil && obj.Input != nil {
				raws = append(raws, append(json.RawMessage{}, obj.Input...))
			}
		}
	}
	if *replay != "" {
		readInputs(*replay, false)
	} else {
		if *inputs != "" {
			readInputs(*inputs, true)
		}
		for _, in := range p.Generate(ctx) {
			b, err := json.Marshal(in)
			if err != nil {
				panic(err)
			}
			raws = append(raws, b)
		}
	}

	w := bufio.NewWriter(os.Stdout)
	if *out != "-" {
		f, err := os.Create(*out)
		if err != nil {
			fmt.Fprintln(os.Stderr, err)
			os.Exit(2)
		}
		defer f.Close()
		w = bufio.NewWriter(f)
	}
	defer w.Flush()

	cases := make([]Case, len(raws))
	if *genonly {
		for i, r := range raws {
			cases[i] = Case{Prop: name, ID: i, Input: r, NoModel: true, Oracle: Oracle{OK: true}}
		}
	} else {
		var wg sync.WaitGroup
		sem := make(chan struct{}, *par)
		for i := range raws {
			wg.Add(1)
			sem <- struct{}{}
			go func(i int) {
				defer wg.Done()
				defer func() { <-sem }()
				defer func() {
					if r := recover(); r != nil {
						cases[i] = Case{Input: raws[i], Oracle: Oracle{OK: false, Class: "harness-panic", Msg: fmt.Sprint(r)}}
					}
				}()
				cases[i] = p.Run(ctx, raws[i])
			}(i)
		}
		wg.Wait()
	}
	enc := json.NewEncoder(w)
	enc.SetEscapeHTML(false)
	for i := range cases {
		cases[i].Prop = name
		cases[i].ID = i
		if cases[i].Input == nil {
			cases[i].Input = raws[i]
		}
		if err := enc.Encode(&cases[i]); err != nil {
			panic(err)
		}
	}
}

// helpers

func pick[T any](r *rand.Rand, xs []T) T { return xs[r.Intn(len(xs))] }

func fail(class, format string, a ...any) Oracle {
	return Oracle{OK: false, Class: class, Msg: fmt.Sprintf(format, a...)}
}
