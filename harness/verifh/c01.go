//go:build verif

package main

import (
	"time"
	"encoding/json"
	"fmt"
	"math/rand"
	"os"
	"path/filepath"
	"regexp"
	"strings"
)

// C01 / C02 (H-gen): both built-in templates on generated modules, every formatter,
// placement and template-data option; the Go toolchain compiles each written file
// together with its destination package (C01) and an assertion file checks that every
// mock type is assignable to its source interface and declared once (C02). The Lean
// side predicts, from the data model and the templates' own names, whether the file is
// well-formed.

type GenInput struct {
	Data      DataInput      `json:"data"`
	Template  string         `json:"template"`
	Formatter string         `json:"formatter"`
	Options   map[string]any `json:"options"`
	// where each option is written: top | package | interface | iface-over-package (the package says the
	// opposite) | split (the package says the opposite, only the first interface sets the value: the interfaces
	// of one output file then have different effective values)
	OptLevels map[string]string `json:"optLevels,omitempty"`
	// replace-type alpha.T -> alpha.A (an alias of T) written at this level (root | package | interface): the mock
	// names the type differently and must still implement the interface
	ReplaceAlias string `json:"replaceAlias,omitempty"`
	// root-package stream: the mocked package is the module's root package; how `dir` is spelled
	RootDir string `json:"rootDir,omitempty"`
	// two-runs stream: generate, change an interface of *another* package that the mocked interface embeds, generate
	// again over the same tree: the mock follows the interface
	TwoRuns bool `json:"twoRuns,omitempty"`
	// sealed stream: the interface embeds an interface of another package that has unexported methods; the mock is
	// written into that other package (the only place where it can be implemented): shape of the unexported methods
	Sealed string `json:"sealed,omitempty"`
	// variadic-any stream: variadic parameters whose element type is, or merely looks like, the empty interface, with
	// unroll-variadic written at this level ("top" | "package" | "interface" | "off")
	VariadicAny string `json:"variadicAny,omitempty"`
	// names of interfaces that are also declared as function-local types (inside a function
	// body / inside a function literal of a package-level initialiser)
	LocalTypes []string `json:"localTypes"`
	LitTypes   []string `json:"litTypes"`
	// generic interfaces for which the source also declares `type <Name>Alias = <Name>[targs]`
	AliasOf []string `json:"aliasOf"`
	// spelling of the module directive in go.mod: plain | tab | block | quoted | comment
	GoMod string `json:"gomod"`
}

type c01 struct{ prop string }

func init() {
	register("C01", c01{"C01"})
	register("C02", c01{"C02"})
}

func (p c01) Generate(c *Ctx) []any {
	n := c.Budget(48, 480)
	var out []any
	for i := 0; i < n; i++ {
		out = append(out, genGen(c.Rng, i, ""))
	}
	// the module's root package, mocked in place: `dir` spelled absolutely and relative to the module root
	for i, d := range []string{".", "{{.InterfaceDirRelative}}", "{{.InterfaceDir}}", "./", "{{.ConfigDir}}/.", "{{.InterfaceDir}}/"} {
		g := GenInput{Template: []string{"testify", "matryer"}[i%2], Formatter: []string{"gofmt", "noop", "goimports"}[i%3], Options: map[string]any{}, RootDir: d}
		g.Data.Stream = "root-package"
		g.Data.Placement = "inpkg"
		out = append(out, g)
	}
	for i := 0; i < 2; i++ {
		g := GenInput{Template: []string{"testify", "matryer"}[i%2], Formatter: "gofmt", Options: map[string]any{}, TwoRuns: true}
		g.Data.Stream = "two-runs"
		g.Data.Placement = "inpkg"
		out = append(out, g)
	}
	for i, sh := range []string{"marker", "params", "two"} {
		g := GenInput{Template: []string{"testify", "matryer"}[i%2], Formatter: []string{"goimports", "gofmt", "noop"}[i%3], Options: map[string]any{}, Sealed: sh}
		g.Data.Stream = "sealed"
		g.Data.Placement = "foreign-declaring-pkg"
		out = append(out, g)
	}
	for i, lvl := range []string{"top", "package", "interface", "off"} {
		g := GenInput{Template: []string{"testify", "testify", "testify", "matryer"}[i%4], Formatter: []string{"gofmt", "noop", "goimports"}[i%3], Options: map[string]any{}, VariadicAny: lvl}
		g.Data.Stream = "variadic-any"
		g.Data.Placement = []string{"inpkg", "separate"}[i%2]
		out = append(out, g)
	}
	if p.prop == "C02" {
		return out
	}
	// class-specific streams for the open findings
	for i := 0; i < n/8+3; i++ {
		for _, st := range []string{"capture", "lowercase-typeparam", "template-local", "ensure-comparable", "exported-collision", "ensure-split"} {
			g := genGen(c.Rng, i, st)
			if st == "ensure-split" {
				// this stream is about the ensure lines only: stay clear of the shapes of the open findings
				for try := 0; try < 20 && c01Class(&g) != ""; try++ {
					g = genGen(c.Rng, i, st)
				}
			}
			out = append(out, g)
		}
	}
	return out
}

// identifiers the templates declare themselves, and predeclared functions their emitted code calls
var c01TemplateLocals = []string{"_mock", "tmpRet", "_va", "_i", "_ca", "returnFunc", "ok", "_e", "_c", "run", "args", "variadicArgs", "i", "a", "mock", "callInfo", "calls", "r0", "r1", "ret",
	"len", "panic", "append", "make"}

func genGen(r *rand.Rand, idx int, stream string) GenInput {
	in := GenInput{Template: []string{"testify", "matryer"}[idx%2], Formatter: []string{"goimports", "gofmt", "noop"}[(idx/2)%3], Options: map[string]any{}}
	in.Data = genData(r, idx/6, "C01", stream)
	if stream == "ensure-comparable" || stream == "exported-collision" {
		in.Template = "matryer"
	}
	if stream == "ensure-split" {
		// matryer's ensure lines (`var _ src.I = &Mock{}`) need the source package imported even when no signature
		// mentions it: separate output package, signatures without source-package types, several interfaces whose
		// effective skip-ensure values differ, formatters that do not repair imports
		in.Template = "matryer"
		in.Formatter = []string{"gofmt", "noop", "goimports"}[idx%3]
		in.Data = genData(r, 2+3*idx, "C01", stream)
	}
	if in.Template == "testify" {
		if r.Intn(2) == 0 {
			in.Options["unroll-variadic"] = r.Intn(2) == 0
		}
	} else {
		for _, k := range []string{"skip-ensure", "stub-impl", "with-resets"} {
			if r.Intn(2) == 0 {
				in.Options[k] = r.Intn(2) == 0
			}
		}
	}
	if stream == "" && r.Intn(3) == 0 {
		in.ReplaceAlias = pick(r, []string{"root", "package", "interface"})
		tT := TyJ{K: "named", Pkg: pkgAlpha, PkgName: "alpha", Name: "T"}
		tA := TyJ{K: "named", Pkg: pkgAlpha, PkgName: "alpha", Name: "A", Alias: true}
		for i := range in.Data.Ifaces {
			it := &in.Data.Ifaces[i]
			for j := range it.Methods {
				m := &it.Methods[j]
				// the replaced type in front of parameters / results of unnamed types
				if m.From == "" && len(m.Params) >= 2 && !(m.Variadic && len(m.Params) == 1) && r.Intn(2) == 0 {
					m.Params[0].Type = tT
				}
				if m.From == "" && len(m.Results) >= 2 && r.Intn(2) == 0 {
					m.Results[0].Type = tT
				}
				for _, l := range []*[]VarJ{&m.Params, &m.Results} {
					for k := range *l {
						t := (*l)[k].Type
						if t.K == "named" && t.Pkg == pkgAlpha && t.Name == "T" && !(m.Variadic && l == &m.Params && k == len(*l)-1) {
							a := tA
							(*l)[k].Replacement = &a
						}
					}
				}
			}
		}
	}
	if v, ok := in.Options["unroll-variadic"].(bool); ok && v && stream == "" {
		// unrolled variadic arguments are copied into a []interface{} unless they already are one: element types
		// that merely *look* like the empty interface (a defined type over it, a type parameter) still need the copy
		val := TyJ{K: "named", Pkg: pkgAlpha, PkgName: "alpha", Name: "Val", UnderNillable: true}
		for i := range in.Data.Ifaces {
			it := &in.Data.Ifaces[i]
			for j := range it.Methods {
				m := &it.Methods[j]
				if m.From != "" || !m.Variadic || len(m.Params) == 0 {
					continue
				}
				// every second eligible method, whatever the seed draws
				c01ValTick++
				if skip := r.Intn(2) == 0; c01ValTick%2 == 0 {
					_ = skip
					continue
				}
				el := val
				if len(it.TypeParams) > 0 && it.TypeParams[0].Constraint.K == "universe" && it.TypeParams[0].Constraint.Name == "any" && r.Intn(2) == 0 {
					el = TyJ{K: "typeparam", Name: it.TypeParams[0].Name}
				}
				e := el
				m.Params[len(m.Params)-1].Type = TyJ{K: "slice", Elem: &e}
			}
		}
	}
	in.OptLevels = map[string]string{}
	for _, k := range sortedKeys(in.Options) {
		in.OptLevels[k] = pick(r, []string{"top", "top", "package", "interface", "iface-over-package", "split", "split"})
	}
	if stream == "ensure-split" {
		in.Options["skip-ensure"] = idx%2 == 0
		in.OptLevels["skip-ensure"] = []string{"split", "iface-over-package", "split", "package"}[idx%4]
	}
	// keep the main stream inside the guard: parameter names away from the templates' own identifiers
	for i := range in.Data.Ifaces {
		it := &in.Data.Ifaces[i]
		for j := range it.Methods {
			m := &it.Methods[j]
			if m.From != "" {
				continue
			}
			for k := range m.Params {
				switch stream {
				case "template-local":
					if r.Intn(2) == 0 && m.Params[k].Name != "" && m.Params[k].Name != "_" {
						m.Params[k].Name = pick(r, c01TemplateLocals)
					}
				case "exported-collision":
					// two parameters that coincide after `exported` (matryer record fields)
				default:
					for _, l := range c01TemplateLocals {
						if m.Params[k].Name == l {
							m.Params[k].Name = fmt.Sprintf("q%d", k)
						}
					}
				}
			}
			if stream == "exported-collision" && len(m.Params) >= 2 && !m.Variadic {
				m.Params[0].Name, m.Params[1].Name = "id", "iD"
			}
			// Go: either all parameters are named or none
			anyNamed := false
			for k := range m.Params {
				if m.Params[k].Name != "" {
					anyNamed = true
				}
			}
			for k := range m.Params {
				if anyNamed && m.Params[k].Name == "" {
					m.Params[k].Name = "_"
				}
			}
			// distinct names again
			seen := map[string]bool{}
			for k := range m.Params {
				n := m.Params[k].Name
				if n != "" && n != "_" && seen[n] {
					m.Params[k].Name = fmt.Sprintf("%s%d", n, k)
				}
				seen[m.Params[k].Name] = true
			}
		}
		if stream == "ensure-comparable" {
			delete(in.Options, "skip-ensure")
			if len(it.TypeParams) == 0 {
				it.TypeParams = []TParamJ{{Name: "K", Constraint: TyJ{K: "universe", Name: "comparable"}}}
			} else {
				it.TypeParams[0].Constraint = TyJ{K: "universe", Name: "comparable"}
			}
		}
	}
	in.GoMod = []string{"plain", "plain", "tab", "block", "quoted", "comment"}[r.Intn(6)]
	in.LocalTypes, in.LitTypes, in.AliasOf = []string{}, []string{}, []string{}
	for _, it := range in.Data.Ifaces {
		if len(it.TypeParams) > 0 && r.Intn(2) == 0 {
			in.AliasOf = append(in.AliasOf, it.Name)
		}
		if r.Intn(3) == 0 {
			in.LocalTypes = append(in.LocalTypes, it.Name)
		}
		if r.Intn(4) == 0 {
			in.LitTypes = append(in.LitTypes, it.Name)
		}
	}
	return in
}

var reIdent = regexp.MustCompile(`[A-Za-z_][A-Za-z0-9_]*`)

// c01Class: the shape of the input that puts it outside the guard of the C01 theorems (first match), or "".
func c01Class(in *GenInput) string {
	lower, local, coll, capt, mockPkg := false, false, false, false, false
	for _, it := range in.Data.Ifaces {
		for _, m := range it.Methods {
			for _, v := range append(append([]VarJ{}, m.Params...), m.Results...) {
				used := map[string]string{}
				pkgsIn(v.Type, used)
				for _, name := range used {
					if name == "mock" {
						mockPkg = true
					}
				}
			}
		}
		for _, tp := range it.TypeParams {
			if tp.Name != "" && strings.ToUpper(tp.Name[:1]) != tp.Name[:1] {
				lower = true
			}
		}
		for _, m := range it.Methods {
			idents := map[string]bool{}
			for _, v := range append(append([]VarJ{}, m.Params...), m.Results...) {
				for _, id := range reIdent.FindAllString(goSrc(v.Type, func(p string) string { return "" }), -1) {
					idents[id] = true
				}
			}
			exp := map[string]bool{}
			for _, v := range m.Params {
				for _, l := range c01TemplateLocals {
					if v.Name == l {
						local = true
					}
				}
				if v.Name != "" && v.Name != "_" {
					e := strings.ToUpper(v.Name)
					if exp[e] {
						coll = true
					}
					exp[e] = true
					if idents[v.Name] {
						capt = true
					}
				}
			}
			for _, v := range m.Results {
				if v.Name != "" && v.Name != "_" && idents[v.Name] {
					capt = true
				}
			}
		}
	}
	switch {
	case lower:
		return "lowercase-typeparam"
	case local:
		return "template-local"
	case coll && in.Template == "matryer":
		return "exported-collision"
	case mockPkg && in.Template == "matryer":
		return "package-named-mock"
	case capt:
		return "capture"
	}
	return ""
}

var reStructDecl = regexp.MustCompile(`(?m)^type ([A-Za-z_][A-Za-z0-9_]*)(\[[^\]]*\])? struct`)

func typeArgFor(c TyJ) string {
	switch {
	case c.K == "universe" && c.Name == "comparable":
		return "int"
	case c.K == "universe":
		return "string"
	case c.K == "named":
		return "alpha.I"
	case c.K == "iface" && len(c.Methods) > 0:
		return "alpha.Ord" // satisfies `interface{ Less(other T) bool }` with T = alpha.Ord
	default:
		return "int"
	}
}

func (p c01) Run(c *Ctx, raw json.RawMessage) Case {
	var in GenInput
	if err := json.Unmarshal(raw, &in); err != nil {
		return Case{Oracle: fail("bad-input", "%v", err)}
	}
	dir, err := os.MkdirTemp(c.Work, "c01-")
	if err != nil {
		return Case{Oracle: fail("harness", "%v", err)}
	}
	defer os.RemoveAll(dir)
	if in.RootDir != "" {
		return c01RootPackage(c, &in, dir)
	}
	if in.TwoRuns {
		return c01TwoRuns(c, &in, dir)
	}
	if in.Sealed != "" {
		return c01Sealed(c, &in, dir)
	}
	if in.VariadicAny != "" {
		return c01VariadicAny(c, &in, dir)
	}
	d := &in.Data
	files := supportFiles()
	modLine := map[string]string{"tab": "module\texample.com/m", "block": "module (\n\texample.com/m\n)", "quoted": "module \"example.com/m\" // the module",
		"comment": "// the module directive follows\n\nmodule example.com/m // trailing comment"}[in.GoMod]
	if modLine == "" {
		modLine = "module example.com/m"
	}
	files["go.mod"] = modLine + "\n\ngo 1.23\n\nrequire github.com/stretchr/testify v1.10.0\n\nrequire (\n\tgithub.com/davecgh/go-spew v1.1.1 // indirect\n\tgithub.com/pmezard/go-difflib v1.0.0 // indirect\n\tgithub.com/stretchr/objx v0.5.2 // indirect\n\tgopkg.in/yaml.v3 v3.0.1 // indirect\n)\n"
	files["src/src.go"] = emitSource(d)
	{
		var lb strings.Builder
		lb.WriteString("package src\n\nfunc localTypesOfTheSameName() {\n")
		for _, n := range in.LocalTypes {
			fmt.Fprintf(&lb, "\t{\n\t\ttype %s interface{ LocalOnly%s(int) string }\n\t\tvar _ %s\n\t}\n", n, n, n)
		}
		lb.WriteString("}\n\nvar _ = func() int {\n")
		for _, n := range in.LitTypes {
			fmt.Fprintf(&lb, "\t{\n\t\ttype %s interface{ LitOnly%s() }\n\t\tvar _ %s\n\t}\n", n, n, n)
		}
		lb.WriteString("\treturn 0\n}()\n")
		needOrd := false
		for _, it := range d.Ifaces {
			for _, n := range in.AliasOf {
				if n == it.Name {
					as := []string{}
					for _, tp := range it.TypeParams {
						a := strings.ReplaceAll(typeArgFor(tp.Constraint), "alpha.I", "interface{ M() }")
						if a == "alpha.Ord" {
							a = "localOrd"
							needOrd = true
						}
						as = append(as, a)
					}
					fmt.Fprintf(&lb, "\n// an alias of an instantiation is not a named interface type of its own\ntype %sAlias = %s[%s]\n", n, n, strings.Join(as, ", "))
				}
			}
		}
		if needOrd {
			lb.WriteString("\ntype localOrd int\n\nfunc (o localOrd) Less(other localOrd) bool { return o < other }\n")
		}
		files["src/locals.go"] = lb.String()
	}
	files["mocks/doc.go"] = "package mocks\n"
	if b, err := os.ReadFile(filepath.Join(c.Src, "go.sum")); err == nil {
		files["go.sum"] = string(b)
	}
	var cfg strings.Builder
	fmt.Fprintf(&cfg, "template: %s\nformatter: %s\nforce-file-write: true\n", in.Template, in.Formatter)
	mockFile := "src/mocks_test.go"
	switch d.Placement {
	case "inpkg":
		cfg.WriteString("pkgname: src\n")
	case "testpkg":
		cfg.WriteString("pkgname: src_test\n")
	default:
		fmt.Fprintf(&cfg, "dir: %s\npkgname: mocks\nfilename: mocks.go\n", filepath.Join(dir, "mocks"))
		mockFile = "mocks/mocks.go"
	}
	var names []string
	for _, it := range d.Ifaces {
		names = append(names, it.Name)
	}
	replaceYAML := func(indent string) string {
		return fmt.Sprintf("%sreplace-type:\n%s  %s:\n%s    T:\n%s      pkg-path: %s\n%s      type-name: A\n", indent, indent, pkgAlpha, indent, indent, pkgAlpha, indent)
	}
	if in.ReplaceAlias == "root" {
		cfg.WriteString(replaceYAML(""))
	}
	topTD, pkgTD, ifaceTD := levelledOptions(in.Options, in.OptLevels, names)
	if len(topTD) > 0 {
		cfg.WriteString("template-data:\n")
		for _, l := range topTD {
			cfg.WriteString("  " + l + "\n")
		}
	}
	fmt.Fprintf(&cfg, "packages:\n  %s:\n", pkgSrc)
	if len(pkgTD) > 0 || in.ReplaceAlias == "package" {
		cfg.WriteString("    config:\n")
		if in.ReplaceAlias == "package" {
			cfg.WriteString(replaceYAML("      "))
		}
		if len(pkgTD) > 0 {
			cfg.WriteString("      template-data:\n")
		}
		for _, l := range pkgTD {
			cfg.WriteString("        " + l + "\n")
		}
	}
	cfg.WriteString("    interfaces:\n")
	for _, it := range d.Ifaces {
		fmt.Fprintf(&cfg, "      %s:\n", it.Name)
		ls := ifaceTD[it.Name]
		if len(ls) > 0 || in.ReplaceAlias == "interface" {
			cfg.WriteString("        config:\n")
			if in.ReplaceAlias == "interface" {
				cfg.WriteString(replaceYAML("          "))
			}
			if len(ls) > 0 {
				cfg.WriteString("          template-data:\n")
			}
			for _, l := range ls {
				cfg.WriteString("            " + l + "\n")
			}
		}
	}
	files[".mockery.yml"] = cfg.String()
	if err := writeFiles(dir, files); err != nil {
		return Case{Oracle: fail("harness", "%v", err)}
	}
	tags := []string{"tmpl-" + in.Template, "fmt-" + in.Formatter, "place-" + d.Placement, "gomod-" + in.GoMod}
	if d.Stream != "" {
		tags = append(tags, "stream-"+d.Stream)
	}
	if in.ReplaceAlias != "" {
		tags = append(tags, "replace-alias-"+in.ReplaceAlias)
	}
	if out, err := runGo(dir, "build", "./..."); err != nil {
		return Case{Oracle: fail("harness-source", "generated source does not compile: %s", lastLines(out, 6)), NoModel: true, Tags: tags}
	}
	res := c.runMockery(dir, nil, nil)
	if res.Panicked {
		return Case{Impl: map[string]any{"panic": true}, Oracle: fail("panic", "mockery panicked: %s", lastLines(res.Stderr, 6)), Tags: tags}
	}
	compiles := true
	why := ""
	if res.Exit != 0 {
		compiles = false
		why = "mockery failed: " + formatErrLine(res) + " " + lastLines(res.Stderr, 1)
	} else if out, err := runGo(dir, "test", "-count=1", "-run", "^$", "./..."); err != nil {
		compiles = false
		why = lastLines(strings.ReplaceAll(out, dir, ""), 5)
	}
	impl := map[string]any{"compiles": compiles}
	or := Oracle{OK: true}
	finding := ""
	if !compiles {
		or = fail("does-not-compile", "the file written for template %s / formatter %s / %s placement does not compile with its package: %s", in.Template, in.Formatter, d.Placement, why)
		// a failure belongs to a known class only if the input has that class's shape
		if cls := c01Class(&in); cls != "" {
			or.Class = cls
			finding = map[string]string{"capture": "C01-K1", "lowercase-typeparam": "C01-K2", "template-local": "C01-K3", "exported-collision": "C01-K4", "package-named-mock": "C01-K5"}[cls]
		}
	}
	if p.prop == "C02" && !compiles && finding != "" {
		// outside C01's guard the file is not valid Go at all: C02 has nothing to assert about it
		return Case{Impl: impl, Oracle: Oracle{OK: true}, NoModel: true, Tags: append(tags, "not-valid-go-see-C01")}
	}
	// ---- C02: assignability and single declaration ------------------------------------------------
	if compiles {
		b, _ := os.ReadFile(filepath.Join(dir, mockFile))
		src := string(b)
		counts := map[string]int{}
		for _, m := range reStructDecl.FindAllStringSubmatch(src, -1) {
			counts[m[1]]++
		}
		declared := []any{}
		for _, it := range d.Ifaces {
			declared = append(declared, []any{it.StructName, counts[it.StructName]})
		}
		impl["declared"] = declared
		// the methods every mock type has, in the order they are emitted
		methods := []any{}
		for _, it := range d.Ifaces {
			re := regexp.MustCompile(`(?m)^func \((?:_mock|mock) \*` + regexp.QuoteMeta(it.StructName) + `(?:\[[^\]]*\])?\) ([A-Za-z_][A-Za-z0-9_]*)\(`)
			names := []any{}
			for _, m := range re.FindAllStringSubmatch(src, -1) {
				n := m[1]
				if in.Template == "matryer" && (strings.HasSuffix(n, "Calls")) {
					continue // the accessors and resets of the matryer mock
				}
				names = append(names, n)
			}
			methods = append(methods, []any{it.StructName, names})
		}
		impl["methods"] = methods
		var asrt strings.Builder
		pkgClause := map[string]string{"inpkg": "src", "testpkg": "src_test", "separate": "mocks"}[d.Placement]
		fmt.Fprintf(&asrt, "package %s\n\nimport (\n", pkgClause)
		if d.Placement != "inpkg" {
			fmt.Fprintf(&asrt, "\torigsrc %q\n", pkgSrc)
		}
		fmt.Fprintf(&asrt, "\talpha %q\n)\n\nvar _ alpha.T\n\n", pkgAlpha)
		for _, it := range d.Ifaces {
			structName := it.StructName
			if counts[structName] != 1 {
				or = fail("declared-not-once", "mock type %s is declared %d times in %s", structName, counts[structName], mockFile)
			}
			targs := ""
			if len(it.TypeParams) > 0 {
				as := []string{}
				for _, tp := range it.TypeParams {
					as = append(as, typeArgFor(tp.Constraint))
				}
				targs = "[" + strings.Join(as, ", ") + "]"
			}
			q := ""
			if d.Placement != "inpkg" {
				q = "origsrc."
			}
			fmt.Fprintf(&asrt, "var _ %s%s%s = (*%s%s)(nil)\n", q, it.Name, targs, structName, targs)
		}
		an := "zz_assert_test.go"
		adir := "src"
		if d.Placement == "separate" {
			an, adir = "zz_assert.go", "mocks"
		}
		os.WriteFile(filepath.Join(dir, adir, an), []byte(asrt.String()), 0o644)
		if or.OK {
			if out, err := runGo(dir, "test", "-count=1", "-run", "^$", "./..."); err != nil {
				or = fail("not-assignable", "a generated mock type does not implement its source interface: %s", lastLines(strings.ReplaceAll(out, dir, ""), 5))
			}
		}
	}
	nontrivial := len(d.Ifaces) > 0
	return Case{Impl: impl, Oracle: or, Nontrivial: nontrivial, Tags: tags, Finding: finding}
}

// levelledOptions spreads boolean template-data options over the configuration levels (see GenInput.OptLevels):
// the lines of the top-level, package-level and per-interface template-data maps.
func levelledOptions(opts map[string]any, levels map[string]string, ifaces []string) (top, pkg []string, iface map[string][]string) {
	iface = map[string][]string{}
	for _, k := range sortedKeys(opts) {
		v := opts[k]
		line := fmt.Sprintf("%s: %v", k, v)
		opp := line
		if b, ok := v.(bool); ok {
			opp = fmt.Sprintf("%s: %v", k, !b)
		}
		switch levels[k] {
		case "package":
			pkg = append(pkg, line)
		case "interface":
			for _, n := range ifaces {
				iface[n] = append(iface[n], line)
			}
		case "iface-over-package":
			pkg = append(pkg, opp)
			for _, n := range ifaces {
				iface[n] = append(iface[n], line)
			}
		case "split":
			pkg = append(pkg, opp)
			if len(ifaces) > 0 {
				iface[ifaces[0]] = append(iface[ifaces[0]], line)
			}
		default:
			top = append(top, line)
		}
	}
	return
}

// c01RootPackage: the source package is the module's root directory and the mocks go next to the source
// (same package); signatures mention types of the package itself.
func c01RootPackage(c *Ctx, in *GenInput, dir string) Case {
	files := map[string]string{
		"go.mod":  "module example.com/inv\n\ngo 1.23\n\nrequire github.com/stretchr/testify v1.10.0\n\nrequire (\n\tgithub.com/davecgh/go-spew v1.1.1 // indirect\n\tgithub.com/pmezard/go-difflib v1.0.0 // indirect\n\tgithub.com/stretchr/objx v0.5.2 // indirect\n\tgopkg.in/yaml.v3 v3.0.1 // indirect\n)\n",
		"inv.go":  "package inv\n\ntype Item struct{ N int }\n\ntype Filter func(Item) bool\n\ntype Store interface {\n\tGet(id int) (Item, error)\n\tFind(f Filter, more ...Item) []Item\n}\n",
		"use.go":  "package inv\n\nfunc Count(s Store) int { return len(s.Find(nil)) }\n",
	}
	if b, err := os.ReadFile(filepath.Join(c.Src, "go.sum")); err == nil {
		files["go.sum"] = string(b)
	}
	files[".mockery.yml"] = fmt.Sprintf("template: %s\nformatter: %s\nforce-file-write: true\ndir: %q\nfilename: mocks_test.go\npackages:\n  example.com/inv:\n    interfaces:\n      Store:\n", in.Template, in.Formatter, in.RootDir)
	if err := writeFiles(dir, files); err != nil {
		return Case{Oracle: fail("harness", "%v", err)}
	}
	tags := []string{"tmpl-" + in.Template, "fmt-" + in.Formatter, "stream-root-package"}
	res := c.runMockery(dir, nil, nil)
	if res.Panicked {
		return Case{Impl: map[string]any{"panic": true}, Oracle: fail("panic", "mockery panicked: %s", lastLines(res.Stderr, 6)), Tags: tags, NoModel: true}
	}
	or := Oracle{OK: true}
	compiles := true
	if res.Exit != 0 {
		compiles = false
		or = fail("does-not-compile", "mockery failed on the module's root package with dir %q: %s %s", in.RootDir, formatErrLine(res), lastLines(res.Stderr, 1))
	} else if _, err := os.Stat(filepath.Join(dir, "mocks_test.go")); err != nil {
		compiles = false
		or = fail("does-not-compile", "dir %q: no mocks_test.go next to the source of the root package", in.RootDir)
	} else if out, err := runGo(dir, "test", "-count=1", "-run", "^$", "./..."); err != nil {
		compiles = false
		or = fail("does-not-compile", "the file written for the module's root package (template %s, formatter %s, dir %q) does not compile with its package: %s", in.Template, in.Formatter, in.RootDir, lastLines(strings.ReplaceAll(out, dir, ""), 5))
	}
	return Case{Impl: map[string]any{"compiles": compiles}, Oracle: or, Nontrivial: true, Tags: tags, NoModel: true}
}

// c01TwoRuns: the method set of an interface also depends on the packages it embeds interfaces from.
var c01ValTick int

// c01VariadicAny: with unroll-variadic the variadic arguments are handed to testify element by element; an element
// type that is the empty interface is passed on as it is, one that only has the empty interface as its underlying type
// (a defined type, a type parameter constrained by any) is not a []interface{} and has to be copied.
func c01VariadicAny(c *Ctx, in *GenInput, dir string) Case {
	files := map[string]string{
		"go.mod":     "module example.com/m\n\ngo 1.23\n\nrequire github.com/stretchr/testify v1.10.0\n\nrequire (\n\tgithub.com/davecgh/go-spew v1.1.1 // indirect\n\tgithub.com/pmezard/go-difflib v1.0.0 // indirect\n\tgithub.com/stretchr/objx v0.5.2 // indirect\n\tgopkg.in/yaml.v3 v3.0.1 // indirect\n)\n",
		"ext/ext.go": "package ext\n\ntype Val interface{}\n\ntype Opt = interface{}\n\ntype Named interface{ Name() string }\n",
		"svc/svc.go": "package svc\n\nimport \"example.com/m/ext\"\n\ntype Sink[T any] interface {\n\tPush(items ...T)\n\tPushAll(prefix string, items ...T) (int, error)\n}\n\ntype Logger interface {\n\tLog(format string, vals ...ext.Val) error\n\tVals(vals ...ext.Val)\n\tOpts(opts ...ext.Opt) int\n\tRaw(xs ...interface{})\n\tAny(n int, xs ...any) (string, error)\n\tNamed(ns ...ext.Named) error\n\tStrs(ss ...string) int\n}\n",
	}
	if b, err := os.ReadFile(filepath.Join(c.Src, "go.sum")); err == nil {
		files["go.sum"] = string(b)
	}
	var cfg strings.Builder
	fmt.Fprintf(&cfg, "template: %s\nformatter: %s\nforce-file-write: true\nfilename: mocks_gen.go\n", in.Template, in.Formatter)
	if in.Data.Placement == "separate" {
		fmt.Fprintf(&cfg, "dir: \"{{.InterfaceDir}}/mocks\"\npkgname: mocks\n")
	}
	td := "template-data:\n%s  unroll-variadic: true\n"
	if in.VariadicAny == "top" {
		fmt.Fprintf(&cfg, td, "")
	}
	cfg.WriteString("packages:\n  example.com/m/svc:\n")
	if in.VariadicAny == "package" {
		cfg.WriteString("    config:\n      " + strings.ReplaceAll(fmt.Sprintf(td, "      "), "\n  unroll", "\n        unroll"))
	}
	cfg.WriteString("    interfaces:\n")
	for _, n := range []string{"Sink", "Logger"} {
		fmt.Fprintf(&cfg, "      %s:\n", n)
		if in.VariadicAny == "interface" {
			fmt.Fprintf(&cfg, "        config:\n          template-data:\n            unroll-variadic: true\n")
		}
	}
	files[".mockery.yml"] = cfg.String()
	if err := writeFiles(dir, files); err != nil {
		return Case{Oracle: fail("harness", "%v", err)}
	}
	tags := []string{"tmpl-" + in.Template, "stream-variadic-any", "unroll-" + in.VariadicAny, "place-" + in.Data.Placement}
	res := c.runMockery(dir, nil, nil)
	if res.Panicked {
		return Case{Impl: map[string]any{"panic": true}, Oracle: fail("panic", "mockery panicked: %s", lastLines(res.Stderr, 6)), Tags: tags, NoModel: true}
	}
	or := Oracle{OK: true}
	compiles := true
	if res.Exit != 0 {
		compiles = false
		or = fail("does-not-compile", "mockery failed: %s %s", formatErrLine(res), lastLines(res.Stderr, 1))
	} else if out, err := runGo(dir, "test", "-count=1", "-run", "^$", "./..."); err != nil {
		compiles = false
		or = fail("does-not-compile", "variadic parameters over (look-alikes of) the empty interface, template %s, unroll-variadic at %s level: %s", in.Template, in.VariadicAny, lastLines(strings.ReplaceAll(out, dir, ""), 6))
	}
	return Case{Impl: map[string]any{"compiles": compiles}, Oracle: or, Nontrivial: true, Tags: tags, NoModel: true}
}

func c01TwoRuns(c *Ctx, in *GenInput, dir string) Case {
	base1 := "package base\n\ntype Resource interface {\n\tClose() error\n}\n"
	base2 := "package base\n\ntype Resource interface {\n\tClose() error\n\tFlush(force bool) (int, error)\n}\n"
	files := map[string]string{
		"go.mod":       "module example.com/m\n\ngo 1.23\n\nrequire github.com/stretchr/testify v1.10.0\n\nrequire (\n\tgithub.com/davecgh/go-spew v1.1.1 // indirect\n\tgithub.com/pmezard/go-difflib v1.0.0 // indirect\n\tgithub.com/stretchr/objx v0.5.2 // indirect\n\tgopkg.in/yaml.v3 v3.0.1 // indirect\n)\n",
		"base/base.go": base1,
		"svc/svc.go":   "package svc\n\nimport \"example.com/m/base\"\n\ntype Service interface {\n\tbase.Resource\n\tRun(n int) error\n}\n",
		"svc/zz_assert_test.go": "package svc\n\nvar _ Service = (*MockService)(nil)\n",
	}
	if b, err := os.ReadFile(filepath.Join(c.Src, "go.sum")); err == nil {
		files["go.sum"] = string(b)
	}
	files[".mockery.yml"] = fmt.Sprintf("template: %s\nformatter: %s\nforce-file-write: true\nfilename: mocks_test.go\npackages:\n  example.com/m/svc:\n    interfaces:\n      Service:\n", in.Template, in.Formatter)
	if err := writeFiles(dir, files); err != nil {
		return Case{Oracle: fail("harness", "%v", err)}
	}
	tags := []string{"tmpl-" + in.Template, "stream-two-runs"}
	or := Oracle{OK: true}
	compiles := true
	step := func(n int) bool {
		res := c.runMockery(dir, nil, nil)
		if res.Panicked {
			or = fail("panic", "run %d: mockery panicked: %s", n, lastLines(res.Stderr, 5))
			return false
		}
		if res.Exit != 0 {
			or = fail("does-not-compile", "run %d: mockery failed: %s %s", n, formatErrLine(res), lastLines(res.Stderr, 1))
			return false
		}
		if out, err := runGo(dir, "test", "-count=1", "-run", "^$", "./..."); err != nil {
			or = fail("not-assignable", "run %d: the mock written by this run does not implement the interface as it is now declared: %s", n, lastLines(strings.ReplaceAll(out, dir, ""), 5))
			return false
		}
		return true
	}
	if step(1) {
		// make sure the edit is later than the first output on coarse clocks, then change the embedded foreign interface
		time.Sleep(20 * time.Millisecond)
		os.WriteFile(filepath.Join(dir, "base", "base.go"), []byte(base2), 0o644)
		compiles = step(2)
		if compiles {
			// and back: the interface loses the methods again, the third rendering is shorter than the file it replaces
			time.Sleep(20 * time.Millisecond)
			os.WriteFile(filepath.Join(dir, "base", "base.go"), []byte(base1), 0o644)
			compiles = step(3)
		}
	} else {
		compiles = false
	}
	return Case{Impl: map[string]any{"compiles": compiles}, Oracle: or, Nontrivial: true, Tags: tags, NoModel: true}
}

// c01Sealed: the full method set includes unexported methods promoted from an embedded interface of another package.
// Such an interface can only be implemented in that package, so the mock is written there (interface-level dir /
// pkgname) and the assertion is made from a third package that sees both.
func c01Sealed(c *Ctx, in *GenInput, dir string) Case {
	sealed := map[string]string{
		"marker": "\tseal()\n",
		"params": "\tseal(depth int, tags ...string) (Leaf, error)\n",
		"two":    "\tseal()\n\tmark(l *Leaf) error\n\tVisible() bool\n",
	}[in.Sealed]
	files := map[string]string{
		"go.mod":         "module example.com/m\n\ngo 1.23\n\nrequire github.com/stretchr/testify v1.10.0\n\nrequire (\n\tgithub.com/davecgh/go-spew v1.1.1 // indirect\n\tgithub.com/pmezard/go-difflib v1.0.0 // indirect\n\tgithub.com/stretchr/objx v0.5.2 // indirect\n\tgopkg.in/yaml.v3 v3.0.1 // indirect\n)\n",
		"core/core.go":   "package core\n\ntype Leaf struct{ N int }\n\ntype Sealed interface {\n" + sealed + "}\n",
		"api/api.go":     "package api\n\nimport \"example.com/m/core\"\n\ntype Node interface {\n\tcore.Sealed\n\tName() string\n\tChildren(depth int, filter ...string) ([]core.Leaf, error)\n}\n\ntype Plain interface {\n\tGet(key string) (string, error)\n}\n",
		"check/check.go": "package check\n\nimport (\n\t\"example.com/m/api\"\n\t\"example.com/m/core\"\n)\n\nvar _ api.Node = (*core.MockNode)(nil)\nvar _ core.Sealed = (*core.MockSealed)(nil)\n",
	}
	if b, err := os.ReadFile(filepath.Join(c.Src, "go.sum")); err == nil {
		files["go.sum"] = string(b)
	}
	// matryer's ensure line would import api from core (a cycle): it is switched off for Node
	skip := ""
	if in.Template == "matryer" {
		skip = "          template-data:\n            skip-ensure: true\n"
	}
	files[".mockery.yml"] = fmt.Sprintf("template: %s\nformatter: %s\nforce-file-write: true\nfilename: mocks_gen.go\npackages:\n  example.com/m/core:\n    interfaces:\n      Sealed:\n  example.com/m/api:\n    interfaces:\n      Plain:\n      Node:\n        config:\n          dir: core\n          pkgname: core\n          filename: mock_node.go\n%s", in.Template, in.Formatter, skip)
	if err := writeFiles(dir, files); err != nil {
		return Case{Oracle: fail("harness", "%v", err)}
	}
	tags := []string{"tmpl-" + in.Template, "stream-sealed", "sealed-" + in.Sealed}
	res := c.runMockery(dir, nil, nil)
	if res.Panicked {
		return Case{Impl: map[string]any{"panic": true}, Oracle: fail("panic", "mockery panicked: %s", lastLines(res.Stderr, 6)), Tags: tags, NoModel: true}
	}
	or := Oracle{OK: true}
	compiles := true
	if res.Exit != 0 {
		compiles = false
		or = fail("does-not-compile", "mockery failed: %s %s", formatErrLine(res), lastLines(res.Stderr, 1))
	} else if out, err := runGo(dir, "build", "./..."); err != nil {
		compiles = false
		or = fail("not-assignable", "the mock written into the package that declares the unexported methods (template %s, shape %s) does not implement the interface: %s", in.Template, in.Sealed, lastLines(strings.ReplaceAll(out, dir, ""), 6))
	}
	return Case{Impl: map[string]any{"compiles": compiles}, Oracle: or, Nontrivial: true, Tags: tags, NoModel: true}
}
