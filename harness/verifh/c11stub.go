//go:build verif && noc11

package main

import "errors"

// built when c11inproc.go no longer compiles against the repository (an API it calls has changed): the
// in-process cases are skipped, the CLI cases still run

const c11InProcAvailable = false

func c11IsInfiniteLoop(err error) bool { return errors.Is(err, errC11InfiniteLoop) }

func c11Run(in *c11Input) (res c11Result, panicked string, hung bool) {
	res.err = errors.New("in-process harness unavailable")
	return
}
