//go:build verif && !noc16

package main

import (
	"encoding/hex"
	"encoding/json"
	"fmt"
	"math"
	"math/rand"
	"os"
	"path/filepath"
	"regexp"
	"strings"
	"text/template"
	"unicode"
	"unicode/utf8"

	"github.com/vektra/mockery/v3/template_funcs"
)

// C16: every function of template_funcs.FuncMap applied through the real
// text/template engine, compared with the Lean model and with an independent
// reference (the documented semantics written directly against the standard library).

type c16Val struct {
	S *string  `json:"s,omitempty"` // hex bytes
	I *int64   `json:"i,omitempty"`
	L []string `json:"l,omitempty"` // hex
	B *bool    `json:"b,omitempty"`
	isL bool
}

func (v c16Val) MarshalJSON() ([]byte, error) {
	switch {
	case v.S != nil:
		return json.Marshal(map[string]any{"s": *v.S})
	case v.I != nil:
		return json.Marshal(map[string]any{"i": *v.I})
	case v.B != nil:
		return json.Marshal(map[string]any{"b": *v.B})
	default:
		l := v.L
		if l == nil {
			l = []string{}
		}
		return json.Marshal(map[string]any{"l": l})
	}
}

type c16Input struct {
	Fn   string   `json:"fn"`
	Args []c16Val `json:"args"`
	// readFile histories: the contents the file has, one after the other (hex; "-" = the file is removed,
	// "d" = a directory sits at the path); readFile is called after every step and returns what is there *now*
	History []string `json:"history,omitempty"`
}

type c16 struct{}

func init() { register("C16", c16{}) }

// signature: kinds of the template arguments in template order; "I*" = variadic ints
var c16Sig = map[string]string{
	"contains": "ss", "hasPrefix": "ss", "hasSuffix": "ss", "join": "sl", "replace": "ssis", "replaceAll": "sss",
	"split": "ss", "splitAfter": "ss", "splitAfterN": "sis", "trim": "ss", "trimLeft": "ss", "trimPrefix": "ss",
	"trimRight": "ss", "trimSpace": "s", "trimSuffix": "ss", "lower": "s", "upper": "s",
	"camelcase": "s", "snakecase": "s", "kebabcase": "s", "firstIsLower": "s", "firstLower": "s", "firstUpper": "s",
	"exported": "s", "matchString": "ss", "quoteMeta": "s", "base": "s", "clean": "s", "dir": "s",
	"add": "I", "sub": "I", "mul": "I", "div": "I", "mod": "I", "min": "I", "incr": "i", "decr": "i",
}

var c16Strings = []string{
	"", "a", "A", "ab", "abc", "aaa", "aaaa", "abab", "ababab", "a,b,c", ",a,", ",,", ",", " a b ", "  ", "\t x\n", "id", "Id", "ID", "url", "Http", "https",
	"foo_bar", "fooBar", "FooBar", "foo/bar", "/", "//", "/a/../b", "a/./b/", "../x", "..", ".", "a//b", "/..", "x.go", "a.b.c",
	"é", "éa", "Éa", "aé", "ß", "ıd", "ſql", "ǅx", "ǆ", "ÿ", "中", "中文", "αβγ", "Ωmega", "жук", "Ж", " x ", " a", "　", "x\u0085",
	"\xff", "\xffa", "a\xff", "\xc3", "\xc3(", "\xe4\xb8", "a\xe4\xb8", "\xed\xa0\x80", "\xf0\x9f\x98\x80", "\xf0\x9f\x98", "\xc0\x80", "\x80", "é\xff", "\xef\xbf\xbd",
	"a.b", "a+b", "(x)", "[a]", "^$", "\\", "a|b", "{1}", "*?",
	"𐐀bc", "𐐨bc",
}

func c16Str(r *rand.Rand) string {
	switch r.Intn(10) {
	case 0, 1, 2, 3, 4:
		return pick(r, c16Strings)
	case 5, 6:
		return pick(r, c16Strings) + pick(r, c16Strings)
	case 7:
		a := pick(r, c16Strings)
		return a + pick(r, c16Strings) + a
	case 8:
		// random bytes over a tiny alphabet (many overlaps)
		n := r.Intn(8)
		al := []byte("ab,\xc3\xa9 ")
		b := make([]byte, n)
		for i := range b {
			b[i] = al[r.Intn(len(al))]
		}
		return string(b)
	default:
		return strings.Repeat(pick(r, c16Strings), r.Intn(4))
	}
}

var c16Ints = []int64{0, 1, -1, 2, -2, 3, 7, -7, 10, 100, math.MaxInt64, math.MinInt64, math.MaxInt64 - 1, math.MinInt64 + 1, 1 << 32, -(1 << 32), 1 << 62}

func hx(s string) *string { h := hex.EncodeToString([]byte(s)); return &h }

func (c16) Generate(c *Ctx) []any {
	n := c.Budget(6000, 120000)
	var hist []any
	for i := 0; i < c.Budget(30, 300); i++ {
		var h []string
		for k := 0; k < 2+c.Rng.Intn(5); k++ {
			switch c.Rng.Intn(6) {
			case 0:
				h = append(h, "-")
			case 1:
				h = append(h, "d")
			default:
				h = append(h, *hx(c16Str(c.Rng)))
			}
		}
		hist = append(hist, c16Input{Fn: "readFile", Args: []c16Val{}, History: h})
	}
	names := []string{}
	for k := range c16Sig {
		names = append(names, k)
	}
	sortStrings(names)
	var out []any
	for i := 0; i < n; i++ {
		fn := names[i%len(names)]
		sig := c16Sig[fn]
		in := c16Input{Fn: fn, Args: []c16Val{}}
		switch sig {
		case "I":
			k := c.Rng.Intn(5)
			if c.Rng.Intn(8) != 0 && k == 0 {
				k = 2
			}
			for j := 0; j < k; j++ {
				v := pick(c.Rng, c16Ints)
				if c.Rng.Intn(3) == 0 {
					v = int64(c.Rng.Intn(41) - 20)
				}
				in.Args = append(in.Args, c16Val{I: &v})
			}
		default:
			// make prefix/suffix/substring relations frequent: draw the subject first
			subject := c16Str(c.Rng)
			for pos, k := range sig {
				last := pos == len(sig)-1
				switch k {
				case 's':
					s := c16Str(c.Rng)
					if last {
						s = subject
					} else if len(subject) > 0 && c.Rng.Intn(2) == 0 {
						// a piece of the subject (byte-level, may cut a rune)
						a := c.Rng.Intn(len(subject) + 1)
						b := a + c.Rng.Intn(len(subject)-a+1)
						switch c.Rng.Intn(3) {
						case 0:
							s = subject[:b]
						case 1:
							s = subject[a:]
						default:
							s = subject[a:b]
						}
					}
					in.Args = append(in.Args, c16Val{S: hx(s)})
				case 'i':
					v := int64(c.Rng.Intn(7) - 2)
					if c.Rng.Intn(10) == 0 {
						v = pick(c.Rng, c16Ints)
					}
					in.Args = append(in.Args, c16Val{I: &v})
				case 'l':
					m := c.Rng.Intn(4)
					l := []string{}
					for j := 0; j < m; j++ {
						l = append(l, *hx(c16Str(c.Rng)))
					}
					in.Args = append(in.Args, c16Val{L: l, isL: true})
				}
			}
		}
		out = append(out, in)
	}
	// the case functions on every initialism the source lists (and the ones golint knows), in every spelling
	words := append([]string{}, c16Golint...)
	if b, err := os.ReadFile(filepath.Join(c.Src, "template_funcs", "funcmap.go")); err == nil {
		if m := regexp.MustCompile(`(?s)golintInitialisms\s*=\s*\[\]string\{(.*?)\}`).FindSubmatch(b); m != nil {
			for _, w := range regexp.MustCompile(`"([^"]*)"`).FindAllSubmatch(m[1], -1) {
				words = append(words, string(w[1]))
			}
		}
	}
	seen := map[string]bool{}
	for _, w := range words {
		if seen[w] || w == "" {
			continue
		}
		seen[w] = true
		lw := strings.ToLower(w)
		for _, form := range []string{lw, w, strings.ToUpper(lw[:1]) + lw[1:], lw + "s", "x" + lw, lw[:1] + strings.ToUpper(lw[1:])} {
			for _, fn := range []string{"exported", "firstIsLower"} {
				if _, ok := c16Sig[fn]; ok {
					out = append(out, c16Input{Fn: fn, Args: []c16Val{{S: hx(form)}}})
				}
			}
		}
	}
	return append(out, hist...)
}

var c16Golint = []string{"ACL", "API", "ASCII", "CPU", "CSS", "DNS", "EOF", "GUID", "HTML", "HTTP", "HTTPS", "ID", "IP", "JSON", "LHS", "QPS", "RAM", "RHS", "RPC", "SLA", "SMTP", "SQL", "SSH", "TCP", "TLS", "TTL", "UDP", "UI", "UID", "UUID", "URI", "URL", "UTF8", "VM", "XML", "XMPP", "XSRF", "XSS"}

func sortStrings(a []string) {
	for i := 1; i < len(a); i++ {
		for j := i; j > 0 && a[j] < a[j-1]; j-- {
			a[j], a[j-1] = a[j-1], a[j]
		}
	}
}

func c16Decode(v c16Val) (any, error) {
	switch {
	case v.S != nil:
		b, err := hex.DecodeString(*v.S)
		return string(b), err
	case v.I != nil:
		return int(*v.I), nil
	default:
		l := []string{}
		for _, h := range v.L {
			b, err := hex.DecodeString(h)
			if err != nil {
				return nil, err
			}
			l = append(l, string(b))
		}
		return l, nil
	}
}

func c16Encode(x any) any {
	switch v := x.(type) {
	case string:
		return map[string]any{"s": hex.EncodeToString([]byte(v))}
	case bool:
		return map[string]any{"b": v}
	case int:
		return map[string]any{"i": int64(v)}
	case []string:
		l := []string{}
		for _, s := range v {
			l = append(l, hex.EncodeToString([]byte(s)))
		}
		return map[string]any{"l": l}
	}
	return map[string]any{"other": fmt.Sprintf("%T", x)}
}

// c16Reference is the documented semantics written independently of the
// repository and of the Lean model: standard-library namesake, subject last.
func c16Reference(fn string, a []any) (res any, isErr bool, known bool) {
	defer func() {
		if r := recover(); r != nil {
			res, isErr, known = nil, true, true
		}
	}()
	str := func(i int) string { return a[i].(string) }
	num := func(i int) int { return a[i].(int) }
	last := len(a) - 1
	ints := func() []int {
		out := []int{}
		for _, x := range a {
			out = append(out, x.(int))
		}
		return out
	}
	switch fn {
	case "contains":
		return strings.Contains(str(last), str(0)), false, true
	case "hasPrefix":
		return strings.HasPrefix(str(last), str(0)), false, true
	case "hasSuffix":
		return strings.HasSuffix(str(last), str(0)), false, true
	case "join":
		return strings.Join(a[last].([]string), str(0)), false, true
	case "replace":
		return strings.Replace(str(last), str(0), str(1), num(2)), false, true
	case "replaceAll":
		return strings.ReplaceAll(str(last), str(0), str(1)), false, true
	case "split":
		return strings.Split(str(last), str(0)), false, true
	case "splitAfter":
		return strings.SplitAfter(str(last), str(0)), false, true
	case "splitAfterN":
		return strings.SplitAfterN(str(last), str(0), num(1)), false, true
	case "trim":
		return strings.Trim(str(last), str(0)), false, true
	case "trimLeft":
		return strings.TrimLeft(str(last), str(0)), false, true
	case "trimRight":
		return strings.TrimRight(str(last), str(0)), false, true
	case "trimPrefix":
		return strings.TrimPrefix(str(last), str(0)), false, true
	case "trimSuffix":
		return strings.TrimSuffix(str(last), str(0)), false, true
	case "trimSpace":
		return strings.TrimSpace(str(0)), false, true
	case "lower":
		return strings.ToLower(str(0)), false, true
	case "upper":
		return strings.ToUpper(str(0)), false, true
	case "quoteMeta":
		return regexp.QuoteMeta(str(0)), false, true
	case "base":
		return filepath.Base(str(0)), false, true
	case "clean":
		return filepath.Clean(str(0)), false, true
	case "dir":
		return filepath.Dir(str(0)), false, true
	case "firstIsLower":
		s := str(0)
		if s == "" {
			return false, false, true
		}
		r, _ := utf8.DecodeRuneInString(s)
		return unicode.IsLetter(r) && unicode.IsLower(r), false, true
	case "exported":
		s := str(0)
		if s == "" {
			return "", false, true
		}
		up := strings.ToUpper(s)
		for _, in := range []string{"ACL", "API", "ASCII", "CPU", "CSS", "DNS", "EOF", "GUID", "HTML", "HTTP", "HTTPS", "ID", "IP", "JSON", "LHS", "QPS", "RAM", "RHS", "RPC", "SLA", "SMTP", "SQL", "SSH", "TCP", "TLS", "TTL", "UDP", "UI", "UID", "UUID", "URI", "URL", "UTF8", "VM", "XML", "XMPP", "XSRF", "XSS"} {
			if up == in {
				return in, false, true
			}
		}
		r, size := utf8.DecodeRuneInString(s)
		if r == utf8.RuneError {
			return s, false, true
		}
		return string(unicode.ToUpper(r)) + s[size:], false, true
	case "firstUpper":
		s := str(0)
		r, size := utf8.DecodeRuneInString(s)
		if s == "" || !unicode.IsLower(r) {
			return s, false, true
		}
		return string(unicode.ToUpper(r)) + s[size:], false, true
	case "firstLower":
		s := str(0)
		r, size := utf8.DecodeRuneInString(s)
		if s == "" || !unicode.IsUpper(r) {
			return s, false, true
		}
		return string(unicode.ToLower(r)) + s[size:], false, true
	case "add", "sub", "mul", "div", "mod":
		xs := ints()
		if len(xs) == 0 {
			return nil, true, true
		}
		acc := xs[0]
		for _, x := range xs[1:] {
			switch fn {
			case "add":
				acc += x
			case "sub":
				acc -= x
			case "mul":
				acc *= x
			case "div":
				if x == 0 {
					return nil, true, true
				}
				acc /= x
			case "mod":
				if x == 0 {
					return nil, true, true
				}
				acc %= x
			}
		}
		return acc, false, true
	case "min":
		xs := ints()
		if len(xs) == 0 {
			return nil, true, true
		}
		m := xs[0]
		for _, x := range xs {
			if x < m {
				m = x
			}
		}
		return m, false, true
	case "incr":
		return num(0) + 1, false, true
	case "decr":
		return num(0) - 1, false, true
	}
	return nil, false, false
}

func (c16) Run(c *Ctx, raw json.RawMessage) (cs Case) {
	var in c16Input
	if err := json.Unmarshal(raw, &in); err != nil {
		return Case{Oracle: fail("bad-input", "%v", err)}
	}
	if in.Fn == "readFile" && in.History != nil {
		return c16ReadFileHistory(c, &in)
	}
	args := make([]any, len(in.Args))
	data := map[string]any{}
	call := in.Fn
	for i, v := range in.Args {
		x, err := c16Decode(v)
		if err != nil {
			return Case{Oracle: fail("bad-input", "%v", err)}
		}
		args[i] = x
		data[fmt.Sprintf("A%d", i)] = x
		call += fmt.Sprintf(" .A%d", i)
	}
	var got any
	haveGot := false
	fm := template.FuncMap{}
	for k, v := range template_funcs.FuncMap {
		fm[k] = v
	}
	fm["verifRecord"] = func(x any) string { got = x; haveGot = true; return "" }
	var impl any
	var implErr bool
	runPanic := ""
	func() {
		defer func() {
			if r := recover(); r != nil {
				runPanic = fmt.Sprint(r)
			}
		}()
		t, err := template.New("t").Funcs(fm).Parse("{{ $r := " + call + " }}{{ verifRecord $r }}")
		if err != nil {
			implErr = true
			return
		}
		var sb strings.Builder
		if err := t.Execute(&sb, data); err != nil {
			implErr = true
			return
		}
	}()
	tags := []string{"fn:" + in.Fn}
	if runPanic != "" {
		return Case{Impl: map[string]any{"panic": runPanic}, Oracle: fail("run-level-panic", "%s(%v) escaped the template engine: %s", in.Fn, args, runPanic), Tags: tags}
	}
	if implErr || !haveGot {
		impl = map[string]any{"err": "template"}
		tags = append(tags, "template-error")
	} else {
		impl = map[string]any{"ok": c16Encode(got)}
	}
	or := Oracle{OK: true}
	ref, refErr, known := c16Reference(in.Fn, args)
	nontrivial := false
	if known {
		var want any
		if refErr {
			want = map[string]any{"err": "template"}
		} else {
			want = map[string]any{"ok": c16Encode(ref)}
		}
		wb, _ := json.Marshal(want)
		ib, _ := json.Marshal(impl)
		if string(wb) != string(ib) {
			or = fail("differs-from-documented", "%s%v: documented semantics give %s, the library gives %s", in.Fn, args, wb, ib)
		}
		// non-trivial: some argument non-empty and the result is not just the subject returned unchanged
		for _, a := range args {
			switch v := a.(type) {
			case string:
				if v != "" {
					nontrivial = true
				}
			case int:
				nontrivial = true
			case []string:
				if len(v) > 0 {
					nontrivial = true
				}
			}
		}
		if s, ok := got.(string); ok && len(args) > 0 {
			if subj, ok2 := args[len(args)-1].(string); ok2 && s == subj {
				nontrivial = false
				tags = append(tags, "identity")
			}
		}
	}
	return Case{Impl: impl, Oracle: or, Nontrivial: nontrivial, Tags: tags}
}

// c16ReadFileHistory: readFile through the template engine after every change of the file
func c16ReadFileHistory(c *Ctx, in *c16Input) Case {
	dir, err := os.MkdirTemp(c.Work, "c16rf-")
	if err != nil {
		return Case{Oracle: fail("harness", "%v", err)}
	}
	defer os.RemoveAll(dir)
	path := filepath.Join(dir, "boilerplate.txt")
	tags := []string{"fn:readFile", "readFile-history"}
	or := Oracle{OK: true}
	var obs []string
	for step, h := range in.History {
		os.RemoveAll(path)
		var want string
		wantErr := false
		switch h {
		case "-":
			wantErr = true
		case "d":
			os.MkdirAll(path, 0o755)
			wantErr = true
		default:
			b, _ := hex.DecodeString(h)
			if err := os.WriteFile(path, b, 0o644); err != nil {
				return Case{Oracle: fail("harness", "%v", err)}
			}
			want = string(b)
		}
		var got string
		gotErr, panicked := false, ""
		func() {
			defer func() {
				if r := recover(); r != nil {
					panicked = fmt.Sprint(r)
				}
			}()
			t, err := template.New("t").Funcs(template_funcs.FuncMap).Parse("{{ readFile .P }}")
			if err != nil {
				gotErr = true
				return
			}
			var sb strings.Builder
			if err := t.Execute(&sb, map[string]any{"P": path}); err != nil {
				gotErr = true
				return
			}
			got = sb.String()
		}()
		if panicked != "" {
			return Case{Impl: map[string]any{"panic": panicked}, Oracle: fail("run-level-panic", "readFile escaped the template engine: %s", panicked), Tags: tags, NoModel: true}
		}
		if gotErr {
			obs = append(obs, "err")
		} else {
			obs = append(obs, hex.EncodeToString([]byte(got)))
		}
		if or.OK && (gotErr != wantErr || (!wantErr && got != want)) {
			or = fail("differs-from-documented", "readFile, step %d of the history %v: the file now holds %q (error expected: %v), readFile gave %q (error: %v)", step, in.History, want, wantErr, got, gotErr)
		}
	}
	return Case{Impl: map[string]any{"steps": obs}, Oracle: or, Nontrivial: len(in.History) >= 2, Tags: tags, NoModel: true}
}
