//go:build verif && !noc15

package main

import (
	"context"
	"os"
	"path/filepath"
	"encoding/json"
	"fmt"
	"go/types"
	"math/rand"
	"strings"

	"github.com/rs/zerolog"
	"github.com/vektra/mockery/v3/config"
	"github.com/vektra/mockery/v3/template"
)

// replacement types the loader can resolve anywhere: standard-library packages (two of them share a name)
var c15Replacements = [][3]string{{"time", "time", "Duration"}, {"io", "io", "Reader"}, {"template", "text/template", "Template"}, {"template", "html/template", "Template"}, {"url", "net/url", "URL"}}

// C15: allocator histories against template.Registry / template.MethodScope.

type c15Input struct {
	Dst   string  `json:"dst"`
	InPkg bool    `json:"inpkg"`
	// the package name the output file declares (SetDstPkgName); "" = not recorded
	DstName string `json:"dstName,omitempty"`
	Ops   [][]any `json:"ops"`
	// cli: the allocators as a template sees them at render time (a probe template over a generic interface)
	Cli *c15Cli `json:"cli,omitempty"`
}

type c15Cli struct {
	TypeParams []string `json:"typeParams"` // names of the interface's type parameters
	Params     []string `json:"params"`     // parameter names of the probed method
	Separate   bool     `json:"separate"`   // mocks in another package (the source package is then imported)
}

type c15 struct{}

func init() { register("C15", c15{}) }

func (c15) Generate(c *Ctx) []any {
	n := c.Budget(400, 4000)
	maxLen := c.Budget(200, 5000)
	if c.N > 0 {
		maxLen = 200
	}
	var out []any
	for i := 0; i < c.Budget(6, 30); i++ {
		// (upper-case names: lower-case type parameters are the open finding C01-K2 / C14-K2)
		tps := [][]string{{"T"}, {"Key", "Val"}, {"K", "V"}, {"ID", "E"}}[i%4]
		out = append(out, c15Input{Dst: "example.com/dst", Cli: &c15Cli{TypeParams: tps, Params: pick(c.Rng, [][]string{{"k", "v"}, {"key", "Val"}, {"x", "http"}, {"T1", "ctx"}}), Separate: i%2 == 0}})
	}
	for i := 0; i < n; i++ {
		l := 1 + c.Rng.Intn(maxLen)
		if i%10 != 0 { // most histories short, some long
			l = 1 + c.Rng.Intn(40)
		}
		out = append(out, genC15(c.Rng, l))
	}
	return out
}

func genC15(r *rand.Rand, n int) c15Input {
	pkgNames := []string{"http", "http0", "http1", "mock", "a", "b", "foo", "foo0", "é", "x_y", "dst", "dst"}
	pathPool := []string{"net/http", "x/http", "y/http", "z/http0", "q/http1", "example.com/m/foo", "example.com/m/foo/v2", "a", "b", "ä/b", "a/b", "a-b", "a.b/c", "example.com/dst", "example.com/dst"}
	// (Go keywords and the spellings a generator might derive from them are names like any other to the allocator)
	prefixes := []string{"a", "a1", "a2", "r", "ret", "http", "http0", "_", "x", "é", "", "1", "a10", "a01", "type", "typeParam", "range", "rangeParam", "func", "type1"}
	in := c15Input{Dst: "example.com/dst", InPkg: r.Intn(2) == 0, DstName: pick(r, []string{"", "dst", "dst", "dst_test", "http"})}
	scopes := 0
	// a small pool per history makes collisions frequent
	np := 1 + r.Intn(len(prefixes))
	pp := make([]string, np)
	for i := range pp {
		pp[i] = pick(r, prefixes)
	}
	name := func() string {
		s := pick(r, pp)
		switch r.Intn(6) {
		case 0:
			return s + fmt.Sprint(r.Intn(4))
		case 1:
			return pick(r, pkgNames)
		}
		return s
	}
	replBudget := 0
	if r.Intn(8) == 0 {
		replBudget = 2 // the loader is slow: a few histories, a few replaced variables each
	}
	for i := 0; i < n; i++ {
		switch k := r.Intn(12); {
		case k < 3:
			in.Ops = append(in.Ops, []any{"imp", pick(r, pkgNames), pick(r, pathPool)})
		case k == 3:
			in.Ops = append(in.Ops, []any{"imports"})
		case k == 4:
			in.Ops = append(in.Ops, []any{"pkgq", pick(r, pathPool)})
		case k == 5 || scopes == 0:
			in.Ops = append(in.Ops, []any{"newscope"})
			scopes++
		case k < 9:
			in.Ops = append(in.Ops, []any{"alloc", r.Intn(scopes), name()})
		case k == 9:
			in.Ops = append(in.Ops, []any{"suggest", r.Intn(scopes), name()})
		case k == 10 && r.Intn(4) == 0:
			// a variable of a predeclared named type (`error`, `any`, `comparable`): no import, but the type name is a
			// name of the scope like any other; the variable may itself be called like the type
			tn := pick(r, []string{"error", "any", "comparable"})
			vn := varNameOf(name())
			if r.Intn(2) == 0 {
				vn = tn
			}
			in.Ops = append(in.Ops, []any{"addvar", r.Intn(scopes), vn, "", "", tn, false})
		case k == 10 && r.Intn(2) == 0:
			// a variable of a named type: AddVar registers the import and makes qualifier and type string visible
			in.Ops = append(in.Ops, []any{"addvar", r.Intn(scopes), varNameOf(name()), pick(r, pkgNames), pick(r, pathPool), pick(r, []string{"T", "Client", "http"}), false})
		case k == 10 && replBudget > 0 && r.Intn(3) == 0:
			// a variable whose type is replaced (replace-type): only the replacement's package is imported
			replBudget--
			rp := c15Replacements[r.Intn(len(c15Replacements))]
			in.Ops = append(in.Ops, []any{"addvar", r.Intn(scopes), varNameOf(name()), rp[0], rp[1], rp[2], true})
		case k == 10:
			in.Ops = append(in.Ops, []any{"add", r.Intn(scopes), name()})
		default:
			in.Ops = append(in.Ops, []any{"exists", r.Intn(scopes), name()})
		}
	}
	return in
}

func (c15) Run(c *Ctx, raw json.RawMessage) Case {
	var in c15Input
	if err := json.Unmarshal(raw, &in); err != nil {
		return Case{Oracle: fail("bad-input", "%v", err)}
	}
	if in.Cli != nil {
		return c15RunCli(c, &in)
	}
	reg, _ := template.NewRegistry(nil, in.Dst, in.InPkg)
	if in.DstName != "" {
		reg.SetDstPkgName(in.DstName)
	}
	var scopes []*template.MethodScope
	outs := []string{}

	// oracle bookkeeping (independent of the Lean model)
	or := Oracle{OK: true}
	bad := func(class, f string, a ...any) {
		if or.OK {
			or = fail(class, f, a...)
		}
	}
	qualOfPath := map[string]string{}
	pathOfQual := map[string]string{}
	type scopeTrack struct {
		seen     map[string]bool // names known to be visible: initial qualifiers, added, allocated, reported existing
		notYet   map[string]bool
	}
	var tracks []*scopeTrack
	tags := map[string]bool{}

	str := func(x any) string { s, _ := x.(string); return s }
	idx := func(x any) int { f, _ := x.(float64); return int(f) }

	for _, op := range in.Ops {
		switch str(op[0]) {
		case "imp":
			name, path := str(op[1]), str(op[2])
			p := reg.AddImport(name, path)
			if p == nil {
				outs = append(outs, "<nil>")
				// nil: the package the output file itself belongs to (in-package, or a mock written into a third package
				// whose name the file declares)
				if !(path == in.Dst && (in.InPkg || (in.DstName != "" && name == in.DstName))) {
					bad("nil-import", "AddImport(%q,%q) returned nil", name, path)
				}
				break
			}
			q := p.Qualifier()
			outs = append(outs, q)
			if path == in.Dst && (in.InPkg || (in.DstName != "" && name == in.DstName)) {
				bad("self-import", "destination package imported into itself")
			}
			if prev, ok := qualOfPath[path]; ok {
				if prev != q {
					bad("qualifier-changed", "path %q: qualifier %q then %q", path, prev, q)
				}
			} else {
				if other, ok := pathOfQual[q]; ok && other != path {
					bad("qualifier-shared", "qualifier %q for %q and %q", q, other, path)
				}
				qualOfPath[path] = q
				pathOfQual[q] = path
				if q != name {
					tags["alias"] = true
				}
			}
		case "imports":
			imps := reg.Imports()
			parts := []string{}
			seen := map[string]bool{}
			for i, p := range imps {
				parts = append(parts, p.Path()+"="+p.Qualifier()+"="+p.Alias)
				if i > 0 && !(imps[i-1].Path() < p.Path()) {
					bad("imports-unsorted", "imports not strictly sorted: %q before %q", imps[i-1].Path(), p.Path())
				}
				if seen[p.Path()] {
					bad("imports-dup", "path %q twice", p.Path())
				}
				seen[p.Path()] = true
				if qualOfPath[p.Path()] != p.Qualifier() {
					bad("imports-qualifier", "listing gives %q for %q, AddImport gave %q", p.Qualifier(), p.Path(), qualOfPath[p.Path()])
				}
			}
			if len(imps) != len(qualOfPath) {
				bad("imports-incomplete", "listing has %d entries, %d paths were added", len(imps), len(qualOfPath))
			}
			outs = append(outs, strings.Join(parts, ";"))
		case "pkgq":
			q, err := reg.Imports().PkgQualifier(str(op[1]))
			if err != nil {
				outs = append(outs, "<err>")
				if _, ok := qualOfPath[str(op[1])]; ok {
					bad("pkgq-missing", "PkgQualifier(%q) failed for an added path", str(op[1]))
				}
			} else {
				outs = append(outs, q)
				if qualOfPath[str(op[1])] != q {
					bad("pkgq-differs", "PkgQualifier(%q)=%q, AddImport gave %q", str(op[1]), q, qualOfPath[str(op[1])])
				}
			}
		case "addvar":
			k := idx(op[1])
			if k >= len(scopes) {
				outs = append(outs, "<noscope>")
				break
			}
			sc, t := scopes[k], tracks[k]
			vname, pname, ppath, tname := str(op[2]), str(op[3]), str(op[4]), str(op[5])
			replaced, _ := op[6].(bool)
			ctx := zerolog.Nop().WithContext(context.Background())
			var vr *types.Var
			var repl *config.ReplaceType
			if replaced {
				vr = types.NewVar(0, nil, vname, types.Typ[types.Int])
				repl = &config.ReplaceType{PkgPath: ppath, TypeName: tname}
				tags["addvar-replaced"] = true
			} else if ppath == "" {
				vr = types.NewVar(0, nil, vname, types.Universe.Lookup(tname).Type())
				tags["addvar-universe"] = true
			} else {
				vr = types.NewVar(0, nil, vname, types.NewNamed(types.NewTypeName(0, types.NewPackage(ppath, pname), tname, nil), types.Typ[types.Int], nil))
				tags["addvar"] = true
			}
			v, err := sc.AddVar(ctx, vr, "", repl)
			if err != nil {
				outs = append(outs, "<err>")
				bad("addvar-failed", "AddVar(%s %s.%s, replaced=%v): %v", vname, ppath, tname, replaced, err)
				break
			}
			outs = append(outs, v.Name+"|"+v.TypeString())
			if t.seen[v.Name] {
				bad("suggest-collision", "AddVar named the variable %q, which was already visible", v.Name)
			}
			self := ppath == in.Dst && (in.InPkg || (in.DstName != "" && pname == in.DstName))
			if ppath == "" {
				// the bare type name is used in the signature: it has to be a visible name from now on
				if !sc.NameExists(tname) {
					bad("type-name-not-visible", "AddVar of a variable of type %s: %q is not a visible name of the scope afterwards, a later name (or this variable's) may capture it", tname, tname)
				}
				if v.Name == tname {
					bad("suggest-collision", "AddVar named the variable %q like its own type", v.Name)
				}
				t.seen[tname] = true
				break
			}
			q, qerr := reg.Imports().PkgQualifier(ppath)
			switch {
			case self:
			case qerr != nil:
				bad("import-missing", "AddVar of a %s.%s variable did not register the import", ppath, tname)
			default:
				if !sc.NameExists(q) {
					bad("import-not-visible", "AddVar imported %q as %q but that qualifier is not a visible name of the scope: a later name may capture it", ppath, q)
				}
				t.seen[q] = true
				if prev, ok := qualOfPath[ppath]; ok {
					if prev != q {
						bad("qualifier-changed", "path %q: qualifier %q then %q", ppath, prev, q)
					}
				} else {
					if other, ok := pathOfQual[q]; ok && other != ppath {
						bad("qualifier-shared", "qualifier %q for %q and %q", q, other, ppath)
					}
					qualOfPath[ppath] = q
					pathOfQual[q] = ppath
				}
			}
		case "newscope":
			scopes = append(scopes, reg.MethodScope())
			t := &scopeTrack{seen: map[string]bool{}, notYet: map[string]bool{}}
			for q := range pathOfQual {
				t.seen[q] = true
			}
			tracks = append(tracks, t)
			outs = append(outs, fmt.Sprint(len(scopes)-1))
		case "alloc", "suggest", "add", "exists":
			k := idx(op[1])
			if k >= len(scopes) {
				outs = append(outs, "<noscope>")
				break
			}
			sc, t := scopes[k], tracks[k]
			arg := str(op[2])
			switch str(op[0]) {
			case "alloc":
				res := sc.AllocateName(arg)
				outs = append(outs, res)
				if t.seen[res] {
					bad("alloc-collision", "AllocateName(%q) returned %q which was already visible", arg, res)
				}
				if res != arg {
					tags["suffix"] = true
				}
				t.seen[res] = true
			case "suggest":
				res := sc.SuggestName(arg)
				outs = append(outs, res)
				if t.seen[res] {
					bad("suggest-collision", "SuggestName(%q) returned visible name %q", arg, res)
				}
				if sc.NameExists(res) {
					bad("suggest-effect", "SuggestName(%q) made %q exist", arg, res)
				}
				if res != arg {
					tags["suffix"] = true
				}
			case "add":
				sc.AddName(arg)
				t.seen[arg] = true
				outs = append(outs, "")
			case "exists":
				ex := sc.NameExists(arg)
				if ex {
					outs = append(outs, "true")
					t.seen[arg] = true
				} else {
					outs = append(outs, "false")
					if t.seen[arg] {
						bad("exists-not-monotone", "%q was visible and is now reported missing", arg)
					}
				}
			}
		}
	}
	var tl []string
	for k := range tags {
		tl = append(tl, k)
	}
	return Case{Impl: outs, Oracle: or, Nontrivial: tags["alias"] || tags["suffix"], Tags: tl}
}

// a declared variable has a name other than the blank identifier (unnamed ones get a name derived from their type)
func varNameOf(n string) string {
	if n == "" || n == "_" {
		return "arg"
	}
	return n
}

const c15Probe = "// Code generated by probe. DO NOT EDIT.\npackage {{.PkgName}}\n{{range $i := .Interfaces}}{{range $m := $i.Methods}}" +
	"{{range $i.TypeParams}}TP\x1f{{$m.Name}}\x1f{{.Name}}\x1f{{$m.Scope.NameExists .Name}}\x1f{{$m.Scope.SuggestName .Name}}\x1f{{$m.Scope.AllocateName .Name}}\n{{end}}" +
	"{{range $.Imports}}IMP\x1f{{$m.Name}}\x1f{{.Qualifier}}\x1f{{$m.Scope.NameExists .Qualifier}}\x1f{{$m.Scope.SuggestName .Qualifier}}\x1f{{$m.Scope.AllocateName .Qualifier}}\n{{end}}" +
	"{{range $m.Params}}PAR\x1f{{$m.Name}}\x1f{{.Var.Name}}\x1f{{$m.Scope.NameExists .Var.Name}}\x1f{{$m.Scope.SuggestName .Var.Name}}\x1f{{$m.Scope.AllocateName .Var.Name}}\n{{end}}" +
	"{{end}}{{end}}"

// c15RunCli: what a template sees when it asks the scope at render time. Every name that is declared where the
// method's code will stand – the type parameters of the receiver, the import qualifiers of the file, the
// parameters – exists, and neither a suggestion nor an allocation returns it.
func c15RunCli(c *Ctx, in *c15Input) Case {
	dir, err := os.MkdirTemp(c.Work, "c15-")
	if err != nil {
		return Case{Oracle: fail("harness", "%v", err)}
	}
	defer os.RemoveAll(dir)
	cl := in.Cli
	var tps, targs []string
	for i, tp := range cl.TypeParams {
		tps = append(tps, tp+" "+[]string{"comparable", "any"}[i%2])
		targs = append(targs, tp)
	}
	var ps []string
	for i, p := range cl.Params {
		ps = append(ps, p+" "+[]string{targs[0], "*http.Request", targs[len(targs)-1], "string"}[i%4])
	}
	src := fmt.Sprintf("package store\n\nimport \"net/http\"\n\nvar _ http.Request\n\ntype Cache[%s] interface {\n\tGet(%s) (%s, bool)\n\tPut(%s) error\n}\n",
		strings.Join(tps, ", "), strings.Join(ps, ", "), targs[len(targs)-1], strings.Join(ps, ", "))
	cfg := "template: file://" + filepath.Join(dir, "probe.templ") + "\nrequire-template-schema-exists: false\nformatter: noop\nforce-file-write: true\nfilename: scope_probe.txt\n"
	if cl.Separate {
		cfg += "dir: " + filepath.Join(dir, "mocks") + "\npkgname: mocks\n"
	}
	cfg += "packages:\n  example.com/m/store:\n    interfaces:\n      Cache:\n"
	files := map[string]string{"go.mod": goModText, "store/store.go": src, "probe.templ": c15Probe, ".mockery.yml": cfg}
	if err := writeFiles(dir, files); err != nil {
		return Case{Oracle: fail("harness", "%v", err)}
	}
	tags := []string{"cli-render-time"}
	if out, err := runGo(dir, "build", "./..."); err != nil {
		return Case{Oracle: fail("harness-source", "generated source does not compile: %s", lastLines(out, 4)), NoModel: true, Tags: tags}
	}
	res := c.runMockery(dir, nil, nil)
	if res.Exit != 0 {
		return Case{Impl: map[string]any{"exit": res.Exit}, Oracle: fail("mockery-failed", "%s %s", formatErrLine(res), lastLines(res.Stderr, 2)), NoModel: true, Tags: tags}
	}
	outPath := filepath.Join(dir, "store", "scope_probe.txt")
	if cl.Separate {
		outPath = filepath.Join(dir, "mocks", "scope_probe.txt")
	}
	b, err := os.ReadFile(outPath)
	if err != nil {
		return Case{Oracle: fail("no-output", "%v", err), NoModel: true, Tags: tags}
	}
	or := Oracle{OK: true}
	lines := 0
	// per method: names declared around the method's code
	declared := map[string]map[string]bool{}
	type row struct{ kind, method, name, exists, suggest, alloc string }
	var rows []row
	for _, l := range strings.Split(string(b), "\n") {
		f := strings.Split(l, "\x1f")
		if len(f) != 6 {
			continue
		}
		lines++
		rows = append(rows, row{f[0], f[1], f[2], f[3], f[4], f[5]})
		if declared[f[1]] == nil {
			declared[f[1]] = map[string]bool{}
		}
		declared[f[1]][f[2]] = true
	}
	for _, r := range rows {
		if !or.OK {
			break
		}
		what := map[string]string{"TP": "type parameter of the receiver", "IMP": "import qualifier of the file", "PAR": "parameter"}[r.kind]
		switch {
		case r.exists != "true":
			or = fail("declared-name-not-visible", "method %s, at render time: NameExists %q is %s, but %q is a %s", r.method, r.name, r.exists, r.name, what)
		case declared[r.method][r.suggest]:
			or = fail("suggest-collision", "method %s, at render time: SuggestName %q returned %q, which is declared around the method (%s)", r.method, r.name, r.suggest, what)
		case declared[r.method][r.alloc]:
			or = fail("alloc-collision", "method %s, at render time: AllocateName %q returned %q, which is declared around the method (%s)", r.method, r.name, r.alloc, what)
		}
	}
	if lines == 0 {
		or = fail("no-output", "the probe printed nothing")
	}
	return Case{Impl: map[string]any{"rows": lines}, Oracle: or, Nontrivial: true, NoModel: true, Tags: tags}
}
