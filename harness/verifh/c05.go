//go:build verif

package main

import (
	"encoding/json"
	"fmt"
	"os"
	"path/filepath"
	"regexp"
	"strings"
)

// C05 (H-conc): a freshly generated mock is driven by several goroutines that execute explicit
// operation lists (method calls with unique arguments, Calls() reads, resets) under the race
// detector; the same operation lists are run through the Lean model's executable interleaving
// semantics, built from the regenerated lock/access sequences of the template.

type ConcOp struct {
	Op string `json:"op"` // call | calls | reset | resetAll
	M  int    `json:"m"`
	X  int    `json:"x"`
}

type c05Input struct {
	Template   string     `json:"template"`
	Methods    []string   `json:"methods"` // method names; every method is M(id int, tag string) [results]
	Results    bool       `json:"results"` // methods return (int, error)
	WithResets bool       `json:"withResets"`
	StubImpl   bool       `json:"stubImpl"`
	// testify: every method is M(id int, parts ...string) (int, error); the typed Run / RunAndReturn callbacks
	// check that all parts belong to their own call
	Variadic bool   `json:"variadic,omitempty"`
	Unroll   string `json:"unroll,omitempty"` // unset | true | false
	// one expectation per method, registered up front with a Run callback, serves the calls of all goroutines
	Shared bool `json:"shared,omitempty"`
	// testify, unroll-variadic: true: every method is M(fields ...interface{}) (sole) or M(id int, fields ...any)
	// (fixed); every goroutine passes one reused buffer (`m.M(buf...)`) and refills it for the next call, a reader
	// goes through the record with testify's own locked API meanwhile: the record must not alias the callers' memory
	Buffer string `json:"buffer,omitempty"`
	Threads    [][]ConcOp `json:"threads"`
	Seed       int        `json:"seed"`
}

type c05 struct{}

func init() { register("C05", c05{}) }

func (c05) Generate(c *Ctx) []any {
	var out []any
	n := c.Budget(12, 60)
	for i := 0; i < n; i++ {
		in := c05Input{Template: "matryer", Seed: c.Rng.Intn(1 << 30), Results: c.Rng.Intn(2) == 0}
		if i%4 == 3 {
			in.Template = "testify"
			in.Results = true
			switch (i / 4) % 3 {
			case 0:
				in.Variadic, in.Unroll, in.Shared = true, "true", true
			case 1:
				in.Variadic, in.Unroll, in.Shared = true, pick(c.Rng, []string{"unset", "false"}), c.Rng.Intn(2) == 0
			}
		}
		nm := 1 + c.Rng.Intn(3)
		in.Methods = []string{"Put", "Get", "Del"}[:nm]
		kind := i % 5 // 0,1: calls only; 2: calls + readers; 3: calls + readers + resets
		in.WithResets = kind == 3 || c.Rng.Intn(3) == 0
		in.StubImpl = in.Template == "matryer" && c.Rng.Intn(3) == 0
		g := 2 + c.Rng.Intn(5)
		k := 40 + c.Rng.Intn(c.Budget(80, 300))
		id := 0
		for t := 0; t < g; t++ {
			var ops []ConcOp
			for j := 0; j < k; j++ {
				id++
				ops = append(ops, ConcOp{Op: "call", M: c.Rng.Intn(nm), X: id})
			}
			in.Threads = append(in.Threads, ops)
		}
		if in.Template == "matryer" && kind >= 2 {
			for r := 0; r < 1+c.Rng.Intn(2); r++ {
				var ops []ConcOp
				for j := 0; j < k/2; j++ {
					ops = append(ops, ConcOp{Op: "calls", M: c.Rng.Intn(nm)})
				}
				in.Threads = append(in.Threads, ops)
			}
		}
		if in.Template == "matryer" && kind == 3 {
			var ops []ConcOp
			for j := 0; j < k/4; j++ {
				if c.Rng.Intn(3) == 0 {
					ops = append(ops, ConcOp{Op: "resetAll"})
				} else {
					ops = append(ops, ConcOp{Op: "reset", M: c.Rng.Intn(nm)})
				}
			}
			in.Threads = append(in.Threads, ops)
		}
		out = append(out, in)
	}
	for i := 0; i < c.Budget(2, 8); i++ {
		in := c05Input{Template: "testify", Seed: c.Rng.Intn(1 << 30), Results: true, Unroll: "true", Buffer: []string{"sole", "fixed"}[i%2]}
		nm := 1 + c.Rng.Intn(2)
		in.Methods = []string{"Put", "Get"}[:nm]
		id := 0
		for t := 0; t < 3+c.Rng.Intn(4); t++ {
			var ops []ConcOp
			for j := 0; j < 150; j++ {
				id++
				ops = append(ops, ConcOp{Op: "call", M: c.Rng.Intn(nm), X: id})
			}
			in.Threads = append(in.Threads, ops)
		}
		out = append(out, in)
	}
	return out
}

var reRecorded = regexp.MustCompile(`(?m)^RESULT (.*)$`)

func (c05) Run(c *Ctx, raw json.RawMessage) Case {
	var in c05Input
	if err := json.Unmarshal(raw, &in); err != nil {
		return Case{Oracle: fail("bad-input", "%v", err)}
	}
	dir, err := os.MkdirTemp(c.Work, "c05-")
	if err != nil {
		return Case{Oracle: fail("harness", "%v", err)}
	}
	defer os.RemoveAll(dir)
	var src strings.Builder
	src.WriteString("package store\n\ntype Store interface {\n")
	for _, m := range in.Methods {
		if in.Buffer == "sole" {
			fmt.Fprintf(&src, "\t%s(fields ...interface{}) (int, error)\n", m)
		} else if in.Buffer == "fixed" {
			fmt.Fprintf(&src, "\t%s(id int, fields ...any) (int, error)\n", m)
		} else if in.Variadic {
			fmt.Fprintf(&src, "\t%s(id int, parts ...string) (int, error)\n", m)
		} else if in.Results {
			fmt.Fprintf(&src, "\t%s(id int, tag string) (int, error)\n", m)
		} else {
			fmt.Fprintf(&src, "\t%s(id int, tag string)\n", m)
		}
	}
	if in.Template == "matryer" {
		// methods without parameters (their records carry nothing) next to the others
		src.WriteString("\tTick()\n\tTock() int\n")
	}
	src.WriteString("}\n")
	files := map[string]string{
		"go.mod":         goModText + "\nrequire github.com/stretchr/testify v1.10.0\n\nrequire (\n\tgithub.com/davecgh/go-spew v1.1.1 // indirect\n\tgithub.com/pmezard/go-difflib v1.0.0 // indirect\n\tgithub.com/stretchr/objx v0.5.2 // indirect\n\tgopkg.in/yaml.v3 v3.0.1 // indirect\n)\n",
		"store/store.go": src.String(),
	}
	if b, err := os.ReadFile(filepath.Join(c.Src, "go.sum")); err == nil {
		files["go.sum"] = string(b)
	}
	var cfg strings.Builder
	fmt.Fprintf(&cfg, "template: %s\nformatter: gofmt\nforce-file-write: true\nfilename: mocks_test.go\n", in.Template)
	if in.Template == "matryer" {
		fmt.Fprintf(&cfg, "template-data:\n  with-resets: %v\n  stub-impl: %v\n", in.WithResets, in.StubImpl)
	}
	if in.Template == "testify" && (in.Unroll == "true" || in.Unroll == "false") {
		fmt.Fprintf(&cfg, "template-data:\n  unroll-variadic: %s\n", in.Unroll)
	}
	cfg.WriteString("packages:\n  example.com/m/store:\n    interfaces:\n      Store:\n")
	files[".mockery.yml"] = cfg.String()

	// the stress driver
	var t strings.Builder
	t.WriteString("package store\n\nimport (\n\t\"fmt\"\n\t\"sort\"\n\t\"strconv\"\n\t\"sync\"\n\t\"sync/atomic\"\n\t\"testing\"\n")
	if in.Template == "testify" {
		t.WriteString("\t\"github.com/stretchr/testify/mock\"\n")
	}
	t.WriteString(")\n\nvar _ = sort.Ints\nvar _ = strconv.Itoa\nvar _ atomic.Int64\n\ntype cop struct{ op, m, x int }\n\nvar threads = [][]cop{\n")
	opCode := map[string]int{"call": 0, "calls": 1, "reset": 2, "resetAll": 3}
	total := make([]int, len(in.Methods))
	sums := make([]int, len(in.Methods))
	hasReset := false
	for _, th := range in.Threads {
		t.WriteString("\t{")
		for _, o := range th {
			fmt.Fprintf(&t, "{%d,%d,%d},", opCode[o.Op], o.M, o.X)
			if o.Op == "call" {
				total[o.M]++
				sums[o.M] += o.X
			}
			if o.Op == "reset" || o.Op == "resetAll" {
				hasReset = true
			}
		}
		t.WriteString("},\n")
	}
	t.WriteString("}\n\n")
	if in.Template == "matryer" {
		t.WriteString("func TestStress(t *testing.T) {\n\tvar bad atomic.Int64\n\tm := &MockStore{}\n")
		if !in.StubImpl {
			for _, mn := range in.Methods {
				if in.Results {
					fmt.Fprintf(&t, "\tm.%sFunc = func(id int, tag string) (int, error) { return id, nil }\n", mn)
				} else {
					fmt.Fprintf(&t, "\tm.%sFunc = func(id int, tag string) {}\n", mn)
				}
			}
		}
		if !in.StubImpl {
			t.WriteString("\tm.TickFunc = func() {}\n\tm.TockFunc = func() int { return 1 }\n")
		}
		t.WriteString("\tvar ticks atomic.Int64\n")
		t.WriteString("\tcheck := func(ids []int, tags []string) {\n\t\tseen := map[int]bool{}\n\t\tfor i, id := range ids {\n\t\t\tif seen[id] || strconv.Itoa(id) != tags[i] { bad.Add(1) }\n\t\t\tseen[id] = true\n\t\t}\n\t}\n")
		t.WriteString("\tsnapshot := func(mi int) ([]int, []string) {\n\t\tvar ids []int\n\t\tvar tags []string\n\t\tswitch mi {\n")
		for i, mn := range in.Methods {
			fmt.Fprintf(&t, "\t\tcase %d:\n\t\t\tfor _, c := range m.%sCalls() { ids = append(ids, c.ID); tags = append(tags, c.Tag) }\n", i, mn)
		}
		t.WriteString("\t\t}\n\t\treturn ids, tags\n\t}\n")
		t.WriteString("\tvar wg sync.WaitGroup\n\tstart := make(chan struct{})\n\tfor _, ops := range threads {\n\t\twg.Add(1)\n\t\tgo func(ops []cop) {\n\t\t\tdefer wg.Done()\n\t\t\t<-start\n\t\t\tfor _, o := range ops {\n\t\t\t\tswitch o.op {\n\t\t\t\tcase 0:\n\t\t\t\t\tswitch o.m {\n")
		for i, mn := range in.Methods {
			if in.Results {
				fmt.Fprintf(&t, "\t\t\t\t\tcase %d:\n\t\t\t\t\t\tr, _ := m.%s(o.x, strconv.Itoa(o.x))\n\t\t\t\t\t\tif r != o.x && %v { bad.Add(1) }\n", i, mn, !in.StubImpl)
			} else {
				fmt.Fprintf(&t, "\t\t\t\t\tcase %d:\n\t\t\t\t\t\tm.%s(o.x, strconv.Itoa(o.x))\n", i, mn)
			}
		}
		t.WriteString("\t\t\t\t\t}\n\t\t\t\t\tif o.x%3 == 0 {\n\t\t\t\t\t\tm.Tick()\n\t\t\t\t\t\t_ = m.Tock()\n\t\t\t\t\t\tticks.Add(1)\n\t\t\t\t\t}\n\t\t\t\tcase 1:\n\t\t\t\t\tcheck(snapshot(o.m))\n\t\t\t\t\t_ = len(m.TickCalls()) + len(m.TockCalls())\n")
		if in.WithResets {
			t.WriteString("\t\t\t\tcase 2:\n\t\t\t\t\tswitch o.m {\n")
			for i, mn := range in.Methods {
				fmt.Fprintf(&t, "\t\t\t\t\tcase %d:\n\t\t\t\t\t\tm.Reset%sCalls()\n", i, mn)
			}
			t.WriteString("\t\t\t\t\t}\n\t\t\t\tcase 3:\n\t\t\t\t\tm.ResetCalls()\n")
		}
		t.WriteString("\t\t\t\t}\n\t\t\t}\n\t\t}(ops)\n\t}\n\tclose(start)\n\twg.Wait()\n")
		fmt.Fprintf(&t, "\tcounts := make([]int, %d)\n\tsums := make([]int, %d)\n\tfor mi := range counts {\n\t\tids, tags := snapshot(mi)\n\t\tcheck(ids, tags)\n\t\tcounts[mi] = len(ids)\n\t\tfor _, id := range ids { sums[mi] += id }\n\t}\n", len(in.Methods), len(in.Methods))
		if !hasReset {
			t.WriteString("\tif int64(len(m.TickCalls())) != ticks.Load() || int64(len(m.TockCalls())) != ticks.Load() { bad.Add(1) }\n")
		} else {
			t.WriteString("\tif int64(len(m.TickCalls())) > ticks.Load() || int64(len(m.TockCalls())) > ticks.Load() { bad.Add(1) }\n")
		}
		t.WriteString("\tfmt.Printf(\"RESULT {\\\"counts\\\":%s,\\\"sums\\\":%s,\\\"bad\\\":%d}\\n\", js(counts), js(sums), bad.Load())\n}\n\n")
		t.WriteString("func js(xs []int) string {\n\ts := \"[\"\n\tfor i, x := range xs {\n\t\tif i > 0 { s += \",\" }\n\t\ts += strconv.Itoa(x)\n\t}\n\treturn s + \"]\"\n}\n")
	} else if in.Buffer != "" {
		t.WriteString("type quietT struct{}\n\nfunc (quietT) Logf(string, ...interface{})   {}\nfunc (quietT) Errorf(string, ...interface{}) {}\nfunc (quietT) FailNow()                      {}\n\n")
		t.WriteString("func TestStress(t *testing.T) {\n\tvar bad atomic.Int64\n\tm := NewMockStore(t)\n\t_ = sort.Ints\n")
		matchers, call := "mock.Anything, mock.Anything, mock.Anything", "buf..."
		if in.Buffer == "fixed" {
			matchers, call = "mock.Anything, "+matchers, "o.x, buf..."
		}
		for _, mn := range in.Methods {
			fmt.Fprintf(&t, "\tm.EXPECT().%s(%s).Return(0, nil)\n", mn, matchers)
		}
		t.WriteString("\tvar wg, rg sync.WaitGroup\n\tstart, done := make(chan struct{}), make(chan struct{})\n\tfor _, ops := range threads {\n\t\twg.Add(1)\n\t\tgo func(ops []cop) {\n\t\t\tdefer wg.Done()\n\t\t\t<-start\n\t\t\tbuf := make([]interface{}, 3)\n\t\t\tfor _, o := range ops {\n\t\t\t\tfor i := range buf { buf[i] = o.x }\n\t\t\t\tswitch o.m {\n")
		for i, mn := range in.Methods {
			fmt.Fprintf(&t, "\t\t\t\tcase %d:\n\t\t\t\t\tr, err := m.%s(%s)\n\t\t\t\t\tif r != 0 || err != nil { bad.Add(1) }\n", i, mn, call)
		}
		t.WriteString("\t\t\t\t}\n\t\t\t}\n\t\t}(ops)\n\t}\n")
		// the reader: testify's own assertion API, which goes through every record's arguments under testify's lock
		fmt.Fprintf(&t, "\trg.Add(1)\n\tgo func() {\n\t\tdefer rg.Done()\n\t\t<-start\n\t\tfor {\n\t\t\tselect {\n\t\t\tcase <-done:\n\t\t\t\treturn\n\t\t\tdefault:\n\t\t\t\tm.AssertNotCalled(quietT{}, %q, -1, -1, -1, -1)\n\t\t\t}\n\t\t}\n\t}()\n", in.Methods[0])
		t.WriteString("\tclose(start)\n\twg.Wait()\n\tclose(done)\n\trg.Wait()\n")
		// afterwards: every record holds the three equal values of one call, no call twice
		t.WriteString("\tseen := map[int]bool{}\n\tfor _, c := range m.Calls {\n\t\ta := c.Arguments\n\t\tif len(a) < 3 { bad.Add(1); continue }\n\t\tx, ok := a[len(a)-1].(int)\n\t\tfor _, v := range a { if vi, ok2 := v.(int); !ok2 || vi != x { ok = false } }\n\t\tif !ok || seen[x] { bad.Add(1) }\n\t\tseen[x] = true\n\t}\n")
		fmt.Fprintf(&t, "\tcounts := make([]int, %d)\n", len(in.Methods))
		for i, mn := range in.Methods {
			fmt.Fprintf(&t, "\tfor _, c := range m.Calls { if c.Method == %q { counts[%d]++ } }\n", mn, i)
		}
		t.WriteString("\tfmt.Printf(\"RESULT {\\\"counts\\\":%s,\\\"bad\\\":%d}\\n\", js(counts), bad.Load())\n}\n\n")
		t.WriteString("func js(xs []int) string {\n\ts := \"[\"\n\tfor i, x := range xs {\n\t\tif i > 0 { s += \",\" }\n\t\ts += strconv.Itoa(x)\n\t}\n\treturn s + \"]\"\n}\n")
	} else {
		t.WriteString("func TestStress(t *testing.T) {\n\tvar bad atomic.Int64\n\tm := NewMockStore(t)\n")
		// every goroutine registers its own expectation (through EXPECT()) right before each call
		t.WriteString("\t_ = mock.Anything\n")
		if in.Variadic && in.Shared {
			matchers := "mock.Anything, mock.Anything"
			if in.Unroll == "true" {
				matchers = "mock.Anything, mock.Anything, mock.Anything, mock.Anything"
			}
			for _, mn := range in.Methods {
				fmt.Fprintf(&t, "\tm.EXPECT().%s(%s).Run(func(id int, parts ...string) {\n\t\tif len(parts) != 3 { bad.Add(1) }\n\t\tfor _, p := range parts { if p != strconv.Itoa(id) { bad.Add(1) } }\n\t}).Return(0, nil)\n", mn, matchers)
			}
		}
		t.WriteString("\tvar wg sync.WaitGroup\n\tstart := make(chan struct{})\n\tfor _, ops := range threads {\n\t\twg.Add(1)\n\t\tgo func(ops []cop) {\n\t\t\tdefer wg.Done()\n\t\t\t<-start\n\t\t\tfor _, o := range ops {\n\t\t\t\tswitch o.m {\n")
		for i, mn := range in.Methods {
			if in.Variadic && in.Shared {
				fmt.Fprintf(&t, "\t\t\t\tcase %d:\n\t\t\t\t\ts := strconv.Itoa(o.x)\n\t\t\t\t\tr, err := m.%s(o.x, s, s, s)\n\t\t\t\t\tif r != 0 || err != nil { bad.Add(1) }\n", i, mn)
				continue
			}
			if in.Variadic {
				// three variadic arguments per call; Run (even ids) / RunAndReturn (odd ids) see them again
				matchers := "mock.Anything"
				if in.Unroll == "true" {
					matchers = "mock.Anything, mock.Anything, mock.Anything"
				}
				fmt.Fprintf(&t, "\t\t\t\tcase %d:\n\t\t\t\t\ts := strconv.Itoa(o.x)\n\t\t\t\t\tif o.x%%2 == 0 {\n\t\t\t\t\t\tm.EXPECT().%s(o.x, %s).Run(func(id int, parts ...string) {\n\t\t\t\t\t\t\tif len(parts) != 3 { bad.Add(1) }\n\t\t\t\t\t\t\tfor _, p := range parts { if p != strconv.Itoa(id) { bad.Add(1) } }\n\t\t\t\t\t\t}).Return(o.x, nil).Once()\n\t\t\t\t\t} else {\n\t\t\t\t\t\tm.EXPECT().%s(o.x, %s).RunAndReturn(func(id int, parts ...string) (int, error) {\n\t\t\t\t\t\t\tif len(parts) != 3 { bad.Add(1) }\n\t\t\t\t\t\t\tfor _, p := range parts { if p != strconv.Itoa(id) { bad.Add(1) } }\n\t\t\t\t\t\t\treturn id, nil\n\t\t\t\t\t\t}).Once()\n\t\t\t\t\t}\n\t\t\t\t\tr, err := m.%s(o.x, s, s, s)\n\t\t\t\t\tif r != o.x || err != nil { bad.Add(1) }\n", i, mn, matchers, mn, matchers, mn)
				continue
			}
			fmt.Fprintf(&t, "\t\t\t\tcase %d:\n\t\t\t\t\tif o.x%%2 == 0 {\n\t\t\t\t\t\tm.EXPECT().%s(o.x, strconv.Itoa(o.x)).Return(o.x, nil).Once()\n\t\t\t\t\t} else {\n\t\t\t\t\t\tm.EXPECT().%s(o.x, mock.Anything).RunAndReturn(func(id int, tag string) (int, error) {\n\t\t\t\t\t\t\tif strconv.Itoa(id) != tag { bad.Add(1) }\n\t\t\t\t\t\t\treturn id, nil\n\t\t\t\t\t\t}).Once()\n\t\t\t\t\t}\n\t\t\t\t\tr, err := m.%s(o.x, strconv.Itoa(o.x))\n\t\t\t\t\tif r != o.x || err != nil { bad.Add(1) }\n", i, mn, mn, mn)
		}
		t.WriteString("\t\t\t\t}\n\t\t\t}\n\t\t}(ops)\n\t}\n\tclose(start)\n\twg.Wait()\n")
		fmt.Fprintf(&t, "\tcounts := make([]int, %d)\n", len(in.Methods))
		for i, mn := range in.Methods {
			fmt.Fprintf(&t, "\tfor _, c := range m.Calls { if c.Method == %q { counts[%d]++ } }\n", mn, i)
		}
		t.WriteString("\tfmt.Printf(\"RESULT {\\\"counts\\\":%s,\\\"bad\\\":%d}\\n\", js(counts), bad.Load())\n}\n\n")
		t.WriteString("func js(xs []int) string {\n\ts := \"[\"\n\tfor i, x := range xs {\n\t\tif i > 0 { s += \",\" }\n\t\ts += strconv.Itoa(x)\n\t}\n\treturn s + \"]\"\n}\n")
	}
	files["store/stress_test.go"] = t.String()
	if err := writeFiles(dir, files); err != nil {
		return Case{Oracle: fail("harness", "%v", err)}
	}
	tags := []string{"tmpl-" + in.Template, fmt.Sprintf("goroutines-%d", len(in.Threads))}
	if in.Buffer != "" {
		tags = append(tags, "reused-buffer-"+in.Buffer)
	}
	if in.Variadic {
		tags = append(tags, "variadic-unroll-"+in.Unroll)
		if in.Shared {
			tags = append(tags, "shared-expectation")
		}
	}
	if hasReset {
		tags = append(tags, "resets")
	}
	res := c.runMockery(dir, nil, nil)
	if res.Exit != 0 {
		return Case{Oracle: fail("mockery-failed", "%s", lastLines(res.Stderr, 3)), Tags: tags}
	}
	out, terr := runGo(dir, "test", "-v", "-race", "-count=1", "-run", "TestStress", "./store/")
	race := strings.Contains(out, "WARNING: DATA RACE") || strings.Contains(out, "race detected during execution")
	impl := map[string]any{"race": race}
	or := Oracle{OK: true}
	var result struct {
		Counts []int `json:"counts"`
		Sums   []int `json:"sums"`
		Bad    int   `json:"bad"`
	}
	if m := reRecorded.FindStringSubmatch(out); m != nil {
		json.Unmarshal([]byte(m[1]), &result)
	} else if !race {
		return Case{Impl: impl, Oracle: fail("stress-driver", "the stress test did not report: %s", lastLines(out, 8)), Tags: tags}
	}
	switch {
	case race:
		or = fail("data-race", "the race detector reports a data race on the generated mock: %s", raceSummary(out))
	case terr != nil:
		or = fail("stress-failed", "%s", lastLines(out, 6))
	case result.Bad != 0:
		or = fail("bad-record", "%d records (or snapshots) are duplicated or hold arguments of no single call", result.Bad)
	}
	if !hasReset {
		impl["counts"] = result.Counts
		if in.Template == "matryer" {
			impl["sums"] = result.Sums
		}
		for i := range total {
			if or.OK && (i >= len(result.Counts) || result.Counts[i] != total[i]) {
				or = fail("lost-or-duplicated", "method %s was called %d times, %v calls are recorded", in.Methods[i], total[i], result.Counts)
			}
			if or.OK && in.Template == "matryer" && result.Sums[i] != sums[i] {
				or = fail("lost-or-duplicated", "method %s: the recorded arguments are not those of the calls made", in.Methods[i])
			}
		}
	} else if or.OK {
		for i := range total {
			if result.Counts[i] > total[i] {
				or = fail("lost-or-duplicated", "method %s: more records (%d) than calls (%d)", in.Methods[i], result.Counts[i], total[i])
			}
		}
	}
	impl["bad"] = result.Bad
	return Case{Impl: impl, Oracle: or, Nontrivial: len(in.Threads) >= 2, Tags: tags}
}

func raceSummary(out string) string {
	i := strings.Index(out, "WARNING: DATA RACE")
	if i < 0 {
		return lastLines(out, 4)
	}
	ls := strings.Split(out[i:], "\n")
	keep := []string{}
	for _, l := range ls {
		l = strings.TrimSpace(l)
		if strings.HasPrefix(l, "Write at") || strings.HasPrefix(l, "Previous") || strings.HasPrefix(l, "Read at") || strings.Contains(l, "mocks_test.go") {
			keep = append(keep, l)
		}
		if len(keep) >= 6 {
			break
		}
	}
	return strings.Join(keep, " / ")
}
