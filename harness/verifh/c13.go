//go:build verif

package main

import (
	"fmt"
	"math/rand"
	"os"
	"path/filepath"
	"regexp"
	"strings"
)

// C13: replace-type. The scenario is a C14 scenario plus replace-type entries written
// at one configuration level; the model gets, per variable, the replacement it must
// carry. The oracle is differential: the same module rendered without the setting.

var c13Targets = []TyJ{
	{K: "named", Pkg: pkgAlpha, PkgName: "alpha", Name: "E"},
	{K: "named", Pkg: pkgAlpha, PkgName: "alpha", Name: "T"},
	{K: "named", Pkg: pkgHTTP2, PkgName: "http", Name: "Client"},
	{K: "named", Pkg: "time", PkgName: "time", Name: "Duration"},
	{K: "named", Pkg: pkgAlpha, PkgName: "alpha", Name: "A", Alias: true},
}

var c13Tick int

func c13Decorate(r *rand.Rand, in *DataInput) {
	in.ReplaceLevel = pick(r, []string{"root", "package", "interface", "entry", "parent"})
	// make sure replaceable top-level named types occur: force some parameters / results
	srcs := []TyJ{
		{K: "named", Pkg: pkgHTTP1, PkgName: "http", Name: "Request"},
		{K: "named", Pkg: pkgAlpha, PkgName: "alpha", Name: "S", UnderNillable: true, UnderSlice: true},
		{K: "named", Pkg: "io", PkgName: "io", Name: "Reader", UnderNillable: true},
		{K: "named", Pkg: pkgAlpha, PkgName: "alpha", Name: "AI", Alias: true, UnderNillable: true},
	}
	nrep := 1 + r.Intn(2)
	chosen := map[string]bool{}
	for k := 0; k < nrep; k++ {
		s := pick(r, srcs)
		if chosen[s.Pkg+"."+s.Name] {
			continue
		}
		chosen[s.Pkg+"."+s.Name] = true
		t := pick(r, c13Targets)
		if t.Pkg == s.Pkg && t.Name == s.Name {
			continue
		}
		c13Tick++
		if in.Placement == "inpkg" && c13Tick%2 == 0 {
			// the mock lives in the source package: an unexported type of that package that nothing exported mentions
			// is a legal replacement
			t = TyJ{K: "named", Pkg: pkgSrc, PkgName: "src", Name: "hiddenRepl"}
		}
		in.Replace = append(in.Replace, ReplaceJ{FromPkg: s.Pkg, FromName: s.Name, To: t})
		// place the source type at top level somewhere (and sometimes nested, where it must NOT be replaced)
		for i := range in.Ifaces {
			for j := range in.Ifaces[i].Methods {
				m := &in.Ifaces[i].Methods[j]
				if m.From != "" {
					continue
				}
				if r.Intn(2) == 0 {
					name := fmt.Sprintf("rp%d", k)
					if r.Intn(3) == 0 {
						// the parameter is called like the package of its replacement: the qualifier must stay usable
						taken := false
						for _, p := range append(append([]VarJ{}, m.Params...), m.Results...) {
							if p.Name == t.PkgName {
								taken = true
							}
						}
						if !taken {
							name = t.PkgName
						}
					}
					m.Params = append([]VarJ{{Name: name, Type: s}}, m.Params...)
				}
				if r.Intn(3) == 0 {
					if r.Intn(2) == 0 {
						m.Results = append(m.Results, VarJ{Name: resultName(m), Type: s})
					} else {
						// a replaced result followed by results of unnamed types
						m.Results = append([]VarJ{{Name: resultName(m), Type: s}}, m.Results...)
						if r.Intn(2) == 0 {
							m.Results = append(m.Results, VarJ{Name: resultName(m), Type: pick(r, []TyJ{basicT("bool"), {K: "slice", Elem: &TyJ{K: "basic", Name: "byte"}}, basicT("int")})})
						}
					}
				}
				if r.Intn(4) == 0 {
					ss := s
					m.Params = append([]VarJ{{Name: fmt.Sprintf("np%d", k), Type: TyJ{K: "slice", Elem: &ss}}}, m.Params...)
				}
			}
		}
	}
	// a replace-type entry for a package-level type of the source package that has the *name of a type parameter*
	// of a generic interface: parameters of the type parameter's type are not of that named type and stay
	for i := range in.Ifaces {
		it := &in.Ifaces[i]
		if len(it.TypeParams) == 0 || r.Intn(2) == 0 {
			continue
		}
		tp := it.TypeParams[0].Name
		in.Replace = append(in.Replace, ReplaceJ{FromPkg: pkgSrc, FromName: tp, To: c13Targets[0]})
		for j := range it.Methods {
			m := &it.Methods[j]
			if m.From == "" && !m.Variadic {
				m.Params = append(m.Params, VarJ{Name: fmt.Sprintf("tpv%d", j), Type: TyJ{K: "typeparam", Name: tp}})
			}
		}
		break
	}
	// a type that only an unrelated (recursive, with a listed sub-package) package replaces: it occurs in these
	// signatures and must stay as it is
	for _, s := range srcs {
		if chosen[s.Pkg+"."+s.Name] {
			continue
		}
		in.DecoyReplace = &ReplaceJ{FromPkg: s.Pkg, FromName: s.Name, To: c13Targets[0]}
		for i := range in.Ifaces {
			for j := range in.Ifaces[i].Methods {
				m := &in.Ifaces[i].Methods[j]
				if m.From == "" && r.Intn(2) == 0 {
					m.Params = append([]VarJ{{Name: "dp", Type: s}}, m.Params...)
				}
			}
		}
		break
	}
	// Go: parameters (and results) are all named or all unnamed
	for i := range in.Ifaces {
		for j := range in.Ifaces[i].Methods {
			m := &in.Ifaces[i].Methods[j]
			for _, l := range []*[]VarJ{&m.Params, &m.Results} {
				named := false
				for _, v := range *l {
					if v.Name != "" {
						named = true
					}
				}
				if named {
					for k := range *l {
						if (*l)[k].Name == "" {
							(*l)[k].Name = "_"
						}
					}
				}
			}
		}
	}
	// mark the variables the setting applies to
	for i := range in.Ifaces {
		for j := range in.Ifaces[i].Methods {
			m := &in.Ifaces[i].Methods[j]
			for _, l := range []*[]VarJ{&m.Params, &m.Results} {
				for v := range *l {
					t := (*l)[v].Type
					if t.K != "named" || len(t.Targs) > 0 {
						continue
					}
					for _, rp := range in.Replace {
						if rp.FromPkg == t.Pkg && rp.FromName == t.Name {
							to := rp.To
							(*l)[v].Replacement = &to
						}
					}
				}
			}
		}
	}
}

func resultName(m *MethodJ) string {
	// results are all named or all unnamed
	for _, r := range m.Results {
		if r.Name != "" {
			return fmt.Sprintf("rr%d", len(m.Results))
		}
	}
	return ""
}

var reQual = regexp.MustCompile(`\b([A-Za-z_][A-Za-z0-9_]*)\.([A-Z][A-Za-z0-9_]*)`)

// normalise: qualifiers resolved to import paths using the run's own import table
func c13Norm(s string, imports []any) string {
	q2p := map[string]string{}
	for _, i := range imports {
		if a, ok := i.([]any); ok && len(a) >= 2 {
			q2p[a[1].(string)] = a[0].(string)
		}
	}
	return reQual.ReplaceAllStringFunc(s, func(m string) string {
		parts := strings.SplitN(m, ".", 2)
		if p, ok := q2p[parts[0]]; ok {
			return "<" + p + ">." + parts[1]
		}
		return m
	})
}

var c13Baseline func(in *DataInput) (map[string]any, error)

func c13Oracle(in *DataInput, impl map[string]any) Oracle {
	if c13Baseline == nil {
		return Oracle{OK: true}
	}
	base, err := c13Baseline(in)
	if err != nil {
		return fail("harness", "baseline run failed: %v", err)
	}
	imps, _ := impl["imports"].([]any)
	bimps, _ := base["imports"].([]any)
	ifs, _ := impl["ifaces"].([]any)
	bifs, _ := base["ifaces"].([]any)
	if len(ifs) != len(bifs) {
		return fail("noninterference", "%d interfaces with replace-type, %d without", len(ifs), len(bifs))
	}
	paths := map[string]bool{}
	for _, i := range imps {
		paths[i.([]any)[0].(string)] = true
	}
	stillUsed := map[string]bool{}
	for i, it := range in.Ifaces {
		ms, _ := ifs[i].(map[string]any)["methods"].([]any)
		bms, _ := bifs[i].(map[string]any)["methods"].([]any)
		if len(ms) != len(bms) || len(ms) != len(it.Methods) {
			return fail("noninterference", "interface %s: method count differs with replace-type", it.Name)
		}
		for j, m := range it.Methods {
			for _, kind := range []string{"params", "results"} {
				vs, _ := ms[j].(map[string]any)[kind].([]any)
				bvs, _ := bms[j].(map[string]any)[kind].([]any)
				src := m.Params
				if kind == "results" {
					src = m.Results
				}
				if len(vs) != len(src) || len(bvs) != len(src) {
					return fail("noninterference", "%s.%s: %s count differs", it.Name, m.Name, kind)
				}
				for k, v := range src {
					got := c13Norm(vs[k].(map[string]any)["typeString"].(string), imps)
					was := c13Norm(bvs[k].(map[string]any)["typeString"].(string), bimps)
					if v.Replacement != nil {
						want := "<" + v.Replacement.Pkg + ">." + v.Replacement.Name
						local := in.Placement == "inpkg" && v.Replacement.Pkg == pkgSrc
						if local {
							// a type of the package the mock is written into: no qualifier, no import
							want = v.Replacement.Name
						}
						if got != want {
							return fail("not-replaced", "%s.%s %s %d: type %s, replace-type (written at %s level) asks for %s", it.Name, m.Name, kind, k, got, in.ReplaceLevel, want)
						}
						if !local && !paths[v.Replacement.Pkg] {
							return fail("import-missing", "%s.%s: the replacement's package %s is not among the imports", it.Name, m.Name, v.Replacement.Pkg)
						}
					} else {
						if got != was {
							return fail("noninterference", "%s.%s %s %d: %s without the setting, %s with it (not a configured type)", it.Name, m.Name, kind, k, was, got)
						}
						u := map[string]string{}
						pkgsIn(v.Type, u)
						for p := range u {
							stillUsed[p] = true
						}
					}
				}
			}
		}
		for _, tp := range it.TypeParams {
			u := map[string]string{}
			pkgsIn(tp.Constraint, u)
			for p := range u {
				stillUsed[p] = true
			}
		}
	}
	for _, rp := range in.Replace {
		applied := false
		for _, it := range in.Ifaces {
			for _, m := range it.Methods {
				for _, v := range append(append([]VarJ{}, m.Params...), m.Results...) {
					if v.Replacement != nil && v.Type.Pkg == rp.FromPkg && v.Type.Name == rp.FromName {
						applied = true
					}
				}
			}
		}
		isTarget := false
		for _, r2 := range in.Replace {
			if r2.To.Pkg == rp.FromPkg {
				isTarget = true
			}
		}
		if applied && !stillUsed[rp.FromPkg] && !isTarget && paths[rp.FromPkg] && !(rp.FromPkg == pkgSrc) {
			return fail("stale-import", "package %s is still imported although every use of it was replaced", rp.FromPkg)
		}
	}
	return Oracle{OK: true}
}

func init() {
	_ = os.Remove
	_ = filepath.Join
}
