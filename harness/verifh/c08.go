//go:build verif

package main

import (
	"context"
	"encoding/json"
	"fmt"
	"os"
	"reflect"
	"sort"
	"strings"

	"github.com/rs/zerolog"
)

// C08: hierarchical resolution. Real loader (config.NewRootConfig → Initialize,
// GetInterfaceConfig) on generated trees vs. the Lean model; the oracle is an
// independent implementation of the documented rule (most specific level wins).

type c08 struct{}

func init() { register("C08", c08{}) }

func (c08) Generate(c *Ctx) []any {
	n := c.Budget(400, 6000)
	var out []any
	for i := 0; i < n; i++ {
		g := &treeGen{r: c.Rng, pSet: []float64{0.15, 0.35, 0.6}[i%3]}
		t := g.tree()
		if i%8 == 7 {
			t = g.recTree()
		}
		// sources: environment and flags for some cases
		if i%4 == 1 {
			for _, k := range []string{"dir", "formatter", "all", "force-file-write", "structname", "template", "log-level"} {
				if c.Rng.Intn(3) == 0 {
					name := "MOCKERY_" + strings.ToUpper(strings.ReplaceAll(k, "-", "_"))
					var v string
					switch k {
					case "all", "force-file-write":
						v = pick(c.Rng, []string{"true", "false", "TRUE", "False"})
						if c.Rng.Intn(12) == 0 {
							v = "yes" // not a boolean: strict decode must reject it
						}
					default:
						v = g.marker(k, "env")
						if c.Rng.Intn(15) == 0 {
							v = "true" // becomes a bool: does not fit a string field
						}
					}
					t.Env = append(t.Env, [2]string{name, v})
				}
			}
		}
		// the harness always passes --config <file>; the value is normalised to <CFG>
		t.Flags = CfgMap{"config": "<CFG>"}
		if i%5 == 2 {
			t.Flags["log-level"] = g.marker("log-level", "flag")
		}
		out = append(out, t)
	}
	// consumer level: settings of one output file must not reach the output files of sibling packages that
	// share its template (full CLI runs; the pipeline harness judges them)
	for i := 0; i < c.Budget(12, 48); i++ {
		pin := genPipeFault(c.Rng, "C08", i, []string{"mixed-require-open", "mixed-require-strict", "per-iface-pkgname", "iface-data-file-level"}[i%4])
		out = append(out, pin)
	}
	return out
}

var c08Defaults = map[string]any{
	"all": false, "dir": "{{.InterfaceDir}}", "filename": "mocks_test.go", "force-file-write": false,
	"formatter": "goimports", "log-level": "info", "structname": "{{.Mock}}{{.InterfaceName}}",
	"pkgname": "{{.SrcPackageName}}", "recursive": false, "require-template-schema-exists": true,
	"template": "testify", "template-schema": "{{.Template}}.schema.json",
	"build-tags": "", "config": "", "exclude-interface-regex": "", "include-interface-regex": "",
}

var c08WholeKeys = []string{"all", "build-tags", "config", "dir", "exclude-subpkg-regex", "exclude-interface-regex", "filename",
	"force-file-write", "formatter", "include-interface-regex", "log-level", "structname", "pkgname", "recursive",
	"replace-type", "require-template-schema-exists", "template", "template-schema"}

// refDeep: most specific first; maps merged key-wise, anything else: first wins
func refDeep(levels []any) any {
	var maps []map[string]any
	for _, l := range levels {
		if l == nil {
			continue
		}
		m, ok := l.(map[string]any)
		if !ok {
			if len(maps) == 0 {
				return l
			}
			break
		}
		maps = append(maps, m)
	}
	out := map[string]any{}
	keys := map[string]bool{}
	for _, m := range maps {
		for k := range m {
			keys[k] = true
		}
	}
	for k := range keys {
		var vs []any
		for _, m := range maps {
			if v, ok := m[k]; ok {
				vs = append(vs, v)
			}
		}
		// a non-map value at a more specific level shadows everything below it
		first := vs[0]
		if _, ok := first.(map[string]any); !ok {
			out[k] = first
			continue
		}
		var chain []any
		for _, v := range vs {
			if _, ok := v.(map[string]any); !ok {
				break
			}
			chain = append(chain, v)
		}
		out[k] = refDeep(chain)
	}
	return out
}

func jsonEq(a, b any) bool {
	x, _ := json.Marshal(a)
	y, _ := json.Marshal(b)
	return string(x) == string(y)
}

func isEmptyish(v any) bool {
	switch t := v.(type) {
	case nil:
		return true
	case []string:
		return len(t) == 0
	case []any:
		return len(t) == 0
	case map[string]any:
		return len(t) == 0
	}
	return false
}

// refResolve checks one effective config against the documented rule.
func c08Check(where string, got map[string]any, chain []CfgMap, rootEff map[string]any) string {
	for _, k := range c08WholeKeys {
		var want any
		found := false
		for _, lvl := range chain {
			if lvl == nil {
				continue
			}
			if v, ok := lvl[k]; ok {
				want, found = v, true
				break
			}
		}
		if !found {
			want = rootEff[k]
		}
		g := got[k]
		if isEmptyish(want) && isEmptyish(g) {
			continue
		}
		if !jsonEq(want, g) {
			wb, _ := json.Marshal(want)
			gb, _ := json.Marshal(g)
			return fmt.Sprintf("%s: parameter %q resolves to %s, the most specific level that sets it says %s", where, k, gb, wb)
		}
	}
	var tds []any
	for _, lvl := range chain {
		if lvl != nil {
			if v, ok := lvl["template-data"]; ok {
				tds = append(tds, v)
			}
		}
	}
	tds = append(tds, rootEff["template-data"])
	want := refDeep(tds)
	if want == nil {
		want = map[string]any{}
	}
	if !jsonEq(want, got["template-data"]) {
		wb, _ := json.Marshal(want)
		gb, _ := json.Marshal(got["template-data"])
		return fmt.Sprintf("%s: template-data resolves to %s, key-wise precedence gives %s", where, gb, wb)
	}
	return ""
}

func (c08) Run(c *Ctx, raw json.RawMessage) Case {
	// consumer-level scenarios (which level RootApp.Run reads) are full CLI runs
	var probe struct {
		Focus string `json:"focus"`
	}
	if json.Unmarshal(raw, &probe) == nil && probe.Focus != "" {
		return pipeline{"C08"}.Run(c, raw)
	}
	var t TreeIn
	if err := json.Unmarshal(raw, &t); err != nil {
		return Case{Oracle: fail("bad-input", "%v", err)}
	}
	dir, err := os.MkdirTemp(c.Work, "c08-")
	if err != nil {
		return Case{Oracle: fail("harness", "%v", err)}
	}
	defer os.RemoveAll(dir)
	rc, cfgPath, lerr, panicked := loadTree(&t, dir)
	tags := []string{}
	if panicked != "" {
		return Case{Impl: map[string]any{"panic": panicked}, Oracle: fail("panic", "loader panicked: %s", panicked), Tags: []string{"panic"}}
	}

	// reference: effective top level from the sources
	rootEff := map[string]any{}
	for k, v := range c08Defaults {
		rootEff[k] = v
	}
	rootEff["template-data"] = map[string]any{}
	expectErr := false
	boolKeys := map[string]bool{"all": true, "force-file-write": true, "recursive": true, "require-template-schema-exists": true}
	for _, kv := range t.Env {
		k := strings.ReplaceAll(strings.ToLower(strings.TrimPrefix(kv[0], "MOCKERY_")), "_", "-")
		lv := strings.ToLower(kv[1])
		if lv == "true" || lv == "false" {
			rootEff[k] = lv == "true"
		} else {
			rootEff[k] = kv[1]
		}
		tags = append(tags, "env")
	}
	for k, v := range t.Root {
		if k == "template-data" {
			rootEff[k] = refDeep([]any{v, rootEff[k]})
		} else {
			rootEff[k] = v
		}
	}
	rootEff["config"] = "<CFG>"
	if t.Flags != nil {
		if v, ok := t.Flags["log-level"]; ok {
			rootEff["log-level"] = v
			tags = append(tags, "flag")
		}
	}
	// strict decode: what finally reaches a field must have the field's type
	for k, v := range rootEff {
		_, isBool := v.(bool)
		_, isStr := v.(string)
		if (boolKeys[k] && !isBool) || (!boolKeys[k] && isBool) || (boolKeys[k] && isStr) {
			expectErr = true
		}
	}

	if lerr != nil {
		impl := map[string]any{"error": "decode"}
		if !expectErr {
			return Case{Impl: impl, Oracle: fail("unexpected-error", "valid configuration rejected: %v", lerr), Tags: tags}
		}
		return Case{Impl: impl, Oracle: Oracle{OK: true}, Nontrivial: true, Tags: append(tags, "decode-error")}
	}
	if expectErr {
		return Case{Impl: map[string]any{"accepted": true}, Oracle: fail("accepted-ill-typed", "an environment value of the wrong type was accepted"), Tags: tags}
	}

	or := Oracle{OK: true}
	note := func(msg string) {
		if msg != "" && or.OK {
			or = fail("resolution", "%s", msg)
		}
	}
	ctx := zerolog.Nop().WithContext(context.Background())
	pkgsOut := map[string]any{}
	multi := false
	note(c08Check("top level", cfgJSON(&rc.Config, cfgPath), nil, rootEff))
	// recursive roots of the tree (explicitly configured with recursive: true)
	underRecursive := func(path string) (string, bool) {
		best := ""
		for _, q := range t.Packages {
			if v, ok := q.Config["recursive"].(bool); ok && v && q.Path != path && strings.HasPrefix(path, q.Path+"/") && len(q.Path) > len(best) {
				best = q.Path
			}
		}
		return best, best != ""
	}
	listed := map[string]bool{}
	for _, p := range t.Packages {
		listed[p.Path] = true
	}
	for _, p := range t.Packages {
		pc := rc.Packages[p.Path]
		if pc == nil {
			note(fmt.Sprintf("package %s missing after load", p.Path))
			continue
		}
		po := map[string]any{"config": cfgJSON(pc.Config, cfgPath)}
		_, relaxed := underRecursive(p.Path)
		if !relaxed {
			note(c08Check("package "+p.Path, cfgJSON(pc.Config, cfgPath), []CfgMap{p.Config}, rootEff))
		}
		// (an explicitly listed sub-package of a recursive package additionally inherits, for whatever it and the
		// top level leave unset, from the recursive package: not judged by the oracle, compared with the model only)
		io := map[string]any{}
		for _, i := range p.Interfaces {
			ic := pc.Interfaces[i.Name]
			if ic == nil {
				note(fmt.Sprintf("interface %s.%s missing after load", p.Path, i.Name))
				continue
			}
			io[i.Name] = ifaceJSON(ic, cfgPath)
			note(c08Check(p.Path+"."+i.Name+" config", cfgJSON(ic.Config, cfgPath), []CfgMap{i.Config, p.Config}, rootEff))
			if len(i.Configs) == 0 {
				if len(ic.Configs) != 1 {
					note(fmt.Sprintf("%s.%s: %d config entries for an interface without configs", p.Path, i.Name, len(ic.Configs)))
				} else {
					note(c08Check(p.Path+"."+i.Name+" (single entry)", cfgJSON(ic.Configs[0], cfgPath), []CfgMap{i.Config, p.Config}, rootEff))
				}
			} else if len(ic.Configs) != len(i.Configs) {
				note(fmt.Sprintf("%s.%s: %d config entries, %d configured", p.Path, i.Name, len(ic.Configs), len(i.Configs)))
			} else {
				for e := range i.Configs {
					note(c08Check(fmt.Sprintf("%s.%s configs[%d]", p.Path, i.Name, e), cfgJSON(ic.Configs[e], cfgPath), []CfgMap{i.Configs[e], i.Config, p.Config}, rootEff))
				}
			}
			for _, lvl := range []CfgMap{i.Config, p.Config} {
				for k := range lvl {
					if _, ok := t.Root[k]; ok {
						multi = true
					}
				}
			}
		}
		po["interfaces"] = io
		pkgsOut[p.Path] = po
		if p.Config != nil {
			for k := range p.Config {
				if _, ok := t.Root[k]; ok {
					multi = true
				}
			}
		}
	}
	qs := []any{}
	for _, q := range t.Query {
		pc := rc.Packages[q.Pkg]
		if pc == nil {
			qs = append(qs, nil)
			continue
		}
		ic := pc.GetInterfaceConfig(ctx, q.Iface)
		qs = append(qs, ifaceJSON(ic, cfgPath))
		var pcfg CfgMap
		for _, p := range t.Packages {
			if p.Path == q.Pkg {
				pcfg = p.Config
			}
		}
		if _, relaxed := underRecursive(q.Pkg); relaxed {
			continue
		}
		if len(ic.Configs) == 1 {
			note(c08Check(q.Pkg+"."+q.Iface+" (not listed)", cfgJSON(ic.Configs[0], cfgPath), []CfgMap{pcfg}, rootEff))
		} else {
			note(fmt.Sprintf("%s.%s: %d entries for an interface that is not listed", q.Pkg, q.Iface, len(ic.Configs)))
		}
	}
	// discovered sub-packages: as if configured with the settings of the recursive package
	if len(t.Dirs) > 0 {
		for path, pc := range rc.Packages {
			if listed[path] {
				continue
			}
			parent, ok := underRecursive(path)
			if !ok {
				note(fmt.Sprintf("package %s was added although no recursive package contains it", path))
				continue
			}
			var pcfg CfgMap
			for _, p := range t.Packages {
				if p.Path == parent {
					pcfg = p.Config
				}
			}
			pkgsOut[path] = map[string]any{"config": cfgJSON(pc.Config, cfgPath), "interfaces": map[string]any{}}
			if _, nested := underRecursive(parent); !nested {
				note(c08Check("discovered package "+path, cfgJSON(pc.Config, cfgPath), []CfgMap{pcfg}, rootEff))
			}
		}
		tags = append(tags, "recursive")
	}
	// nested recursion, the clear-cut part of the rule: a parameter (or template-data key) that exactly one package
	// of the chain "the package itself, its configured recursive ancestors" sets, that the top level does not set
	// and that no other ancestor sets, takes that value – whatever the order the ancestors are handled in
	// (trees without sub-package exclusions only: every recursive ancestor reaches every package below it)
	noExclusions := true
	if _, ok := t.Root["exclude-subpkg-regex"]; ok {
		noExclusions = false
	}
	for _, q := range t.Packages {
		if _, ok := q.Config["exclude-subpkg-regex"]; ok {
			noExclusions = false
		}
	}
	if noExclusions && len(t.Dirs) > 0 {
		isRec := func(q PkgIn) bool { v, ok := q.Config["recursive"].(bool); return ok && v }
		for _, path := range sortedKeys(rc.Packages) {
			pc := rc.Packages[path]
			got := cfgJSON(pc.Config, cfgPath)
			// the chain
			type setter struct {
				who string
				cfg CfgMap
				ok  bool // may be the unique setter (the package itself or an explicitly recursive ancestor)
			}
			var chain []setter
			for _, q := range t.Packages {
				if q.Path == path {
					chain = append(chain, setter{q.Path, q.Config, true})
				} else if strings.HasPrefix(path, q.Path+"/") {
					chain = append(chain, setter{q.Path, q.Config, isRec(q)})
				}
			}
			anyRec := false
			for _, st := range chain {
				if st.who != path && st.ok {
					anyRec = true
				}
			}
			if !anyRec {
				continue
			}
			check := func(what string, key string, lookup func(CfgMap) (any, bool), gotV any) {
				// the top level (defaults, environment, file, flags) must not have a value of its own
				if v, set := lookup(CfgMap(rootEff)); set && !isEmptyish(v) {
					return
				}
				if _, set := lookup(t.Root); set {
					return
				}
				var vals []any
				var who string
				eligible := true
				for _, st := range chain {
					if v, ok := lookup(st.cfg); ok {
						vals = append(vals, v)
						who = st.who
						if !st.ok {
							eligible = false
						}
					}
				}
				if len(vals) != 1 || !eligible || isEmptyish(vals[0]) {
					return
				}
				if !jsonEq(vals[0], gotV) {
					wb, _ := json.Marshal(vals[0])
					gb, _ := json.Marshal(gotV)
					note(fmt.Sprintf("package %s: %s %q is set only by %s (%s) among the package and its recursive ancestors, but resolves to %s", path, what, key, who, wb, gb))
				}
			}
			for _, k := range c08WholeKeys {
				if k == "recursive" || k == "exclude-subpkg-regex" {
					continue
				}
				k := k
				check("parameter", k, func(m CfgMap) (any, bool) {
					if m == nil {
						return nil, false
					}
					v, ok := m[k]
					return v, ok
				}, got[k])
			}
			tdKeys := map[string]bool{}
			for _, st := range chain {
				if td, ok := st.cfg["template-data"].(map[string]any); ok {
					for k := range td {
						tdKeys[k] = true
					}
				}
			}
			gotTD, _ := got["template-data"].(map[string]any)
			for _, k := range sortedKeys(tdKeys) {
				k := k
				check("template-data key", k, func(m CfgMap) (any, bool) {
					if m == nil {
						return nil, false
					}
					td, ok := m["template-data"].(map[string]any)
					if !ok {
						return nil, false
					}
					v, ok := td[k]
					return v, ok
				}, gotTD[k])
			}
		}
	}
	// leak check: resolving must not have changed the top level (aliasing between levels)
	note(c08Check("top level after resolution", cfgJSON(&rc.Config, cfgPath), nil, rootEff))

	impl := map[string]any{"root": cfgJSON(&rc.Config, cfgPath), "packages": pkgsOut, "queries": qs}
	if multi {
		tags = append(tags, "multi-level")
	}
	_ = reflect.TypeOf
	_ = sort.Strings
	return Case{Impl: impl, Oracle: or, Nontrivial: multi, Tags: tags}
}
