//go:build verif

package main

import (
	"fmt"
	"math/rand"
	"sort"
	"strconv"
	"strings"
)

// Go type trees shared by the data-model and code-generation harnesses
// (C01, C02, C13, C14): a JSON form for the Lean model and a printer to Go
// source for the scratch modules.

type TyJ struct {
	K             string   `json:"k"` // basic universe unsafe named typeparam pointer slice array map chan func struct iface union
	Name          string   `json:"name,omitempty"`
	Pkg           string   `json:"pkg,omitempty"`
	PkgName       string   `json:"pkgName,omitempty"`
	Alias         bool     `json:"alias,omitempty"` // named/universe: alias instead of defined
	Targs         []TyJ    `json:"targs,omitempty"`
	UnderNillable bool     `json:"underNillable,omitempty"`
	UnderSlice    bool     `json:"underSlice,omitempty"`
	Elem          *TyJ     `json:"elem,omitempty"`
	Key           *TyJ     `json:"key,omitempty"`
	Len           int      `json:"len,omitempty"`
	Dir           int      `json:"dir,omitempty"`
	Params        []FieldJ `json:"params,omitempty"`
	Results       []FieldJ `json:"results,omitempty"`
	Variadic      bool     `json:"variadic,omitempty"`
	Fields        []FieldJ `json:"fields,omitempty"`
	Methods       []FieldJ `json:"methods,omitempty"`
	Embeds        []TyJ    `json:"embeds,omitempty"`
	Terms         []TermJ  `json:"terms,omitempty"`
}

type FieldJ struct {
	Name     string `json:"name"`
	Type     TyJ    `json:"type"`
	Embedded bool   `json:"embedded,omitempty"`
	Tag      string `json:"tag,omitempty"`
}

type TermJ struct {
	Tilde bool `json:"tilde"`
	Type  TyJ  `json:"type"`
}

// catalogue of named types available to generated signatures
type namedDecl struct {
	Pkg, PkgName, Name string
	Alias              bool
	UnderNillable      bool
	UnderSlice         bool
	Arity              int  // number of type parameters
	IsInterface        bool // usable as a constraint / embedded interface
	Comparable         bool
	Decl               string // declaration in its package ("" for stdlib)
}

const (
	pkgSrc   = "example.com/m/src"
	pkgAlpha = "example.com/m/ext/alpha"
	pkgHTTP1 = "example.com/m/ext/v1/http"
	pkgHTTP2 = "example.com/m/other/http"
	pkgHTTP3 = "example.com/m/third/http"
	pkgMock  = "example.com/m/third/mock" // a user package with the name the testify template wants for testify's own
)

var catalogue = []namedDecl{
	{pkgAlpha, "alpha", "T", false, false, false, 0, false, true, "type T struct{ N int }"},
	{pkgAlpha, "alpha", "I", false, true, false, 0, true, true, "type I interface{ M() }"},
	{pkgAlpha, "alpha", "Val", false, true, false, 0, true, true, "type Val interface{}"},
	{pkgAlpha, "alpha", "S", false, true, true, 0, false, false, "type S []int"},
	{pkgAlpha, "alpha", "F", false, true, false, 0, false, false, "type F func(int) error"},
	{pkgAlpha, "alpha", "M", false, true, false, 0, false, false, "type M map[string]int"},
	{pkgAlpha, "alpha", "E", false, false, false, 0, false, true, "type E int"},
	{pkgAlpha, "alpha", "Ord", false, false, false, 0, false, true, "type Ord int\n\nfunc (o Ord) Less(other Ord) bool { return o < other }"},
	{pkgAlpha, "alpha", "G", false, false, false, 1, false, true, "type G[X any] struct{ V X }"},
	{pkgAlpha, "alpha", "GI", false, true, false, 1, true, true, "type GI[X any] interface{ Get() X }"},
	{pkgAlpha, "alpha", "A", true, false, false, 0, false, true, "type A = T"},
	{pkgAlpha, "alpha", "AI", true, true, false, 0, true, true, "type AI = I"},
	{pkgAlpha, "alpha", "Ch", false, true, false, 0, false, true, "type Ch chan int"},
	{pkgAlpha, "alpha", "Pair", false, false, false, 2, false, true, "type Pair[K comparable, V any] struct{ K K; V V }"},
	{pkgHTTP1, "http", "Request", false, false, false, 0, false, true, "type Request struct{ URL string }"},
	{pkgHTTP1, "http", "Handler", false, true, false, 0, true, true, "type Handler interface{ Serve(r Request) }"},
	{pkgHTTP2, "http", "Client", false, false, false, 0, false, true, "type Client struct{ Name string }"},
	{pkgHTTP3, "http", "Server", false, false, false, 0, false, true, "type Server struct{ Port int }"},
	{pkgMock, "mock", "Thing", false, false, false, 0, false, true, "type Thing struct{ N int }"},
	{"io", "io", "Reader", false, true, false, 0, true, true, ""},
	{"io", "io", "Writer", false, true, false, 0, true, true, ""},
	{"context", "context", "Context", false, true, false, 0, true, true, ""},
	{"net/http", "http", "Request", false, false, false, 0, false, false, ""},
	{"net/http", "http", "Handler", false, true, false, 0, true, true, ""},
	{"time", "time", "Duration", false, false, false, 0, false, true, ""},
	{"time", "time", "Time", false, false, false, 0, false, true, ""},
	{"os", "os", "File", false, false, false, 0, false, false, ""},
	{pkgSrc, "src", "Local", false, false, false, 0, false, true, "type Local struct{ X int }"},
	{pkgSrc, "src", "Byte", false, false, false, 0, false, true, "type Byte uint8"},
	{pkgSrc, "src", "Rune", false, false, false, 0, false, true, "type Rune int32"},
	{pkgSrc, "src", "LocalI", false, true, false, 0, true, true, "type LocalI interface{ L() }"},
	{pkgSrc, "src", "LocalS", false, true, true, 0, false, false, "type LocalS []string"},
	{pkgSrc, "src", "LocalG", false, false, false, 1, false, true, "type LocalG[X any] struct{ V X }"},
	{pkgSrc, "src", "LocalAlias", true, false, false, 0, false, true, "type LocalAlias = Local"},
	{pkgSrc, "src", "localUnexp", false, false, false, 0, false, true, "type localUnexp struct{ y int }"},
	// an unexported stand-in that no exported declaration mentions (only a replace-type entry names it)
	{pkgSrc, "src", "hiddenRepl", false, false, false, 0, false, true, "type hiddenRepl struct{ z int }\n\nvar _ hiddenRepl"},
	{pkgSrc, "src", "Ünit", false, false, false, 0, false, true, "type Ünit struct{ U int }"},
	{pkgAlpha, "alpha", "Élan", false, true, true, 0, false, false, "type Élan []string"},
	{pkgAlpha, "alpha", "Closer", false, true, false, 0, true, true, "type Closer interface{ Close2() error }"},
	{pkgAlpha, "alpha", "RC", false, true, false, 0, true, true, "type RC interface {\n\tI\n\tCloser\n\tFlush2()\n}"},
	{pkgAlpha, "alpha", "RG", false, true, false, 0, true, true, "type RG interface {\n\tGI[int]\n\tRGOnly()\n}"},
}

var basicNames = []string{"int", "string", "bool", "byte", "rune", "float64", "uint8", "uintptr", "complex128", "int64", "uint", "int32", "float32"}

type tyGen struct {
	r         *rand.Rand
	allowSrc  bool     // types of the source package may be used (not when "cannot be named from the destination")
	unexpOK   bool     // unexported source types allowed (in-package only)
	typeParam []string // type parameters in scope
	noUnsafe  bool
	// anonymous structs / interfaces with unexported members cannot be named from another package
	exportedOnly bool
}

func basicT(n string) TyJ { return TyJ{K: "basic", Name: n} }

func (g *tyGen) named(d namedDecl, depth int) TyJ {
	t := TyJ{K: "named", Pkg: d.Pkg, PkgName: d.PkgName, Name: d.Name, Alias: d.Alias, UnderNillable: d.UnderNillable, UnderSlice: d.UnderSlice}
	for i := 0; i < d.Arity; i++ {
		if d.Name == "Pair" && i == 0 {
			t.Targs = append(t.Targs, g.comparable(depth+1))
		} else {
			t.Targs = append(t.Targs, g.gen(depth+1))
		}
	}
	return t
}

func (g *tyGen) pickNamed(filter func(namedDecl) bool) namedDecl {
	var c []namedDecl
	for _, d := range catalogue {
		if d.Pkg == pkgSrc && !g.allowSrc {
			continue
		}
		if d.Name == "localUnexp" && !g.unexpOK {
			continue
		}
		if d.Name == "hiddenRepl" {
			continue
		}
		if filter == nil || filter(d) {
			c = append(c, d)
		}
	}
	return c[g.r.Intn(len(c))]
}

func (g *tyGen) comparable(depth int) TyJ {
	switch g.r.Intn(4) {
	case 0:
		return basicT(pick(g.r, []string{"int", "string", "bool", "int64", "byte"}))
	case 1:
		d := g.pickNamed(func(d namedDecl) bool { return d.Comparable && d.Arity == 0 })
		return g.named(d, depth)
	case 2:
		e := g.comparable(depth + 1)
		return TyJ{K: "pointer", Elem: &e}
	default:
		return basicT("string")
	}
}

func (g *tyGen) field(names []string, depth int) FieldJ {
	return FieldJ{Name: pick(g.r, names), Type: g.gen(depth)}
}

func (g *tyGen) sig(depth int) TyJ {
	t := TyJ{K: "func"}
	np := g.r.Intn(3)
	named := g.r.Intn(2) == 0
	for i := 0; i < np; i++ {
		f := FieldJ{Type: g.gen(depth + 1)}
		if named {
			f.Name = fmt.Sprintf("p%d", i)
		}
		t.Params = append(t.Params, f)
	}
	if np > 0 && g.r.Intn(4) == 0 {
		e := t.Params[np-1].Type
		t.Params[np-1].Type = TyJ{K: "slice", Elem: &e}
		t.Variadic = true
	}
	nr := g.r.Intn(3)
	rnamed := nr > 0 && g.r.Intn(4) == 0
	for i := 0; i < nr; i++ {
		f := FieldJ{Type: g.gen(depth + 1)}
		if rnamed {
			f.Name = fmt.Sprintf("r%d", i)
		}
		t.Results = append(t.Results, f)
	}
	return t
}

func (g *tyGen) gen(depth int) TyJ {
	if depth >= 3 {
		switch g.r.Intn(3) {
		case 0:
			return basicT(pick(g.r, basicNames))
		case 1:
			return g.named(g.pickNamed(func(d namedDecl) bool { return d.Arity == 0 }), depth)
		default:
			if len(g.typeParam) > 0 {
				return TyJ{K: "typeparam", Name: pick(g.r, g.typeParam)}
			}
			return TyJ{K: "universe", Name: "error"}
		}
	}
	_ = 0
	switch k := g.r.Intn(20); k {
	case 0, 1, 2:
		return basicT(pick(g.r, basicNames))
	case 3:
		return TyJ{K: "universe", Name: "error"}
	case 4, 5, 6, 7:
		return g.named(g.pickNamed(nil), depth)
	case 8:
		e := g.gen(depth + 1)
		return TyJ{K: "pointer", Elem: &e}
	case 9, 10:
		e := g.gen(depth + 1)
		return TyJ{K: "slice", Elem: &e}
	case 11:
		e := g.gen(depth + 1)
		return TyJ{K: "array", Len: 1 + g.r.Intn(4), Elem: &e}
	case 12:
		k := g.comparable(depth + 1)
		e := g.gen(depth + 1)
		return TyJ{K: "map", Key: &k, Elem: &e}
	case 13:
		e := g.gen(depth + 1)
		return TyJ{K: "chan", Dir: g.r.Intn(3), Elem: &e}
	case 14:
		return g.sig(depth)
	case 15:
		t := TyJ{K: "struct"}
		used := map[string]bool{}
		for i := g.r.Intn(3); i >= 0; i-- {
			fieldNames := []string{"A", "B", "c", "Name", "ID"}
			if g.exportedOnly {
				fieldNames = []string{"A", "B", "C", "Name", "ID"}
			}
			f := g.field(fieldNames, depth+1)
			if used[f.Name] {
				continue
			}
			used[f.Name] = true
			if g.r.Intn(3) == 0 {
				f.Tag = pick(g.r, []string{`json:"a"`, `json:"b,omitempty" yaml:"b"`, `x:"y z"`})
			}
			t.Fields = append(t.Fields, f)
		}
		if g.r.Intn(4) == 0 {
			// an embedded field: a named (non-generic, non-pointer) type not clashing with a field name
			d := g.pickNamed(func(d namedDecl) bool { return d.Arity == 0 && !d.Alias && !used[d.Name] })
			t.Fields = append(t.Fields, FieldJ{Name: d.Name, Type: g.named(d, depth+1), Embedded: true})
		}
		return t
	case 16:
		t := TyJ{K: "iface"}
		used := map[string]bool{}
		for i := g.r.Intn(3); i > 0; i-- {
			n := pick(g.r, []string{"Alpha", "Beta", "Close", "Do"})
			if used[n] {
				continue
			}
			used[n] = true
			t.Methods = append(t.Methods, FieldJ{Name: n, Type: g.sig(depth + 1)})
		}
		sort.Slice(t.Methods, func(i, j int) bool { return t.Methods[i].Name < t.Methods[j].Name })
		if g.r.Intn(4) == 0 {
			d := g.pickNamed(func(d namedDecl) bool { return d.IsInterface && d.Arity == 0 && d.Name != "Handler" })
			t.Embeds = append(t.Embeds, g.named(d, depth+1))
		}
		return t
	case 17:
		if len(g.typeParam) > 0 {
			return TyJ{K: "typeparam", Name: pick(g.r, g.typeParam)}
		}
		return basicT("int")
	case 18:
		if !g.noUnsafe {
			return TyJ{K: "unsafe"}
		}
		return basicT("string")
	default:
		return TyJ{K: "universe", Name: "any", Alias: true}
	}
}

// goSrc prints the type as Go source; q maps an import path to the qualifier used in that file ("" = local).
func goSrc(t TyJ, q func(path string) string) string {
	switch t.K {
	case "basic", "universe", "typeparam":
		return t.Name
	case "unsafe":
		return "unsafe.Pointer"
	case "named":
		s := t.Name
		if qq := q(t.Pkg); qq != "" {
			s = qq + "." + t.Name
		}
		if len(t.Targs) > 0 {
			as := []string{}
			for _, a := range t.Targs {
				as = append(as, goSrc(a, q))
			}
			s += "[" + strings.Join(as, ", ") + "]"
		}
		return s
	case "pointer":
		return "*" + goSrc(*t.Elem, q)
	case "slice":
		return "[]" + goSrc(*t.Elem, q)
	case "array":
		return "[" + strconv.Itoa(t.Len) + "]" + goSrc(*t.Elem, q)
	case "map":
		return "map[" + goSrc(*t.Key, q) + "]" + goSrc(*t.Elem, q)
	case "chan":
		p := []string{"chan ", "chan<- ", "<-chan "}[t.Dir]
		e := goSrc(*t.Elem, q)
		if t.Dir == 0 && t.Elem.K == "chan" && t.Elem.Dir == 2 {
			e = "(" + e + ")"
		}
		return p + e
	case "func":
		return "func" + goSig(t, q)
	case "struct":
		fs := []string{}
		for _, f := range t.Fields {
			s := ""
			if !f.Embedded {
				s = f.Name + " "
			}
			s += goSrc(f.Type, q)
			if f.Tag != "" {
				s += " " + strconv.Quote(f.Tag)
			}
			fs = append(fs, s)
		}
		return "struct{ " + strings.Join(fs, "; ") + " }"
	case "iface":
		ms := []string{}
		for _, m := range t.Methods {
			ms = append(ms, m.Name+goSig(m.Type, q))
		}
		for _, e := range t.Embeds {
			ms = append(ms, goSrc(e, q))
		}
		return "interface{ " + strings.Join(ms, "; ") + " }"
	case "union":
		ts := []string{}
		for _, tm := range t.Terms {
			s := goSrc(tm.Type, q)
			if tm.Tilde {
				s = "~" + s
			}
			ts = append(ts, s)
		}
		return strings.Join(ts, " | ")
	}
	return "?"
}

func goSig(t TyJ, q func(string) string) string {
	ps := []string{}
	for i, p := range t.Params {
		s := ""
		if p.Name != "" {
			s = p.Name + " "
		}
		if t.Variadic && i == len(t.Params)-1 {
			s += "..." + goSrc(*p.Type.Elem, q)
		} else {
			s += goSrc(p.Type, q)
		}
		ps = append(ps, s)
	}
	out := "(" + strings.Join(ps, ", ") + ")"
	switch {
	case len(t.Results) == 0:
	case len(t.Results) == 1 && t.Results[0].Name == "":
		out += " " + goSrc(t.Results[0].Type, q)
	default:
		rs := []string{}
		for _, r := range t.Results {
			s := ""
			if r.Name != "" {
				s = r.Name + " "
			}
			rs = append(rs, s+goSrc(r.Type, q))
		}
		out += " (" + strings.Join(rs, ", ") + ")"
	}
	return out
}

// pkgsIn lists the import paths a type mentions.
func pkgsIn(t TyJ, out map[string]string) {
	switch t.K {
	case "unsafe":
		out["unsafe"] = "unsafe"
	case "named":
		out[t.Pkg] = t.PkgName
	}
	for _, a := range t.Targs {
		pkgsIn(a, out)
	}
	if t.Elem != nil {
		pkgsIn(*t.Elem, out)
	}
	if t.Key != nil {
		pkgsIn(*t.Key, out)
	}
	for _, l := range [][]FieldJ{t.Params, t.Results, t.Fields, t.Methods} {
		for _, f := range l {
			pkgsIn(f.Type, out)
		}
	}
	for _, e := range t.Embeds {
		pkgsIn(e, out)
	}
	for _, tm := range t.Terms {
		pkgsIn(tm.Type, out)
	}
}

// supportFiles: the helper packages of the catalogue.
func supportFiles() map[string]string {
	byPkg := map[string][]string{}
	names := map[string]string{}
	for _, d := range catalogue {
		if d.Decl == "" || d.Pkg == pkgSrc {
			continue
		}
		byPkg[d.Pkg] = append(byPkg[d.Pkg], d.Decl)
		names[d.Pkg] = d.PkgName
	}
	out := map[string]string{}
	for p, decls := range byPkg {
		rel := strings.TrimPrefix(p, "example.com/m/")
		out[rel+"/decl.go"] = "package " + names[p] + "\n\n" + strings.Join(decls, "\n\n") + "\n"
	}
	return out
}
