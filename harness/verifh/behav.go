//go:build verif

package main

import (
	"fmt"
	"math/rand"
	"os"
	"path/filepath"
	"regexp"
	"strings"
)

// Shared by C03 and C04 (H-behav): signatures over a table of Go types with named values
// (zero, nil, empty and ordinary ones), and the emission of a Go driver that runs a
// sequence of operations against a freshly generated mock and prints what it observes as
// tokens "<type index>#<value index>". Both the harness oracle and the Lean model work on
// tokens only: the templates never look inside a value.

type BType struct {
	Go       string
	Vals     []string // Go expressions; Vals[0] is the zero value
	Nillable bool
	SliceOf  int // for slice types usable as a variadic parameter: index of the element type, else -1
	Elems    [][]int // for those: the element-table indexes of every value's elements
}

var bTypes = []BType{
	0:  {"int", []string{"0", "7", "-3"}, false, -1, nil},
	1:  {"string", []string{`""`, `"a"`, `"héllo"`}, false, -1, nil},
	2:  {"bool", []string{"false", "true"}, false, -1, nil},
	3:  {"[]byte", []string{"[]byte(nil)", `[]byte("yz")`, `[]byte("x")`}, true, -1, nil},
	4:  {"[]int", []string{"[]int(nil)", "[]int{}", "[]int{7, -3}", "[]int{0}"}, true, 0, [][]int{{}, {}, {1, 2}, {0}}},
	5:  {"map[string]int", []string{"map[string]int(nil)", "map[string]int{}", `map[string]int{"k": 1}`}, true, -1, nil},
	6:  {"*int", []string{"(*int)(nil)", "ptrA", "ptrB"}, true, -1, nil},
	7:  {"error", []string{"error(nil)", "errA", "errB"}, true, -1, nil},
	8:  {"any", []string{"any(nil)", "any(1)", `any("s")`, "any([]int{1})", "any((*int)(nil))", "any(errA)"}, true, -1, nil},
	9:  {"struct{ A int; B string }", []string{"struct{ A int; B string }{}", `struct{ A int; B string }{1, "x"}`}, false, -1, nil},
	10: {"func() int", []string{"(func() int)(nil)", "fnA"}, true, -1, nil},
	11: {"chan int", []string{"(chan int)(nil)", "chA"}, true, -1, nil},
	12: {"[]string", []string{"[]string(nil)", "[]string{}", `[]string{"a"}`, `[]string{"", "héllo", "a"}`}, true, 1, [][]int{{}, {}, {1}, {0, 2, 1}}},
	13: {"[]any", []string{"[]any(nil)", "[]any{}", `[]any{1, nil, "s"}`, "[]any{nil}", "[]any{nil, errA, nil}"}, true, 8, [][]int{{}, {}, {1, 0, 2}, {0}, {0, 5, 0}}},
	14: {"[]error", []string{"[]error(nil)", "[]error{}", "[]error{nil, errA}", "[]error{errB}"}, true, 7, [][]int{{}, {}, {0, 1}, {2}}},
	15: {"Named", []string{"Named(0)", "Named(5)"}, false, -1, nil},
	16: {"Iface", []string{"Iface(nil)", "Iface(implA{})", "Iface((*implB)(nil))"}, true, -1, nil},
}

var bVariadicSlices = []int{4, 12, 13, 14}

type BMethod struct {
	Name     string `json:"name"`
	Params   []int  `json:"params"`   // type indexes of the ordinary parameters
	Variadic int    `json:"variadic"` // slice type index of the variadic parameter, or -1
	Results  []int  `json:"results"`
	// where this method's parameter names start in the pool of ordinary names
	Salt int `json:"salt"`
}

// ordinary parameter names a user might write: none of them is declared by a template of the unchanged tree, by
// the drivers or by Go itself; a template that starts to declare one of them in the scope of the parameters captures it
var bParamNames = []string{"fn", "f", "v", "val", "key", "cb", "handler", "in", "out", "x", "n", "s", "p", "item", "opts", "data", "buf", "dst", "src", "w", "q", "k", "lock", "info", "call", "res", "result", "e", "fnc", "a0", "a1"}

func (m BMethod) paramName(i int) string { return bParamNames[(m.Salt+i)%len(bParamNames)] }

// every generated method starts one name further in the pool: each name is some method's first, second and third
// parameter within a few cases, whatever the seed
var bSalt int

// all parameter type indexes in order (the variadic one as its slice type)
func (m BMethod) allParams() []int {
	ps := append([]int{}, m.Params...)
	if m.Variadic >= 0 {
		ps = append(ps, m.Variadic)
	}
	return ps
}

func (m BMethod) signature() string {
	var ps []string
	for i, t := range m.Params {
		ps = append(ps, fmt.Sprintf("%s %s", m.paramName(i), bTypes[t].Go))
	}
	if m.Variadic >= 0 {
		ps = append(ps, fmt.Sprintf("rest ...%s", bTypes[bTypes[m.Variadic].SliceOf].Go))
	}
	var rs []string
	for _, t := range m.Results {
		rs = append(rs, bTypes[t].Go)
	}
	r := ""
	switch len(rs) {
	case 0:
	case 1:
		r = " " + rs[0]
	default:
		r = " (" + strings.Join(rs, ", ") + ")"
	}
	return fmt.Sprintf("%s(%s)%s", m.Name, strings.Join(ps, ", "), r)
}

var bMethodNames = []string{"Put", "Get", "Del", "Scan", "Notify"}

// names that are also methods of testify's mock.Mock (promoted into the mock through the embedded field) or of
// its Call type; the generated code must keep working when the interface declares them itself
var bAwkwardNames = []string{"Test", "On", "TestData", "String", "Run", "Return", "Once", "Maybe"}

// bNamesFor: the method names of one scenario – every third scenario takes one name from the awkward pool
func bNamesFor(r *rand.Rand, i int) []string {
	names := append([]string{}, bMethodNames...)
	if i%3 == 1 {
		names[r.Intn(3)] = bAwkwardNames[(i/3)%len(bAwkwardNames)] // every name of the pool in every run
	}
	return names
}

func genBMethod(r *rand.Rand, name string) BMethod {
	m := BMethod{Name: name, Variadic: -1, Params: []int{}, Results: []int{}, Salt: bSalt}
	bSalt++
	np := r.Intn(4)
	for i := 0; i < np; i++ {
		m.Params = append(m.Params, r.Intn(len(bTypes)))
	}
	if r.Intn(3) == 0 {
		m.Variadic = pick(r, bVariadicSlices)
	}
	nr := r.Intn(4)
	for i := 0; i < nr; i++ {
		if r.Intn(3) == 0 {
			m.Results = append(m.Results, 7) // error in any position
		} else {
			m.Results = append(m.Results, r.Intn(len(bTypes)))
		}
	}
	return m
}

func tokenOf(t, v int) string { return fmt.Sprintf("%d#%d", t, v) }

func genVals(r *rand.Rand, types []int) []int {
	vs := make([]int, len(types))
	for i, t := range types {
		vs[i] = r.Intn(len(bTypes[t].Vals))
	}
	return vs
}

// ---- Go source of the scratch module -------------------------------------------------------

// behavGeneric: the interface is declared `Store[T any]` and the driver instantiates it with Named; every
// occurrence of Named in the signatures is written T in the source
var reNamedWord = regexp.MustCompile(`\bNamed\b`)

func behavSourceG(methods []BMethod, generic bool) string {
	s := behavSource(methods)
	if !generic {
		return s
	}
	i := strings.Index(s, "type Store interface {")
	head, body := s[:i], s[i:]
	body = strings.Replace(body, "type Store interface {", "type Store[T any] interface {", 1)
	return head + reNamedWord.ReplaceAllString(body, "T")
}

func behavSource(methods []BMethod) string {
	var b strings.Builder
	b.WriteString("package store\n\nimport \"errors\"\n\ntype Named int\n\ntype Iface interface{ M() }\n\ntype implA struct{}\n\nfunc (implA) M() {}\n\ntype implB struct{ x int }\n\nfunc (*implB) M() {}\n\n")
	b.WriteString("var (\n\tiA, iB = 1, 2\n\tptrA, ptrB = &iA, &iB\n\terrA = errors.New(\"A\")\n\terrB = errors.New(\"B\")\n\tfnA = func() int { return 1 }\n\tchA = make(chan int)\n)\n\n")
	b.WriteString("type Store interface {\n")
	for _, m := range methods {
		b.WriteString("\t" + m.signature() + "\n")
	}
	b.WriteString("}\n")
	return b.String()
}

// the prelude of the generated driver: the value table and the token function
func behavPrelude(extraImports []string) string {
	var b strings.Builder
	b.WriteString("package store\n\nimport (\n\t\"fmt\"\n\t\"reflect\"\n\t\"strings\"\n\t\"testing\"\n")
	for _, i := range extraImports {
		fmt.Fprintf(&b, "\t%q\n", i)
	}
	b.WriteString(")\n\nvar _ = strings.Join\nvar _ testing.TB\n\nvar table = [][]any{\n")
	for _, t := range bTypes {
		b.WriteString("\t{")
		for i, v := range t.Vals {
			if i > 0 {
				b.WriteString(", ")
			}
			b.WriteString(v)
		}
		b.WriteString("},\n")
	}
	b.WriteString("}\n\n")
	b.WriteString(`func as[T any](v any) T {
	if v == nil {
		var z T
		return z
	}
	return v.(T)
}

func same(a, b any) bool {
	if a == nil || b == nil {
		return a == nil && b == nil
	}
	va, vb := reflect.ValueOf(a), reflect.ValueOf(b)
	if va.Type() != vb.Type() {
		return false
	}
	if va.Kind() == reflect.Func {
		return va.Pointer() == vb.Pointer()
	}
	return reflect.DeepEqual(a, b)
}

// tok names a value of the table's type ti; "?" if it is none of the table's values
func tok(ti int, v any) string {
	for i, e := range table[ti] {
		if same(v, e) {
			return fmt.Sprintf("%d#%d", ti, i)
		}
	}
	return fmt.Sprintf("%d#?(%#v)", ti, v)
}

var trace []string

func ev(parts ...string) { trace = append(trace, strings.Join(parts, " ")) }

func flush(t *testing.T, op int) {
	for _, l := range trace {
		fmt.Printf("EV %d %s\n", op, l)
	}
	trace = nil
}

func guarded(f func()) {
	defer func() {
		if r := recover(); r != nil {
			ev("panic", fmt.Sprint(r))
		}
	}()
	f()
}
`)
	return b.String()
}

// Go expression for a value of type t
func valExpr(t, v int) string {
	return fmt.Sprintf("as[%s](table[%d][%d])", bTypes[t].Go, t, v)
}

var reEV = regexp.MustCompile(`(?m)^EV (\d+) (.*)$`)

// parseTrace groups the EV lines of the driver's output per operation
func parseTrace(out string, nops int) [][]string {
	tr := make([][]string, nops)
	for i := range tr {
		tr[i] = []string{}
	}
	for _, m := range reEV.FindAllStringSubmatch(out, -1) {
		var k int
		fmt.Sscanf(m[1], "%d", &k)
		if k >= 0 && k < nops {
			tr[k] = append(tr[k], m[2])
		}
	}
	return tr
}

// behavModule writes the scratch module, runs mockery and the driver
func (c *Ctx) behavModule(dir string, methods []BMethod, cfg string, driver string) (string, error) {
	return c.behavModuleG(dir, methods, false, cfg, driver)
}

func (c *Ctx) behavModuleG(dir string, methods []BMethod, generic bool, cfg string, driver string) (string, error) {
	files := map[string]string{
		"go.mod":               goModText + "\nrequire github.com/stretchr/testify v1.10.0\n\nrequire (\n\tgithub.com/davecgh/go-spew v1.1.1 // indirect\n\tgithub.com/pmezard/go-difflib v1.0.0 // indirect\n\tgithub.com/stretchr/objx v0.5.2 // indirect\n\tgopkg.in/yaml.v3 v3.0.1 // indirect\n)\n",
		"store/store.go":       behavSourceG(methods, generic),
		"store/driver_test.go": driver,
		".mockery.yml":         cfg,
	}
	if b, err := os.ReadFile(filepath.Join(c.Src, "go.sum")); err == nil {
		files["go.sum"] = string(b)
	}
	if strings.Contains(cfg, "  example.com/m:\n") {
		files["root.go"] = "// Package m is the module's root package.\npackage m\n\ntype Unmocked struct{ N int }\n"
	}
	if strings.Contains(cfg, "      Alpha:\n") {
		// sibling interfaces of the package under test, declared in files that sort before and after store.go
		files["store/a_first.go"] = "package store\n\ntype Alpha interface {\n\tFirst(n int, rest ...string) (int, error)\n\tPing()\n}\n"
		files["store/z_last.go"] = "package store\n\ntype Zeta interface {\n\tLast(s string) error\n}\n"
	}
	if strings.Contains(cfg, "example.com/m/decoy:") {
		_, df := decoyPackages(nil)
		for k, v := range df {
			files[k] = v
		}
	}
	if err := writeFiles(dir, files); err != nil {
		return "", err
	}
	res := c.runMockery(dir, nil, nil)
	if res.Exit != 0 {
		return "", fmt.Errorf("mockery failed: %s %s", formatErrLine(res), lastLines(res.Stderr, 2))
	}
	out, err := runGo(dir, "test", "-count=1", "-v", "-timeout", "60s", "-run", "TestDriver", "./store/")
	if err != nil && !strings.Contains(out, "EV ") {
		return out, fmt.Errorf("driver failed: %s", lastLines(strings.ReplaceAll(out, dir, ""), 8))
	}
	return out, nil
}
